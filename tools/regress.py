#!/usr/bin/env python3
"""Re-run every kept seeded change (seeded/*/patch.diff) against the check of its property:
each must still be reported (exit 1).  Harmless refactorings (benign/*/patch.diff) against ALL
checks with --benign: none may report a failing input.

  tools/regress.py [--only C03] [--benign [--own]]      (--own: only the check of the patch's own property)
"""
import sys, os, json, subprocess, glob, re, time

ROOT = os.path.dirname(os.path.dirname(os.path.abspath(__file__)))


def sh(cmd, cwd=None, timeout=3600):
    p = subprocess.run(cmd, cwd=cwd, stdout=subprocess.PIPE, stderr=subprocess.STDOUT, text=True, timeout=timeout)
    return p.returncode, p.stdout


def main():
    only = None
    benign = "--benign" in sys.argv
    if "--only" in sys.argv:
        only = sys.argv[sys.argv.index("--only") + 1]
    rc, out = sh(["git", "-C", "/repo", "status", "--porcelain"])
    assert out.strip() == "", "/repo is dirty"
    base = "benign" if benign else "seeded"
    res = {}
    for d in sorted(glob.glob(os.path.join(ROOT, base, "*"))):
        name = os.path.basename(d)
        pid = name.split("-")[0]
        patch = os.path.join(d, "patch.diff")
        meta = os.path.join(d, "meta.json")
        if only and pid != only:
            continue
        if not os.path.exists(patch) or not os.path.exists(meta) or not json.load(open(meta)).get("confirmed"):
            continue
        rc, out = sh(["git", "-C", "/repo", "apply", "--check", patch])
        if rc != 0:
            res[name] = "patch-does-not-apply"
            print(name, res[name], flush=True)
            continue
        sh(["git", "-C", "/repo", "apply", patch])
        try:
            checks = [f"C{i:02d}" for i in range(1, 21)] if (benign and "--own" not in sys.argv) else [pid]
            outcome = []
            for c in checks:
                rc, out = sh([os.path.join(ROOT, "check"), c, "quick"], cwd=ROOT, timeout=7200)
                line = [l for l in out.split("\n") if l.startswith(("VIOLATION", "OK ", "INFRA"))]
                kind = "ok" if rc == 0 else ("no-failing-input" if any("no-failing-input-found" in l for l in line) else "failing-input" if rc == 1 else f"rc{rc}")
                outcome.append((c, kind))
            if benign:
                bad = [(c, k) for c, k in outcome if k != "ok"]
                res[name] = "quiet" if not bad else str(bad)
            else:
                res[name] = outcome[0][1]
        finally:
            sh(["git", "-C", "/repo", "checkout", "--", "."])
        print(name, res[name], flush=True)
    json.dump(res, open(os.path.join(ROOT, ".work", f"regress-{base}.json"), "w"), indent=1)
    if benign:
        print("alarms:", {k: v for k, v in res.items() if v != "quiet"})
    else:
        print("not detected:", [k for k, v in res.items() if v not in ("failing-input", "no-failing-input")])


if __name__ == "__main__":
    main()
