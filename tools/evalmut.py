#!/usr/bin/env python3
"""Confirm a seeded change produced by a sub-agent and run the checks against it.

  tools/evalmut.py <property id> [--tag T] [--checks C01,C02] [--tier quick]

1. copies <mut>/_mutation/{patch.diff,demo.py,notes.md} to /verif/seeded/<id>[-T]/
2. in a fresh scratch worktree of /repo (at the commit the patch was written against):
   demo passes without the patch; with the patch the test-suite still passes 350/350 and
   the demo fails
3. applies the patch to /repo, runs the listed checks, undoes the patch straight afterwards
4. writes meta.json
"""
import sys, os, json, subprocess, shutil, re, time

ROOT = os.path.dirname(os.path.dirname(os.path.abspath(__file__)))
PY = "/venv/bin/python"


def sh(cmd, cwd=None, timeout=3600, env=None):
    p = subprocess.run(cmd, cwd=cwd, shell=isinstance(cmd, str), stdout=subprocess.PIPE, stderr=subprocess.STDOUT, text=True, timeout=timeout, env=env)
    return p.returncode, p.stdout


def main():
    args = sys.argv[1:]
    pid = args[0]
    tag, checks, tier, src = "", None, "quick", None
    i = 1
    while i < len(args):
        if args[i] == "--tag":
            tag = args[i + 1]; i += 1
        elif args[i] == "--checks":
            checks = args[i + 1].split(","); i += 1
        elif args[i] == "--tier":
            tier = args[i + 1]; i += 1
        elif args[i] == "--src":
            src = args[i + 1]; i += 1
        i += 1
    mutwt = src or f"/tmp/mut/{pid}"
    name = pid + (f"-{tag}" if tag else "")
    dst = os.path.join(ROOT, "seeded", name)
    os.makedirs(dst, exist_ok=True)
    for f in ("patch.diff", "demo.py", "notes.md"):
        p = os.path.join(mutwt, "_mutation", f)
        if os.path.exists(p):
            shutil.copy(p, os.path.join(dst, f))
    patch = os.path.join(dst, "patch.diff")
    meta = {"property": pid, "name": name, "confirmed": False}
    rc, base = sh(["git", "-C", mutwt, "rev-parse", "HEAD"]) if os.path.isdir(mutwt) else (1, "")
    base = base.strip() if rc == 0 else "HEAD"
    meta["base_commit"] = base
    # ---- 2. independent confirmation in a scratch worktree
    wt = f"/tmp/mutv/{name}"
    sh(["git", "-C", "/repo", "worktree", "remove", "--force", wt])
    shutil.rmtree(wt, ignore_errors=True)
    os.makedirs("/tmp/mutv", exist_ok=True)
    rc, out = sh(["git", "-C", "/repo", "worktree", "add", "--detach", wt, base])
    assert rc == 0, out
    try:
        os.makedirs(os.path.join(wt, "_mutation"), exist_ok=True)
        shutil.copy(os.path.join(dst, "demo.py"), os.path.join(wt, "_mutation", "demo.py"))
        rc0, out0 = sh([PY, "_mutation/demo.py"], cwd=wt, timeout=900)
        meta["demo_without_patch_exit"] = rc0
        rc, out = sh(["git", "apply", patch], cwd=wt)
        meta["patch_applies"] = rc == 0
        if rc != 0:
            meta["apply_error"] = out[-500:]
        rcT, outT = sh([PY, "-m", "pytest", "-q", "-p", "no:cacheprovider", "--timeout=900", "tests"], cwd=wt, timeout=3000)
        m = re.search(r"(\d+) passed", outT)
        meta["pytest_with_patch"] = outT.strip().split("\n")[-1]
        meta["pytest_passed"] = int(m.group(1)) if m else 0
        rc1, out1 = sh([PY, "_mutation/demo.py"], cwd=wt, timeout=900)
        meta["demo_with_patch_exit"] = rc1
        meta["demo_with_patch_tail"] = out1.strip()[-400:]
        meta["confirmed"] = (rc0 == 0 and rc1 != 0 and rcT == 0 and meta["pytest_passed"] == 350 and " failed" not in meta["pytest_with_patch"])
    finally:
        sh(["git", "-C", "/repo", "worktree", "remove", "--force", wt])
        shutil.rmtree(wt, ignore_errors=True)
    # ---- 3. run the checks against it
    results = {}
    if meta["confirmed"]:
        rc, out = sh(["git", "-C", "/repo", "status", "--porcelain"])
        assert out.strip() == "", "/repo is dirty: " + out
        rc, out = sh(["git", "-C", "/repo", "apply", patch])
        assert rc == 0, out
        try:
            for c in (checks or [pid]):
                t0 = time.time()
                rc, out = sh([os.path.join(ROOT, "check"), c, tier], cwd=ROOT, timeout=7200)
                lines = [l for l in out.split("\n") if l.startswith(("VIOLATION", "OK ", "KNOWN-FINDING", "INFRA"))]
                results[c] = {"exit": rc, "lines": lines, "wall_s": round(time.time() - t0, 1)}
                for l in lines:
                    mm = re.search(r"replay=(\S+)", l)
                    if mm and os.path.exists(mm.group(1)):
                        d = json.load(open(mm.group(1)))
                        results[c]["replay_kind"] = d.get("kind")
                        results[c]["replay_excerpt"] = json.dumps({k: d.get(k) for k in ("scenario", "detail", "property_failures")})[:1200]
        finally:
            sh(["git", "-C", "/repo", "checkout", "--", "."])
            rc, out = sh(["git", "-C", "/repo", "status", "--porcelain"])
            assert out.strip() == "", "/repo not restored: " + out
    meta["checks"] = results
    meta["detected_by"] = [c for c, r in results.items() if r["exit"] == 1]
    notes = os.path.join(dst, "notes.md")
    meta["needs"] = open(notes).read()[:1500] if os.path.exists(notes) else ""
    json.dump(meta, open(os.path.join(dst, "meta.json"), "w"), indent=1)
    print(json.dumps({k: meta[k] for k in ("name", "confirmed", "pytest_with_patch", "demo_without_patch_exit", "demo_with_patch_exit", "detected_by")}, indent=None))
    for c, r in results.items():
        print(" ", c, r["exit"], r["lines"], r.get("replay_kind"))


if __name__ == "__main__":
    main()
