#!/bin/sh
# run every check (quick by default) with a given seed; print one line per property
DIR="$(cd "$(dirname "$0")/.." && pwd)"
TIER="${1:-quick}"
SEED="${2:-0}"
for i in 01 02 03 04 05 06 07 08 09 10 11 12 13 14 15 16 17 18 19 20; do
  s=$(date +%s)
  out=$(VERIF_SEED=$SEED timeout 7200 "$DIR/check" C$i $TIER 2>&1 | grep -E "^(OK|VIOLATION|INFRA|KNOWN)" | tr '\n' ' ')
  e=$(date +%s)
  echo "C$i $((e-s))s $out" | cut -c1-260
done
