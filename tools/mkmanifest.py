#!/usr/bin/env python3
"""writes MANIFEST.json from the table below (kept as code so it is always schema-valid)"""
import json, os, sys
ROOT = os.path.dirname(os.path.dirname(os.path.abspath(__file__)))
sys.path.insert(0, os.path.join(ROOT, "harness"))
from manifest_data import CHECKS, NOT_APPLICABLE, NOTES

props = [json.loads(l) for l in open(os.path.join(ROOT, "properties.jsonl"))]
ids = [p["id"] for p in props]
checks = []
for pid in ids:
    if pid in CHECKS:
        c = CHECKS[pid]
        checks.append({
            "property_id": pid,
            "quick_cmd": f"./check {pid} quick",
            "thorough_cmd": f"./check {pid} thorough",
            "evidence_file": f"evidence/{pid}.json",
            "replay_cmd_template": f"./check {pid} --replay {{path}}",
            "engine": "lean4-model+correspondence",
            "level_claimed": {"category": "proof", "text": c["text"], "design_ref": c.get("design_ref", "DESIGN.md §5 " + pid)},
            "level_note": c["note"],
            "technique": c.get("technique", "Lean 4 machine-checked proof over a hand-written model + differential correspondence with the Python implementation"),
        })
na = [{"property_id": pid, "reason": NOT_APPLICABLE.get(pid, "check not built yet in this revision")} for pid in ids if pid not in CHECKS]
m = {
    "version": 1,
    "setup_cmd": "./setup.sh",
    "hooks": {"guard": "CHIPFIRING_VERIF", "enable": "no source hooks: checks import /repo's working tree as it is (CHIPFIRING_VERIF=1 is exported but nothing in /repo reads it)",
              "baseline_off_cmd": "cd /repo && /venv/bin/python -m pytest -q -p no:cacheprovider --timeout=900", "source_commits": [], "add_only": True},
    "engines": [{"name": "lean4-model+correspondence", "path": "lean/ harness/", "serves_properties": [c["property_id"] for c in checks],
                 "kind_free_text": "Lean 4 proofs about an executable model; model driver and real implementation run on the same scenarios and are diffed"}],
    "checks": checks,
    "notes": NOTES,
    "not_applicable": na,
}
json.dump(m, open(os.path.join(ROOT, "MANIFEST.json"), "w"), indent=1)
print("checks:", [c["property_id"] for c in checks], "n/a:", [x["property_id"] for x in na])
