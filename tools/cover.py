#!/venv/bin/python
"""Line coverage of /repo's package by the scenarios of the checks (diagnostic, not a check):

  tools/cover.py [quick|thorough] [C01 C02 ...]

runs the listed checks (default: all) with VERIF_COVERAGE set, combines the per-process data and
prints, per source file, the executed share of its statements and the line numbers never executed.
Writes tools/coverage-report.json."""
import os, sys, json, subprocess, shutil, tempfile
ROOT = os.path.dirname(os.path.dirname(os.path.abspath(__file__)))


def main():
    args = sys.argv[1:]
    tier = "quick"
    if args and args[0] in ("quick", "thorough"):
        tier = args.pop(0)
    ids = args or [f"C{i:02d}" for i in range(1, 21)]
    d = tempfile.mkdtemp(prefix="cfcov")
    try:
        env = dict(os.environ, VERIF_COVERAGE=d)
        for pid in ids:
            p = subprocess.run([os.path.join(ROOT, "check"), pid, tier], env=env, cwd=ROOT, stdout=subprocess.PIPE, stderr=subprocess.STDOUT, text=True)
            last = [l for l in p.stdout.split("\n") if l.startswith(("OK", "VIOLATION", "INFRA", "KNOWN"))]
            print(pid, p.returncode, (last[-1] if last else "")[:100], flush=True)
        import coverage
        cov = coverage.Coverage(data_file=os.path.join(d, "cov"))
        cov.combine([d])
        rep = {}
        data = cov.get_data()
        for f in sorted(data.measured_files()):
            try:
                _, stmts, _, missing, _ = cov.analysis2(f)
            except Exception:
                continue
            rep[os.path.basename(f)] = {"statements": len(stmts), "missing": missing,
                                        "share": round(1 - len(missing) / max(1, len(stmts)), 3)}
        json.dump(rep, open(os.path.join(ROOT, "tools", "coverage-report.json"), "w"), indent=1)
        for f, r in rep.items():
            print(f"{f:28s} {r['share']:.3f}  missing {len(r['missing'])}/{r['statements']}")
    finally:
        shutil.rmtree(d, ignore_errors=True)


if __name__ == "__main__":
    main()
