#!/usr/bin/env python3
"""Evaluate a HARMLESS refactoring produced by a sub-agent: the property still holds, so no check
may report a failing input (a `VIOLATION … no-failing-input-found` is the mandated answer to a
broken correspondence and is recorded separately).

  tools/evalben.py <property id> --src DIR [--tag T] [--checks all|C01,C02]

1. copies <src>/_mutation/{patch.diff,demo.py,notes.md} to /verif/benign/<id>[-T]/
2. scratch worktree: with the patch the suite passes 350/350 and the demo exits 0
3. applies the patch to /repo, runs the checks, undoes the patch
4. writes meta.json
"""
import sys, os, json, subprocess, shutil, re, time

ROOT = os.path.dirname(os.path.dirname(os.path.abspath(__file__)))
PY = "/venv/bin/python"
ALL = [f"C{i:02d}" for i in range(1, 21)]


def sh(cmd, cwd=None, timeout=3600):
    p = subprocess.run(cmd, cwd=cwd, shell=isinstance(cmd, str), stdout=subprocess.PIPE, stderr=subprocess.STDOUT, text=True, timeout=timeout)
    return p.returncode, p.stdout


def main():
    args = sys.argv[1:]
    pid = args[0]
    tag, checks, src = "", None, None
    i = 1
    while i < len(args):
        if args[i] == "--tag":
            tag = args[i + 1]; i += 1
        elif args[i] == "--checks":
            checks = ALL if args[i + 1] == "all" else args[i + 1].split(","); i += 1
        elif args[i] == "--src":
            src = args[i + 1]; i += 1
        i += 1
    name = pid + (f"-{tag}" if tag else "")
    dst = os.path.join(ROOT, "benign", name)
    os.makedirs(dst, exist_ok=True)
    for f in ("patch.diff", "demo.py", "notes.md"):
        p = os.path.join(src, "_mutation", f)
        if os.path.exists(p):
            shutil.copy(p, os.path.join(dst, f))
    patch = os.path.join(dst, "patch.diff")
    meta = {"property": pid, "name": name, "confirmed": False}
    rc, base = sh(["git", "-C", src, "rev-parse", "HEAD"])
    base = base.strip() if rc == 0 else "HEAD"
    wt = f"/tmp/benv/{name}"
    sh(["git", "-C", "/repo", "worktree", "remove", "--force", wt])
    shutil.rmtree(wt, ignore_errors=True)
    os.makedirs("/tmp/benv", exist_ok=True)
    rc, out = sh(["git", "-C", "/repo", "worktree", "add", "--detach", wt, base])
    assert rc == 0, out
    try:
        os.makedirs(os.path.join(wt, "_mutation"), exist_ok=True)
        if os.path.exists(os.path.join(dst, "demo.py")):
            shutil.copy(os.path.join(dst, "demo.py"), os.path.join(wt, "_mutation", "demo.py"))
        rc, out = sh(["git", "apply", patch], cwd=wt)
        meta["patch_applies"] = rc == 0
        rcT, outT = sh([PY, "-m", "pytest", "-q", "-p", "no:cacheprovider", "--timeout=900", "tests"], cwd=wt, timeout=3000)
        m = re.search(r"(\d+) passed", outT)
        meta["pytest_with_patch"] = outT.strip().split("\n")[-1]
        meta["pytest_passed"] = int(m.group(1)) if m else 0
        rc1, out1 = sh([PY, "_mutation/demo.py"], cwd=wt, timeout=1800) if os.path.exists(os.path.join(wt, "_mutation", "demo.py")) else (0, "")
        meta["demo_with_patch_exit"] = rc1
        meta["confirmed"] = meta["patch_applies"] and rcT == 0 and meta["pytest_passed"] == 350 and rc1 == 0
    finally:
        sh(["git", "-C", "/repo", "worktree", "remove", "--force", wt])
        shutil.rmtree(wt, ignore_errors=True)
    results = {}
    if meta["confirmed"]:
        rc, out = sh(["git", "-C", "/repo", "status", "--porcelain"])
        assert out.strip() == "", "/repo is dirty: " + out
        rc, out = sh(["git", "-C", "/repo", "apply", patch])
        assert rc == 0, out
        try:
            for c in (checks or [pid]):
                t0 = time.time()
                rc, out = sh([os.path.join(ROOT, "check"), c, "quick"], cwd=ROOT, timeout=7200)
                lines = [l for l in out.split("\n") if l.startswith(("VIOLATION", "OK ", "INFRA"))]
                r = {"exit": rc, "lines": lines, "wall_s": round(time.time() - t0, 1)}
                for l in lines:
                    mm = re.search(r"replay=(\S+)", l)
                    if mm and os.path.exists(mm.group(1)):
                        d = json.load(open(mm.group(1)))
                        r["replay_kind"] = d.get("kind")
                        keep = os.path.join(dst, f"replay-{c}.json")
                        shutil.copy(mm.group(1), keep)
                        r["replay_excerpt"] = json.dumps({k: d.get(k) for k in ("detail", "property_failures", "correspondence_mismatches")})[:1500]
                results[c] = r
        finally:
            sh(["git", "-C", "/repo", "checkout", "--", "."])
            rc, out = sh(["git", "-C", "/repo", "status", "--porcelain"])
            assert out.strip() == "", "/repo not restored: " + out
    meta["checks"] = results
    meta["failing_input_alarms"] = [c for c, r in results.items() if r["exit"] == 1 and r.get("replay_kind") == "failing-input"]
    meta["correspondence_alarms"] = [c for c, r in results.items() if r["exit"] == 1 and r.get("replay_kind") != "failing-input"]
    notes = os.path.join(dst, "notes.md")
    meta["notes"] = open(notes).read()[:1500] if os.path.exists(notes) else ""
    json.dump(meta, open(os.path.join(dst, "meta.json"), "w"), indent=1)
    print(json.dumps({k: meta[k] for k in ("name", "confirmed", "pytest_with_patch", "demo_with_patch_exit", "failing_input_alarms", "correspondence_alarms")}))
    for c, r in results.items():
        if r["exit"] != 0:
            print(" ", c, r["exit"], r.get("replay_kind"), (r.get("replay_excerpt") or "")[:600])


if __name__ == "__main__":
    main()
