"""Generators of operation histories and query batches for the object machines
(graphs, divisors/configurations, scripts+Laplacian, orientations, configurations)."""
import itertools
import gen


def rref(rng, n, p_bad=0.0):
    """a vertex reference; with probability p_bad a name that is not a vertex"""
    if rng.random() < p_bad:
        return n + rng.randint(0, 2)
    return rng.randrange(n)


def gen_graph_hist(rng, N, p_bad=0.25, maxops=12):
    out = []
    for _ in range(N):
        g, E = gen.gen_graph(rng, 1, 6)
        n = g["n"]
        edges = list(g["edges"])
        if rng.random() < 0.2 and edges:
            edges = edges[:rng.randint(0, len(edges))]
        if rng.random() < 0.15:
            bad = rng.choice([[0, 0, 1], [rref(rng, n), n + 1, 1], [0, min(1, n - 1), 0], [0, min(1, n - 1), -2]])
            edges.insert(rng.randint(0, len(edges)), bad)
        if edges and rng.random() < 0.12:
            a, b, k = rng.choice(edges)
            edges.insert(rng.randint(0, len(edges)), [b, a, rng.choice([-1, 0, -k, 1])])
        ops = []
        for _ in range(rng.randint(1, maxops)):
            r = rng.random()
            if r < 0.5:
                a, b = rref(rng, n, p_bad / 3), rref(rng, n, p_bad / 3)
                if rng.random() < p_bad / 3:
                    b = a
                k = rng.choice([1, 1, 2, 3, 5]) if rng.random() > p_bad / 3 else rng.choice([0, -1, -4])
                ops.append(["add", a, b, k])
            elif r < 0.7:
                es = []
                for _ in range(rng.randint(0, 4)):
                    a, b = rref(rng, n, p_bad / 4), rref(rng, n, p_bad / 4)
                    if a == b and rng.random() > p_bad / 4:
                        b = (a + 1) % max(n, 1)
                    es.append([a, b, rng.choice([1, 2, 3]) if rng.random() > p_bad / 4 else rng.choice([0, -1])])
                if es and rng.random() < 0.35:
                    # the same unordered pair again in this batch, either endpoint order, any sign
                    a, b, k = rng.choice(es)
                    es.insert(rng.randint(0, len(es)), [b, a, rng.choice([1, 2, -1, 0, -k])] if rng.random() < 0.5 else [a, b, rng.choice([1, -1, 0])])
                ops.append(["adds", es])
            elif r < 0.85:
                ops.append(["valence", rref(rng, n, p_bad)])
            else:
                ops.append(["remove", rref(rng, n, p_bad / 2)])
        if rng.random() < 0.12:
            # multiplicities beyond double precision (and not powers of two): edge totals that a
            # float cannot hold exactly
            big = rng.choice([2 ** 53 + 1, 2 ** 63 + 2, 10 ** 30 + 7, 2 ** 64 - 1, 3 * 2 ** 52 + 1])
            edges = [[a, b, (k * big + rng.choice([0, 1])) if k > 0 else k] for a, b, k in edges]
            ops = [[o[0], o[1], o[2], o[3] * big + 1] if o[0] == "add" and o[3] > 0 and rng.random() < 0.5 else o for o in ops]
        s = dict(g)
        s.update(op="graph_hist", edges=edges, ops=ops, dupv=(rng.random() < 0.03))
        out.append(s)
    return out


def gen_div_hist(rng, N, p_bad=0.2, maxops=25, big=False):
    out = []
    for _ in range(N):
        g, E = gen.gen_graph(rng, 1, 6)
        n = g["n"]
        mag = 2 ** 70 if big and rng.random() < 0.3 else 6
        entries = [[i, rng.randint(-mag, mag)] for i in range(n) if rng.random() < 0.8]
        rng.shuffle(entries)
        if rng.random() < 0.06:
            entries.append([rref(rng, n, 1.0), 1])
        if rng.random() < 0.06 and entries:
            entries.append(list(rng.choice(entries)))
        q = None
        if rng.random() < 0.6:
            q = rref(rng, n, 0.04)
        ops = []
        for _ in range(rng.randint(1, maxops)):
            kind = rng.choice(["lend", "borrow", "fire", "transfer"] + (["cfg_lend", "cfg_borrow", "cfg_fire", "cfg_degree_at", "cfg_superstable", "cfg_superstable", "cfg_legal", "cfg_nonneg"] if q is not None else []))
            if kind in ("cfg_superstable", "cfg_nonneg"):
                ops.append([kind])
                if q is not None and q < n and n >= 3 and rng.random() < 0.5:
                    # the same configuration object asked again after the chip counts of two
                    # non-sink vertices were swapped (any amount; only the marker is recorded here,
                    # the harness fills in the amount from the live degrees)
                    a, b = rng.sample([v for v in range(n) if v != q], 2)
                    ops.append(["swap", a, b])
                    ops.append([kind])
            elif kind == "cfg_legal":
                S = [v for v in range(n) if v != q and rng.random() < 0.5]
                if rng.random() < p_bad / 2:
                    S.append(rng.choice([q, n + 1]))
                ops.append([kind, S])
            elif kind in ("fire", "cfg_fire"):
                S = [rref(rng, n, p_bad / 3) for _ in range(rng.randint(0, n))]
                if kind == "cfg_fire" and q is not None and q < n:
                    if rng.random() < p_bad:
                        S.insert(rng.randint(0, len(S)), q)
                    else:
                        S = [v for v in S if v != q]
                if rng.random() < 0.1:
                    S = list(range(n))
                ops.append([kind, S])
            elif kind == "transfer":
                ops.append([kind, rref(rng, n, p_bad / 2), rref(rng, n, p_bad / 2),
                            rng.randint(1, 5) if rng.random() > p_bad / 2 else rng.choice([0, -1, -3])])
            else:
                v = rref(rng, n, p_bad)
                if kind == "cfg_degree_at" and q is not None and rng.random() < p_bad:
                    v = q
                ops.append([kind, v])
        s = dict(g)
        s.update(op="div_hist", entries=entries, q=q, ops=ops, alias=(rng.random() < 0.3))
        out.append(s)
    return out


def twin_multigraphs(rng):
    """two multigraphs with the same vertex set, support, valences and edge total but different
    multiplicities: an even cycle with alternating multiplicities (a,b,a,b,..) vs (b,a,b,a,..),
    plus common extra edges"""
    n = rng.choice([4, 4, 6])
    perm = list(range(n))
    rng.shuffle(perm)
    a, b = rng.sample([1, 2, 3, 4], 2)
    E1, E2 = {}, {}
    for i in range(n):
        u, v = perm[i], perm[(i + 1) % n]
        key = (min(u, v), max(u, v))
        E1[key] = a if i % 2 == 0 else b
        E2[key] = b if i % 2 == 0 else a
    for _ in range(rng.randint(0, 2)):
        u, v = rng.sample(range(n), 2)
        key = (min(u, v), max(u, v))
        if key not in E1:
            m = rng.randint(1, 2)
            E1[key] = m
            E2[key] = m
    return n, E1, E2


def gen_div_arith(rng, N):
    out = []
    for _ in range(N):
        g, E = gen.gen_graph(rng, 1, 6)
        if rng.random() < 0.08:
            n, E, Etwin = twin_multigraphs(rng)
            g = {"n": n, "edges": gen.present_edges(rng, E), "_kind": "twin", "_genus": gen.genus_of(n, E),
                 "names": gen.gen_names(rng, n)}
            A = [rng.randint(-3, 3) for _ in range(n)]
            s = dict(g)
            s.update(op="div_arith", A=A, B=list(A) if rng.random() < 0.7 else [rng.randint(-3, 3) for _ in range(n)],
                     C=[rng.randint(-3, 3) for _ in range(n)], k=rng.choice([0, 1, -1, 2]), chipv=rng.randrange(n),
                     edges2=gen.present_edges(rng, Etwin))
            out.append(s)
            continue
        n = g["n"]
        mag = rng.choice([5, 5, 100, 2 ** 70])
        s = dict(g)
        s.update(op="div_arith", A=[rng.randint(-mag, mag) for _ in range(n)], B=[rng.randint(-mag, mag) for _ in range(n)],
                 C=[rng.randint(-mag, mag) for _ in range(n)], k=rng.choice([0, 1, -1, 2, -3, 7, 2 ** 65, -2 ** 70]),
                 chipv=rref(rng, n, 0.1))
        r = rng.random()
        if r < 0.3:
            rr = rng.random()
            if rr < 0.4:
                s["edges2"] = gen.present_edges(rng, E)
            elif rr < 0.7 and E:
                # same support, multiplicities reassigned (valences / edge total may well coincide)
                ms = list(E.values())
                if rng.random() < 0.5:
                    ms = ms[1:] + ms[:1]
                else:
                    rng.shuffle(ms)
                s["edges2"] = gen.present_edges(rng, dict(zip(E.keys(), ms)))
            else:
                _, E2 = gen.simple_family(rng, n)
                s["edges2"] = gen.present_edges(rng, E2)
        elif r < 0.4:
            names2 = list(range(n))
            rr2 = rng.random()
            if rr2 < 0.35 and n > 1:
                names2.pop(rng.randrange(n))                 # a proper subset of the left operand's vertices
            elif rr2 < 0.7:
                names2 = names2 + [n + 1] + ([n + 2] if rng.random() < 0.3 else [])   # a proper superset
            else:
                names2[rng.randrange(n)] = n + 1             # overlapping, neither contains the other
            if rng.random() < 0.2:
                names2 = list(range(n))
                rng.shuffle(names2)
            s["names2"] = names2
            s["edges2"] = []
        if rng.random() < 0.3:
            s["B"] = list(s["A"])
            if n and rng.random() < 0.6:
                # near-equal: one entry differs, by amounts that collide under common hashing shortcuts
                i = rng.randrange(n)
                s["A"][i] = rng.choice([-1, -2, 0, 5, s["A"][i]])
                s["B"] = list(s["A"])
                s["B"][i] = s["A"][i] + rng.choice([1, -1, 2 ** 61 - 1, -(2 ** 61 - 1), 2 ** 64, 2 ** 32])
                if s["A"][i] == -1 and rng.random() < 0.7:
                    s["B"][i] = -2
        elif rng.random() < 0.15:
            s["B"] = [0] * n
        if rng.random() < 0.1:
            s["A"] = [0] * n
        out.append(s)
    return out


def gen_lap(rng, N):
    out = []
    for _ in range(N):
        g, E = gen.gen_graph(rng, 1, 6)
        n = g["n"]
        mag = rng.choice([3, 3, 50, 2 ** 40, 2 ** 62, 2 ** 70])
        init = [[rref(rng, n, 0.03), rng.randint(-mag, mag)] for _ in range(rng.randint(0, n))]
        sops = []
        for _ in range(rng.randint(0, 10)):
            kind = rng.choice(["set", "update", "update", "get"])
            v = rref(rng, n, 0.1)
            sops.append([kind, v] + ([rng.randint(-mag, mag)] if kind != "get" else []))
        s2 = [rng.randint(-mag, mag) for _ in range(n)]
        if rng.random() < 0.25:
            # the second script differs from the first only by values with equal CPython hashes
            # (hash(-1) == hash(-2), hash(k) == k mod 2^61-1): one calculator object, two applies
            P = 2 ** 61 - 1
            cur = [rng.choice([-1, -2, -1, 0, 1, 3, P, -P - 1]) for _ in range(n)]
            init = [[i, cur[i]] for i in range(n)]
            sops = []
            s2 = [(-1 if c == -1 else 1 if c == -2 else rng.choice([0, 0, P, -P])) for c in cur]
            if not any(s2):
                s2[rng.randrange(n)] = P
        s = dict(g)
        s.update(op="lap", deg=[rng.randint(-mag, mag) for _ in range(n)], init=init, sops=sops,
                 s2=s2, q=rng.randrange(n), _mag=mag)
        out.append(s)
    return out


def gen_orient_hist(rng, N, p_bad=0.2, maxops=25):
    out = []
    for _ in range(N):
        g, E = gen.gen_graph(rng, 2, 6)
        n = g["n"]
        pairs = list(E.keys())
        init = []
        mode = rng.choice(["none", "partial", "full", "full", "acyclic"])
        if mode == "acyclic":
            perm = list(range(n))
            rng.shuffle(perm)
            pos = {v: i for i, v in enumerate(perm)}
            init = [[a, b] if pos[a] < pos[b] else [b, a] for a, b in pairs]
        elif mode != "none":
            for a, b in pairs:
                if mode == "full" or rng.random() < 0.5:
                    init.append([a, b] if rng.random() < 0.5 else [b, a])
        rng.shuffle(init)
        if rng.random() < p_bad / 3 and init:
            init.append(list(reversed(rng.choice(init))) if rng.random() < 0.5 else list(rng.choice(init)))
        if rng.random() < p_bad / 4:
            init.append([rref(rng, n, 0.5), rref(rng, n, 0.5)])
        ops = []
        for _ in range(rng.randint(1, maxops)):
            r = rng.random()
            if r < 0.45:
                if pairs and rng.random() > p_bad / 2:
                    a, b = rng.choice(pairs)
                    if rng.random() < 0.5:
                        a, b = b, a
                else:
                    a, b = rref(rng, n, 0.3), rref(rng, n, 0.3)
                ops.append(["set", a, b, rng.choice([0, 1, 1, 2, 2])])
            elif r < 0.6:
                if pairs and rng.random() > p_bad:
                    a, b = rng.choice(pairs)
                    if rng.random() < 0.5:
                        a, b = b, a
                else:
                    a, b = rref(rng, n, 0.3), rref(rng, n, 0.3)
                ops.append([rng.choice(["get", "get", "is_source", "is_sink"]), a, b])
            elif r < 0.7:
                ops.append([rng.choice(["in", "out"]), rref(rng, n, p_bad / 2)])
            elif r < 0.9:
                ops.append([rng.choice(["full", "reverse", "divisor", "divisor", "canonical"])])
            else:
                k2 = rng.choice(["reverse_keep", "inspect_kept", "inspect_kept", "set_kept"])
                if k2 == "set_kept" and pairs:
                    a, b = rng.choice(pairs)
                    if rng.random() < 0.5:
                        a, b = b, a
                    ops.append(["set_kept", a, b, rng.choice([0, 1, 2])])
                elif k2 != "set_kept":
                    ops.append([k2])
        if mode in ("full", "acyclic") and rng.random() < 0.5:
            # a reversed copy taken early and looked at again after the original was edited
            ops.insert(0, ["reverse_keep"])
            ops.append(["inspect_kept"])
        s = dict(g)
        s.update(op="orient_hist", init=init, ops=ops, _mode=mode)
        out.append(s)
    return out


def gen_config(rng, N, nmax=5):
    out = []
    for _ in range(N):
        g, E = gen.gen_graph(rng, 2, nmax)
        n = g["n"]
        q = rng.randrange(n)
        mag = rng.choice([2, 3, 5])
        d = [rng.randint(-1 if rng.random() < 0.3 else 0, mag) for _ in range(n)]
        d[q] = rng.randint(-3, 3)
        others = [v for v in range(n) if v != q]
        queries = [["superstable"], ["nonneg"], ["degsum"]]
        for r in range(0, len(others) + 1):
            for S in itertools.combinations(others, r):
                queries.append(["legal", list(S)])
                if S:
                    queries.append(["outdeg", rng.choice(S), list(S)])
        queries.append(["legal", [q] + others[:1]])
        queries.append(["legal", [n + 1]])
        queries.append(["outdeg", q, [q]])
        queries.append(["outdeg", others[0] if others else q, []])
        for _ in range(4):
            d2 = [x + rng.choice([-1, 0, 0, 1]) for x in d]
            if rng.random() < 0.3:
                d2 = list(d)
                d2[q] += rng.choice([0, 1, -2])
            how = rng.random()
            e2, q2 = None, q
            if how < 0.3:
                e2 = gen.present_edges(rng, E)
            elif how < 0.45:
                _, E2 = gen.simple_family(rng, n)
                e2 = gen.present_edges(rng, E2)
            elif how < 0.6:
                q2 = rng.randrange(n)
            for opn in range(5):
                queries.append(["cmp", opn, d2, q2, e2])
        s = dict(g)
        s.update(op="config", deg=d, q=q, queries=queries)
        out.append(s)
    return out


# ----------------------------------------------------------------------------- algorithm scenarios

def gen_dhar(rng, N, nmax=6):
    out = []
    for _ in range(N):
        g, E = gen.gen_graph(rng, 2, nmax)
        n = g["n"]
        d, band, debt = gen.gen_divisor(rng, n, g["_genus"], mag=rng.choice([3, 5]))
        s = dict(g)
        s.update(op="dhar", deg=d, q=rng.randrange(n), viz=(rng.random() < 0.2), _band=band, _debt=debt)
        out.append(s)
    return out


def gen_api(rng, N, nmax=6):
    out = []
    for _ in range(N):
        g, E = gen.gen_graph(rng, 2, nmax)
        n = g["n"]
        d, band, debt = gen.gen_divisor(rng, n, g["_genus"], mag=rng.choice([3, 5]))
        s = dict(g)
        s.update(op="api", deg=d, _band=gen.band_of(sum(d), g["_genus"]), _debt=debt)
        out.append(s)
    return out


def random_script(rng, n, mag=3):
    return [rng.randint(-mag, mag) for _ in range(n)]


def apply_script(n, E, d, s):
    adj = [[0] * n for _ in range(n)]
    for (a, b), m in E.items():
        adj[a][b] += m
        adj[b][a] += m
    return [d[w] - sum(adj[w][v] * (s[w] - s[v]) for v in range(n)) for w in range(n)]


def gen_lin_equiv(rng, N, nmax=6):
    out = []
    for _ in range(N):
        g, E = gen.gen_graph(rng, 2, nmax)
        n = g["n"]
        d1, _, _ = gen.gen_divisor(rng, n, g["_genus"], mag=4)
        kind = rng.choice(["identical", "script", "script", "samedeg", "samedeg", "diffdeg", "vszero", "vszero"])
        if kind == "vszero":
            # one side is the zero divisor, the other has degree 0 (principal or not)
            d1 = apply_script(n, E, [0] * n, random_script(rng, n)) if rng.random() < 0.6 else list(d1)
            if sum(d1) != 0:
                d1[rng.randrange(n)] -= sum(d1)
            d2 = [0] * n
            if rng.random() < 0.3:
                d1, d2 = d2, d1
        elif kind == "identical":
            d2 = list(d1)
        elif kind == "script":
            d2 = apply_script(n, E, d1, random_script(rng, n))
        elif kind == "samedeg":
            d2 = list(d1)
            for _ in range(rng.randint(1, 3)):
                a, b = rng.randrange(n), rng.randrange(n)
                d2[a] += 1
                d2[b] -= 1
            if rng.random() < 0.5:
                d2 = apply_script(n, E, d2, random_script(rng, n))
        else:
            d2 = list(d1)
            d2[rng.randrange(n)] += rng.choice([-2, -1, 1, 3])
        s = dict(g)
        s.update(op="lin_equiv", D1=d1, D2=d2, _pair=kind)
        r = rng.random()
        if r < 0.35:
            s["edges2"] = gen.present_edges(rng, E)          # equal copy, built separately
            s["_second"] = "equalcopy"
        elif r < 0.45:
            E2 = dict(E)
            e = rng.choice(list(E2))
            E2[e] += 1
            s["edges2"] = gen.present_edges(rng, E2)
            s["_second"] = "othergraph"
        else:
            s["_second"] = "sameobject"
        out.append(s)
    return out


def gen_rank(rng, N, nmax=5, maxdeg=6):
    out = []
    for _ in range(N):
        g, E = gen.gen_graph(rng, 2, nmax)
        n = g["n"]
        gen_ = g["_genus"]
        band = rng.choice(["neg", "low", "mid", "mid", "high"])
        d, band, debt = gen.gen_divisor(rng, n, gen_, band=band, mag=3)
        if sum(d) > maxdeg:
            d[rng.randrange(n)] -= sum(d) - maxdeg
        s = dict(g)
        s.update(op="rank", deg=d, opt=rng.random() < 0.6, pool=rng.choice(["stub", "stub", "stub", "thread"]),
                 via_r=rng.random() < 0.3, _band=gen.band_of(sum(d), gen_), _debt=debt)
        out.append(s)
    return out


def gen_rank_special(rng, N):
    """special divisors (0 <= deg <= 2g-2, where Riemann-Roch does not determine the rank) on small
    multigraphs of genus >= 3 that carry a g^1_2 (banana graphs, thick triangles, cycles with
    doubled opposite edges, chains of bundles): small boxes of effective divisors, mostly in
    optimized mode; Clifford-extremal ranks (r = deg/2) live here"""
    fams = []
    for k in (3, 4, 5, 6):
        fams.append((2, {(0, 1): k}))
    fams.append((3, {(0, 1): 3, (1, 2): 1, (0, 2): 1}))
    fams.append((3, {(0, 1): 2, (1, 2): 2, (0, 2): 2}))
    fams.append((3, {(0, 1): 3, (1, 2): 3}))
    fams.append((4, {(0, 1): 2, (1, 2): 1, (2, 3): 2, (0, 3): 1}))
    fams.append((4, {(0, 1): 2, (1, 2): 2, (2, 3): 2}))
    fams.append((3, {(0, 1): 4, (1, 2): 2}))
    out = []
    for _ in range(N):
        n, E = rng.choice(fams)
        genus = sum(E.values()) - n + 1
        hi = rng.choice([2, 3])
        d = [rng.randint(0, hi) for _ in range(n)]
        if rng.random() < 0.4:
            # concentrate an even number of chips: multiples of a g^1_2
            d = [0] * n
            k = rng.choice([2, 2, 4])
            if rng.random() < 0.5:
                d[rng.randrange(n)] = k
            else:
                for _ in range(k):
                    d[rng.randrange(n)] += 1
        if rng.random() < 0.15:
            d[rng.randrange(n)] -= 1
            d[rng.randrange(n)] += 1
        while sum(d) > 6:
            i = rng.randrange(n)
            if d[i] > 0:
                d[i] -= 1
        g = {"n": n, "edges": gen.present_edges(rng, E), "names": gen.gen_names(rng, n), "_kind": "special", "_genus": genus}
        s = dict(g)
        s.update(op="rank", deg=d, opt=rng.random() < 0.8, pool="stub", via_r=rng.random() < 0.3,
                 _band=gen.band_of(sum(d), genus), _debt="none")
        out.append(s)
    return out


def gen_gonality(rng, N, nmax=5):
    out = []
    for _ in range(N):
        g, E = gen.gen_graph(rng, 2, nmax)
        n = g["n"]
        s = dict(g)
        s.update(op="gonality", strat=rng.random() < 0.5, max=rng.choice([None, None, 0, 1, 2, n - 1, n, n + 1]))
        out.append(s)
    return out


def gen_play(rng, N, nmax=6):
    out = []
    for _ in range(N):
        g, E = gen.gen_graph(rng, 2, nmax)
        n = g["n"]
        P = [rng.randint(0, 2) if rng.random() < 0.85 else rng.randint(-2, 3) for _ in range(n)]
        nchips = sum(P) if rng.random() < 0.9 else sum(P) + rng.choice([-1, 1])
        s = dict(g)
        s.update(op="play", P=P, nchips=nchips, v=rref(rng, n, 0.05))
        out.append(s)
    return out


def gen_dhar_strategy(rng, N, nmax=6):
    out = []
    for _ in range(N):
        g, E = gen.gen_graph(rng, 2, nmax)
        n = g["n"]
        q = rng.randrange(n)
        others = [v for v in range(n) if v != q]
        strat = [rng.choice(others) for _ in range(rng.randint(0, n))]
        if rng.random() < 0.1:
            strat.append(rng.choice([q, n + 1]))
        base = [0] * n if rng.random() < 0.7 else [rng.randint(-1, 2) for _ in range(n)]
        s = dict(g)
        s.update(op="dhar_strategy", q=q, base=base, strategy=strat)
        out.append(s)
    return out


def gen_enhanced_dhar(rng, N, nmax=5):
    out = []
    for _ in range(N):
        g, E = gen.gen_graph(rng, 2, nmax)
        n = g["n"]
        s = dict(g)
        s.update(op="enhanced_dhar", q=rng.randrange(n), max=rng.choice([None, None, None, 0, 1, 2, n]))
        out.append(s)
    return out


def gen_greedy_thick(rng, N):
    """multi-edges at an indebted vertex, heavy debt that is nevertheless cleared within the
    budget because every borrow brings in the full valence"""
    out = []
    for _ in range(N):
        n = rng.randint(2, 4)
        m = rng.randint(3, 6)
        E = {}
        perm = list(range(n))
        rng.shuffle(perm)
        for i in range(1, n):
            j = perm[rng.randrange(i)]
            E[(min(j, perm[i]), max(j, perm[i]))] = m          # a random tree: connected
        v = rng.randrange(n)
        val = sum(k for e, k in E.items() if v in e)
        nb = sum(1 for e in E if v in e)
        borrows = rng.randint(1, 10 * n)              # borrows needed at v alone
        debt = val * (borrows - 1) + rng.randint(1, val)
        d = [debt + rng.randint(0, 5) for _ in range(n)]  # rich neighbours: stays winnable
        d[v] = -debt
        out.append({"n": n, "edges": gen.present_edges(rng, E), "op": "greedy", "deg": d, "_kind": "thick", "_genus": gen.genus_of(n, E),
                    "_band": "high", "_debt": f"thick nb={nb} val={val}"})
    return out


def gen_greedy_longhaul(rng, N):
    """winnable, but the chips sit at the far end of a path: between one and two budgets of
    borrowing moves are needed, so the first play() gives up and a second play() on the same
    solver finishes the job (its script must still certify the original divisor)"""
    out = []
    for _ in range(N):
        n = rng.randint(2, 6)
        perm = list(range(n))
        rng.shuffle(perm)
        E = {(min(perm[i], perm[i + 1]), max(perm[i], perm[i + 1])): 1 for i in range(n - 1)}
        unit = n * (n - 1) // 2                       # borrows per chip hauled end to end
        lo, hi = 10 * n // unit + 1, 20 * n // unit
        k = rng.randint(lo, max(lo, hi))
        d = [0] * n
        d[perm[0]] = -k
        d[perm[-1]] = k + rng.choice([0, 0, 1, 3])
        g = {"n": n, "edges": gen.present_edges(rng, E), "names": gen.gen_names(rng, n)}
        g.update(op="greedy", deg=d, _kind="longhaul", _genus=0, _band="high", _debt=f"longhaul k={k}")
        out.append(g)
    return out


def gen_greedy(rng, N, nmax=6):
    out = gen_greedy_thick(rng, max(1, N // 4)) + gen_greedy_longhaul(rng, max(1, N // 8))
    for _ in range(N):
        g, E = gen.gen_graph(rng, 2, nmax)
        n = g["n"]
        d, band, debt = gen.gen_divisor(rng, n, g["_genus"], mag=rng.choice([3, 6, 12]))
        s = dict(g)
        s.update(op="greedy", deg=d, _band=gen.band_of(sum(d), g["_genus"]), _debt=debt)
        out.append(s)
    return out


def gen_parking(rng, N):
    out = []
    for _ in range(N):
        n = rng.randint(0, 6)
        kind = rng.random()
        if kind < 0.4:
            seq = [rng.randint(1, max(1, n)) for _ in range(n)]
        elif kind < 0.6:
            # a genuine parking function: sort-compatible then shuffled
            seq = [rng.randint(1, i + 1) for i in range(n)]
            rng.shuffle(seq)
        else:
            seq = [rng.randint(-1, n + 2) for _ in range(rng.choice([n, n, max(0, n - 1), n + 1]))]
        nn = None if rng.random() < 0.5 else rng.choice([len(seq), len(seq), n, n + 1, 0, -1, 3])
        out.append({"op": "parking", "seq": seq, "n": nn})
    for k in range(-1, 6):
        out.append({"op": "parking_gen", "n": k})
    return out


def gen_winnable_hist(rng, N, nmax=5):
    """the same chip counts asked again after the graph object gained edges"""
    out = []
    for _ in range(N):
        g, E = gen.gen_graph(rng, 2, nmax, names=(rng.random() < 0.5))
        n = g["n"]
        d, band, debt = gen.gen_divisor(rng, n, g["_genus"], mag=3, band=rng.choice(["low", "low", "mid", "any"]))
        adds = []
        for _ in range(rng.randint(1, 3)):
            a, b = rng.sample(range(n), 2)
            adds.append([a, b, rng.randint(1, 2)])
        s = dict(g)
        s.update(op="winnable_hist", deg=d, adds=adds, _band=band, _debt=debt)
        out.append(s)
    return out


def gen_elements(rng, N, nmax=6):
    out = []
    for _ in range(N):
        g, E = gen.gen_graph(rng, 1, nmax)
        n = g["n"]
        g["names"] = gen.gen_names(rng, n, style=rng.choice(["v", "letters", "unicode", "blanks", "long"]))
        pairs = list(E.keys())
        orient = []
        for a, b in pairs:
            r = rng.random()
            if r < 0.4:
                orient.append([a, b])
            elif r < 0.8:
                orient.append([b, a])
        rng.shuffle(orient)
        s = dict(g)
        order = ["graph", "divisor", "orientation", "ewd"]
        rng.shuffle(order)
        s.update(op="elements", deg=[rng.randint(-9, 12) for _ in range(n)], orient=orient, draw_order=order)
        if orient and rng.random() < 0.5:
            s["second_orient"] = [p for p in orient if rng.random() < 0.5]
        out.append(s)
    return out


TXT_BAD = [",", ":", "\n", "\r"]


def txt_ok(name):
    # exactly the names the format can represent (= the model's `nameOK`): non-empty, nothing for
    # strip() to remove, no comma, no colon, no line break of the text-mode reader
    return name != "" and name == name.strip() and not any(ch in name for ch in [",", ":", "\n", "\r"])


def gen_rt(rng, N, nmax=6, faults=None):
    out = []
    for _ in range(N):
        g, E = gen.gen_graph(rng, 1, nmax)
        if rng.random() < 0.12:
            # degenerate stream ("all multigraphs"): the empty graph, isolated vertices, disconnected graphs
            n0 = rng.choice([0, 0, 1, 2, 3, 4])
            pairs = [(a, b) for a in range(n0) for b in range(a + 1, n0)]
            E = {pq: rng.randint(1, 3) for pq in pairs if rng.random() < 0.3}
            g = {"n": n0, "edges": [[a, b, k] if rng.random() < 0.5 else [b, a, k] for (a, b), k in E.items()], "_kind": "degenerate", "_genus": None}
        n = g["n"]
        style = rng.choice(["v", "letters", "unicode", "long", "blanks", "digits", "mixed", "hostile"])
        if style == "hostile":
            pool = ["a,b", "x:y", " lead", "trail ", "VERTICES: z", "GRAPH_EDGE", "---DEGREES---", "é, ü", "tab\tin", "q\"uote", "{brace}", "[1, 2]", "null", "-", "--", "0", "-0", "1e3", "DEGREE: a, 1", "EDGE: a, b, 1", "#", "日本", "a b c",
                    "a\x0bb", "c\x1cd", "e\x85f", "g\u2028h", "i\x0cj"]     # separators of str.splitlines inside a name: one line for a text-mode reader
            names = sorted(rng.sample(pool, n)) if n <= len(pool) else gen.gen_names(rng, n)
        else:
            names = gen.gen_names(rng, n, style=style)
        g["names"] = names
        g.pop("warmup", None)
        g.pop("warm_single", None)
        if len(g["edges"]) >= 1 and rng.random() < 0.3:
            # save once, thicken an existing edge (or insert the rest) on the same object, save again
            if rng.random() < 0.6:
                a, b, k = rng.choice(g["edges"])
                g["edges"] = g["edges"] + [[b, a, rng.randint(1, 3)]]
                g["warmup"] = len(g["edges"]) - 1
            elif len(g["edges"]) >= 2:
                g["warmup"] = rng.randint(1, len(g["edges"]) - 1)
            g["warm_single"] = rng.random() < 0.5
        kind = rng.choice(["graph", "divisor", "divisor", "orientation", "script"])
        mag = rng.choice([3, 50, 2 ** 40, 2 ** 53 + 1, 2 ** 70, 10 ** 30])
        s = dict(g)
        s.update(op="rt", kind=kind, txt=all(txt_ok(nm) for nm in names), fseed=rng.randrange(10 ** 6), _style=style, _mag=mag)
        if faults:
            s["faults"] = faults
        if kind == "divisor":
            s["deg"] = [rng.randint(-mag, mag) for _ in range(n)]
            s["via_apply"] = rng.random() < 0.15
        elif kind == "orientation":
            orient = []
            mode = rng.choice(["none", "partial", "full"])
            for a, b in E.keys():
                if mode == "full" or (mode == "partial" and rng.random() < 0.5):
                    orient.append([a, b] if rng.random() < 0.5 else [b, a])
            rng.shuffle(orient)
            s["orient"] = orient
        elif kind == "script":
            dense = rng.random() < 0.4
            s["script"] = [[i, rng.choice([0, 0, rng.randint(-mag, mag)]) if not dense else rng.randint(-mag, mag)] for i in range(n) if dense or rng.random() < 0.6]
        out.append(s)
    return out


def all_connected_simple_graphs(n):
    """every connected simple graph on vertices 0..n-1 (labelled), as edge dicts"""
    import itertools
    pairs = [(a, b) for a in range(n) for b in range(a + 1, n)]
    out = []
    for mask in range(1, 1 << len(pairs)):
        E = {pairs[i]: 1 for i in range(len(pairs)) if mask >> i & 1}
        comp = list(range(n))

        def find(x):
            while comp[x] != x:
                x = comp[x]
            return x
        for a, b in E:
            comp[find(a)] = find(b)
        if len({find(v) for v in range(n)}) == 1:
            out.append(E)
    return out


def gen_bounds(rng, N, nmax=5, exhaustive_upto=4):
    out = []
    pool = []
    for n in range(2, exhaustive_upto + 1):
        pool += [(n, E) for E in all_connected_simple_graphs(n)]
    def warm(s):
        # same graph object asked twice: first on a prefix of the edges, then after the rest was inserted
        if len(s["edges"]) >= 2 and rng.random() < 0.35:
            s["warmup"] = rng.randint(1, len(s["edges"]) - 1)
            s["warm_single"] = rng.random() < 0.5
        return s
    for n, E in pool:
        out.append(warm({"op": "bounds", "n": n, "edges": gen.present_edges(rng, E, split=False), "names": gen.gen_names(rng, n), "_kind": "exhaustive"}))
    for _ in range(N):
        n = rng.randint(min(nmax, exhaustive_upto + 1), nmax)
        kind, E = gen.simple_family(rng, n)
        E = {e: 1 for e in E}                      # simple graph underlying the family
        out.append(warm({"op": "bounds", "n": n, "edges": gen.present_edges(rng, E, split=False), "names": gen.gen_names(rng, n), "_kind": kind}))
    return out


def gen_bounds_alpha(rng, N):
    """larger sparse simple graphs (6..9 vertices: trees, caterpillars and double stars, random
    bipartite graphs, sparse random graphs) for the independence number and the report entries
    derived from it; the gonality search is skipped at these sizes (`with_gon` false)"""
    out = []
    for _ in range(N):
        n = rng.randint(6, 9)
        kind = rng.choice(["tree", "tree", "caterpillar", "bipartite", "sparse"])
        E = {}
        if kind == "tree":
            for v in range(1, n):
                E[(rng.randrange(v), v)] = 1
        elif kind == "caterpillar":
            spine = rng.randint(2, 3)
            for v in range(1, spine):
                E[(v - 1, v)] = 1
            for v in range(spine, n):
                E[(rng.randrange(spine), v)] = 1
        elif kind == "bipartite":
            a = rng.randint(2, n - 2)
            for v in range(1, n):                       # spanning tree respecting the sides
                side = v < a
                cands = [u for u in range(v) if (u < a) != side] or [0]
                u = rng.choice(cands)
                if (u < a) != side:
                    E[(u, v)] = 1
                else:
                    E[(u, v)] = 1
            for _ in range(rng.randint(0, 4)):
                u, v = rng.randrange(a), rng.randrange(a, n)
                E[(u, v)] = 1
        else:
            for v in range(1, n):
                E[(rng.randrange(v), v)] = 1
            for _ in range(rng.randint(1, 4)):
                u, v = rng.sample(range(n), 2)
                E[(min(u, v), max(u, v))] = 1
        perm = list(range(n))
        rng.shuffle(perm)
        E = {(min(perm[a], perm[b]), max(perm[a], perm[b])): 1 for (a, b) in E}
        out.append({"op": "bounds", "n": n, "edges": gen.present_edges(rng, E, split=False), "names": gen.gen_names(rng, n),
                    "_kind": "alpha-" + kind, "with_gon": False})
    return out


def multipartite_edges(parts):
    verts, start = [], 0
    groups = []
    for p in parts:
        groups.append(list(range(start, start + p)))
        start += p
    E = {}
    for i in range(len(groups)):
        for j in range(i + 1, len(groups)):
            for a in groups[i]:
                for b in groups[j]:
                    E[(a, b)] = 1
    return start, E


def gen_closed(rng, tier):
    out = []
    for n in range(-1, 9):
        out.append({"op": "closed", "name": "complete_graph_gonality", "arg": n})
        out.append({"op": "closed", "name": "parking_function_count", "arg": n})
    import itertools
    maxsum = 6 if tier == "quick" else 7
    for k in range(0, 4):
        for parts in itertools.product(range(1, 5), repeat=k):
            if sum(parts) <= maxsum:
                s = {"op": "closed", "name": "complete_multipartite_gonality", "arg": list(parts)}
                if k >= 1 and 2 <= sum(parts) <= (5 if tier == "quick" else 6):
                    n, E = multipartite_edges(parts)
                    if k == 1:
                        E = {(a, b): 1 for a in range(n) for b in range(a + 1, n)}   # single part = K_n per the library's convention
                    s["_graph"] = {"n": n, "edges": [[a, b, 1] for (a, b) in E]}
                out.append(s)
    return out


def gen_dhar_batch(rng, N, nmax=5):
    out = []
    for _ in range(N):
        g, E = gen.gen_graph(rng, 3, nmax, names=False)
        g.pop("warmup", None)
        n = g["n"]
        strategies = []
        for _ in range(rng.randint(1, 4)):
            strategies.append(sorted(rng.randrange(n) for _ in range(rng.randint(1, 3))))
        queries = []
        for _ in range(rng.randint(2, 4)):
            q = rng.randrange(n)
            sts = [[v for v in st if v != q] or [(q + 1) % n] for st in strategies]
            qd = {"q": q, "base": [0] * n if rng.random() < 0.7 else [rng.randint(0, 1) for _ in range(n)], "strategies": sts + sts[:1]}
            if rng.random() < 0.3:
                _, E2 = gen.simple_family(rng, n)
                qd["edges"] = gen.present_edges(rng, E2)
            queries.append(qd)
        s = dict(g)
        s.update(op="dhar_batch", queries=queries)
        out.append(s)
    return out


def gen_cfg_requery(rng, N, nmax=5):
    """one configuration object, small non-negative chip counts, asked `is_superstable` /
    legality again and again while chips are permuted and moved in between"""
    out = []
    for _ in range(N):
        g, E = gen.gen_graph(rng, 3, nmax)
        g.pop("warmup", None)
        n = g["n"]
        q = rng.randrange(n)
        val = [0] * n
        for (a, b), m in E.items():
            val[a] += m
            val[b] += m
        entries = [[v, rng.randint(0, max(0, val[v] - 1)) if v != q else rng.randint(-2, 2)] for v in range(n)]
        others = [v for v in range(n) if v != q]
        ops = [["cfg_superstable"]]
        for _ in range(rng.randint(2, 8)):
            r = rng.random()
            if r < 0.5 and len(others) >= 2:
                a, b = rng.sample(others, 2)
                ops.append(["swap", a, b])
            elif r < 0.7:
                ops.append(["cfg_fire", [v for v in others if rng.random() < 0.4]])
            elif r < 0.85:
                ops.append([rng.choice(["cfg_lend", "cfg_borrow"]), rng.choice(others)])
            else:
                ops.append(["transfer", rng.choice(others), rng.choice(others), 1])
            ops.append([rng.choice(["cfg_superstable", "cfg_superstable", "cfg_nonneg"])])
            if rng.random() < 0.3:
                ops.append(["cfg_legal", [v for v in others if rng.random() < 0.5]])
        s = dict(g)
        s.update(op="div_hist", entries=entries, q=q, ops=ops, alias=False)
        out.append(s)
    return out


def gen_txt_fields(rng, N):
    """name lists for the TXT field layer: clean names of every style, and hostile ones (commas,
    leading/trailing blanks of several kinds, Unicode white space, empty strings)"""
    WS = [" ", "\t", "\u00a0", "\u2003", "\u3000", "\x1f", "\u200a", "\u1680"]
    out = []
    for _ in range(N):
        n = rng.randint(1, 6)
        names = gen.gen_names(rng, n)
        kind = rng.choice(["clean", "clean", "hostile", "hostile", "ws"])
        if kind != "clean":
            names = list(names)
            for i in range(len(names)):
                r = rng.random()
                if r < 0.25:
                    names[i] = rng.choice(WS) + names[i]
                elif r < 0.5:
                    names[i] = names[i] + rng.choice(WS)
                elif r < 0.6 and kind == "hostile":
                    names[i] = names[i] + "," + rng.choice(["", "x", " y"])
                elif r < 0.65 and kind == "hostile":
                    names[i] = ""
                elif r < 0.75:
                    names[i] = names[i] + rng.choice(WS) + "z"      # inner white space is fine
        text = rng.choice([" a, b", "a,b,,c", " ,", "", ",", " x ", "\u00a0q\u2003, r\t", ", ".join(names), "  ".join(names)])
        prefix = rng.choice(["VERTICES:", "EDGE:", "GRAPH_VERTICES:", "GRAPH_EDGE:", "DEGREE:", "ORIENTED:", "FIRING:"])
        body = " " + ", ".join(names)
        pline = rng.choice([prefix + body, prefix + body, prefix + prefix + body, body + prefix, prefix[:-1] + body,
                            prefix + " x" + prefix + "y", "GRAPH_" + prefix + body, prefix.lower() + body, ""])
        out.append({"op": "txt_fields", "names": list(names), "text": text, "prefix": prefix, "pline": pline, "_kind": kind})
    return out


# ----------------------------------------------------------------------------- TXT file layer

def gen_txt_write(rng, N, nmax=5):
    """objects of all four kinds whose written text is compared character by character"""
    out = []
    for s in gen_rt(rng, N, nmax=nmax):
        s = dict(s)
        for k in ("warmup", "warm_single", "faults", "via_apply", "fseed"):
            s.pop(k, None)
        if any(("\ud800" <= ch <= "\udfff") for nm in s["names"] for ch in nm):
            continue
        s["op"] = "txt_write"
        out.append(s)
    return out


_HOSTILE_INTS = ["+5", "-0", "007", "1_000", "1__0", "_1", "1_", "", "1.0", "1e3", "0x10", "--1", "+-1", "+", "-", "1 0",
                 "12a", "- 3", "9" * 40, "-" + "9" * 25, "+0_0", "0_", "−1"]
_JUNK = ["# comment", "MALFORMED: x, y", "", "   ", "\t", "EDGE:", "VERTICES:", "GRAPH_VERTICES:", "GRAPH_VERTICES: ", "GRAPH_EDGE:",
         "DEGREE: a", "DEGREE: a, 1, 2", "EDGE: a, b", "EDGE: a, b, c, d", "GRAPH_EDGE: a, b", "ORIENTED: a", "ORIENTED: a, b, c",
         "FIRING: a", "FIRING: a, 1, 2", "---DEGREES---", "---ORIENTATIONS---", "---SCRIPT---", "--- DEGREES ---", "---degrees---",
         "VERTICES", "VERTICES :", "vertices: a, b", "EDGE : a, b, 1", "Data: TXT representation not implemented for this type."]


def gen_txt_read(rng, N):
    """texts for the reader loops: files as the writer produces them, then damaged in the ways a
    hand-edited or half-written file is: lines dropped / repeated / reordered / foreign, hostile
    integer fields, stray blanks, other line endings, prefixes repeated inside a line, section
    markers missing or misplaced, files of another kind"""
    out = []
    P = {"graph": ("VERTICES:", "EDGE:", None, None), "divisor": ("GRAPH_VERTICES:", "GRAPH_EDGE:", "---DEGREES---", "DEGREE:"),
         "orientation": ("GRAPH_VERTICES:", "GRAPH_EDGE:", "---ORIENTATIONS---", "ORIENTED:"),
         "script": ("GRAPH_VERTICES:", "GRAPH_EDGE:", "---SCRIPT---", "FIRING:")}
    WS = [" ", "\t", " ", " ", "\x1f", "\x0c"]
    for _ in range(N):
        kind = rng.choice(list(P))
        clean = rng.random() < 0.4          # a file exactly as the writer produces it (any lists, representable names)
        wkind = kind if (clean or rng.random() < 0.9) else rng.choice(list(P))      # sometimes a file of another kind
        pv, pe, marker, pr = P[wkind]
        n = rng.choice([0, 1, 2, 3, 3, 4, 5])
        style = rng.choice(["v", "letters", "unicode", "blanks", "digits", "mixed", "hostile"] if not clean else ["v", "letters", "unicode", "blanks", "digits", "hyphen", "concat"])
        if style == "hostile":
            pool = ["a,b", "x:y", " lead", "trail ", "VERTICES: z", "GRAPH_EDGE", "---DEGREES---", "tab\tin", "-", "0", "-0", "1e3",
                    "DEGREE: a, 1", "EDGE", "EDGE: a, b, 1", "#", "日本", "a b c", "FIRING", "q\"uote"]
            names = sorted(rng.sample(pool, n))
        else:
            names = gen.gen_names(rng, n, style=style)
        lines = [f"{pv} {', '.join(names)}"]
        some = names + ["ghost"]
        mag = rng.choice([3, 50, 2 ** 53 + 1, 10 ** 30])
        for _e in range(rng.randint(0, 4) if n >= 1 else 0):
            a, b = rng.choice(some), rng.choice(some)
            lines.append(f"{pe} {a}, {b}, {rng.choice([1, 1, 2, 3, 0, -1, mag])}")
        if marker:
            lines.append(marker)
            for nm in (names if rng.random() < 0.7 else rng.sample(some, min(len(some), rng.randint(0, 3)))):
                if pr == "ORIENTED:":
                    lines.append(f"{pr} {nm}, {rng.choice(some)}")
                else:
                    lines.append(f"{pr} {nm}, {rng.randint(-mag, mag)}")
        muts = 0 if clean else rng.choice([0, 0, 1, 1, 2, 3])
        for _m in range(muts):
            r = rng.randrange(12)
            i = rng.randrange(len(lines)) if lines else 0
            if r == 0 and lines:
                del lines[i]
            elif r == 1 and lines:
                lines.insert(i, lines[rng.randrange(len(lines))])
            elif r == 2 and len(lines) >= 2:
                j = rng.randrange(len(lines))
                lines[i], lines[j] = lines[j], lines[i]
            elif r == 3:
                lines.insert(i, rng.choice(_JUNK))
            elif r == 4 and lines and "," in lines[i]:
                head, _, _tail = lines[i].rpartition(",")
                lines[i] = head + ", " + rng.choice(_HOSTILE_INTS)
            elif r == 5 and lines:
                lines[i] = rng.choice(WS) * rng.randint(1, 2) + lines[i] + rng.choice(WS) * rng.randint(0, 2)
            elif r == 6 and lines:
                lines[i] = lines[i].replace(", ", rng.choice([",", " ,  ", ",\t", " , "]))
            elif r == 7 and lines and ":" in lines[i]:
                pfx = lines[i].split(":")[0] + ":"
                lines[i] = lines[i].replace(", ", ", " + pfx, 1) if rng.random() < 0.5 else pfx + lines[i]
            elif r == 8 and lines:
                lines[i] = lines[i].lower() if rng.random() < 0.5 else lines[i].replace(":", " :", 1)
            elif r == 9 and marker and marker in lines:
                lines.remove(marker)
                if rng.random() < 0.6:
                    lines.insert(rng.randrange(len(lines) + 1), marker)
            elif r == 10 and lines and "," in lines[i]:
                lines[i] = lines[i] + rng.choice([", extra", ",", ", "])
            elif r == 11 and lines and ", " in lines[i]:
                lines[i] = lines[i].rsplit(", ", 1)[0]
        nl = "\n" if clean else rng.choice(["\n", "\n", "\n", "\r\n", "\r", "mixed"])
        text = ""
        for k, l in enumerate(lines):
            text += l + (rng.choice(["\n", "\r\n", "\r", "\n\n", "\n \n"]) if nl == "mixed" else nl)
        if text and not clean and rng.random() < 0.15:
            text = text.rstrip("\r\n")
        if not clean and rng.random() < 0.05:
            text = text[: rng.randrange(len(text) + 1)]
        if any(("\ud800" <= ch <= "\udfff") for ch in text):
            continue
        cut = False
        pinned = (muts == 0 and wkind == kind and nl == "\n" and style != "hostile" and all(txt_ok(nm) for nm in names)
                  and text.endswith("\n"))
        out.append({"op": "txt_read", "kind": kind, "text": text, "_kind": kind, "_style": style, "_wkind": wkind, "_muts": muts, "_nl": nl, "n": n,
                    "_pinned": pinned})
    return out


def gen_json_text(rng, N, nmax=5):
    """objects of all four kinds whose JSON text is compared character by character with the
    model's, and whose prefixes / damaged variants go through the scanner and through json.loads"""
    out = []
    for s in gen_rt(rng, N, nmax=nmax):
        s = dict(s)
        for k in ("warmup", "warm_single", "faults", "via_apply", "txt"):
            s.pop(k, None)
        if any(("\ud800" <= ch <= "\udfff") for nm in s["names"] for ch in nm):
            continue
        s["op"] = "json_text"
        out.append(s)
    return out


_ATLAS = {}


def atlas_connected(n):
    """every connected simple graph on n <= 7 vertices up to isomorphism (networkx's graph atlas)"""
    if n not in _ATLAS:
        import networkx as nx
        from networkx.generators.atlas import graph_atlas_g
        for g in graph_atlas_g():
            k = g.number_of_nodes()
            if k >= 2 and nx.is_connected(g):
                _ATLAS.setdefault(k, []).append(sorted((min(a, b), max(a, b)) for a, b in g.edges()))
    return _ATLAS.get(n, [])


def gen_bounds_atlas(rng, N, nmin=6, nmax=6):
    """isomorphism classes of connected simple graphs on 6 (7) vertices, randomly relabelled: the
    bounds report bracketed against the verified gonality beyond the exhaustive labelled families"""
    pool = [(n, es) for n in range(nmin, nmax + 1) for es in atlas_connected(n)]
    picks = pool if N >= len(pool) else rng.sample(pool, N)
    out = []
    for n, es in picks:
        perm = list(range(n))
        rng.shuffle(perm)
        E = {(min(perm[a], perm[b]), max(perm[a], perm[b])): 1 for a, b in es}
        out.append({"op": "bounds", "n": n, "edges": gen.present_edges(rng, E, split=False), "names": gen.gen_names(rng, n),
                    "_kind": f"atlas{n}"})
    return out


def gen_config_large(rng, N):
    """configurations on 10-11 vertices (paths, cycles, trees, sparse graphs) with few chips: the
    legal sets involve vertices late in name order and sets of more than eight vertices"""
    out = []
    for _ in range(N):
        n = rng.randint(10, 11)
        kind = rng.choice(["path", "cycle", "tree", "sparse"])
        E = {}
        if kind in ("path", "cycle"):
            for v in range(n - 1):
                E[(v, v + 1)] = 1
            if kind == "cycle":
                E[(0, n - 1)] = 1
        else:
            for v in range(1, n):
                E[(rng.randrange(v), v)] = rng.choice([1, 1, 2])
            if kind == "sparse":
                for _k in range(rng.randint(1, 3)):
                    a, b = sorted(rng.sample(range(n), 2))
                    E[(a, b)] = E.get((a, b), 0) + 1
        if rng.random() < 0.5:
            perm = list(range(n))
            rng.shuffle(perm)
            E = {(min(perm[a], perm[b]), max(perm[a], perm[b])): m for (a, b), m in E.items()}
        q = rng.choice([0, 0, n - 1, rng.randrange(n)])
        d = [0] * n
        for _k in range(rng.randint(0, 3)):
            d[rng.randrange(n)] += 1
        d[q] = rng.randint(-2, 2)
        others = [v for v in range(n) if v != q]
        queries = [["superstable"], ["nonneg"], ["degsum"]]
        for _k in range(24):
            size = rng.choice([1, 1, 2, 3, n // 2, n - 2, n - 1])
            S = rng.sample(others, min(size, len(others)))
            queries.append(["legal", S])
        for v in others[-3:]:
            queries.append(["legal", [v]])
        queries.append(["legal", others])
        s = {"n": n, "edges": gen.present_edges(rng, E), "_kind": "large-" + kind, "_genus": gen.genus_of(n, E), "names": gen.gen_names(rng, n),
             "op": "config", "deg": d, "q": q, "queries": queries, "timeout": 60}
        out.append(s)
    return out


def gen_bounds_double(rng, N):
    """two copies of a connected graph on 6-7 vertices joined by one edge (12-14 vertices): the
    independence number where greedy choices that are right on every small graph go wrong; the
    gonality search is skipped at this size"""
    pool = [(n, es) for n in (6, 7) for es in atlas_connected(n)]
    picks = pool if N >= len(pool) else rng.sample(pool, N)
    out = []
    for n, es in picks:
        E = {}
        for a, b in es:
            E[(a, b)] = 1
            E[(a + n, b + n)] = 1
        a, b = rng.randrange(n), n + rng.randrange(n)
        E[(a, b)] = 1
        m = 2 * n
        perm = list(range(m))
        rng.shuffle(perm)
        E = {(min(perm[x], perm[y]), max(perm[x], perm[y])): 1 for (x, y) in E}
        out.append({"op": "bounds", "n": m, "edges": gen.present_edges(rng, E, split=False), "names": gen.gen_names(rng, m),
                    "_kind": f"double{n}", "with_gon": False, "timeout": 60})
    return out


def gen_json_str(rng, N):
    """string literals for the decoder model: the encoder's text of names of every style, and
    variants of it (other escapes for the same character, upper-case hex, `\/`, damaged escapes,
    raw control characters, missing or doubled quotes); lone surrogates are not generated (Python
    keeps them, Lean's `Char` cannot hold them)"""
    import json as _json
    out = []
    pool = ["", "a", "a\"b", "back\\slash", "tab\tin", "nl\nin", "\x00\x1f\x7f", "é", "日本", "𝒳y", "a𝒳", "\u2028", "/", "q\\\"uote", "[1, 2]", "{", "}"]
    for _ in range(N):
        if rng.random() < 0.5:
            name = rng.choice(pool)
        else:
            name = "".join(rng.choice(["a", "Z", "0", " ", "\"", "\\", "/", "\b", "\f", "\n", "\r", "\t", "\x01", "\x7f", "é", "ß", "中", "𝒳", "😀", ","]) for _k in range(rng.randint(0, 6)))
        text = _json.dumps(name)
        r = rng.random()
        if r < 0.5:
            pass
        elif r < 0.6:
            text = _json.dumps(name, ensure_ascii=False)
        elif r < 0.7:
            text = text.replace("\\u00", "\\u00".upper().replace("U", "u")).replace("e9", "E9").replace("/", "\\/")
        elif r < 0.8 and len(text) > 2:
            i = rng.randrange(1, len(text) - 1)
            text = text[:i] + rng.choice(["\\", "\"", "\\u12", "\\x", "\\u00zz", "\n", "\x01", "\\ud83d", "\\/", "\\u0041"]) + text[i:]
        elif r < 0.9:
            text = rng.choice([text[:-1], text[1:], text + "\"", "'" + text[1:-1] + "'", text + "x"])     # (white space around the literal is json.loads' business, not the scanner's)
        else:
            text = rng.choice(["\"\\u0041\\u00e9\\u00E9\"", "\"\\ud83d\\ude00\"", "\"\\/\"", "\"\\b\\f\\n\\r\\t\"", "\"\\u0000\"", "\"\\u12\"", "\"\\uD83D\\uDE00x\""])
        if any("\ud800" <= ch <= "\udfff" for ch in text + name):
            continue
        # texts whose decoding would contain a lone surrogate are out of the model's reach
        try:
            v = _json.loads(text)
            if isinstance(v, str) and any("\ud800" <= ch <= "\udfff" for ch in v):
                continue
        except Exception:
            pass
        out.append({"op": "json_str", "text": text, "name": name, "_kind": "json_str"})
    return out
