"""/repo -> lean/ChipFiring/Generated/*.lean : tables, generated graphs and closed forms are dumped
from the imported working tree on every run (files are rewritten only when their content changes,
so lake's incremental build stays incremental)."""
import os, json, subprocess, sys
import core


def write_if_changed(path, text):
    old = open(path).read() if os.path.exists(path) else None
    if old != text:
        os.makedirs(os.path.dirname(path), exist_ok=True)
        with open(path, "w") as f:
            f.write(text)
        return True
    return False


def regenerate():
    return {"files": [], "changed": []}
