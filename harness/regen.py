"""/repo -> lean/ChipFiring/Generated/*.lean : the literal tables, the generated graphs and the
closed forms the library publishes are dumped from the *imported working tree* on every run, so
that the theorems about them (Properties/C19.lean) are re-checked by the kernel against what the
code says now.  Files are rewritten only when their content changes, so lake's incremental build
stays incremental."""
import os, json, subprocess, sys, ast, inspect, textwrap
import core

GEN = os.path.join(core.LEAN, "ChipFiring", "Generated")

DUMP = r'''
import sys, json, warnings, inspect
sys.path.insert(0, %r)
warnings.filterwarnings("ignore")
import chipfiring
from chipfiring import CFPlatonicSolids as PS, CFCombinatorics as CC
out = {"solids": {}, "sources": {}}
for nm in ("tetrahedron", "cube", "octahedron", "dodecahedron", "icosahedron"):
    G = getattr(PS, nm)()
    names = sorted(v.name for v in G.vertices)
    idx = {x: i for i, x in enumerate(names)}
    d = G.to_dict()
    out["solids"][nm] = {"n": len(names), "edges": [[idx[a], idx[b], k] for a, b, k in d["edges"]]}
out["table"] = PS.platonic_solid_gonality_bounds()
for nm, f in (("complete_graph_gonality", PS.complete_graph_gonality),
              ("complete_multipartite_gonality", CC.complete_multipartite_gonality),
              ("parking_function_count", CC.parking_function_count)):
    out["sources"][nm] = inspect.getsource(f)
print(json.dumps(out))
'''


LAST_DUMP = None


class Untranslatable(Exception):
    pass


def tr_expr(e, lists):
    """restricted Python int/list expression -> Lean term over Int / List Int"""
    if isinstance(e, ast.Constant) and isinstance(e.value, int) and not isinstance(e.value, bool):
        return f"({e.value} : Int)"
    if isinstance(e, ast.Name):
        return e.id
    if isinstance(e, ast.BinOp):
        a, b = tr_expr(e.left, lists), tr_expr(e.right, lists)
        if isinstance(e.op, ast.Add):
            return f"({a} + {b})"
        if isinstance(e.op, ast.Sub):
            return f"({a} - {b})"
        if isinstance(e.op, ast.Mult):
            return f"({a} * {b})"
        if isinstance(e.op, ast.Pow):
            return f"({a} ^ ({b}).toNat)"
    if isinstance(e, ast.Call) and isinstance(e.func, ast.Name) and len(e.args) == 1 and isinstance(e.args[0], ast.Name):
        arg = e.args[0].id
        if e.func.id == "sum":
            return f"({arg}).sum"
        if e.func.id == "len":
            return f"(({arg}).length : Int)"
        if e.func.id == "min":
            return f"(pyMin {arg})"
        if e.func.id == "max":
            return f"(pyMax {arg})"
    raise Untranslatable(ast.dump(e))


def tr_test(t, lists):
    if isinstance(t, ast.UnaryOp) and isinstance(t.op, ast.Not) and isinstance(t.operand, ast.Name) and t.operand.id in lists:
        return f"({t.operand.id}).isEmpty = true"
    if isinstance(t, ast.Compare) and len(t.ops) == 1:
        a, b = tr_expr(t.left, lists), tr_expr(t.comparators[0], lists)
        op = {ast.Lt: "<", ast.LtE: "≤", ast.Gt: ">", ast.GtE: "≥", ast.Eq: "=", ast.NotEq: "≠"}.get(type(t.ops[0]))
        if op:
            return f"{a} {op} {b}"
    raise Untranslatable(ast.dump(t))


def tr_body(stmts, lists):
    """statements -> Lean term of type Option Int (none = raises)"""
    if not stmts:
        raise Untranslatable("falls off the end")
    s, rest = stmts[0], stmts[1:]
    if isinstance(s, ast.Expr) and isinstance(s.value, ast.Constant) and isinstance(s.value.value, str):
        return tr_body(rest, lists)                      # docstring
    if isinstance(s, ast.Return):
        return f"some {tr_expr(s.value, lists)}"
    if isinstance(s, ast.Raise):
        return "none"
    if isinstance(s, ast.Assign) and len(s.targets) == 1 and isinstance(s.targets[0], ast.Name):
        return f"let {s.targets[0].id} := {tr_expr(s.value, lists)}\n  {tr_body(rest, lists)}"
    if isinstance(s, ast.If) and not s.orelse:
        return f"if {tr_test(s.test, lists)} then {tr_body(s.body, lists)}\n  else {tr_body(rest, lists)}"
    if isinstance(s, ast.If):
        return f"if {tr_test(s.test, lists)} then {tr_body(s.body, lists)}\n  else {tr_body(s.orelse, lists)}"
    raise Untranslatable(ast.dump(s)[:200])


def translate_function(name, src):
    fn = ast.parse(textwrap.dedent(src)).body[0]
    params = [a.arg for a in fn.args.args]
    lists = {p for p in params if "size" in p or "list" in p or "partition" in p}
    sig = " ".join(f"({p} : {'List Int' if p in lists else 'Int'})" for p in params)
    body = tr_body(fn.body, lists)
    return f"def {name} {sig} : Option Int :=\n  {body}\n"


def lean_edges(es):
    return "[" + ", ".join(f"({a}, {b}, {k})" for a, b, k in es) + "]"


def write_if_changed(path, text):
    old = open(path).read() if os.path.exists(path) else None
    if old != text:
        os.makedirs(os.path.dirname(path), exist_ok=True)
        with open(path, "w") as f:
            f.write(text)
        return True
    return False


def regenerate():
    rc, out = core.sh([core.PY, "-c", DUMP % core.REPO], timeout=600)
    note = {"files": [], "changed": [], "untranslated": []}
    if rc != 0:
        # the dump itself failing is reported through the theorems that need the data
        note["dump_error"] = out[-1500:]
        return note
    data = json.loads(out.strip().split("\n")[-1])
    global LAST_DUMP
    LAST_DUMP = data
    # ---- solids + table
    lines = ["/- GENERATED by harness/regen.py from /repo's working tree: do not edit -/",
             "namespace CF.Gen", ""]
    for nm, d in data["solids"].items():
        lines.append(f"def {nm}N : Nat := {d['n']}")
        lines.append(f"def {nm}Edges : List (Nat × Nat × Int) := {lean_edges(d['edges'])}")
    lines.append("")
    lines.append("/-- `platonic_solid_gonality_bounds()`: (name, exact?, lower, upper, vertices, edges) -/")
    rows = []
    for nm, e in data["table"].items():
        ex = f"some {e['exact']}" if "exact" in e else "none"
        rows.append(f'("{nm}", ({ex} : Option Int), ({e["lower_bound"]} : Int), ({e["upper_bound"]} : Int), {e["vertices"]}, {e["edges"]})')
    lines.append("def table : List (String × Option Int × Int × Int × Nat × Nat) := [\n  " + ",\n  ".join(rows) + "]")
    lines += ["", "end CF.Gen", ""]
    p = os.path.join(GEN, "Solids.lean")
    note["files"].append("Generated/Solids.lean")
    if write_if_changed(p, "\n".join(lines)):
        note["changed"].append("Generated/Solids.lean")
    # ---- closed forms
    lines = ["/- GENERATED by harness/regen.py (restricted Python-AST -> Lean translation of the published",
             "   closed forms, taken from /repo's working tree): do not edit -/",
             "namespace CF.Gen", "",
             "def pyMin : List Int → Int\n  | [] => 0\n  | x :: xs => xs.foldl min x",
             "def pyMax : List Int → Int\n  | [] => 0\n  | x :: xs => xs.foldl max x", ""]
    for nm, src in data["sources"].items():
        try:
            lines.append(translate_function(nm, src))
        except Untranslatable as e:
            note["untranslated"].append({"function": nm, "reason": str(e)[:300]})
            lines.append(f"/-- `{nm}` uses syntax outside the translator's subset; the hand-written model and the\n    sampled correspondence are used instead -/\ndef {nm}_untranslated : Unit := ()\n")
    lines += ["end CF.Gen", ""]
    p = os.path.join(GEN, "ClosedForms.lean")
    note["files"].append("Generated/ClosedForms.lean")
    if write_if_changed(p, "\n".join(lines)):
        note["changed"].append("Generated/ClosedForms.lean")
    return note


if __name__ == "__main__":
    print(json.dumps(regenerate(), indent=1))
