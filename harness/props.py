"""Per-property plans: which scenarios are generated, which observables are compared with the
model (`_cmp`), which of those the property itself constrains (`_rel`), what counts as a
non-trivial case, and how known findings are matched."""
import os, json, random, itertools
import core, gen

TRUSTED_BASE = [
    "Lean 4.33.0 kernel; Mathlib v4.33.0 definitions occurring in statements (Finset.sum, Fintype, order on Int)",
    "axioms accepted per theorem: propext, Classical.choice, Quot.sound (enforced by ChipFiring/Audit.lean)",
    "fidelity of the hand-written model: differential correspondence check against /repo's working tree (this run)",
    "harness: name<->index bijection, order extraction, canonicalisation (harness/pyside.py, harness/main.py)",
    "CPython 3.12 semantics of int/dict/set/sorted; behaviour of json, copy.deepcopy, itertools (exercised, not verified)",
]
ASSUMPTIONS = [
    "the theorems are about the Lean model; the tie to the code is the correspondence run of this check",
    "only raise-vs-return is compared for exceptions, not class or message",
]
NONTRIVIAL_RULE = {}
PROPS = {}


def corpus(pid):
    path = os.path.join(core.ROOT, "corpus", f"{pid}.jsonl")
    out = []
    if os.path.exists(path):
        for line in open(path):
            line = line.strip()
            if line and not line.startswith("#"):
                out.append(json.loads(line))
    return out


def match_known(findings, rec, detail, fails):
    for k in findings:
        m = k.get("match", {})
        s = rec["scn"]
        if m.get("op") and s.get("op") != m["op"]:
            continue
        f = MATCHERS.get(k["id"])
        if f and f(rec, detail, fails):
            return k
    return None


MATCHERS = {}


def nontrivial(pid, rec):
    f = PROPS[pid].get("nontrivial")
    return bool(f(rec)) if f else True


def strata(pid, rec):
    f = PROPS[pid].get("strata")
    return f(rec) if f else [rec["scn"].get("op", "?")]


def count(tier, quick, thorough):
    return thorough if tier == "thorough" else quick


def graph_nontrivial(s):
    n = s.get("n", 0)
    es = s.get("edges", [])
    multi = any(k > 1 for _, _, k in es) or len({(min(a, b), max(a, b)) for a, b, _ in es}) < len(es)
    cyc = sum(k for _, _, k in es) >= n
    return n >= 3 and (multi or cyc)


# ============================================================================ C01

def gen_ewd_cases(rng, N, nmax=6, viz_share=0.25, mag=4, modes=(False, True)):
    out = []
    for i in range(N):
        g, E = gen.gen_graph(rng, 2, nmax)
        d, band, debt = gen.gen_divisor(rng, g["n"], g["_genus"], mag=mag)
        order = list(range(g["n"]))
        rng.shuffle(order)
        for opt in modes:
            s = dict(g)
            s.update(op="ewd", deg=d, opt=opt, viz=(rng.random() < viz_share), dorder=order,
                     _band=gen.band_of(sum(d), g["_genus"]), _debt=debt)
            out.append(s)
    return out


def gen_chain_debt_cases(rng, N, modes=(False, True), viz_share=0.2):
    """the stratum in which incomplete debt concentration changes the *verdict*: chain-like
    multigraphs, total degree 0..g-1, heavy debt on several adjacent vertices"""
    out = []
    for i in range(N):
        n = rng.randint(3, 6)
        E = {}
        for v in range(n - 1):
            E[(v, v + 1)] = rng.randint(1, 4)
        if rng.random() < 0.3:
            a, b = sorted(rng.sample(range(n), 2))
            E[(a, b)] = E.get((a, b), 0) + rng.randint(1, 2)
        perm = list(range(n))
        rng.shuffle(perm)
        E = {(min(perm[a], perm[b]), max(perm[a], perm[b])): m for (a, b), m in E.items()}
        g = {"n": n, "edges": gen.present_edges(rng, E), "_kind": "chainmulti", "_genus": gen.genus_of(n, E)}
        mag = rng.choice([3, 5, 8])
        d = [rng.randint(-2 * mag, mag) for _ in range(n)]
        target = rng.randint(0, max(0, g["_genus"] - 1))
        j = rng.randrange(n)
        d[j] += target - sum(d)
        for opt in modes:
            s = dict(g)
            s.update(op="ewd", deg=d, opt=opt, viz=(rng.random() < viz_share),
                     _band=gen.band_of(sum(d), g["_genus"]), _debt="chainheavy")
            out.append(s)
    return out


def c01_generate(rng, tier):
    scns = gen_ewd_cases(rng, count(tier, 250, 4000), nmax=count(tier, 6, 8))
    scns += gen_chain_debt_cases(rng, count(tier, 100, 2000))
    for s in scns:
        s["_cmp"] = ["verdict"]
    return scns


def ewd_strata(rec):
    s = rec["scn"]
    return [f"band={s.get('_band')}", f"debt={s.get('_debt')}", f"opt={s.get('opt')}", f"n={s.get('n')}", f"kind={s.get('_kind')}"]


def ewd_nontrivial(rec):
    l = rec["lean"]
    return graph_nontrivial(rec["scn"]) and isinstance(l, dict) and l.get("D") is not None


NONTRIVIAL_RULE["C01"] = "non-trivial: n>=3, a multi-edge or a cycle, and the non-shortcut path ran; distinct by canonical scenario"
PROPS["C01"] = {
    "generate": c01_generate,
    "strata": ewd_strata,
    "nontrivial": ewd_nontrivial,
    "rule": "random + named-family connected multigraphs (n<=6 quick / 8 thorough, multiplicities<=4, edges shuffled/flipped/split), divisors stratified by degree band x debt pattern, both modes, recording on for a share",
    "theorems": ["ewd_plain_verdict_exact"],
}


# ============================================================================ object machines
import genhist  # noqa: E402


def hist_nontrivial(rec):
    s = rec["scn"]
    return len(s.get("ops", s.get("sops", s.get("queries", [])))) >= 3 and s.get("n", 0) >= 2 and isinstance(rec["lean"], dict) and rec["lean"].get("ctor") != "ERR"


def hist_strata(rec):
    s = rec["scn"]
    labs = [f"n={s.get('n')}", f"kind={s.get('_kind')}"]
    for o in s.get("ops", s.get("sops", [])):
        labs.append(f"op={o[0]}")
    l = rec["lean"]
    if isinstance(l, dict):
        if l.get("ctor") == "ERR":
            labs.append("ctor=ERR")
        for st in l.get("steps", []):
            if st.get("r") == "ERR" or st.get("ok") is False:
                labs.append("refused-op")
    return labs


def simple(pid, genf, quick, thorough, rule, theorems, nontriv_rule, **kw):
    def generate(rng, tier):
        return genf(rng, count(tier, quick, thorough), **({k: v[1] if tier == "thorough" else v[0] for k, v in kw.items()}))
    NONTRIVIAL_RULE[pid] = nontriv_rule
    PROPS[pid] = {"generate": generate, "strata": hist_strata, "nontrivial": hist_nontrivial, "rule": rule, "theorems": theorems}


simple("C13", genhist.gen_graph_hist, 500, 8000,
       "graph histories: constructor (possibly refused) then up to 12/40 add_edge / add_edges / get_valence / remove_vertex requests, ~25% invalid (loop, non-positive multiplicity, unknown endpoint), both endpoint orders, repeated pairs; observables after every step: to_dict, every cached valence, total_valence, genus",
       ["history_invariant", "constructed_wf", "genus_is_E_minus_V_plus_one", "accepted_add", "refused_add_unchanged", "addEdges_prefix", "removeVertex_wf"],
       "non-trivial: >=3 operations on >=2 vertices with an accepted constructor", maxops=(12, 40))
simple("C05", genhist.gen_div_hist, 500, 8000,
       "divisor/configuration histories: up to 25/100 lend, borrow, set_fire, chip_transfer requests through CFDivisor and CFConfig (~20% invalid); observables after every step: every degree, cached total, is_effective",
       ["lend_is_laplacian_column", "borrow_inverse", "set_fire_eq_sequential", "fire_all_is_identity", "moves_commute", "history_conserves", "constructor_total"],
       "non-trivial: >=3 operations on >=2 vertices", maxops=(25, 100), big=(False, True))
simple("C12", genhist.gen_div_arith, 500, 8000,
       "pairs/triples of divisors (magnitudes up to 2^70), scalars up to 2^70, second operand on the same graph object / an equal copy / other edges / another vertex set; observables: +, -, neg, k*, ==, chip, zero, nested sums, operand digests afterwards",
       ["add_vertexwise", "add_comm'", "add_assoc'", "add_zero'", "add_neg'", "smul_smul", "total_additive", "chip_is_unit", "unit_decomposition", "eq_iff", "mismatch_rejected"],
       "non-trivial: n>=2")
PROPS["C12"]["nontrivial"] = lambda rec: rec["scn"].get("n", 0) >= 2
PROPS["C12"]["strata"] = lambda rec: [f"n={rec['scn'].get('n')}", "second=" + ("othervset" if rec["scn"].get("names2") is not None else "otheredges" if rec["scn"].get("edges2") is not None else "sameobject")]
simple("C06", genhist.gen_lap, 400, 6000,
       "Laplacian matrix / reduced matrix / entry queries; scripts built by constructor + set/update/get histories (10% unknown names); apply with entries up to 2^70 (products beyond 64 bit); observables: all entries, script after every step, apply result with type tags and JSON acceptance, additivity, operand digests",
       ["laplacian_symmetric", "row_sums_zero", "diagonal_is_valence", "offdiagonal_is_minus_multiplicity", "apply_eq_spec", "apply_additive", "apply_eq_sequential_moves", "script_set", "script_update"],
       "non-trivial: n>=2 and at least 3 script operations")
PROPS["C06"]["strata"] = lambda rec: [f"n={rec['scn'].get('n')}", f"mag={rec['scn'].get('_mag')}"]
