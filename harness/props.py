"""Per-property plans: which scenarios are generated, which observables are compared with the
model (`_cmp`), which of those the property itself constrains (`_rel`), what counts as a
non-trivial case, and how known findings are matched."""
import os, json, random, itertools
import core, gen

TRUSTED_BASE = [
    "Lean 4.33.0 kernel; Mathlib v4.33.0 definitions occurring in statements (Finset.sum, Fintype, order on Int)",
    "axioms accepted per theorem: propext, Classical.choice, Quot.sound (enforced by ChipFiring/Audit.lean)",
    "fidelity of the hand-written model: differential correspondence check against /repo's working tree (this run)",
    "harness: name<->index bijection, order extraction, canonicalisation (harness/pyside.py, harness/main.py)",
    "witness phase: what the implementation chose where the property leaves a choice (listed strategies, returned orientation, recorded snapshots, in-place results) is validated by executable checkers whose correctness is a theorem (C04.strategyWorks_exact, C07.linEquiv_exact, C09.checker_sound); the topological positions handed to the certificate checker are computed by the harness and need not be trusted (soundness of the checker holds for any positions)",
    "CPython 3.12 semantics of int/dict/set/sorted; behaviour of json, copy.deepcopy, itertools (exercised, not verified)",
]
ASSUMPTIONS = [
    "the theorems are about the Lean model; the tie to the code is the correspondence run of this check",
    "only raise-vs-return is compared for exceptions, not class or message",
]
NONTRIVIAL_RULE = {}
PROPS = {}


def corpus(pid):
    path = os.path.join(core.ROOT, "corpus", f"{pid}.jsonl")
    out = []
    if os.path.exists(path):
        for line in open(path):
            line = line.strip()
            if line and not line.startswith("#"):
                out.append(json.loads(line))
    return out


def match_known(findings, rec, detail, fails):
    for k in findings:
        m = k.get("match", {})
        s = rec["scn"]
        if m.get("op") and s.get("op") != m["op"]:
            continue
        f = MATCHERS.get(k["id"])
        if f and f(rec, detail, fails):
            return k
    return None


MATCHERS = {}


def nontrivial(pid, rec):
    f = PROPS[pid].get("nontrivial")
    return bool(f(rec)) if f else True


def strata(pid, rec):
    f = PROPS[pid].get("strata")
    return f(rec) if f else [rec["scn"].get("op", "?")]


# thorough tier: the case counts written below are multiplied per property so that each thorough
# run explores for minutes, not seconds (sizes such as nmax are left alone: values < 50)
THOROUGH_SCALE = {"default": 20, "C15": 1, "C17": 3, "C19": 2, "C03": 6, "C04": 6, "C14": 6, "C10": 8, "C11": 10, "C18": 10, "C13": 15, "C05": 15}
# quick tier: same idea, smaller factor (each quick check stays well under a minute)
QUICK_SCALE = {"default": 16, "C03": 10, "C04": 10, "C15": 2, "C17": 4, "C14": 6, "C19": 3, "C09": 10, "C10": 10, "C18": 10}
_CUR = {"pid": None}


def set_current(pid):
    _CUR["pid"] = pid


def count(tier, quick, thorough):
    if tier != "thorough":
        if quick < 50:
            return quick
        try:
            qs = float(os.environ.get("VERIF_QUICK_SCALE", QUICK_SCALE.get(_CUR["pid"], QUICK_SCALE["default"])))
        except ValueError:
            qs = QUICK_SCALE["default"]
        return max(1, int(quick * qs))
    if thorough < 50:
        return thorough
    k = THOROUGH_SCALE.get(_CUR["pid"], THOROUGH_SCALE["default"])
    try:
        k = float(os.environ.get("VERIF_THOROUGH_SCALE", k))
    except ValueError:
        pass
    return max(1, int(thorough * k))


def graph_nontrivial(s):
    n = s.get("n", 0)
    es = s.get("edges", [])
    multi = any(k > 1 for _, _, k in es) or len({(min(a, b), max(a, b)) for a, b, _ in es}) < len(es)
    cyc = sum(k for _, _, k in es) >= n
    return n >= 3 and (multi or cyc)


# ============================================================================ C01

def gen_ewd_cases(rng, N, nmax=6, viz_share=0.25, mag=4, modes=(False, True)):
    out = []
    for i in range(N):
        g, E = gen.gen_graph(rng, 2, nmax)
        d, band, debt = gen.gen_divisor(rng, g["n"], g["_genus"], mag=mag)
        order = list(range(g["n"]))
        rng.shuffle(order)
        for opt in modes:
            s = dict(g)
            s.update(op="ewd", deg=d, opt=opt, viz=(rng.random() < viz_share), dorder=order,
                     _band=gen.band_of(sum(d), g["_genus"]), _debt=debt)
            out.append(s)
    return out


def gen_chain_debt_cases(rng, N, modes=(False, True), viz_share=0.2):
    """the stratum in which incomplete debt concentration changes the *verdict*: chain-like
    multigraphs, total degree 0..g-1, heavy debt on several adjacent vertices"""
    out = []
    for i in range(N):
        n = rng.randint(3, 6)
        E = {}
        for v in range(n - 1):
            E[(v, v + 1)] = rng.randint(1, 4)
        if rng.random() < 0.3:
            a, b = sorted(rng.sample(range(n), 2))
            E[(a, b)] = E.get((a, b), 0) + rng.randint(1, 2)
        perm = list(range(n))
        rng.shuffle(perm)
        E = {(min(perm[a], perm[b]), max(perm[a], perm[b])): m for (a, b), m in E.items()}
        g = {"n": n, "edges": gen.present_edges(rng, E), "_kind": "chainmulti", "_genus": gen.genus_of(n, E)}
        mag = rng.choice([3, 5, 8])
        d = [rng.randint(-2 * mag, mag) for _ in range(n)]
        target = rng.randint(0, max(0, g["_genus"] - 1))
        j = rng.randrange(n)
        d[j] += target - sum(d)
        for opt in modes:
            s = dict(g)
            s.update(op="ewd", deg=d, opt=opt, viz=(rng.random() < viz_share),
                     _band=gen.band_of(sum(d), g["_genus"]), _debt="chainheavy")
            out.append(s)
    return out


def gen_long_path_debt_cases(rng, N, modes=(False,), op="ewd"):
    """deep debt far from the sink on long thin graphs (paths of 8..14 vertices, a few of them with
    extra leaves): debt concentration needs hundreds of sweeps there - far more than any bound
    that looks generous on small graphs"""
    out = []
    for _ in range(N):
        n = rng.randint(8, 14)
        spine = n if rng.random() < 0.7 else n - rng.randint(1, 2)
        E = {(v, v + 1): 1 for v in range(spine - 1)}
        for v in range(spine, n):
            E[(rng.randrange(1, spine - 1), v)] = 1
        d = rng.randint(13, 40) if spine >= 12 else rng.randint(25, 80) if spine >= 10 else rng.randint(100, 400)
        deg = [0] * n
        deg[0] = -(d + 1)
        deg[spine - 1] = -d
        for _k in range(rng.randint(0, 2)):
            deg[rng.randrange(1, spine - 1)] += rng.randint(0, 2)
        perm = list(range(n))
        r3 = rng.random()
        if r3 < 0.3:
            perm.reverse()          # names decrease away from the sink: a sweep in name order burns one vertex at a time
        elif r3 < 0.4:
            pass                    # names increase away from the sink: one sweep burns the whole path
        else:
            rng.shuffle(perm)
        E = {(min(perm[a], perm[b]), max(perm[a], perm[b])): m for (a, b), m in E.items()}
        deg2 = [0] * n
        for v in range(n):
            deg2[perm[v]] = deg[v]
        g = {"n": n, "edges": gen.present_edges(rng, E), "_kind": "longpath", "_genus": 0, "names": gen.gen_names(rng, n)}
        for opt in modes:
            s = dict(g)
            if op == "ewd":
                s.update(op="ewd", deg=deg2, opt=opt, viz=False, _band=gen.band_of(sum(deg2), 0), _debt="longpath", timeout=60)
            else:
                s.update(op="dhar", deg=deg2, q=perm[0], viz=False, _band=gen.band_of(sum(deg2), 0), _debt="longpath", timeout=60)
            out.append(s)
    return out


def gen_huge_bundle_cases(rng, N, modes=(False, True)):
    """edge bundles and chip counts far beyond double precision (2^53..2^60); divisors are built as
    E - L*s from a small effective E and a small script s (or one chip short of that), so the runs
    stay short while every intermediate number is huge"""
    out = []
    for _ in range(N):
        n = rng.randint(3, 4)
        E = {}
        perm = list(range(n))
        rng.shuffle(perm)
        for i in range(1, n):
            a, b = perm[rng.randrange(i)], perm[i]
            E[(min(a, b), max(a, b))] = 2 ** rng.randint(53, 60) + rng.randint(1, 9)
        if rng.random() < 0.7:
            a, b = rng.sample(range(n), 2)
            E[(min(a, b), max(a, b))] = E.get((min(a, b), max(a, b)), 0) + 2 ** rng.randint(50, 58) + rng.randint(0, 5)
        eff = [rng.randint(0, 3) for _ in range(n)]
        if rng.random() < 0.5:
            eff[rng.randrange(n)] -= 1          # possibly one chip short
        d = genhist.apply_script(n, E, eff, [rng.randint(-2, 2) for _ in range(n)])
        g = {"n": n, "edges": gen.present_edges(rng, E, split=False), "_kind": "hugebundle", "_genus": gen.genus_of(n, E)}
        for opt in modes:
            sc = dict(g)
            sc.update(op="ewd", deg=d, opt=opt, viz=False, _band=gen.band_of(sum(d), g["_genus"]), _debt="huge")
            out.append(sc)
    return out


def gen_long_run_cases(rng, N, modes=(False,)):
    """a large pile of chips far from the sink over thin edges: thousands of firing rounds"""
    out = []
    for _ in range(N):
        n = rng.choice([2, 2, 3])
        E = {(i, i + 1): 1 for i in range(n - 1)}
        if n == 2:
            d = [-1, rng.randint(900, 2600)]
        else:
            d = [-1, 0, rng.randint(500, 1100)]
        if rng.random() < 0.5:
            d.reverse()
            E = {(n - 2 - i, n - 1 - i): 1 for i in range(n - 1)}
        g = {"n": n, "edges": gen.present_edges(rng, E, split=False), "_kind": "longrun", "_genus": 0}
        for opt in modes:
            sc = dict(g)
            sc.update(op="ewd", deg=d, opt=opt, viz=False, _band="high", _debt="pile", timeout=120)
            out.append(sc)
    return out


def c01_generate(rng, tier):
    scns = gen_ewd_cases(rng, count(tier, 250, 4000), nmax=count(tier, 6, 8))
    scns += gen_chain_debt_cases(rng, count(tier, 100, 2000))
    scns += gen_huge_bundle_cases(rng, count(tier, 60, 600))
    scns += gen_long_run_cases(rng, count(tier, 6, 40))
    for s in scns:
        s["_cmp"] = ["verdict"]
    # the wrappers, and the same question asked again after the graph object changed
    api = genhist.gen_api(rng, count(tier, 150, 2000), nmax=count(tier, 6, 7))
    for s in api:
        s["_cmp"] = ["is_winnable"]
    hist = genhist.gen_winnable_hist(rng, count(tier, 150, 2000))
    for s in hist:
        s["_cmp"] = ["verdicts"]
    return scns + api + hist


def ewd_strata(rec):
    s = rec["scn"]
    return [f"band={s.get('_band')}", f"debt={s.get('_debt')}", f"opt={s.get('opt')}", f"n={s.get('n')}", f"kind={s.get('_kind')}"]


def ewd_nontrivial(rec):
    l = rec["lean"]
    return graph_nontrivial(rec["scn"]) and isinstance(l, dict) and l.get("D") is not None


NONTRIVIAL_RULE["C01"] = "non-trivial: n>=3, a multi-edge or a cycle, and the non-shortcut path ran; distinct by canonical scenario"
PROPS["C01"] = {
    "generate": c01_generate,
    "strata": ewd_strata,
    "nontrivial": ewd_nontrivial,
    "rule": "random + named-family connected multigraphs (n<=6 quick / 8 thorough, multiplicities<=4, edges shuffled/flipped/split), divisors stratified by degree band x debt pattern, both modes, recording on for a share",
    "theorems": ["ewd_plain_verdict_exact", "ewd_optimized_verdict_exact", "ewd_modes_agree", "isWinnable_exact", "verdict_exact", "ewd_terminates"],
}


# ============================================================================ object machines
import genhist  # noqa: E402


def hist_nontrivial(rec):
    s = rec["scn"]
    return len(s.get("ops", s.get("sops", s.get("queries", [])))) >= 3 and s.get("n", 0) >= 2 and isinstance(rec["lean"], dict) and rec["lean"].get("ctor") != "ERR"


def hist_strata(rec):
    s = rec["scn"]
    labs = [f"n={s.get('n')}", f"kind={s.get('_kind')}"]
    for o in s.get("ops", s.get("sops", [])):
        labs.append(f"op={o[0]}")
    l = rec["lean"]
    if isinstance(l, dict):
        if l.get("ctor") == "ERR":
            labs.append("ctor=ERR")
        for st in l.get("steps", []):
            if st.get("r") == "ERR" or st.get("ok") is False:
                labs.append("refused-op")
    return labs


def simple(pid, genf, quick, thorough, rule, theorems, nontriv_rule, **kw):
    def generate(rng, tier):
        return genf(rng, count(tier, quick, thorough), **({k: v[1] if tier == "thorough" else v[0] for k, v in kw.items()}))
    NONTRIVIAL_RULE[pid] = nontriv_rule
    PROPS[pid] = {"generate": generate, "strata": hist_strata, "nontrivial": hist_nontrivial, "rule": rule, "theorems": theorems}


simple("C13", genhist.gen_graph_hist, 500, 8000,
       "graph histories: constructor (possibly refused) then up to 12/40 add_edge / add_edges / get_valence / remove_vertex requests, ~25% invalid (loop, non-positive multiplicity, unknown endpoint), both endpoint orders, repeated pairs; observables after every step: to_dict, every cached valence, total_valence, genus",
       ["history_invariant", "constructed_wf", "genus_is_E_minus_V_plus_one", "accepted_add", "refused_add_unchanged", "addEdges_prefix", "removeVertex_wf", "remove_vertex_is_induced", "remove_vertex_valences"],
       "non-trivial: >=3 operations on >=2 vertices with an accepted constructor", maxops=(12, 40))
simple("C05", genhist.gen_div_hist, 500, 8000,
       "divisor/configuration histories: up to 25/100 lend, borrow, set_fire, chip_transfer requests through CFDivisor and CFConfig (~20% invalid); observables after every step: every degree, cached total, is_effective",
       ["lend_is_laplacian_column", "borrow_inverse", "set_fire_eq_sequential", "fire_all_is_identity", "moves_commute", "history_conserves", "constructor_total"],
       "non-trivial: >=3 operations on >=2 vertices", maxops=(25, 100), big=(False, True))
simple("C12", genhist.gen_div_arith, 500, 8000,
       "pairs/triples of divisors (magnitudes up to 2^70), scalars up to 2^70, second operand on the same graph object / an equal copy / other edges / another vertex set; observables: +, -, neg, k*, ==, chip, zero, nested sums, operand digests afterwards",
       ["add_vertexwise", "add_comm'", "add_assoc'", "add_zero'", "add_neg'", "smul_smul", "total_additive", "chip_is_unit", "unit_decomposition", "eq_iff", "mismatch_rejected"],
       "non-trivial: n>=2")
PROPS["C12"]["nontrivial"] = lambda rec: rec["scn"].get("n", 0) >= 2
PROPS["C12"]["strata"] = lambda rec: [f"n={rec['scn'].get('n')}", "second=" + ("othervset" if rec["scn"].get("names2") is not None else "otheredges" if rec["scn"].get("edges2") is not None else "sameobject")]
simple("C06", genhist.gen_lap, 400, 6000,
       "Laplacian matrix / reduced matrix / entry queries; scripts built by constructor + set/update/get histories (10% unknown names); apply with entries up to 2^70 (products beyond 64 bit); observables: all entries, script after every step, apply result with type tags and JSON acceptance, additivity, operand digests",
       ["laplacian_symmetric", "row_sums_zero", "diagonal_is_valence", "offdiagonal_is_minus_multiplicity", "apply_eq_spec", "apply_additive", "apply_eq_sequential_moves", "script_set", "script_update"],
       "non-trivial: n>=2 and at least 3 script operations")
PROPS["C06"]["strata"] = lambda rec: [f"n={rec['scn'].get('n')}", f"mag={rec['scn'].get('_mag')}"]


# ============================================================================ algorithm family

def normalise_cmp(s):
    """observables that the properties leave open are never compared with the model: which
    winning strategies gonality() lists (they are validated instead, see `witnesses`)"""
    if s.get("op") == "gonality":
        c = s.get("_cmp")
        s["_cmp"] = ["gonality", "graph"] if c is None else [k for k in c if k != "strategies"]
        if s.get("_rel") is not None:
            s["_rel"] = [k for k in s["_rel"] if k != "strategies"]
    return s


def _connected(s):
    n, es = s.get("n"), s.get("edges")
    if not isinstance(n, int) or not isinstance(es, list) or n <= 0:
        return False
    comp = list(range(n))

    def find(x):
        while comp[x] != x:
            comp[x] = comp[comp[x]]
            x = comp[x]
        return x
    for e in es:
        if not (isinstance(e, (list, tuple)) and len(e) == 3 and all(isinstance(t, int) for t in e)):
            return False
        a, b, k = e
        if not (0 <= a < n and 0 <= b < n) or a == b or k <= 0:
            return False
        comp[find(a)] = find(b)
    return len({find(v) for v in range(n)}) == 1


def witnesses(rec, pid=None):
    """second phase: things the implementation CHOSE (the property leaves the choice open) are
    handed to the verified model for validation.  Returns [{scn, check, what}], `check` maps the
    model's answer to a failure text or None."""
    s = rec["scn"]
    out = []
    g = {k: s[k] for k in ("n", "edges") if k in s}
    seen = set()
    if not _connected(s):
        return out          # the verified reduction is only guaranteed to return on connected graphs
    for hs, p in rec["py"].items():
        if not isinstance(p, dict):
            continue
        if s.get("op") == "gonality" and isinstance(p.get("strategies"), list) and isinstance(p.get("gonality"), int) and p["gonality"] >= 1:
            for st in p["strategies"][:5]:
                key = ("g", tuple(st))
                if key in seen:
                    continue
                seen.add(key)
                if sum(st) != p["gonality"] or any(x < 0 for x in st):
                    out.append({"scn": None, "fail": f"reported strategy {st} is not an effective placement of {p['gonality']} chips"})
                    continue
                w = dict(g, op="play", P=list(st), nchips=sum(st), v=0)

                def chk(o, st=st):
                    t = o.get("test") if isinstance(o, dict) else None
                    if isinstance(t, list) and t and t[0] is True:
                        return None
                    return f"reported winning strategy {st} does not beat every opponent vertex (verified strategy test: {t})"
                out.append({"scn": w, "check": chk})
        if pid == "C16" and len(s.get("deg", [])) == s.get("n"):
            # in-place family: whatever the caller's divisor was replaced by must be linearly
            # equivalent to what was handed in
            for key in ("arg", "is_winnable_arg", "q_reduction_arg", "after_debt", "after_fire"):
                v = p.get(key)
                if isinstance(v, list) and len(v) == s["n"] and list(v) != list(s["deg"]) and ("a", tuple(v)) not in seen:
                    seen.add(("a", tuple(v)))
                    w = dict(g, op="lin_equiv", D1=list(s["deg"]), D2=list(v))

                    def chk3(o, v=v, key=key):
                        if isinstance(o, dict) and o.get("equiv") is True:
                            return None
                        return f"{key}: the caller's divisor was replaced by {v}, which is not linearly equivalent to the input (verified test: {o.get('equiv') if isinstance(o, dict) else o})"
                    out.append({"scn": w, "check": chk3})
        if pid in ("C09", "C01", "C02") and s.get("op") == "ewd" and isinstance(p.get("orient"), list) and p["orient"] and isinstance(p.get("D"), list):
            # the returned orientation goes to the verified certificate checker (C09.checker_sound);
            # topological positions are computed here (untrusted): Kahn
            n = s["n"]
            dirs = {(u, v) for u, v in p["orient"]}
            key = ("c", tuple(sorted(dirs)), tuple(p["D"]))
            if key not in seen:
                seen.add(key)
                indeg = {v: sum(1 for u in range(n) if (u, v) in dirs) for v in range(n)}
                order, stack = [], [v for v in range(n) if indeg[v] == 0]
                while stack:
                    u = stack.pop()
                    order.append(u)
                    for v in range(n):
                        if (u, v) in dirs:
                            indeg[v] -= 1
                            if indeg[v] == 0:
                                stack.append(v)
                srcs = [v for v in range(n) if not any((u, v) in dirs for u in range(n))]
                qv = p.get("q") if p.get("q") is not None else (srcs[0] if len(srcs) == 1 else None)
                if len(order) != n:
                    out.append({"scn": None, "fail": "the returned orientation has a directed cycle"})
                elif qv is None:
                    out.append({"scn": None, "fail": f"the returned orientation has sources {srcs}: expected exactly one"})
                else:
                    pos = [0] * n
                    for i, v in enumerate(order):
                        pos[v] = i
                    w = dict(g, op="cert", q=qv, D=list(p["D"]), orient=[list(e) for e in p["orient"]], pos=pos)

                    def chk4(o, p=p):
                        if isinstance(o, dict) and o.get("ok") is True:
                            if p.get("indeg") is not None and o.get("indeg") != p["indeg"]:
                                return f"reported in-degree counters {p['indeg']} differ from the orientation's in-degrees {o.get('indeg')}"
                            return None
                        return f"the returned orientation is not a certificate (verified checker: {o}); divisor {p['D']}"
                    out.append({"scn": w, "check": chk4})
        if s.get("op") in ("ewd", "dhar") and s.get("viz"):
            snaps = p.get("trace") if s["op"] == "ewd" else p.get("borrows")
            if isinstance(snaps, list) and snaps and len(s.get("deg", [])) == s.get("n"):
                pick = snaps[:3] + snaps[len(snaps) // 2: len(snaps) // 2 + 1] + snaps[-2:]
                for sn in pick:
                    key = ("t", tuple(sn))
                    if key in seen or list(sn) == list(s["deg"]):
                        continue
                    seen.add(key)
                    w = dict(g, op="lin_equiv", D1=list(s["deg"]), D2=list(sn))

                    def chk2(o, sn=sn):
                        if isinstance(o, dict) and o.get("equiv") is True:
                            return None
                        return f"recorded snapshot {sn} is not linearly equivalent to the input (verified test: {o.get('equiv') if isinstance(o, dict) else o})"
                    out.append({"scn": w, "check": chk2})
    return out


def tag_cmp(scns, cmp_keys, rel=None):
    for s in scns:
        s["_cmp"] = cmp_keys
        if rel is not None:
            s["_rel"] = rel
    return scns


def algo_strata(rec):
    s = rec["scn"]
    labs = [f"op={s.get('op')}", f"n={s.get('n')}", f"kind={s.get('_kind')}"]
    for k in ("_band", "_debt", "opt", "pool", "_pair", "_second", "strat", "max"):
        if k in s:
            labs.append(f"{k.strip('_')}={s[k]}")
    return labs


def algo_nontrivial(rec):
    l = rec["lean"]
    return graph_nontrivial(rec["scn"]) and l not in ("ERR", "NOFUEL")


# ---- C02
def gen_uniform_debt_cases(rng, N, nmin=4, nmax=6, mag=3):
    """debt anywhere: every chip count uniform in [-mag, mag] (several indebted vertices at once,
    sweeps in which a borrow re-indebts an already processed vertex)"""
    out = []
    for _ in range(N):
        g, E = gen.gen_graph(rng, nmin, nmax, names=(rng.random() < 0.3))
        d = [rng.randint(-mag, mag) for _ in range(g["n"])]
        s = dict(g)
        s.update(op="ewd", deg=d, opt=False, viz=False, _band=gen.band_of(sum(d), g["_genus"]), _debt="uniform")
        out.append(s)
    return out


def c02_generate(rng, tier):
    a = gen_ewd_cases(rng, count(tier, 300, 3000), nmax=count(tier, 6, 8), viz_share=0, modes=(False,))
    a += gen_chain_debt_cases(rng, count(tier, 60, 1000), modes=(False,), viz_share=0)
    a += gen_uniform_debt_cases(rng, count(tier, 900, 8000), nmax=count(tier, 6, 7))
    a += gen_long_path_debt_cases(rng, count(tier, 16, 96))
    tag_cmp(a, ["D", "verdict"], rel=["verdict"])
    b = genhist.gen_api(rng, count(tier, 200, 3000), nmax=count(tier, 6, 7))
    tag_cmp(b, ["q_reduction", "is_q_reduced", "is_winnable"], rel=["is_winnable"])
    return a + b


def c02_judge(rec):
    """the property itself: the reduced divisor must be the q-reduced representative for SOME
    vertex q of minimum degree in the input; is_q_reduced must say whether the input is that"""
    s, l = rec["scn"], rec["lean"]
    fails = []
    for hs, p in rec["py"].items():
        if not isinstance(p, dict) or not isinstance(l, dict):
            continue
        if s["op"] == "ewd" and l.get("_reduced_by_sink") is not None:
            allowed = [x[1] for x in l["_reduced_by_sink"] if x]
            if p.get("D") is not None and p["D"] not in allowed:
                fails.append(f"returned divisor {p['D']} is not the q-reduced form of the input for any minimum-degree sink (allowed: {allowed})")
            if p.get("D") is not None and p.get("verdict") != all(x >= 0 for x in p["D"]):
                fails.append("verdict differs from 'the output has no debt'")
        if s["op"] == "api" and l.get("_spec_is_q_reduced") is not None:
            if p.get("is_q_reduced") != l["_spec_is_q_reduced"]:
                fails.append(f"is_q_reduced returned {p.get('is_q_reduced')} but the input {'is' if l['_spec_is_q_reduced'] else 'is not'} its own q-reduced representative")
    return fails


def k1_matcher(rec, detail, fails):
    """K1: is_q_reduced returns True on a divisor that is not q-reduced (and nothing else is wrong)"""
    if rec["scn"].get("op") != "api" or detail is not None:
        return False
    l = rec["lean"]
    ok = all(isinstance(p, dict) and p.get("is_q_reduced") is True for p in rec["py"].values())
    return ok and l.get("_spec_is_q_reduced") is False and all("is_q_reduced returned True" in f for f in fails)


MATCHERS["K1"] = k1_matcher
NONTRIVIAL_RULE["C02"] = "non-trivial: n>=3 with a multi-edge or cycle and the reduction ran"
PROPS["C02"] = {"generate": c02_generate, "judge": c02_judge, "strata": algo_strata, "nontrivial": algo_nontrivial,
                "rule": "EWD plain mode and the q_reduction / is_q_reduced / is_winnable wrappers on generated connected multigraphs x divisors (debt on several vertices, ties for the minimum); oracle: the verified reduction w.r.t. every minimum-degree sink",
                "theorems": ["qred_linEq", "qred_sink_is_min", "qred_is_qreduced", "qred_unique", "verdict_iff_no_debt_at_q", "isQReducedApi_const", "isQReduced_refuted", "isQReduced_partial", "q_reduction_spec"]}


# ---- C03
def c03_generate(rng, tier):
    a = genhist.gen_rank(rng, count(tier, 150, 1500), nmax=count(tier, 5, 6), maxdeg=count(tier, 5, 7))
    a += genhist.gen_rank_special(rng, count(tier, 120, 1500))
    if tier == "thorough":
        for s in a[:40]:
            s["pool"] = "real"
    else:
        for s in a[:6]:
            s["pool"] = "real"
    return tag_cmp(a, ["rank"])


NONTRIVIAL_RULE["C03"] = "non-trivial: n>=3 with a multi-edge or cycle, winnable input (rank loop ran)"
PROPS["C03"] = {"generate": c03_generate, "strata": algo_strata,
                "nontrivial": lambda rec: algo_nontrivial(rec) and isinstance(rec["lean"], dict) and rec["lean"].get("rank") not in (-1, "ERR"),
                "rule": "rank()/r() in both modes on generated connected multigraphs, divisors from all four degree bands, worker pool real (fails to pickle -> fallback) / stubbed to fail at once / replaced by a thread pool (pool path exercised)",
                "theorems": ["rank_unique", "rank_linEq_invariant", "good_degrees_downward_closed", "rank_plain_exact", "rank_optimized_exact_low", "rank_optimized_band_partial", "riemann_roch", "rank_exists", "rank_above_canonical_degree", "rank_optimized_exact", "rank_modes_agree", "computed_riemann_roch"]}


# ---- C04
def c04_generate(rng, tier):
    a = genhist.gen_gonality(rng, count(tier, 60, 600), nmax=count(tier, 5, 6))
    a += genhist.gen_play(rng, count(tier, 150, 2000))
    a += genhist.gen_dhar_strategy(rng, count(tier, 150, 2000))
    a += genhist.gen_enhanced_dhar(rng, count(tier, 60, 600), nmax=count(tier, 5, 6))
    a += genhist.gen_dhar_batch(rng, count(tier, 100, 1000))
    return tag_cmp(a, None)


NONTRIVIAL_RULE["C04"] = "non-trivial: n>=3 with a multi-edge or cycle"
PROPS["C04"] = {"generate": c04_generate, "strata": algo_strata, "nontrivial": algo_nontrivial,
                "rule": "gonality() with/without strategies and cut-offs 0..n+1; single games and strategy tests on placements (also non-effective, wrong chip count, unknown opponent vertex); per-sink Dhar strategy tests and minimal-strategy search for every sink",
                "theorems": ["playGame_exact", "strategyWorks_exact", "winnable_mono", "all_ones_wins", "computeGonality_exact", "gonality_unique", "dharTestStrategy_exact", "per_sink_search_exact", "minimal_strategies_exact", "all_ones_wins"]}


# ---- C07
def c07_generate(rng, tier):
    return tag_cmp(genhist.gen_lin_equiv(rng, count(tier, 400, 6000), nmax=count(tier, 6, 8)), ["equiv"])


NONTRIVIAL_RULE["C07"] = "non-trivial: n>=3 with a multi-edge or cycle and the two divisors differ"
PROPS["C07"] = {"generate": c07_generate, "strata": algo_strata,
                "nontrivial": lambda rec: algo_nontrivial(rec) and rec["scn"]["D1"] != rec["scn"]["D2"],
                "rule": "pairs: identical / related by a random integer script / same degree other class / different degree; second divisor on the same graph object, on a separately built equal copy, or on another multigraph",
                "theorems": ["linEquiv_exact", "linEq_is_equivalence", "linEq_invariant_under_moves", "not_linEq_of_deg_ne"]}


# ---- C08
def c08_generate(rng, tier):
    a = genhist.gen_dhar(rng, count(tier, 400, 6000), nmax=count(tier, 6, 8))
    a += gen_long_path_debt_cases(rng, count(tier, 16, 96), op="dhar")
    # the sequence of recorded borrowing steps is not compared: only its result is pinned down
    # (least action); the recorded snapshots are C18's business
    return tag_cmp(a, ["after_debt", "unburnt", "after_fire", "superstable", "argtotal", "direct_unburnt", "direct_after"])


NONTRIVIAL_RULE["C08"] = "non-trivial: n>=3 with a multi-edge or cycle"
PROPS["C08"] = {"generate": c08_generate, "strata": algo_strata, "nontrivial": algo_nontrivial,
                "rule": "DharAlgorithm on generated connected multigraphs x every sink x divisors with debt anywhere: send_debt_to_q, run, get_maximal_legal_firing_set, legal_set_fire, is_superstable of the concentrated configuration",
                "theorems": ["send_debt_spec", "burn_is_max_legal", "fire_unburnt_debt_free", "burn_empty_iff_superstable", "send_debt_total"]}


# ---- C09
def c09_generate(rng, tier):
    a = gen_ewd_cases(rng, count(tier, 300, 4000), nmax=count(tier, 6, 8), viz_share=0.5)
    a += gen_chain_debt_cases(rng, count(tier, 60, 1000))
    a += gen_long_run_cases(rng, count(tier, 6, 40))
    a += gen_long_path_debt_cases(rng, count(tier, 12, 60))        # burns that take more than ten sweeps
    # which certificate is returned is not pinned down by the property (any valid burn order gives
    # one): the orientation is not compared with the model's edge by edge, it is checked to BE a
    # certificate (c09_judge); verdict, fullness and the reduced divisor are compared
    return tag_cmp(a, ["full", "verdict", "D"])


def c09_judge(rec):
    """certificate checked on the implementation's own output"""
    s = rec["scn"]
    fails = []
    n = s["n"]
    adj = [[0] * n for _ in range(n)]
    for a, b, k in s["edges"]:
        adj[a][b] += k
        adj[b][a] += k
    for hs, p in rec["py"].items():
        if not isinstance(p, dict) or p.get("orient") is None:
            continue
        dirs = {(u, v) for u, v in p["orient"]}
        for u in range(n):
            for v in range(u + 1, n):
                if adj[u][v] and ((u, v) in dirs) == ((v, u) in dirs):
                    fails.append(f"edge {u}-{v} is not oriented exactly one way")
        indeg = [sum(adj[u][v] for u in range(n) if (u, v) in dirs) for v in range(n)]
        if indeg != p["indeg"]:
            fails.append("reported in-degrees differ from the orientation")
        # acyclic: Kahn
        rem, deg_in = set(range(n)), {v: sum(1 for u in range(n) if (u, v) in dirs) for v in range(n)}
        srcs = [v for v in range(n) if deg_in[v] == 0]
        if len(srcs) != 1:
            fails.append(f"sources {srcs}: expected exactly one")
        order = []
        stack = list(srcs)
        while stack:
            u = stack.pop()
            order.append(u)
            for v in range(n):
                if (u, v) in dirs:
                    deg_in[v] -= 1
                    if deg_in[v] == 0:
                        stack.append(v)
        if len(order) != n:
            fails.append("orientation has a directed cycle")
        if len(srcs) == 1:
            q = srcs[0]
            D = p["D"]
            for v in range(n):
                if v != q and not D[v] < indeg[v]:
                    fails.append(f"vertex {v} holds {D[v]} chips, in-degree {indeg[v]}")
            if p["verdict"] is False and not all(D[v] <= indeg[v] - 1 for v in range(n)):
                fails.append("unwinnable verdict but the divisor is not dominated by in-degree minus one")
    return fails


NONTRIVIAL_RULE["C09"] = "non-trivial: n>=3 with a multi-edge or cycle and an orientation was returned"
PROPS["C09"] = {"generate": c09_generate, "judge": c09_judge, "strata": ewd_strata, "nontrivial": ewd_nontrivial,
                "rule": "EWD in both modes (orientation returned on the non-shortcut path); verdict, fullness and reduced divisor compared with the model; every returned orientation is checked directly to be the certificate the property describes: full, acyclic, unique source, in-degree bound, counters consistent, domination (which valid certificate is returned is left open, so a different but valid burn order raises no alarm)",
                "theorems": ["ewd_orientation_certificate", "unwinnable_dominated", "never_not_full", "certificate_connected", "checker_sound", "checker_proves_unwinnable"]}


# ---- C14
def c14_generate(rng, tier):
    a = genhist.gen_greedy(rng, count(tier, 250, 3000), nmax=count(tier, 6, 8))
    # the smallest games: one vertex (no edge at all) with debt, no chips, chips
    for k in (-3, -1, 0, 2):
        a.append({"op": "greedy", "n": 1, "edges": [], "names": gen.gen_names(rng, 1), "deg": [k], "_kind": "single", "_genus": 0,
                  "_band": gen.band_of(k, 0), "_debt": "single"})
    seeds = ["0", "1", "2"] if tier == "quick" else [str(i) for i in range(16)]
    for s in a:
        s["_seeds"] = seeds
    return tag_cmp(a, ["success", "script", "final", "certificate", "arg", "again"])


NONTRIVIAL_RULE["C14"] = "non-trivial: n>=3 with a multi-edge or cycle and at least one indebted vertex"
PROPS["C14"] = {"generate": c14_generate, "strata": algo_strata,
                "nontrivial": lambda rec: algo_nontrivial(rec) and any(x < 0 for x in rec["scn"]["deg"]),
                "rule": "GreedyAlgorithm.play on generated connected multigraphs x divisors (debt magnitudes up to 12 so that the 10|V| budget is straddled), plus long-haul cases needing between one and two budgets; play() is asked twice on the same solver (the second script must still certify the original divisor); each case under 3 (quick) / 16 (thorough) PYTHONHASHSEED values so that the visiting order varies; the certificate is re-checked through the implementation's own CFLaplacian.apply",
                "theorems": ["success_certificate", "order_irrelevant", "failure_only_if_unwinnable_or_capped", "winnable_has_clearing_script", "resumed_play_certificate"]}


# ---- C17
def permute_case(rng, base, E, d):
    """the same mathematical input under another vertex naming: sigma maps old index -> new index"""
    n = base["n"]
    sigma = list(range(n))
    rng.shuffle(sigma)
    E2 = {(min(sigma[a], sigma[b]), max(sigma[a], sigma[b])): m for (a, b), m in E.items()}
    d2 = [0] * n
    for i in range(n):
        d2[sigma[i]] = d[i]
    order = list(range(n))
    rng.shuffle(order)
    s = {"n": n, "edges": gen.present_edges(rng, E2), "names": gen.gen_names(rng, n), "vlist": order,
         "vaslist": rng.random() < 0.3, "_kind": base.get("_kind"), "_genus": base.get("_genus"), "_sigma": sigma}
    return s, d2


def c17_generate(rng, tier):
    seeds = ["0", "1", "2"] if tier == "quick" else [str(i) for i in range(16)]
    out = []
    gid = 0
    for i in range(count(tier, 120, 1500)):
        g, E = gen.gen_graph(rng, 2, count(tier, 5, 6))
        n = g["n"]
        kind = rng.choice(["ewd", "ewd", "api", "rank", "gonality", "lin_equiv"])
        d, band, debt = gen.gen_divisor(rng, n, g["_genus"], mag=3, debt=rng.choice(["tiemin", "tiemin", "any", "heavy"]))
        if rng.random() < 0.25:
            # every vertex holds chips, unique minimum somewhere
            d = [rng.randint(2, 5) for _ in range(n)]
            d[rng.randrange(n)] = 1
            debt = "allpositive"
        if kind == "rank" and sum(d) > 5:
            d[rng.randrange(n)] -= sum(d) - 5
        d2 = genhist.apply_script(n, E, d, genhist.random_script(rng, n)) if rng.random() < 0.5 else [x + rng.choice([0, 0, 1, -1]) for x in d]
        if rng.random() < 0.12:
            # edge bundles beyond double precision, borderline divisors (an effective divisor, or one
            # chip short of it, moved by a small script): any floating-point step depends on the order
            # the vertices are laid out in, i.e. on their names
            n = rng.randint(3, 4)
            E = {}
            perm = list(range(n))
            rng.shuffle(perm)
            for i2 in range(1, n):
                a, b = perm[rng.randrange(i2)], perm[i2]
                E[(min(a, b), max(a, b))] = 2 ** rng.randint(53, 60) + rng.randint(1, 9)
            if rng.random() < 0.7:
                a, b = rng.sample(range(n), 2)
                E[(min(a, b), max(a, b))] = E.get((min(a, b), max(a, b)), 0) + 2 ** rng.randint(50, 58) + rng.randint(0, 5)
            eff = [rng.randint(0, 3) for _ in range(n)]
            if rng.random() < 0.5:
                eff[rng.randrange(n)] -= 1
            d = genhist.apply_script(n, E, eff, [rng.randint(-2, 2) for _ in range(n)])
            d2 = list(eff)
            order0 = list(range(n))
            rng.shuffle(order0)
            g = {"n": n, "edges": gen.present_edges(rng, E, split=False), "names": gen.gen_names(rng, n), "vlist": order0, "vaslist": False,
                 "_kind": "hugebundle", "_genus": gen.genus_of(n, E)}
            kind = rng.choice(["api", "lin_equiv", "ewd_opt"])
            debt = "huge"
        gid += 1
        variants = [(dict(g, _sigma=list(range(n))), d, d2)]
        for _ in range(2):
            v, dd = permute_case(rng, g, E, d)
            dd2 = [0] * n
            for j in range(n):
                dd2[v["_sigma"][j]] = d2[j]
            variants.append((v, dd, dd2))
        for v, dd, dd2 in variants:
            s = dict(v)
            order = list(range(n))
            rng.shuffle(order)
            if kind == "ewd":
                s.update(op="ewd", deg=dd, opt=False, viz=False, dorder=order, _cmp=["verdict", "D"])
            elif kind == "ewd_opt":
                s.update(op="ewd", deg=dd, opt=True, viz=False, dorder=order, _cmp=["verdict"])
            elif kind == "api":
                s.update(op="api", deg=dd, _cmp=["is_winnable", "q_reduction"])
            elif kind == "rank":
                s.update(op="rank", deg=dd, opt=rng.random() < 0.5, pool="stub", _cmp=["rank"])
            elif kind == "gonality":
                s.update(op="gonality", strat=False, max=None, _cmp=["gonality"])
            else:
                s.update(op="lin_equiv", D1=dd, D2=dd2, _cmp=["equiv"])
                if rng.random() < 0.6:
                    # the second divisor lives on an equal copy of the graph, presented differently
                    e2 = [list(e) for e in s["edges"]]
                    rng.shuffle(e2)
                    s["edges2"] = [[b, a, k] if rng.random() < 0.5 else [a, b, k] for a, b, k in e2]
            s["_group"] = gid
            s["_seeds"] = seeds
            s["_debt"] = debt
            s["_uniquemin"] = sorted(d)[0] != sorted(d)[1] if n > 1 else True
            out.append(s)
    return out


def c17_group_judge(recs):
    """cross-seed / cross-labelling comparison on the implementation itself"""
    groups = {}
    for r in recs:
        g = r["scn"].get("_group")
        if g is not None:
            groups.setdefault(g, []).append(r)
    bad = []
    for g, rs in groups.items():
        seen = {}
        for r in rs:
            s = r["scn"]
            sigma = s["_sigma"]
            inv = [0] * len(sigma)
            for i, j in enumerate(sigma):
                inv[j] = i
            for hs, p in r["py"].items():
                if not isinstance(p, dict):
                    key = ("raw", json.dumps(p))
                    obs = {"raw": p}
                else:
                    obs = {}
                    for k in ("verdict", "is_winnable", "rank", "gonality", "equiv"):
                        if k in p:
                            obs[k] = p[k]
                    for k in ("D", "q_reduction"):
                        if k in p and isinstance(p[k], list) and s.get("_uniquemin"):
                            obs[k] = [p[k][sigma[i]] for i in range(len(sigma))]   # back to base labelling
                        elif k in p and isinstance(p[k], list):
                            # ties for the minimum: the value must at least not depend on the hash seed
                            obs[k + "@" + json.dumps(sigma)] = p[k]
                for k, v in obs.items():
                    if k in seen and seen[k][0] != v:
                        bad.append((r, [f"{k}: {v} (hash seed {hs}, labelling {sigma}) vs {seen[k][0]} (hash seed {seen[k][1]}, labelling {seen[k][2]}) for the same mathematical input"]))
                        break
                    seen.setdefault(k, (v, hs, sigma))
    return bad


NONTRIVIAL_RULE["C17"] = "non-trivial: n>=3 with a multi-edge or cycle"
PROPS["C17"] = {"generate": c17_generate, "group_judge": c17_group_judge, "strata": algo_strata, "nontrivial": algo_nontrivial,
                "rule": "each mathematical input is presented three ways (vertex renaming that changes the sorted order, permuted vertex/edge/degree lists, swapped endpoints) and run under 3 (quick) / 16 (thorough) PYTHONHASHSEED values: EWD, is_winnable, q_reduction, rank, gonality, linear_equivalence; all answers must coincide with the model's single answer and with each other (reduced divisor renamed accordingly when the minimum is unique; never seed-dependent)",
                "theorems": ["ewd_orders_irrelevant", "winnable_perm", "linEq_perm", "rank_perm", "gonality_perm", "qreduced_perm", "reduced_divisor_perm", "sink_perm"]}


# ---- C10
def c10_generate(rng, tier):
    a = genhist.gen_config(rng, count(tier, 150, 1500), nmax=count(tier, 5, 6))
    # configuration objects queried again after moves (is_superstable / legality on a live object)
    a += [s for s in genhist.gen_div_hist(rng, count(tier, 200, 3000), p_bad=0.05) if s.get("q") is not None]
    a += genhist.gen_cfg_requery(rng, count(tier, 300, 3000), nmax=count(tier, 5, 6))
    a += genhist.gen_config_large(rng, count(tier, 30, 300))
    a += genhist.gen_parking(rng, count(tier, 400, 5000))
    # every sequence over [0..n+1]^n for small n, with and without explicit n
    import itertools as it
    for n in range(0, count(tier, 4, 5)):
        for seq in it.product(range(0, n + 2), repeat=n):
            a.append({"op": "parking", "seq": list(seq), "n": None})
            if tier == "thorough" or rng.random() < 0.2:
                a.append({"op": "parking", "seq": list(seq), "n": n})
    for m in range(1, count(tier, 4, 5)):
        a.append({"op": "kn_parking", "m": m})
    for _ in range(count(tier, 25, 200)):
        g, E = gen.gen_graph(rng, 2, count(tier, 4, 5))
        if sum(E.values()) > 9:
            continue
        s = dict(g)
        s.update(op="superstable_count", q=rng.randrange(g["n"]))
        a.append(s)
    return tag_cmp(a, None)


def c10_judge(rec):
    fails = []
    for hs, p in rec["py"].items():
        if not isinstance(p, dict):
            continue
        if rec["scn"]["op"] == "superstable_count" and p.get("count") != p.get("det"):
            fails.append(f"{p.get('count')} superstable configurations but the reduced Laplacian has determinant {p.get('det')}")
        if rec["scn"]["op"] == "kn_parking":
            m = rec["scn"]["m"]
            if not p.get("agree") or p.get("superstables") != (m + 1) ** (m - 1):
                fails.append(f"K_{m+1}: superstables {p.get('superstables')}, parking functions {p.get('parking')}, expected {(m+1)**(m-1)}; agree={p.get('agree')}")
        if rec["scn"]["op"] == "parking_gen" and isinstance(p.get("list"), list) and rec["scn"]["n"] >= 1:
            n = rec["scn"]["n"]
            if len(p["list"]) != (n + 1) ** (n - 1) or p.get("count") != (n + 1) ** (n - 1) or len({tuple(x) for x in p["list"]}) != len(p["list"]):
                fails.append(f"n={n}: generated {len(p['list'])} (distinct {len({tuple(x) for x in p['list']})}), counted {p.get('count')}, expected {(n+1)**(n-1)}")
    return fails


NONTRIVIAL_RULE["C10"] = "non-trivial: configuration batches on n>=3 vertices; parking sequences of length>=2; every superstable-count / K_n case"
PROPS["C10"] = {"generate": c10_generate, "judge": c10_judge,
                "strata": lambda rec: [f"op={rec['scn']['op']}", f"n={rec['scn'].get('n')}"],
                "nontrivial": lambda rec: (rec["scn"]["op"] in ("config", "div_hist") and rec["scn"]["n"] >= 3) or (rec["scn"]["op"] == "parking" and len(rec["scn"]["seq"]) >= 2) or rec["scn"]["op"] in ("superstable_count", "kn_parking", "parking_gen"),
                "rule": "configurations on generated multigraphs with every subset of V-q as candidate firing set (out-degree, legality, superstability, comparison operators against equal copies / other graphs / other sinks); superstable count vs exact determinant of the library's reduced Laplacian; K_(n+1) superstables vs parking functions; all integer sequences over [0..n+1]^n with and without explicit n; generated lists and counts",
                "theorems": ["legal_iff", "superstable_iff", "superstable_iff_burn_all", "cmp_is_pointwise_order", "cmp_incomparable", "parking_length_mismatch", "parking_range", "generated_are_parking", "parking_count_small", "superstable_count_eq_det", "card_superstable", "complete_superstable_iff_parking", "parking_iff_counting", "parking_count_all", "complete_reduced_det", "superstable_count_eq_det_exact", "reduced_det_pos"]}

# ---- C11
simple("C11", genhist.gen_orient_hist, 500, 8000,
       "orientation histories: constructor (none/partial/full/acyclic, ~7% invalid) then up to 25/80 set_orientation with all three states in both endpoint orders (incl. re-orienting and un-orienting), queries, check_fullness, reverse, divisor, canonical_divisor (~20% invalid); observables after every step: every edge state from both endpoints, in/out counters, endpoint agreement, fullness flags",
       ["constructed_inv", "history_inv", "checkFullness_exact", "in_add_out", "divisor_degree", "reverse_in_eq_out", "divisor_add_reverse", "acyclic_unwinnable", "acyclic_divisor_unwinnable"],
       "non-trivial: >=3 operations, accepted constructor", maxops=(25, 80))
PROPS["C11"]["strata"] = lambda rec: hist_strata(rec) + [f"init={rec['scn'].get('_mode')}"]

# ---- C20
def c20_generate(rng, tier):
    k = count(tier, 150, 2500)
    a = genhist.gen_graph_hist(rng, k, p_bad=0.4)
    a += genhist.gen_div_hist(rng, k, p_bad=0.4)
    a += genhist.gen_orient_hist(rng, k, p_bad=0.4)
    a += genhist.gen_lap(rng, k // 2)
    a += genhist.gen_config(rng, k // 3, nmax=4)
    a += genhist.gen_play(rng, k // 2)
    a += genhist.gen_div_arith(rng, k // 2)
    return tag_cmp(a, None)


NONTRIVIAL_RULE["C20"] = "non-trivial: a history/batch in which at least one request was refused"
PROPS["C20"] = {"generate": c20_generate, "strata": hist_strata,
                "nontrivial": lambda rec: "ERR" in json.dumps(rec["lean"]) or '"ok": false' in json.dumps(rec["lean"]),
                "rule": "histories of graphs, divisors, configurations, scripts and orientations with ~40% invalid requests of every listed kind (unknown vertex, non-edge, sink in a firing set, duplicate entry, loop, non-positive amount/multiplicity, mismatched vertex sets, partial orientation where a full one is needed), mixed valid/invalid sets, placed anywhere; the digest of the target object and of the graph/divisor it refers to is compared after every request",
                "theorems": ["set_fire_refused_iff", "cfg_fire_refuses_sink", "moves_refuse_unknown", "transfer_refuses_nonpositive", "divisor_refused_is_identity", "script_refused_is_identity", "graph_refused_is_identity", "orientation_refused_is_identity", "needs_full", "needs_full_refuses", "divisor_ctor_rejects", "orientation_ctor_rejects"]}


# ---- C16
def c16_generate(rng, tier):
    k = count(tier, 60, 800)
    out = []
    def add(scns, cmp_keys, rel):
        out.extend(tag_cmp(scns, cmp_keys, rel=rel))
    # in-place family: what exactly is left in the caller's divisor is not pinned down (any linearly
    # equivalent divisor of the same degree, including the untouched input, is allowed): it is
    # validated (judge: degree; witness phase: linear equivalence by the verified test), not
    # compared with the state the model's reduction happens to stop in
    add(gen_ewd_cases(rng, k, viz_share=0.2), ["argtotal", "graph"], None)
    add(genhist.gen_api(rng, k), ["argtotal", "graph"], None)
    add(genhist.gen_rank(rng, k // 2, nmax=4, maxdeg=4), ["argtotal", "graph"], None)
    add(genhist.gen_dhar(rng, k), ["argtotal", "graph"], None)
    add(genhist.gen_lin_equiv(rng, k), ["D1_after", "D2_after", "graph"], None)
    add(genhist.gen_play(rng, k), ["P_after", "graph"], None)
    add(genhist.gen_dhar_strategy(rng, k), ["base_after"], None)
    add(genhist.gen_greedy(rng, k), ["arg", "graph"], None)
    add(genhist.gen_lap(rng, k), ["D_after", "s_after", "graph"], None)
    add(genhist.gen_config(rng, k // 2, nmax=4), ["deg_after", "graph"], None)
    add(genhist.gen_div_arith(rng, k), ["A_after", "B_after", "graph"], None)
    add(genhist.gen_gonality(rng, k // 3, nmax=4), ["graph"], None)
    add(genhist.gen_winnable_hist(rng, k // 2), ["graph"], None)
    # repeated calls on the same object: every scenario above may carry `warmup` (same graph object asked twice)
    return out


def c16_judge(rec):
    """in-place family: the caller's divisor may change only within its degree"""
    s = rec["scn"]
    fails = []
    for hs, p in rec["py"].items():
        if not isinstance(p, dict):
            continue
        for key, orig in (("arg", s.get("deg")), ("is_winnable_arg", s.get("deg")), ("q_reduction_arg", s.get("deg")),
                          ("after_debt", s.get("deg")), ("after_fire", s.get("deg"))):
            if key in p and isinstance(p[key], list) and orig is not None and sum(p[key]) != sum(orig):
                fails.append(f"{key}: total degree changed from {sum(orig)} to {sum(p[key])}")
    return fails


NONTRIVIAL_RULE["C16"] = "non-trivial: n>=3 with a multi-edge or cycle"
PROPS["C16"] = {"generate": c16_generate, "judge": c16_judge, "strata": algo_strata, "nontrivial": algo_nontrivial,
                "rule": "every public analysis entry point (EWD both modes, is_winnable, q_reduction, is_q_reduced, rank, Dhar runs, linear_equivalence, gonality games and strategy tests, greedy, Laplacian apply, configuration queries, divisor arithmetic) on generated inputs, a share of them asked twice on the same graph object; compared: the digest of every argument divisor/script/graph after the call (pure family: must be exactly the input; in-place family: the model's reduced divisor, same degree, cached total untouched)",
                "theorems": ["graph_never_written", "ewd_post_state", "dhar_post_state", "cached_total_still_right"]}


# ---- C18
def c18_generate(rng, tier):
    a = gen_ewd_cases(rng, count(tier, 200, 3000), nmax=count(tier, 6, 7), viz_share=1.0)
    a += gen_chain_debt_cases(rng, count(tier, 40, 600), viz_share=1.0)
    b = []
    for s in a:
        t = dict(s)
        t["viz"] = False
        b.append(t)
    # orientation and recorded history are not compared with the model's (a different valid burn
    # order or a coarser recording is harmless): recording on/off are compared with each other
    # (group judge) and every recorded snapshot is validated (judge + witness phase)
    tag_cmp(a, ["verdict", "D", "q"])
    tag_cmp(b, ["verdict", "D"])
    for i, (x, y) in enumerate(zip(a, b)):
        x["_group"] = y["_group"] = i
    c = tag_cmp(genhist.gen_elements(rng, count(tier, 300, 4000)), None)
    d = tag_cmp([dict(s, viz=True) for s in genhist.gen_dhar(rng, count(tier, 100, 1000))], ["after_debt"])
    return a + b + c + d


def c18_judge(rec):
    s = rec["scn"]
    fails = []
    for hs, p in rec["py"].items():
        if not isinstance(p, dict):
            continue
        if s["op"] == "ewd" and s.get("viz") and isinstance(p.get("trace"), list):
            if p.get("D") is not None and p["trace"] and p["trace"][-1] != p["D"]:
                fails.append("last recorded divisor differs from the returned one")
            if any(sum(x) != sum(s["deg"]) for x in p["trace"]):
                fails.append("a recorded snapshot has another total degree than the input")
        if s["op"] == "dhar" and isinstance(p.get("borrows"), list) and p["borrows"]:
            if p.get("after_debt") is not None and p["borrows"][-1] != p["after_debt"]:
                fails.append("last recorded debt-concentration snapshot differs from the resulting divisor")
            if any(sum(x) != sum(s["deg"]) for x in p["borrows"]):
                fails.append("a recorded debt-concentration snapshot has another total degree than the input")
        if s["op"] == "ewd" and p.get("trace") == "ALIASED":
            fails.append("recorded snapshots change when the returned divisor is modified afterwards")
        if s["op"] == "ewd" and p.get("trace") == "ORIENT-ALIASED":
            fails.append("a recorded step holds the returned orientation itself: re-orienting an edge of the result changes the recorded step")
        if s["op"] == "ewd" and p.get("trace") == "GRAPH-ALIASED":
            fails.append("recorded snapshots sit on the live graph: editing the graph after the run changes the graph of a recorded step")
        if s["op"] == "elements":
            n = s["n"]
            tot = sum(k for _, _, k in s["edges"])
            for kind in ("graph", "divisor", "orientation", "ewd"):
                if len(p.get(kind + "_nodes", [])) != n:
                    fails.append(f"{kind}: {len(p.get(kind + '_nodes', []))} node elements for {n} vertices")
                if len(p.get(kind + "_edges", [])) != tot:
                    fails.append(f"{kind}: {len(p.get(kind + '_edges', []))} edge elements for total multiplicity {tot}")
            if p.get("endpoints_mismatch"):
                fails.append("an edge element's endpoints differ from its id")
    return fails


def c18_group_judge(recs):
    groups = {}
    for r in recs:
        g = r["scn"].get("_group")
        if g is not None and r["scn"]["op"] == "ewd":
            groups.setdefault(g, []).append(r)
    bad = []
    for g, rs in groups.items():
        if len(rs) == 2:
            a, b = [next(iter(r["py"].values())) for r in rs]
            if isinstance(a, dict) and isinstance(b, dict):
                for k in ("verdict", "D", "orient", "indeg", "outdeg"):
                    if a.get(k) != b.get(k):
                        bad.append((rs[0], [f"{k} differs between recording on and off: {a.get(k)} vs {b.get(k)}"]))
                        break
            elif a != b:
                bad.append((rs[0], [f"outcome differs between recording on and off: {a} vs {b}"]))
    return bad


NONTRIVIAL_RULE["C18"] = "non-trivial: n>=3 with a multi-edge or cycle"
PROPS["C18"] = {"generate": c18_generate, "judge": c18_judge, "group_judge": c18_group_judge, "strata": algo_strata,
                "nontrivial": lambda rec: graph_nontrivial(rec["scn"]),
                "rule": "EWD on the same input with recording on and off (verdict, divisor, orientation and counters compared with each other; verdict and divisor with the model; every recorded snapshot validated: same degree, linearly equivalent to the input according to the verified model (witness phase), last one equal to the returned divisor; independence tested by mutating the returned divisor afterwards); Dhar runs with a recorder; element lists of graphs, divisors, partial orientations and EWD steps for hyphen-free names, compared element by element with the model's",
                "theorems": ["recording_does_not_perturb", "trace_snapshots", "one_node_per_vertex", "edge_elements_spec", "arrows_iff_oriented"]}


# ---- C15
def c15_generate(rng, tier):
    a = genhist.gen_rt(rng, count(tier, 250, 2500), nmax=count(tier, 5, 6), faults=("all" if tier == "thorough" else None))
    b = tag_cmp(genhist.gen_txt_fields(rng, count(tier, 300, 3000)), ["line", "parsed_line", "parsed_text", "stripped"])
    # the file layer of the TXT format: writer text and reader loops against Model/TxtFile.lean; a
    # difference there is a broken tie, not by itself a violation (_rel = [])
    c = genhist.gen_txt_write(rng, count(tier, 150, 1500))
    for s in c:
        # compared where the format can represent the names (what the property is about): the file must
        # be in the image of the model's writer - read with the model's reader and written again it is
        # the same text - or equal to the model's canonical text
        s["_cmp"] = ["text"] if all(genhist.txt_ok(nm) for nm in s["names"]) else []
    # reader loops: on files as the writer produces them (what the round-trip theorems are about) the
    # model's parse must equal what the reader hands to the constructors; on hand-damaged files the
    # property pins nothing down beyond "no raise, None or a well-formed object" (fault enumeration
    # above), so there the agreement is measured and recorded, not demanded
    d = genhist.gen_txt_read(rng, count(tier, 400, 4000))
    for s in d:
        s["_cmp"] = ["parsed"] if s.get("_pinned") else []
    # the JSON text layer: writer text against Model/JsonText.lean; prefixes and damaged variants
    # through the model's scanner and through json.loads
    e = tag_cmp(genhist.gen_json_text(rng, count(tier, 150, 1500)), ["text", "prefix_not_none"])
    # string literals through the model of CPython's string scanner and through json.loads / json.dumps
    f = tag_cmp(genhist.gen_json_str(rng, count(tier, 300, 3000)), ["decoded", "encoded"])
    for s in c + d + e + f:
        s["_rel"] = ["prefix_not_none"] if s["op"] == "json_text" else []
    return tag_cmp(a, None) + b + c + d + e + f


def c15_search(rng, tier):
    """failing-input search after a broken tie: plain round trips of every kind (sampled faults
    only, so that the search stays within minutes)"""
    return tag_cmp(genhist.gen_rt(rng, 1500 if tier == "quick" else 8000, nmax=5), None)


def c15_judge(rec):
    """the library's own TXT file, field layer: what it writes after the prefix is the join of the
    sorted names, and reading the file back returns exactly the names whenever they are clean"""
    s, l = rec["scn"], rec["lean"]
    fails = []
    if s.get("op") == "json_text":
        for hs, p in rec["py"].items():
            if not isinstance(p, dict) or not isinstance(l, dict) or "_loads_ok" not in p:
                continue
            opens = l.get("open", [])
            for i, (k, okp) in enumerate(zip(p["_kinds"], p["_loads_ok"])):
                o = opens[i] if i < len(opens) else None
                t = p["_inject"]["texts"][i]
                if o is True and okp:
                    fails.append(f"assumption broken: json.loads accepts a text the scanner calls open: {t[:80]!r}")
                if k == "prefix" and t != "" and o is not True:
                    fails.append(f"model: a proper non-empty prefix is not open at its end: {t[-40:]!r}")
                if k == "prefix" and okp:
                    fails.append(f"json.loads accepts a proper prefix of a written file: {t[-40:]!r}")
            if l.get("is_dict") is False:
                fails.append("the written JSON file is not a dict at top level")
        return fails
    if s.get("op") != "txt_fields":
        return fails
    for hs, p in rec["py"].items():
        lib = p.get("_lib") if isinstance(p, dict) else None
        if not lib:
            continue
        exp = " " + ", ".join(lib["sorted_names"])
        if lib["first_line_tail"] != exp:
            fails.append(f"VERTICES line is {lib['first_line_tail']!r}, expected {exp!r}")
        clean = isinstance(l, dict) and all(l.get("clean", []))
        if clean and lib["read_back"] != lib["sorted_names"]:
            fails.append(f"clean names {lib['sorted_names']} read back as {lib['read_back']}")
    return fails


NONTRIVIAL_RULE["C15"] = "non-trivial: n>=2 vertices; distinct by canonical scenario"
PROPS["C15"] = {"generate": c15_generate, "search": c15_search,
                "strata": lambda rec: ([f"txt_shape_text_equal={isinstance(rec['lean'], dict) and any(isinstance(p, dict) and p.get('text') == rec['lean'].get('shape_text') for p in rec['py'].values())}"] if rec['scn'].get('op') == 'txt_write' else []) + ([f"txt_read_pinned={bool(rec['scn'].get('_pinned'))}", "txt_read_damaged_parse_agrees=" + str(isinstance(rec['lean'], dict) and all(isinstance(p, dict) and p.get('parsed') == rec['lean'].get('parsed') for p in rec['py'].values()))] if rec['scn'].get('op') == 'txt_read' else []) + ([f"json_shape_text_equal={isinstance(rec['lean'], dict) and any(isinstance(p, dict) and p.get('text') == rec['lean'].get('shape_text') for p in rec['py'].values())}"] if rec['scn'].get('op') == 'json_text' else []) + [f"op={rec['scn'].get('op')}", f"kind={rec['scn'].get('kind', rec['scn'].get('_kind'))}", f"names={rec['scn'].get('_style')}", f"txt={rec['scn'].get('txt')}", f"n={rec['scn'].get('n')}"],
                "nontrivial": lambda rec: rec["scn"].get("n", len(rec["scn"].get("names", []))) >= 2,
                "judge": c15_judge,
                "level": "proof",
                "rule": "graphs, divisors (magnitudes up to 10^30, also results of CFLaplacian.apply), partial/full orientations, sparse/dense scripts with plain, Unicode, long, blank-containing, digit-like and hostile names; dict (through json text), JSON file and TXT file round trips compared observationally with the original; fault enumeration per written file: byte-prefix truncations (quick: 64 evenly spaced + last 16; thorough: all) and single-byte corruptions (quick 48 random; thorough every position x 3 values): must not raise, JSON proper prefixes must read None, anything returned must be a well-formed object; missing files read None; TXT file layer: the text the library writes must be in the image of the model's writer (representable names), the arguments read_txt hands to the constructors (recorded by replacing the constructors inside the data-processor module) must equal the model's parse on files as written (recorded, not demanded, on hand-damaged files); JSON text layer: the file must be the model encoder's text of the value actually written (key order and indent read off the file), every sampled proper prefix must be open for the model's scanner and rejected by json.loads, read_json must return None on it",
                "theorems": ["graph_dict_roundtrip", "edge_list_canonical", "divisor_dict_roundtrip", "script_dict_roundtrip", "decimal_roundtrip", "orientation_dict_roundtrip", "txt_fields_roundtrip", "txt_line_roundtrip", "txt_int_field_clean", "txt_record_roundtrip",
                             "txt_graph_file_roundtrip", "txt_divisor_file_roundtrip", "txt_orientation_file_roundtrip", "txt_script_file_roundtrip", "txt_int_roundtrip", "json_truncation_open", "json_truncation_open_any", "json_text_ascii", "json_string_roundtrip", "txt_graph_file_roundtrip_crlf", "txt_graph_object_roundtrip", "txt_divisor_object_roundtrip", "txt_script_object_roundtrip", "txt_orientation_object_roundtrip"]}


# ---- C19
def c19_generate(rng, tier):
    import regen
    a = genhist.gen_bounds(rng, count(tier, 60, 400), nmax=count(tier, 5, 6), exhaustive_upto=count(tier, 4, 5))
    a += genhist.gen_bounds_alpha(rng, count(tier, 100, 1000))
    # isomorphism classes of connected simple graphs: a sample of the 112 classes on 6 vertices
    # (quick), all of them and all 853 classes on 7 vertices (thorough)
    a += genhist.gen_bounds_atlas(rng, 40, 6, 6) if tier == "quick" else genhist.gen_bounds_atlas(rng, 10 ** 6, 6, 7)
    a += genhist.gen_bounds_double(rng, 10 ** 6)
    b = genhist.gen_closed(rng, tier)
    extra = []
    # true gonality of the graphs behind the multipartite closed form, by the verified search (model side only)
    for s in b:
        if "_graph" in s:
            g = s["_graph"]
            extra.append({"op": "bounds", "n": g["n"], "edges": g["edges"], "_for_parts": s["arg"], "_kind": "multipartite"})
    # K_n as generated by the library, and the solids with exact table entries
    data = regen.LAST_DUMP or {}
    for nm in ("tetrahedron", "octahedron", "cube"):
        if nm in data.get("solids", {}):
            d = data["solids"][nm]
            extra.append({"op": "gonality", "n": d["n"], "edges": d["edges"], "strat": False, "max": None,
                          "_solid": nm, "_exact": data["table"].get(nm, {}).get("exact"), "timeout": 120})
    return tag_cmp(a + b + extra, None)


def c19_judge(rec):
    s, l = rec["scn"], rec["lean"]
    fails = []
    for hs, p in rec["py"].items():
        if not isinstance(p, dict) or not isinstance(l, dict):
            continue
        if s["op"] == "bounds" and isinstance(l.get("_gon"), int) and l["_gon"] >= 1 and "_for_parts" not in s:
            g = l["_gon"]
            n = s["n"]
            checks = [("lower_bound", lambda x: x <= g), ("upper_bound", lambda x: x >= g),
                      ("minimum_degree_bound", lambda x: x <= g), ("bramble_order_bound", lambda x: x - 1 <= g),
                      ("trivial_upper_bound", lambda x: x >= g and x == n - 1), ("independence_upper_bound", lambda x: x >= g)]
            for k, ok in checks:
                v = p.get(k)
                if not isinstance(v, int) or not ok(v):
                    fails.append(f"{k} = {v} does not bracket the true gonality {g} (n = {n})")
            if p.get("independence_number") != l.get("independence_number"):
                fails.append(f"independence number {p.get('independence_number')} but a largest independent set has {l.get('independence_number')} vertices")
        if s["op"] == "gonality" and s.get("_solid"):
            if p.get("gonality") != s.get("_exact"):
                fails.append(f"table says the {s['_solid']} has gonality {s.get('_exact')}, the library computes {p.get('gonality')}")
            if l.get("gonality") != s.get("_exact"):
                fails.append(f"table says the {s['_solid']} has gonality {s.get('_exact')}, the verified search finds {l.get('gonality')}")
    return fails


def c19_group_judge(recs):
    """closed form of K_{parts} vs the true gonality of that graph (verified search)"""
    gon = {}
    for r in recs:
        if r["scn"].get("_for_parts") is not None and isinstance(r["lean"], dict):
            gon[tuple(r["scn"]["_for_parts"])] = r["lean"].get("_gon")
    bad = []
    for r in recs:
        s = r["scn"]
        if s["op"] == "closed" and s["name"] == "complete_multipartite_gonality" and tuple(s["arg"]) in gon:
            p = next(iter(r["py"].values()))
            g = gon[tuple(s["arg"])]
            if isinstance(p, dict) and isinstance(g, int) and p.get("value") != g:
                bad.append((r, [f"complete_multipartite_gonality({s['arg']}) = {p.get('value')} but the graph has gonality {g}"]))
        if s["op"] == "closed" and s["name"] == "complete_graph_gonality" and 2 <= s["arg"] <= 6 and (s["arg"],) in gon:
            p = next(iter(r["py"].values()))
            g = gon[(s["arg"],)]
            if isinstance(p, dict) and isinstance(g, int) and p.get("value") != g:
                bad.append((r, [f"complete_graph_gonality({s['arg']}) = {p.get('value')} but K_{s['arg']} has gonality {g}"]))
    return bad


def k2_matcher(rec, detail, fails):
    """K2: the multipartite closed form subtracts the smallest part instead of the largest"""
    s = rec["scn"]
    if s.get("op") != "closed" or s.get("name") != "complete_multipartite_gonality" or detail is not None:
        return False
    parts = s["arg"]
    p = next(iter(rec["py"].values()))
    return len(parts) >= 2 and isinstance(p, dict) and p.get("value") == sum(parts) - min(parts) and all("complete_multipartite_gonality" in f for f in fails)


MATCHERS["K2"] = k2_matcher
NONTRIVIAL_RULE["C19"] = "non-trivial: bounds reports on n>=3 vertices; closed forms with argument >= 2; every solid"
PROPS["C19"] = {"generate": c19_generate, "judge": c19_judge, "group_judge": c19_group_judge,
                "strata": lambda rec: [f"op={rec['scn']['op']}", f"n={rec['scn'].get('n')}", f"kind={rec['scn'].get('_kind', rec['scn'].get('name'))}"],
                "nontrivial": lambda rec: (rec["scn"]["op"] == "bounds" and rec["scn"]["n"] >= 3) or rec["scn"]["op"] == "gonality" or (rec["scn"]["op"] == "closed" and (rec["scn"]["arg"] if isinstance(rec["scn"]["arg"], int) else sum(rec["scn"]["arg"])) >= 2),
                "lean_targets": ["ChipFiring.Properties.C19"], "lean_targets_thorough": ["ChipFiring.Properties.C19Heavy"], "leanchecker_modules": ["ChipFiring.Properties.C19"],
                "rule": "bounds report and independence number on every connected simple graph with n<=4 (quick) / 5 (thorough) labelled vertices plus generated families up to n=5/6, each compared with the model's report and bracketed against the true gonality found by the verified search; closed forms for n in -1..8 and every part vector with sum <= 6/7, the multipartite and K_n forms compared with the true gonality of the generated graph; the exact table entries of the regenerated tetrahedron, octahedron and cube compared with the library's own gonality() and with the verified search",
                "theorems": ["complete_graph_closed_form", "multipartite_closed_form", "parking_count_closed_form", "solid_counts", "certified_is_gonality", "complete_graph_gonality_all", "complete_graph_gonality_any", "completeEdges_isComplete", "bounds_upper_valid", "independence_attained", "tetrahedron_exact", "octahedron_exact", "complete_graph_gonality_small", "multipartite_formula_wrong", "independence_is_max"]}
