"""Per-property plans: which scenarios are generated, which observables are compared with the
model (`_cmp`), which of those the property itself constrains (`_rel`), what counts as a
non-trivial case, and how known findings are matched."""
import os, json, random, itertools
import core, gen

TRUSTED_BASE = [
    "Lean 4.33.0 kernel; Mathlib v4.33.0 definitions occurring in statements (Finset.sum, Fintype, order on Int)",
    "axioms accepted per theorem: propext, Classical.choice, Quot.sound (enforced by ChipFiring/Audit.lean)",
    "fidelity of the hand-written model: differential correspondence check against /repo's working tree (this run)",
    "harness: name<->index bijection, order extraction, canonicalisation (harness/pyside.py, harness/main.py)",
    "CPython 3.12 semantics of int/dict/set/sorted; behaviour of json, copy.deepcopy, itertools (exercised, not verified)",
]
ASSUMPTIONS = [
    "the theorems are about the Lean model; the tie to the code is the correspondence run of this check",
    "only raise-vs-return is compared for exceptions, not class or message",
]
NONTRIVIAL_RULE = {}
PROPS = {}


def corpus(pid):
    path = os.path.join(core.ROOT, "corpus", f"{pid}.jsonl")
    out = []
    if os.path.exists(path):
        for line in open(path):
            line = line.strip()
            if line and not line.startswith("#"):
                out.append(json.loads(line))
    return out


def match_known(findings, rec, detail, fails):
    for k in findings:
        m = k.get("match", {})
        s = rec["scn"]
        if m.get("op") and s.get("op") != m["op"]:
            continue
        f = MATCHERS.get(k["id"])
        if f and f(rec, detail, fails):
            return k
    return None


MATCHERS = {}


def nontrivial(pid, rec):
    f = PROPS[pid].get("nontrivial")
    return bool(f(rec)) if f else True


def strata(pid, rec):
    f = PROPS[pid].get("strata")
    return f(rec) if f else [rec["scn"].get("op", "?")]


def count(tier, quick, thorough):
    return thorough if tier == "thorough" else quick


def graph_nontrivial(s):
    n = s.get("n", 0)
    es = s.get("edges", [])
    multi = any(k > 1 for _, _, k in es) or len({(min(a, b), max(a, b)) for a, b, _ in es}) < len(es)
    cyc = sum(k for _, _, k in es) >= n
    return n >= 3 and (multi or cyc)


# ============================================================================ C01

def gen_ewd_cases(rng, N, nmax=6, viz_share=0.25, mag=4, modes=(False, True)):
    out = []
    for i in range(N):
        g, E = gen.gen_graph(rng, 2, nmax)
        d, band, debt = gen.gen_divisor(rng, g["n"], g["_genus"], mag=mag)
        order = list(range(g["n"]))
        rng.shuffle(order)
        for opt in modes:
            s = dict(g)
            s.update(op="ewd", deg=d, opt=opt, viz=(rng.random() < viz_share), dorder=order,
                     _band=gen.band_of(sum(d), g["_genus"]), _debt=debt)
            out.append(s)
    return out


def c01_generate(rng, tier):
    scns = gen_ewd_cases(rng, count(tier, 300, 4000), nmax=count(tier, 6, 8))
    for s in scns:
        s["_cmp"] = ["verdict"]
    return scns


def ewd_strata(rec):
    s = rec["scn"]
    return [f"band={s.get('_band')}", f"debt={s.get('_debt')}", f"opt={s.get('opt')}", f"n={s.get('n')}", f"kind={s.get('_kind')}"]


def ewd_nontrivial(rec):
    l = rec["lean"]
    return graph_nontrivial(rec["scn"]) and isinstance(l, dict) and l.get("D") is not None


NONTRIVIAL_RULE["C01"] = "non-trivial: n>=3, a multi-edge or a cycle, and the non-shortcut path ran; distinct by canonical scenario"
PROPS["C01"] = {
    "generate": c01_generate,
    "strata": ewd_strata,
    "nontrivial": ewd_nontrivial,
    "rule": "random + named-family connected multigraphs (n<=6 quick / 8 thorough, multiplicities<=4, edges shuffled/flipped/split), divisors stratified by degree band x debt pattern, both modes, recording on for a share",
    "theorems": ["ewd_plain_verdict_exact"],
}
