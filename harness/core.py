"""Shared machinery of the checks: build, audit, the two sides of the correspondence,
comparison, failing-input search bookkeeping, replay files, evidence."""
import os, sys, json, subprocess, hashlib, time, fcntl, re, tempfile, shutil, random

HERE = os.path.dirname(os.path.abspath(__file__))
ROOT = os.path.dirname(HERE)                      # the /verif checkout
LEAN = os.path.join(ROOT, "lean")
REPO = os.environ.get("CHIPFIRING_REPO", "/repo")
PY = os.environ.get("CHIPFIRING_PYTHON", "/venv/bin/python")
WORK = os.path.join(ROOT, ".work")
EVID = os.path.join(ROOT, "evidence")
REPLAY = os.path.join(EVID, "replay")
DRIVER = os.path.join(LEAN, ".lake", "build", "bin", "driver")
NCPU = max(1, min(16, os.cpu_count() or 1))

ACCEPTED_AXIOMS = {"propext", "Classical.choice", "Quot.sound"}


class Infra(Exception):
    """infrastructure failure: exit 2, never a violation"""


def sh(cmd, cwd=None, env=None, timeout=None, input=None):
    p = subprocess.run(cmd, cwd=cwd, env=env, timeout=timeout, input=input,
                       stdout=subprocess.PIPE, stderr=subprocess.STDOUT, text=True)
    return p.returncode, p.stdout


# ----------------------------------------------------------------------------- build / audit

class BuildLock:
    def __enter__(self):
        os.makedirs(os.path.join(LEAN, ".lake"), exist_ok=True)
        self.f = open(os.path.join(LEAN, ".lake", "verif-build.lock"), "w")
        fcntl.flock(self.f, fcntl.LOCK_EX)
        return self

    def __exit__(self, *a):
        fcntl.flock(self.f, fcntl.LOCK_UN)
        self.f.close()


def lake_build(targets, timeout=3000):
    with BuildLock():
        rc, out = sh(["lake", "build"] + list(targets), cwd=LEAN, timeout=timeout)
    return rc == 0, out


def lean_sources():
    out = []
    for base, dirs, files in os.walk(LEAN):
        dirs[:] = [d for d in dirs if d not in (".lake",)]
        for f in files:
            if f.endswith(".lean"):
                out.append(os.path.join(base, f))
    return sorted(out)


_FORBIDDEN = re.compile(r"\bsorry\b|\badmit\b|^\s*axiom\s|native_decide|bv_decide|implemented_by|\bunsafe\s|maxHeartbeats\s+0|@\[extern")


def strip_comments(src):
    # remove nested /- -/ block comments and -- line comments (string literals in our sources
    # never contain comment markers)
    out, i, depth = [], 0, 0
    while i < len(src):
        if src.startswith("/-", i):
            depth += 1
            i += 2
        elif depth and src.startswith("-/", i):
            depth -= 1
            i += 2
        elif depth:
            if src[i] == "\n":
                out.append("\n")
            i += 1
        elif src.startswith("--", i):
            while i < len(src) and src[i] != "\n":
                i += 1
        else:
            out.append(src[i])
            i += 1
    return "".join(out)


def grep_forbidden():
    hits = []
    for f in lean_sources():
        if os.path.basename(f) in ("Audit.lean",):
            continue
        code = strip_comments(open(f, encoding="utf-8").read())
        for ln, line in enumerate(code.split("\n"), 1):
            if _FORBIDDEN.search(line):
                hits.append(f"{os.path.relpath(f, ROOT)}:{ln}: {line.strip()}")
    return hits


def sources_hash():
    h = hashlib.sha256()
    for f in lean_sources():
        h.update(f.encode())
        h.update(open(f, "rb").read())
    return h.hexdigest()[:24]


def audit_axioms(pid):
    """{theorem name: [axioms]} for every theorem of namespace CF.<pid>, obtained by running the
    audit command on a file that imports only that property's module; cached by the hash of the
    Lean sources"""
    key = sources_hash()
    cache = os.path.join(LEAN, ".lake", f"audit-{pid}-{key}.json")
    if os.path.exists(cache):
        return json.load(open(cache))
    ok, out = lake_build(["ChipFiring.AuditCmd"])
    if not ok:
        raise Infra("audit command does not build:\n" + out[-3000:])
    os.makedirs(os.path.join(LEAN, ".lake", "audit"), exist_ok=True)
    src = os.path.join(LEAN, ".lake", "audit", f"Audit{pid}.lean")
    with open(src, "w") as f:
        f.write(f"import ChipFiring.AuditCmd\nimport ChipFiring.Properties.{pid}\n\n#audit_properties\n")
    rc, out = sh(["lake", "env", "lean", src], cwd=LEAN, timeout=1800)
    if rc != 0:
        raise Infra("audit failed:\n" + out[-3000:])
    res = {}
    for line in out.split("\n"):
        m = re.search(r"AUDIT (\{.*\})\s*$", line)
        if m:
            d = json.loads(m.group(1))
            res[d["theorem"]] = d["axioms"]
    json.dump(res, open(cache, "w"))
    return res


# ----------------------------------------------------------------------------- running both sides

def _chunks(xs, k):
    """round-robin split (slow strata that a generator appends as a block are spread over all
    workers); `_unchunk` puts the per-part results back in scenario order"""
    k = max(1, min(k, len(xs)))
    return [xs[i::k] for i in range(k)]


def _unchunk(parts_out, total):
    k = len(parts_out)
    out = [None] * total
    for i, res in enumerate(parts_out):
        for j, r in enumerate(res):
            out[i + j * k] = r
    return out


def workdir(pid):
    d = os.path.join(WORK, pid)
    os.makedirs(d, exist_ok=True)
    return d


def run_py(scenarios, wd, hashseed="0", tagname="py", extra_env=None):
    """run the real implementation on the scenarios (parallel child processes)"""
    if not scenarios:
        return []
    parts = _chunks(list(scenarios), NCPU)
    procs = []
    for i, part in enumerate(parts):
        src = os.path.join(wd, f"{tagname}-{hashseed}-{i}.in")
        dst = os.path.join(wd, f"{tagname}-{hashseed}-{i}.out")
        with open(src, "w") as f:
            for s in part:
                f.write(json.dumps(s) + "\n")
        env = dict(os.environ, PYTHONHASHSEED=str(hashseed), CHIPFIRING_REPO=REPO, CHIPFIRING_VERIF="1")
        env.pop("PYTHONPATH", None)
        if extra_env:
            env.update(extra_env)
        p = subprocess.Popen([PY, os.path.join(HERE, "pyside.py"), src, dst], env=env, cwd=wd,
                             stdout=subprocess.PIPE, stderr=subprocess.STDOUT, text=True)
        procs.append((p, dst, len(part)))
    outs = []
    parts_out = []
    for p, dst, cnt in procs:
        log, _ = p.communicate()
        res = []
        if os.path.exists(dst):
            for line in open(dst):
                line = line.strip()
                if line:
                    res.append(json.loads(line))
        # a child that died (segfault, sys.exit in the library, ...) is an observation "CRASH"
        while len(res) < cnt:
            res.append("CRASH")
        if p.returncode != 0 and all(r == "CRASH" for r in res):
            raise Infra("python side failed to start:\n" + (log or "")[-3000:])
        parts_out.append(res[:cnt])
    return _unchunk(parts_out, len(scenarios))


LEAN_TIMEOUT = int(os.environ.get("VERIF_LEAN_TIMEOUT", "1500"))


def run_lean(scenarios, wd, tagname="lean"):
    if not scenarios:
        return []
    if not os.path.exists(DRIVER):
        raise Infra("driver executable missing")
    parts = _chunks(list(scenarios), NCPU)
    procs = []
    for i, part in enumerate(parts):
        data = "".join(json.dumps({k: v for k, v in s.items() if not k.startswith("_")}) + "\n" for s in part)
        p = subprocess.Popen([DRIVER], stdin=subprocess.PIPE, stdout=subprocess.PIPE, stderr=subprocess.PIPE, text=True)
        procs.append((p, data, len(part)))
    outs = []
    # feed sequentially but processes run concurrently once fed (inputs are small)
    import threading
    results = [None] * len(procs)

    def feed(ix):
        p, data, cnt = procs[ix]
        try:
            o, e = p.communicate(data, timeout=LEAN_TIMEOUT)
            results[ix] = (o, e, p.returncode)
        except subprocess.TimeoutExpired:
            p.kill()
            o, e = p.communicate()
            results[ix] = (o or "", (e or "") + f"\n[killed after {LEAN_TIMEOUT}s]", -9)
    ths = [threading.Thread(target=feed, args=(i,)) for i in range(len(procs))]
    for t in ths:
        t.start()
    for t in ths:
        t.join()
    parts_out = []
    for (p, data, cnt), (o, e, rc) in zip(procs, results):
        lines = [l for l in o.split("\n") if l.strip()]
        if rc != 0 or len(lines) != cnt:
            raise Infra(f"lean driver failed rc={rc} lines={len(lines)}/{cnt}: {e[-2000:]}")
        parts_out.append([json.loads(l) for l in lines])
    return _unchunk(parts_out, len(scenarios))


def strip_private(x):
    if isinstance(x, dict):
        return {k: strip_private(v) for k, v in x.items() if not k.startswith("_")}
    return x


def project(x, keys):
    if keys is None or not isinstance(x, dict):
        return strip_private(x)
    return {k: x.get(k, "<absent>") for k in keys}


def canon(x):
    return json.dumps(x, sort_keys=True, ensure_ascii=False)


def scn_key(s):
    return hashlib.sha256(canon(strip_private(s)).encode()).hexdigest()[:16]


# ----------------------------------------------------------------------------- replay / evidence

def write_replay(pid, payload):
    os.makedirs(REPLAY, exist_ok=True)
    h = hashlib.sha256(canon(payload).encode()).hexdigest()[:12]
    path = os.path.join(REPLAY, f"{pid}-{h}.json")
    with open(path, "w") as f:
        json.dump(payload, f, indent=1, ensure_ascii=False)
    return path


def write_evidence(pid, ev):
    os.makedirs(EVID, exist_ok=True)
    path = os.path.join(EVID, f"{pid}.json")
    tmp = path + ".tmp"
    with open(tmp, "w") as f:
        json.dump(ev, f, indent=1, ensure_ascii=False)
    os.replace(tmp, path)
    return path


def load_known_findings():
    path = os.path.join(ROOT, "known_findings.jsonl")
    out = []
    if os.path.exists(path):
        for line in open(path):
            line = line.strip()
            if line and not line.startswith("#"):
                out.append(json.loads(line))
    return out
