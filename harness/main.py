#!/venv/bin/python
"""Entry point of every registered check:  main.py <property id> [quick|thorough] [--replay FILE]

exit 0  the property held on everything explored (KNOWN-FINDING lines possible)
exit 1  a line `VIOLATION property=<id> replay=<path>` was printed
exit 2  infrastructure failure / timeout (never a violation)
"""
import os, sys, json, time, random, traceback, collections

sys.path.insert(0, os.path.dirname(os.path.abspath(__file__)))
import core  # noqa: E402
import props  # noqa: E402


VIA_OPS = {"ewd", "lin_equiv", "api", "rank", "gonality", "play", "greedy", "dhar", "config", "dhar_strategy",
           "enhanced_dhar", "winnable_hist", "elements", "dhar_batch", "lap", "superstable_count"}


def run_sides(pid, scns, wd):
    """returns list of records {scn, py:{seed:out}, lean:out}"""
    by_seed = collections.defaultdict(list)
    for i, s in enumerate(scns):
        for hs in s.get("_seeds", ["0"]):
            by_seed[str(hs)].append(i)
    py = [dict() for _ in scns]
    for hs, idxs in by_seed.items():
        extra = None
        outs = core.run_py([scns[i] for i in idxs], wd, hashseed=hs)
        for i, o in zip(idxs, outs):
            py[i][hs] = o
    # orders read off the live objects travel to the model
    for s, p in zip(scns, py):
        first = next(iter(p.values()))
        if isinstance(first, dict):
            if "_hint" in first and "hint" not in s:
                s["hint"] = first["_hint"]
            if "_inject" in first:
                s.update(first["_inject"])
    lean = core.run_lean(scns, wd)
    return [{"scn": s, "py": p, "lean": l} for s, p, l in zip(scns, py, lean)]


def classify(rec):
    """-> (mismatch: bool, relevant: bool, detail)"""
    s = rec["scn"]
    cmp_keys = s.get("_cmp")
    rel_keys = s.get("_rel", cmp_keys)
    lean = rec["lean"]
    if isinstance(lean, dict) and "bad" in lean:
        raise core.Infra(f"lean driver rejected scenario: {lean['bad']} :: {json.dumps(core.strip_private(s))[:400]}")
    for hs, p in rec["py"].items():
        if isinstance(p, dict) and "bad" in p:
            raise core.Infra(f"python side harness error: {p['bad']} :: {json.dumps(core.strip_private(s))[:400]}")
        a, b = core.project(p, cmp_keys), core.project(lean, cmp_keys)
        if a != b:
            ra, rb = core.project(p, rel_keys), core.project(lean, rel_keys)
            diff_keys = [k for k in (a if isinstance(a, dict) else {})
                         if not isinstance(b, dict) or a.get(k) != b.get(k)] if isinstance(a, dict) else ["<whole>"]
            return True, ra != rb, {"hashseed": hs, "differs_in": diff_keys, "impl": a, "model": b}
    return False, False, None


def main():
    args = sys.argv[1:]
    if not args:
        print("usage: check <property> [quick|thorough] [--replay FILE]")
        return 2
    pid = args[0]
    tier = os.environ.get("VERIF_TIER") or "quick"
    replay = None
    i = 1
    while i < len(args):
        if args[i] in ("quick", "thorough"):
            tier = args[i]
        elif args[i] == "--replay":
            replay = args[i + 1]
            i += 1
        i += 1
    seed = int(os.environ.get("VERIF_SEED", "0") or 0)
    if pid not in props.PROPS:
        print(f"unknown property {pid}")
        return 2
    P = props.PROPS[pid]
    props.set_current(pid)
    t0 = time.time()
    wd = core.workdir(f"{pid}-{os.getpid()}")
    try:
        return run_check(pid, P, tier, seed, replay, wd, t0)
    except core.Infra as e:
        print(f"INFRA-ERROR property={pid}: {e}")
        return 2
    except Exception:
        traceback.print_exc()
        print(f"INFRA-ERROR property={pid}: harness exception")
        return 2
    finally:
        import shutil
        shutil.rmtree(wd, ignore_errors=True)


def run_check(pid, P, tier, seed, replay, wd, t0):
    rng = random.Random(f"{pid}:{seed}")
    findings = [f for f in core.load_known_findings() if f.get("property") == pid and f.get("status") == "open"]

    # ---- 1. regenerate data from /repo, build proofs + driver, audit
    import regen
    regen_note = regen.regenerate()
    targets = list(P.get("lean_targets", [f"ChipFiring.Properties.{pid}"]))
    if tier == "thorough":
        targets += P.get("lean_targets_thorough", [])
    ok_drv, log_drv = core.lake_build(["driver"])
    if not ok_drv:
        raise core.Infra("model driver does not build:\n" + log_drv[-3000:])
    ok_proof, log_proof = core.lake_build(targets)
    proof_problems = []
    obligations = {}
    if not ok_proof:
        proof_problems.append({"kind": "build", "targets": targets, "log_tail": log_proof[-4000:]})
    else:
        bad = core.grep_forbidden()
        if bad:
            proof_problems.append({"kind": "forbidden-construct", "hits": bad})
        ax = core.audit_axioms(pid)
        pref = f"CF.{pid}."
        obligations = {k: v for k, v in ax.items() if k.startswith(pref)}
        for k, v in obligations.items():
            if not set(v) <= core.ACCEPTED_AXIOMS:
                proof_problems.append({"kind": "axiom", "theorem": k, "axioms": v})
        want = P.get("theorems", [])
        for w in want:
            if pref + w not in obligations:
                proof_problems.append({"kind": "missing-theorem", "theorem": pref + w})
        if tier == "thorough" and not proof_problems:
            mods = P.get("leanchecker_modules", targets)
            with core.BuildLock():
                rc, out = core.sh(["lake", "env", "leanchecker"] + mods, cwd=core.LEAN, timeout=3000)
            if rc != 0:
                proof_problems.append({"kind": "leanchecker", "log_tail": out[-3000:]})

    # ---- 2. scenarios: replay file | corpus first, then generated
    if replay:
        payload = json.load(open(replay))
        scns = [payload["scenario"]] if "scenario" in payload else payload.get("scenarios", [])
    else:
        scns = props.corpus(pid) + P["generate"](rng, tier)
        # a third of the generated scenarios first issue requests that must be refused (unknown
        # endpoint in either position, loop, non-positive multiplicity) against the graph object
        # they then analyse: a refused request leaves nothing behind that an analysis could see
        prng = random.Random(f"{pid}:poke:{seed}")
        for s in scns:
            if isinstance(s, dict) and "edges" in s and "poke" not in s and prng.random() < 0.33:
                s["poke"] = prng.randrange(1 << 30)
        # a quarter of the scenarios hand the analyses a divisor that is the result of arithmetic,
        # of Laplacian.apply or of moves that cancel, instead of a freshly constructed one
        vrng = random.Random(f"{pid}:via:{seed}")
        for s in scns:
            if isinstance(s, dict) and s.get("op") in VIA_OPS and "via" not in s and vrng.random() < 0.25:
                s["via"] = vrng.randrange(1 << 30)
        for s in scns:
            if isinstance(s, dict) and s.get("op") == "div_hist" and s.get("ops") and "copy_at" not in s and vrng.random() < 0.3:
                s["copy_at"] = vrng.randrange(len(s["ops"]))
    for s in scns:
        s.setdefault("_cmp", None)
        props.normalise_cmp(s)
    recs = run_sides(pid, scns, wd)

    # ---- 3. compare, judge
    mism, definite, known_hits = [], [], collections.OrderedDict()
    judge = P.get("judge")
    for r in recs:
        m, rel, detail = classify(r)
        fails = []
        if judge:
            fails = judge(r) or []
        if m or fails:
            entry = {"scenario": r["scn"], "detail": detail, "property_failures": fails}
            k = props.match_known(findings, r, detail, fails)
            if k is not None:
                known_hits.setdefault(k["id"], (k, entry))
                continue
            if (m and rel) or fails:
                definite.append(entry)
            else:
                mism.append(entry)

    # ---- 3b. witness phase: what the implementation chose where the property leaves a choice
    # (listed strategies, recorded snapshots) is validated by the verified model
    wit_items = []
    for r in recs:
        for w in props.witnesses(r, pid):
            wit_items.append((r, w))
            if len(wit_items) >= 20000:
                break
        if len(wit_items) >= 20000:
            break
    wit_run = [(r, w) for r, w in wit_items if w.get("scn") is not None]
    wit_out = core.run_lean([w["scn"] for _, w in wit_run], wd, "wit") if wit_run else []
    wit_fail = [(r, w["fail"], None) for r, w in wit_items if w.get("scn") is None]
    for (r, w), o in zip(wit_run, wit_out):
        msg = w["check"](o)
        if msg:
            wit_fail.append((r, msg, {"witness": w["scn"], "model_says": o}))
    for r, msg, det in wit_fail:
        entry = {"scenario": r["scn"], "detail": det, "property_failures": [msg]}
        k = props.match_known(findings, r, det, [msg])
        if k is None:
            definite.append(entry)
        else:
            known_hits.setdefault(k["id"], (k, entry))

    gj = P.get("group_judge")
    if gj:
        for r, fails in gj(recs):
            entry = {"scenario": r["scn"], "detail": None, "property_failures": fails}
            k = props.match_known(findings, r, None, fails)
            if k is None:
                definite.append(entry)
            else:
                known_hits.setdefault(k["id"], (k, entry))

    # ---- 4. failing-input search when something broke without a concrete failing input
    searched = 0
    if (proof_problems or mism) and not definite and not replay:
        extra = P["search"](rng, tier) if "search" in P else P["generate"](random.Random(f"{pid}:search:{seed}"), "thorough" if tier == "quick" else "thorough")
        for s in extra:
            s.setdefault("_cmp", None)
            props.normalise_cmp(s)
        recs2 = run_sides(pid, extra, wd)
        searched = len(recs2)
        for r in recs2:
            m, rel, detail = classify(r)
            fails = (judge(r) or []) if judge else []
            if ((m and rel) or fails) and props.match_known(findings, r, detail, fails) is None:
                definite.append({"scenario": r["scn"], "detail": detail, "property_failures": fails})
                break

    # ---- 5. evidence
    wall = time.time() - t0
    nontriv = {core.scn_key(r["scn"]) for r in recs if props.nontrivial(pid, r)}
    strata = collections.Counter()
    for r in recs:
        for lab in props.strata(pid, r):
            strata[lab] += 1
    samples = [core.strip_private(r["scn"]) for r in recs[:1] + recs[len(recs) // 2: len(recs) // 2 + 1] + recs[-1:]]
    n_ob = len(obligations)
    n_dis = sum(1 for k, v in obligations.items() if set(v) <= core.ACCEPTED_AXIOMS) if not proof_problems else \
        sum(1 for k, v in obligations.items() if set(v) <= core.ACCEPTED_AXIOMS and not any(p.get("theorem") == k for p in proof_problems))
    violations = len(definite) + (1 if (proof_problems or mism) and not definite else 0)
    ev = {
        "property_id": pid, "tier": tier, "seed": seed, "level": P.get("level", "proof"),
        "coverage": {
            "obligations": n_ob, "discharged": n_dis if ok_proof else 0,
            "checker_cmd": f"cd lean && lake build {' '.join(targets)} && lake env lean <file importing ChipFiring.AuditCmd and ChipFiring.Properties.{pid} with #audit_properties>" + (" && lake env leanchecker " + " ".join(P.get('leanchecker_modules', targets)) if tier == "thorough" else ""),
            "trusted_base": P.get("trusted_base", props.TRUSTED_BASE),
            "theorems": {k: v for k, v in sorted(obligations.items())},
            "evaluations": sum(len(r["py"]) for r in recs),
            "scenarios": len(recs),
            "distinct_nontrivial": len(nontriv),
            "rule": P.get("rule", "") + " | " + props.NONTRIVIAL_RULE.get(pid, "non-trivial: see DESIGN.md"),
            "samples": samples,
            "strata": dict(sorted(strata.items())),
            "disagreements_checked": len(mism) + len(definite) + len(known_hits),
            "failing_input_search_cases": searched,
            "witnesses_validated": len(wit_run),
            "regenerated": regen_note,
            "known_findings_reproduced": sorted(known_hits),
            "exhaustive": False,
        },
        "assumptions": P.get("assumptions", props.ASSUMPTIONS),
        "wall_s": round(wall, 2),
        "violations": violations,
    }
    core.write_evidence(pid, ev)

    # ---- 6. report
    for kid, (k, entry) in known_hits.items():
        print(f"KNOWN-FINDING: property={pid} {k['what']}")
    if definite:
        path = core.write_replay(pid, {
            "property": pid, "kind": "failing-input",
            "scenario": definite[0]["scenario"], "detail": definite[0]["detail"],
            "property_failures": definite[0]["property_failures"],
            "proof_problems": proof_problems,
            "replay_cmd": f"./check {pid} --replay <this file>",
            "others": [d["scenario"] for d in definite[1:6]],
        })
        print(f"VIOLATION property={pid} replay={path}")
        return 1
    if proof_problems or mism:
        path = core.write_replay(pid, {
            "property": pid, "kind": "broken-obligation-or-correspondence",
            "proof_problems": proof_problems,
            "correspondence_mismatches": mism[:5],
            "scenarios": [m["scenario"] for m in mism[:5]],
            "searched_cases": searched,
            "note": "no input was found on which the property itself fails; the named theorem or correspondence line no longer checks",
        })
        print(f"VIOLATION property={pid} replay={path} no-failing-input-found")
        return 1
    print(f"OK property={pid} tier={tier} seed={seed} scenarios={len(recs)} obligations={n_ob} wall={wall:.1f}s")
    return 0


if __name__ == "__main__":
    sys.exit(main())
