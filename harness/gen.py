"""Structured generators.  Every random choice derives from one `random.Random`, so a case
replays from (seed, index).  Graph scenarios are dicts in the line-protocol vocabulary."""
import random, itertools, string

# ----------------------------------------------------------------------------- names

UNI = ["α", "β", "γ", "δ", "é", "ß", "Ω", "ж", "中", "𝒳"]


def gen_names(rng, n, style=None):
    """n distinct names, returned sorted (index = position in sorted order)."""
    style = style or rng.choice(["v", "v", "letters", "unicode", "long", "blanks", "digits", "mixed", "casetwin", "numsuffix", "hyphen", "concat"])
    out = set()
    k = 0
    while len(out) < n:
        k += 1
        if style == "v":
            nm = f"v{len(out)}"
        elif style == "letters":
            nm = "".join(rng.choice(string.ascii_letters) for _ in range(rng.randint(1, 3)))
        elif style == "unicode":
            nm = "".join(rng.choice(UNI) for _ in range(rng.randint(1, 2))) + str(rng.randint(0, 9))
        elif style == "long":
            nm = "vertex_" + "".join(rng.choice(string.ascii_lowercase) for _ in range(rng.randint(10, 30)))
        elif style == "blanks":
            nm = rng.choice(string.ascii_letters) + " " + rng.choice(string.ascii_letters) + str(rng.randint(0, 99))
        elif style == "digits":
            nm = str(rng.randint(0, 200))
        elif style == "casetwin":
            # names that differ only by letter case, next to unrelated ones
            nm = rng.choice(["v", "V", "a", "A", "b", "B", "ab", "Ab", "aB", "AB", "v1", "V1"])
            if k > 40:
                nm += str(k)
        elif style == "hyphen":
            # names whose concatenations with "-" collide: ("a", "b-c") and ("a-b", "c") both read "a-b-c"
            nm = rng.choice(["a", "b", "c", "d", "a-b", "b-c", "c-d", "a-b-c", "b-c-d", "-", "a-", "-b", "--"])
            if k > 40:
                nm += str(k)
        elif style == "concat":
            # names that are concatenations of other names ("11" = "1" + "1", "ab" = "a" + "b")
            nm = rng.choice(["1", "11", "111", "2", "12", "21", "112", "a", "aa", "ab", "b", "ba", "aab"])
            if k > 40:
                nm += str(k)
        elif style == "numsuffix":
            # digit runs of different length / leading zeros: natural order != string order
            pre = rng.choice(["v", "v", "n", ""])
            nm = pre + rng.choice([str(rng.randint(0, 12)), str(rng.randint(8, 120)), "0" + str(rng.randint(0, 12))])
        else:
            nm = rng.choice(["A", "b", "10", "2", "Z z", "ω", "q", "VERTICES", "x_1", "-5", "e", "", "0"]) + (str(k) if k > 13 else "")
        out.add(nm)
    return sorted(out)


# ----------------------------------------------------------------------------- graphs

def simple_family(rng, n):
    """dict {(a,b): mult} with a<b; connected; named families"""
    kinds = ["tree", "cycle", "complete", "star", "path", "bip", "banana", "dtri", "wheel", "dumbbell", "rand", "rand", "rand", "randmulti", "randmulti",
             "multicycle", "multicycle", "multitree", "thick"]
    kind = rng.choice(kinds)
    E = {}

    def add(a, b, m=1):
        if a == b:
            return
        a, b = min(a, b), max(a, b)
        E[(a, b)] = E.get((a, b), 0) + m

    if n == 1:
        return "single", E
    if kind == "path" or n == 2 and kind not in ("banana",):
        for i in range(n - 1):
            add(i, i + 1)
    elif kind == "cycle":
        for i in range(n):
            add(i, (i + 1) % n)
    elif kind == "complete":
        for a in range(n):
            for b in range(a + 1, n):
                add(a, b)
    elif kind == "star":
        c = rng.randrange(n)
        for i in range(n):
            add(c, i)
    elif kind == "bip":
        a = rng.randint(1, n - 1)
        for x in range(a):
            for y in range(a, n):
                add(x, y)
    elif kind == "banana":
        m = rng.randint(2, 4)
        for i in range(n - 1):
            add(i, i + 1, m if i == 0 else rng.randint(1, 3))
    elif kind == "dtri":
        for i in range(min(n, 3)):
            add(i, (i + 1) % min(n, 3), 2)
        for i in range(3, n):
            add(rng.randrange(i), i, rng.randint(1, 2))
    elif kind == "wheel":
        for i in range(1, n):
            add(0, i)
            add(i, 1 + (i % (n - 1)))
    elif kind == "multicycle":
        # cycle with multiplicities, often alternating (a,b,a,b,...): same valences, different multiplicities
        a_, b_ = rng.randint(1, 3), rng.randint(1, 3)
        alt = rng.random() < 0.6
        for i in range(n):
            add(i, (i + 1) % n, (a_ if i % 2 == 0 else b_) if alt else rng.randint(1, 3))
    elif kind == "multitree":
        perm = list(range(n))
        rng.shuffle(perm)
        for i in range(1, n):
            add(perm[rng.randrange(i)], perm[i], rng.randint(1, 4))
    elif kind == "thick":
        m = rng.randint(2, 3)
        perm = list(range(n))
        rng.shuffle(perm)
        for i in range(1, n):
            add(perm[rng.randrange(i)], perm[i], m)
        for _ in range(rng.randint(0, 2)):
            a, b = rng.sample(range(n), 2)
            add(a, b, m)
    elif kind == "dumbbell":
        h = n // 2
        for a in range(h):
            for b in range(a + 1, h):
                add(a, b)
        for a in range(h, n):
            for b in range(a + 1, n):
                add(a, b)
        add(h - 1 if h else 0, h)
    else:
        perm = list(range(n))
        rng.shuffle(perm)
        for i in range(1, n):
            add(perm[rng.randrange(i)], perm[i])
        if kind != "tree":
            for _ in range(rng.randint(0, n)):
                a, b = rng.sample(range(n), 2)
                add(a, b)
        if kind == "randmulti":
            for e in list(E):
                if rng.random() < 0.5:
                    E[e] += rng.randint(1, 3)
    # connectivity repair (wheel on tiny n etc.)
    E = {e: m for e, m in E.items() if m > 0}
    comp = list(range(n))

    def find(x):
        while comp[x] != x:
            x = comp[x]
        return x
    for (a, b) in E:
        comp[find(a)] = find(b)
    for i in range(1, n):
        if find(i) != find(0):
            add(0, i)
            comp[find(i)] = find(0)
    return kind, E


def present_edges(rng, E, flips=True, split=True):
    """edge list as handed to the constructor: random order, endpoint order, multiplicities
    possibly split over repeated pairs"""
    out = []
    for (a, b), m in E.items():
        parts = [m]
        if split and m > 1 and rng.random() < 0.4:
            k = rng.randint(1, m - 1)
            parts = [k, m - k]
        for p in parts:
            if flips and rng.random() < 0.5:
                out.append([b, a, p])
            else:
                out.append([a, b, p])
    rng.shuffle(out)
    return out


def genus_of(n, E):
    return sum(E.values()) - n + 1


def gen_graph(rng, nmin=2, nmax=6, names=True):
    n = rng.randint(nmin, nmax)
    kind, E = simple_family(rng, n)
    scn = {"n": n, "edges": present_edges(rng, E), "_kind": kind, "_genus": genus_of(n, E)}
    if names:
        scn["names"] = gen_names(rng, n)
        order = list(range(n))
        rng.shuffle(order)
        scn["vlist"] = order
        scn["vaslist"] = rng.random() < 0.3
    if rng.random() < 0.12 and len(scn["edges"]) >= 2:
        # ask once on a (connected) prefix of the edges, insert the rest into the same object, ask again
        comp = list(range(n))

        def find(x):
            while comp[x] != x:
                x = comp[x]
            return x
        kmin = None
        for i, (a, b, _) in enumerate(scn["edges"]):
            comp[find(a)] = find(b)
            if len({find(v) for v in range(n)}) == 1:
                kmin = i + 1
                break
        if kmin is not None and kmin < len(scn["edges"]):
            scn["warmup"] = rng.randint(kmin, len(scn["edges"]) - 1)
            scn["warm_single"] = rng.random() < 0.5
    return scn, E


# ----------------------------------------------------------------------------- divisors

def gen_divisor(rng, n, g, band=None, debt=None, mag=4):
    """degree vector, stratified by degree band relative to the genus and by debt pattern"""
    band = band or rng.choice(["neg", "low", "mid", "high", "any", "any"])
    debt = debt or rng.choice(["none", "one", "adjacent", "heavy", "tiemin", "any", "any"])
    if debt == "none":
        d = [rng.randint(0, mag) for _ in range(n)]
    elif debt == "one":
        d = [rng.randint(0, mag) for _ in range(n)]
        d[rng.randrange(n)] = -rng.randint(1, mag)
    elif debt == "adjacent":
        d = [rng.randint(-mag, mag) for _ in range(n)]
        for i in rng.sample(range(n), min(n, rng.randint(2, 3))):
            d[i] = -rng.randint(1, mag)
    elif debt == "heavy":
        d = [rng.randint(-2 * mag, mag) for _ in range(n)]
    elif debt == "tiemin":
        d = [rng.randint(0, mag) for _ in range(n)]
        lo = -rng.randint(0, mag)
        for i in rng.sample(range(n), min(n, 2)):
            d[i] = lo
    else:
        d = [rng.randint(-mag, mag) for _ in range(n)]
    # steer the total degree into the band by adjusting one vertex
    tot = sum(d)
    if band == "neg":
        target = -rng.randint(1, 3)
    elif band == "low":
        target = rng.randint(0, max(0, g - 1))
    elif band == "mid":
        target = rng.randint(g, max(g, 2 * g - 2))
    elif band == "high":
        target = 2 * g - 2 + rng.randint(1, 3)
    else:
        target = tot
    i = rng.randrange(n)
    d[i] += target - tot
    return d, band, debt


def band_of(deg, g):
    if deg < 0:
        return "neg"
    if deg <= g - 1:
        return "low"
    if deg <= 2 * g - 2:
        return "mid"
    return "high"
