NOTES = "See DESIGN.md. Every check: regenerate data from /repo, lake build of the property's theorems, axiom audit, correspondence run, failing-input search on breakage."
NOT_APPLICABLE = {}
CHECKS = {
    "C01": {
        "text": "Kernel-checked theorem: whenever the model of EWD returns, its verdict is exact (q-reduced form + Dhar's burn + uniqueness argument); the model is tied to the code by running both on generated multigraphs/divisors in both modes and diffing verdicts.",
        "note": "Trusted: Lean kernel, axioms propext/Classical.choice/Quot.sound, fidelity of the hand-written model (checked differentially on this run's inputs only), harness canonicalisation.",
    },
    "C05": {
        "text": "Kernel-checked theorems on the move model: lend = D - L e_v, borrow its inverse, set-fire = sequential lends in any order, fire-all = identity, commutation, and conservation of the degree sum (= the constructor's cached total) over every history including refused requests; tie: generated lend/borrow/set_fire/transfer histories through CFDivisor and CFConfig, all degrees + cached total + is_effective diffed after every step.",
        "note": "Trusted: Lean kernel + standard axioms; model fidelity is checked differentially only on this run's histories (length <= 25 quick / 100 thorough, n <= 6).",
    },
    "C06": {
        "text": "Kernel-checked theorems: Laplacian entries (symmetric, zero row sums, valence diagonal, minus multiplicity off it), apply = D - L s in unbounded Int, additive, equal to any interleaving of the scripted single moves; tie: matrices, reduced matrices, incremental script histories, apply results with entries up to 2^70 incl. type tags and JSON acceptance.",
        "note": "The *type* of returned numbers (plain int vs numpy scalar) and JSON acceptance are runtime facts: compared by the correspondence (model always answers plain int / accepted), not proved.",
    },
    "C12": {
        "text": "Kernel-checked theorems: +, -, neg, integer scaling act vertex-wise, abelian group laws, Z-action laws, additive cached totals, chip = unit, unit decomposition, == iff same vertex set & chips & multigraph, mismatched vertex sets refused; tie: generated pairs/triples with magnitudes to 2^70 on same object / equal copy / other edges / other vertex set, operand digests afterwards.",
        "note": "Operand immutability is a store fact: the model is purely functional, the code's behaviour is observed through operand digests after every expression.",
    },
    "C13": {
        "text": "Kernel-checked invariant by induction over arbitrary operation histories: adjacency symmetric and loopless, cached valence = row sum, 2*edge total = sum of valences, genus formula, refusals (loop, non-positive, unknown) leave the graph unchanged, add_edges = its accepted prefix, remove_vertex well-formed and pure; tie: generated valid/invalid histories with full cache digests after every step.",
        "note": "Equality 'remove_vertex = induced multigraph' is tied by correspondence (renumbered digest compared); the theorem proves well-formedness of the rebuilt graph and purity.",
    },
}
