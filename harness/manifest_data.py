NOTES = "See DESIGN.md. Every check: regenerate data from /repo, lake build of the property's theorems, axiom audit, correspondence run, failing-input search on breakage."
NOT_APPLICABLE = {}
CHECKS = {
    "C01": {
        "text": "Kernel-checked theorem: whenever the model of EWD returns, its verdict is exact (q-reduced form + Dhar's burn + uniqueness argument); the model is tied to the code by running both on generated multigraphs/divisors in both modes and diffing verdicts.",
        "note": "Trusted: Lean kernel, axioms propext/Classical.choice/Quot.sound, fidelity of the hand-written model (checked differentially on this run's inputs only), harness canonicalisation.",
    },
}
