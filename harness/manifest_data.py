NOTES = "See DESIGN.md. Every check: regenerate data from /repo, lake build of the property's theorems, axiom audit, correspondence run, failing-input search on breakage."
NOT_APPLICABLE = {}
CHECKS = {
    "C01": {
        "text": "Kernel-checked theorems: whenever the model of EWD returns, its verdict is exact in plain mode (q-reduced form + Dhar burn completeness + maximum-principle argument) and in optimized mode (negative degree unwinnable; degree >= genus winnable via the acyclic burning orientation of degree g-1), both modes agree, is_winnable is exact. Tie: both modes, recording on/off, generated multigraphs x divisors incl. a stratum (chain multigraphs, low degree, heavy adjacent debt) where incomplete debt concentration flips the verdict.",
        "note": "Trusted: Lean kernel, axioms propext/Classical.choice/Quot.sound, fidelity of the hand-written model (checked differentially on this run's inputs only), harness canonicalisation.",
    },
    "C05": {
        "text": "Kernel-checked theorems on the move model: lend = D - L e_v, borrow its inverse, set-fire = sequential lends in any order, fire-all = identity, commutation, and conservation of the degree sum (= the constructor's cached total) over every history including refused requests; tie: generated lend/borrow/set_fire/transfer histories through CFDivisor and CFConfig, all degrees + cached total + is_effective diffed after every step.",
        "note": "Trusted: Lean kernel + standard axioms; model fidelity is checked differentially only on this run's histories (length <= 25 quick / 100 thorough, n <= 6).",
    },
    "C06": {
        "text": "Kernel-checked theorems: Laplacian entries (symmetric, zero row sums, valence diagonal, minus multiplicity off it), apply = D - L s in unbounded Int, additive, equal to any interleaving of the scripted single moves; tie: matrices, reduced matrices, incremental script histories, apply results with entries up to 2^70 incl. type tags and JSON acceptance.",
        "note": "The *type* of returned numbers (plain int vs numpy scalar) and JSON acceptance are runtime facts: compared by the correspondence (model always answers plain int / accepted), not proved.",
    },
    "C12": {
        "text": "Kernel-checked theorems: +, -, neg, integer scaling act vertex-wise, abelian group laws, Z-action laws, additive cached totals, chip = unit, unit decomposition, == iff same vertex set & chips & multigraph, mismatched vertex sets refused; tie: generated pairs/triples with magnitudes to 2^70 on same object / equal copy / other edges / other vertex set, operand digests afterwards.",
        "note": "Operand immutability is a store fact: the model is purely functional, the code's behaviour is observed through operand digests after every expression.",
    },
    "C13": {
        "text": "Kernel-checked invariant by induction over arbitrary operation histories: adjacency symmetric and loopless, cached valence = row sum, 2*edge total = sum of valences, genus formula, refusals (loop, non-positive, unknown) leave the graph unchanged, add_edges = its accepted prefix, remove_vertex well-formed and pure; tie: generated valid/invalid histories with full cache digests after every step.",
        "note": "Equality 'remove_vertex = induced multigraph' is tied by correspondence (renumbered digest compared); the theorem proves well-formedness of the rebuilt graph and purity.",
    },
    "C02": {
        "text": "Kernel-checked theorems on the EWD model: the returned divisor is linearly equivalent to the input with the same degree, its sink has minimum degree, it is q-reduced (no debt off q, no legal set: Dhar burn completeness), q-reduced representatives are unique (so equivalent inputs with the same sink give identical outputs whatever orders the runs used), verdict = no debt at q. is_q_reduced: theorem that the API is constantly True + kernel-checked refutation witness (known finding K1) + the provable half. Tie: EWD / q_reduction / is_q_reduced / is_winnable on generated inputs; oracle: verified reduction w.r.t. every minimum-degree sink.",
        "note": "hcover (BFS reaches all vertices) and 'the run returns' are hypotheses of the theorems; the model's fidelity is checked differentially on this run's inputs. The 'exactly when' clause for is_q_reduced is refuted, not proved (K1).",
    },
    "C08": {
        "text": "Kernel-checked theorems: debt concentration stays in the class, keeps the degree and clears V-q whenever it returns; the burn as coded (index-order passes with in-pass updates) returns exactly the union of all legal sets, itself legal; firing it leaves members debt-free; empty iff superstable. Tie: DharAlgorithm.send_debt_to_q / run / get_maximal_legal_firing_set / legal_set_fire / is_superstable for every sink on generated inputs.",
        "note": "Termination of the borrowing loop is not yet a theorem (fuel-bounded model); non-termination of the code would show as TIMEOUT in the correspondence.",
    },
    "C09": {
        "text": "Kernel-checked theorem from the time-stamped burn invariant: the returned orientation is full, acyclic (burn time is a topological order), q is the only source, every other vertex holds fewer chips than its in-degree, in-degrees sum to |E|; unwinnable verdict implies vertex-wise domination by in-degree minus one. Tie: orientation, in/out counters and fullness of every EWD result compared edge by edge, and the certificate re-checked directly on the implementation's output.",
        "note": "Same hypotheses as C01 (well-formed graph, BFS cover, run returns).",
    },
}
