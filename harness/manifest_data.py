NOTES = "See DESIGN.md. Every check: regenerate data from /repo, lake build of the property's theorems, axiom audit, correspondence run, failing-input search on breakage."
NOT_APPLICABLE = {}
CHECKS = {
    "C01": {
        "text": "Kernel-checked theorems: on every connected well-formed multigraph the model of EWD returns for all sufficiently large fuel (termination: debt sweep by least action, firing rounds by a strictly decreasing potential), and whenever it returns its verdict is exact in plain mode (q-reduced form + Dhar burn completeness + maximum-principle argument) and in optimized mode (negative degree unwinnable; degree >= genus winnable via the acyclic burning orientation of degree g-1), both modes agree, is_winnable is exact. Tie: both modes, recording on/off, generated multigraphs x divisors incl. a stratum (chain multigraphs, low degree, heavy adjacent debt) where incomplete debt concentration flips the verdict.",
        "note": "Trusted: Lean kernel, axioms propext/Classical.choice/Quot.sound, fidelity of the hand-written model (checked differentially on this run's inputs only), harness canonicalisation.",
    },
    "C05": {
        "text": "Kernel-checked theorems on the move model: lend = D - L e_v, borrow its inverse, set-fire = sequential lends in any order, fire-all = identity, commutation, and conservation of the degree sum (= the constructor's cached total) over every history including refused requests; tie: generated lend/borrow/set_fire/transfer histories through CFDivisor and CFConfig, all degrees + cached total + is_effective diffed after every step.",
        "note": "Trusted: Lean kernel + standard axioms; model fidelity is checked differentially only on this run's histories (length <= 25 quick / 100 thorough, n <= 6).",
    },
    "C06": {
        "text": "Kernel-checked theorems: Laplacian entries (symmetric, zero row sums, valence diagonal, minus multiplicity off it), apply = D - L s in unbounded Int, additive, equal to any interleaving of the scripted single moves; tie: matrices, reduced matrices, incremental script histories, apply results with entries up to 2^70 incl. type tags and JSON acceptance.",
        "note": "The *type* of returned numbers (plain int vs numpy scalar) and JSON acceptance are runtime facts: compared by the correspondence (model always answers plain int / accepted), not proved.",
    },
    "C12": {
        "text": "Kernel-checked theorems: +, -, neg, integer scaling act vertex-wise, abelian group laws, Z-action laws, additive cached totals, chip = unit, unit decomposition, == iff same vertex set & chips & multigraph, mismatched vertex sets refused; tie: generated pairs/triples with magnitudes to 2^70 on same object / equal copy / other edges / other vertex set, operand digests afterwards.",
        "note": "Operand immutability is a store fact: the model is purely functional, the code's behaviour is observed through operand digests after every expression.",
    },
    "C13": {
        "text": "Kernel-checked invariant by induction over arbitrary operation histories: adjacency symmetric and loopless, cached valence = row sum, 2*edge total = sum of valences, genus formula, refusals (loop, non-positive, unknown) leave the graph unchanged, add_edges = its accepted prefix, remove_vertex well-formed and pure; tie: generated valid/invalid histories with full cache digests after every step.",
        "note": "remove_vertex = induced multigraph is a theorem on the old index space (remove_vertex_is_induced); the renumbering of the survivors is the harness's bijection, compared by digest.",
    },
    "C02": {
        "text": "Kernel-checked theorems on the EWD model: the returned divisor is linearly equivalent to the input with the same degree, its sink has minimum degree, it is q-reduced (no debt off q, no legal set: Dhar burn completeness), q-reduced representatives are unique (so equivalent inputs with the same sink give identical outputs whatever orders the runs used), verdict = no debt at q. is_q_reduced: theorem that the API is constantly True + kernel-checked refutation witness (known finding K1) + the provable half. Tie: EWD / q_reduction / is_q_reduced / is_winnable on generated inputs; oracle: verified reduction w.r.t. every minimum-degree sink.",
        "note": "Headline forms (q_reduction_spec) need only: well-formed connected graph, n>0; BFS cover and termination are theorems. The model's fidelity is checked differentially on this run's inputs. The 'exactly when' clause for is_q_reduced is refuted, not proved (K1).",
    },
    "C08": {
        "text": "Kernel-checked theorems: debt concentration stays in the class, keeps the degree and clears V-q whenever it returns; the burn as coded (index-order passes with in-pass updates) returns exactly the union of all legal sets, itself legal; firing it leaves members debt-free; empty iff superstable. Tie: DharAlgorithm.send_debt_to_q / run / get_maximal_legal_firing_set / legal_set_fire / is_superstable for every sink on generated inputs.",
        "note": "Termination of the borrowing loop on connected graphs is a theorem (send_debt_total); non-termination of the code would show as TIMEOUT in the correspondence.",
    },
    "C09": {
        "text": "Kernel-checked theorem from the time-stamped burn invariant: the returned orientation is full, acyclic (burn time is a topological order), q is the only source, every other vertex holds fewer chips than its in-degree, in-degrees sum to |E|; unwinnable verdict implies vertex-wise domination by in-degree minus one. Tie: orientation, in/out counters and fullness of every EWD result compared edge by edge, and the certificate re-checked directly on the implementation's output.",
        "note": "Headline form certificate_connected: well-formed connected graph; BFS cover is a theorem.",
    },
    "C03": {
        "text": "Kernel-checked theorems: the rank relation is functional and a class invariant; good degrees are downward closed; the enumeration of effective divisors of degree k is complete and sound; the plain-mode loop returns the Baker-Norine rank (-1 exactly for unwinnable inputs); the Riemann-Roch theorem for graphs r(D)-r(K-D)=deg D+1-g (proved in Lean from q-reduced existence, Dhar's certificate and unwinnability of acyclic-orientation divisors, Baker-Norine's argument); every divisor has a rank; r(D)=deg D-g above 2g-2; optimized mode is exact on every branch (shortcut and K-D switch justified by Riemann-Roch); modes agree; computed values satisfy Riemann-Roch. Tie: rank()/r() in both modes, four degree bands, worker pool real / stubbed / thread pool.",
        "note": "Nothing partial. Hypotheses: connected well-formed graph (Good), the divisor's cached total equals its degree sum (C05), runs return (termination of EWD is a theorem; the enumeration loop is structurally bounded). Worker-pool independence is a runtime fact decided by the tie (pool real / stubbed / threads).",
    },
    "C04": {
        "text": "Kernel-checked theorems: single game and strategy test are exactly winnability of placement minus one chip / rank>=1 (any placement); compute_gonality returns the least degree of an effective rank>=1 divisor if it is <= the cut-off and -1 otherwise, for both values of find_strategies; every reported strategy is effective, has exactly that many chips and beats every vertex; no smaller placement does; gonality <= |V|; per-sink Dhar strategy test exact; per-sink search (enhanced_dhar_gonality_test / find_minimal_winning_strategies) exact: least number of chips of a surviving non-empty placement off q, strategies = all surviving placements of that size, minimal list = all minimal winners (double-loop invariant incl. the sub-multiset pruning and the one-chip-removal minimality test). Tie: gonality with cut-offs 0..n+1, games, strategy tests, per-sink tests and minimal-strategy search on generated multigraphs.",
        "note": "Nothing partial. Hypotheses: Good graph, runs return, vt duplicate-free (the code iterates a set difference).",
    },
    "C07": {
        "text": "Kernel-checked theorem: linear_equivalence is True exactly when the divisors sit on the same multigraph and D1-D2 is in the Laplacian lattice (degree-0 winnability = equivalence to 0; optimized EWD exact); equivalence-relation laws, invariance under moves, degree obstruction. Tie: identical / script-related / same-degree-other-class / different-degree / one-side-zero pairs on the same object, an equal copy, a twin multigraph or another graph.",
        "note": "Hypotheses: connected well-formed graph, BFS cover, the reduction run returns.",
    },
    "C10": {
        "text": "Kernel-checked theorems: legality test = non-empty and every member has at least its out-degree; superstable = non-negative and no legal set = Dhar burn consumes everything; comparison operators = vertex-wise order on V-q (incomparable configurations refused / unequal); parking predicate rejects wrong lengths and out-of-range values; generated lists consist of parking functions; matrix-tree theorem in chip-firing form, for the two quantities exactly as the library computes them: #(box configurations accepted by is_superstable) = |det reduced Laplacian| on every connected multigraph (superstables <-> cokernel by existence+uniqueness of q-reduced forms; |coker|=|det| from Mathlib's Smith normal form); on K_(n+1) superstable <=> chip counts + 1 form a parking function (sorted test = counting condition); Pollak: generate_parking_functions(m) has exactly (m+1)^(m-1) entries = parking_function_count(m) for every m>=1 (via Cayley's determinant); additionally kernel evaluation for n<=5. Tie: every subset of V-q on generated configurations; superstable count vs exact determinant; K_(n+1) vs parking functions n<=4/5; all sequences over [0..n+1]^n.",
        "note": "Nothing partial: the reduced Laplacian is proved positive definite (Dirichlet form + connectivity; Mathlib spectral theorem for det > 0), so count = det holds as integers. Hypotheses: well-formed connected graph.",
    },
    "C11": {
        "text": "Kernel-checked invariant by induction over arbitrary histories of set_orientation (3 states, both endpoint orders, refused calls, flag refreshes): counters = total multiplicity pointing in/out, endpoints agree, up-to-date fullness flag correct; check_fullness exact; full orientation: in+out = valence, divisor = indeg-1 of degree g-1, divisor + reverse divisor = canonical; acyclic orientation divisor unwinnable (T9). Tie: generated histories with full digests after every step.",
        "note": "reverse() rebuilding through the constructor is tied by correspondence; the identity is proved for any orientation whose states are the flipped ones.",
    },
    "C14": {
        "text": "Kernel-checked theorems (least action): success implies apply(D0, script) = final effective divisor; success/failure and the script are independent of the visiting order; failure implies every non-negative clearing script needs more than 10|V| moves (so: unwinnable or capped); winnable divisors have clearing scripts. Tie: greedy under 3/16 hash seeds, budget-straddling inputs, certificate re-checked through the implementation's own apply.",
        "note": "Caller's divisor untouched: store fact, observed through the argument digest.",
    },
    "C15": {
        "text": "Kernel-checked theorems at dict level: rebuilding a graph from its canonical edge list gives the same multiplicities/valences/edge total; divisor, script and orientation round trips (orientation: any order of the written edge list restores every edge state and both counters); decimal codec round-trips every integer (Std). Tie + fault enumeration: dict/JSON/TXT round trips for all four object types with hostile names and 10^30 magnitudes; every truncation point (sampled in quick, all in thorough) and single-byte corruptions must not raise, JSON prefixes read None, returned objects well-formed.",
        "note": "PARTIAL: JSON text layer (CPython json), TXT tokenisation (strip/split/replace), file I/O and the damaged-file clause are runtime/library behaviour: explored per generated file, not proved.",
    },
    "C16": {
        "text": "Kernel-checked theorems for the in-place family: EWD (both modes) either leaves the divisor alone (shortcuts) or replaces it by a linearly equivalent divisor of the same degree; Dhar runs likewise; cached total stays right; queries never write the graph. Pure family: the model is functional; the code's behaviour is observed through digests of every argument after every call, a share of calls repeated on the same graph object.",
        "note": "For the pure family the theorem is definitional and the assurance is the differential tie - stated as such.",
    },
    "C17": {
        "text": "Kernel-checked theorems: verdict and reduced divisor do not depend on adjacency orders or fuel (uniqueness of q-reduced forms), the sink is not a function of any container order; Winnable, LinEq, IsRank, IsGonality, QReduced are carried along by every vertex renaming, the reduced divisor is renamed accordingly, the sink of a unique minimum is renamed. Tie: each input presented three ways under 3/16 hash seeds; cross-seed / cross-labelling comparison on the implementation itself.",
        "note": "Hash seeds are an unbounded family: the theorem covers all orders, the tie samples seeds.",
    },
    "C18": {
        "text": "Kernel-checked theorems: the recorder is not an input of the result; every recorded snapshot is linearly equivalent to the input and the last equals the returned divisor (both modes, all exits); element lists: one node per vertex with its chip count, exactly m edge elements per pair of multiplicity m with distinct ids, arrows exactly on oriented edges in the stored direction. Tie: recording on/off pairs, snapshot-by-snapshot trace comparison, snapshot independence, element lists for hyphen-free names.",
        "note": "The Dash application (visualize(), callbacks, layout) is not modelled and not claimed.",
    },
    "C19": {
        "text": "Regenerated from /repo on every run and re-checked by the kernel: closed-form translations = model; the five solids' vertex/edge/regularity counts; tetrahedron and octahedron table entries = gonality of the regenerated graph (verified search + certified hypotheses; cube and K_6 in the thorough tier); gon(K_n)=n-1 proved for every n>=2 (explicit strategy; |S|(n-|S|)>=n-1 kills every legal set of a sparse placement) for the generated edge list and any presentation, = regenerated closed form; additionally kernel evaluation n=2..5; independence number maximal. Refutation of the multipartite formula (K2). Tie: bounds report on every connected simple graph n<=4/5 and families to 5/6, bracketed against the verified gonality; closed forms vs gonality of generated graphs.",
        "note": "PARTIAL: general multipartite formula (refuted as coded, K2) and the bounds (min degree, bramble-1, n-1, n-alpha, aggregates) are decided per explored graph against the verified search, not proved in general (treewidth <= gonality is research-level).",
    },
    "C20": {
        "text": "Kernel-checked theorems on order-mirroring machines: set_fire refused iff some name is unknown, wherever it stands (validate-all-then-transfer); configuration refuses the sink; unknown vertices / non-positive amounts refused by every move; refused requests leave divisor, script, graph, orientation exactly as they were (at any point of a history); reverse/divisor on partial orientations refused touching only flags; constructors reject duplicates/unknown names; add_edges per edge (C13). Tie: histories with ~40% invalid requests of every listed kind, digests after every request.",
        "note": "The substance is the tie (the machines are correct by the order of their checks); stated as such.",
    },
}
