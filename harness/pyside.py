#!/venv/bin/python
"""Python side of the correspondence check.

Reads scenario lines (JSON) from the file given as argv[1], runs each one against the *working
tree* of /repo (imported in-process) and writes one JSON answer per line to argv[2].
Vertices are indices 0..n-1 (position of the name in sorted-name order); a reference >= n is a
name that is not a vertex.  Everything that comes out of a set/dict is canonicalised here; only
raise-vs-return is reported for exceptions ("ERR").
"""
import sys, os, json, signal, warnings, io, contextlib, copy
import random as _r

REPO = os.environ.get("CHIPFIRING_REPO", "/repo")
sys.path.insert(0, REPO)
warnings.filterwarnings("ignore")

# optional line-coverage measurement of the library (tools/cover.py): which lines of /repo's
# package this run's scenarios executed.  Off unless VERIF_COVERAGE names a directory.
_COV = None
if os.environ.get("VERIF_COVERAGE"):
    import coverage as _coverage
    os.makedirs(os.environ["VERIF_COVERAGE"], exist_ok=True)
    _COV = _coverage.Coverage(data_file=os.path.join(os.environ["VERIF_COVERAGE"], "cov"), data_suffix=True,
                              include=[os.path.join(os.path.realpath(REPO), "chipfiring", "*")])
    _COV.start()

import chipfiring  # noqa: E402
from chipfiring.CFGraph import CFGraph, Vertex  # noqa: E402
from chipfiring.CFDivisor import CFDivisor  # noqa: E402
from chipfiring.CFOrientation import CFOrientation, OrientationState  # noqa: E402
from chipfiring.CFConfig import CFConfig  # noqa: E402
from chipfiring.CFDhar import DharAlgorithm  # noqa: E402
from chipfiring.CFLaplacian import CFLaplacian  # noqa: E402
from chipfiring.CFiringScript import CFiringScript  # noqa: E402
from chipfiring import algo  # noqa: E402

assert os.path.realpath(chipfiring.__file__).startswith(os.path.realpath(REPO)), chipfiring.__file__


class Timeout(Exception):
    pass


def _alarm(signum, frame):
    raise Timeout()


signal.signal(signal.SIGALRM, _alarm)

OPS = {}
WARM = {}
NO_WARMUP = {"graph_hist", "winnable_hist"}      # operations that mutate the graph themselves


def op(name):
    def deco(f):
        OPS[name] = f
        return f
    return deco


# ----------------------------------------------------------------------------- helpers

class Ctx:
    """name <-> index bijection of one scenario"""

    def __init__(self, scn):
        self.scn = scn
        self.n = scn["n"]
        self.names = scn.get("names") or [f"v{i}" for i in range(self.n)]
        assert len(self.names) == self.n and sorted(self.names) == list(self.names), "names must be sorted"
        self.idx = {nm: i for i, nm in enumerate(self.names)}

    def name(self, i):
        return self.names[i] if 0 <= i < self.n else f"∅unknown{i}"

    def index(self, nm):
        return self.idx[nm]

    def vlist(self, scn):
        order = scn.get("vlist")
        names = [self.name(i) for i in order] if order is not None else list(self.names)
        if scn.get("dupv"):
            return names + names[:1]
        return names if scn.get("vaslist") else set(names)

    def edges(self, es):
        return [(self.name(a), self.name(b), k) for a, b, k in es]

    def graph(self, scn):
        """the scenario's graph.  With `warmup: k` the scenario is run twice on ONE graph object:
        first built from the first k edges (result discarded), then the remaining edges are
        inserted with add_edges and the operation is asked again - whatever the library cached
        per graph object during the first run must not leak into the second"""
        k = scn.get("warmup")
        if k is None or WARM.get("phase") is None:
            return self.poke(CFGraph(self.vlist(scn), self.edges(scn["edges"])), scn)
        if WARM["phase"] == 1:
            G = CFGraph(self.vlist(scn), self.edges(scn["edges"][:k]))
            WARM["G"] = G
            return self.poke(G, scn)
        G = WARM["G"]
        rest = self.edges(scn["edges"][k:])
        if scn.get("warm_single"):
            for a, b, m in rest:
                G.add_edge(a, b, m)
        else:
            G.add_edges(rest)
        return self.poke(G, scn)

    def poke(self, G, scn):
        """requests that the library must refuse (C13/C20), issued against the object about to
        be analysed; whatever they answer, the model's graph is the one described by the
        scenario, so anything they leave behind shows up as a difference"""
        seed = scn.get("poke")
        if seed is None or not self.names:
            return G
        r = _r.Random(seed)
        taken = set(self.names)
        unknown = [u for u in ("\u2205late", "!early", self.names[-1] + "~", self.names[0][:-1] or "0", "zz9") if u not in taken]
        for _ in range(r.randint(1, 4)):
            a, b = r.choice(self.names), r.choice(self.names)
            kind = r.choice(["unk2", "unk2", "unk1", "loop", "zero", "neg", "batch"])
            u = r.choice(unknown)
            if kind == "unk2":
                call(G.add_edge, a, u, r.randint(1, 4))
            elif kind == "unk1":
                call(G.add_edge, u, a, r.randint(1, 4))
            elif kind == "loop":
                call(G.add_edge, a, a, r.randint(1, 3))
            elif kind == "zero" and a != b:
                call(G.add_edge, a, b, 0)
            elif kind == "neg" and a != b:
                call(G.add_edge, a, b, -r.randint(1, 3))
            elif kind == "batch":
                call(G.add_edges, [(a, u, 2), (a, b, 1)] if a != b else [(a, a, 1)])
        return G

    def derived(self, G, degs, seed):
        """the same chip counts, but on an object that did not come straight from the constructor:
        results of arithmetic (negation, scalar multiples, sums, differences), of Laplacian.apply
        with the zero script, or of moves that cancel - what a caller's divisor usually is"""
        r = _r.Random(seed)
        n = self.n

        def mk(ds):
            return CFDivisor(G, [(self.names[i], ds[i]) for i in range(n)])
        how = r.choice(["negneg", "neg", "rmul", "rmul", "sum", "diff", "apply0", "moves", "transfer", "scale1"]
                       + (["deepcopy", "fromdict", "cfgcopy", "cfgcopy"] if self.scn.get("op") in ("ewd", "greedy", "lap", "dhar") else [])
                       + (["deepcopy", "fromdict", "fromdict"] if self.scn.get("op") in ("rank", "api") else []))
        if how == "deepcopy":
            # the same chips on an equal but distinct graph object (the analysis still receives G)
            return copy.deepcopy(mk(degs))
        if how == "fromdict":
            return CFDivisor.from_dict(mk(degs).to_dict())
        if how == "cfgcopy" and n >= 1:
            # the divisor under a copied configuration
            return CFConfig(mk(degs), self.names[r.randrange(n)]).copy().divisor
        if how == "negneg":
            return -(-mk(degs))
        if how == "neg":
            return -mk([-x for x in degs])
        if how == "scale1":
            return 1 * mk(degs)
        if how == "rmul":
            ks = [k for k in (2, 3, 5, -2, -3) if all(x % k == 0 for x in degs)] or [-1]
            k = r.choice(ks)
            return k * mk([x // k for x in degs])
        if how in ("sum", "diff"):
            a = [r.randint(-3, 3) for _ in range(n)]
            if how == "sum":
                return mk(a) + mk([d - x for d, x in zip(degs, a)])
            return mk([d + x for d, x in zip(degs, a)]) - mk(a)
        if how == "apply0":
            return CFLaplacian(G).apply(mk(degs), CFiringScript(G))
        D = mk(degs)
        if how == "moves" and n >= 1:
            v = r.choice(self.names)
            D.lending_move(v)
            D.borrowing_move(v)
        elif how == "transfer" and n >= 2:
            a, b = r.sample(self.names, 2)
            k = r.randint(1, 5)
            D.chip_transfer(a, b, k)
            D.chip_transfer(b, a, k)
        return D

    def divisor(self, G, degs, order=None):
        pairs = [(self.names[i], degs[i]) for i in (order if order is not None else range(self.n))]
        D = None
        via = self.scn.get("via")
        if via is not None and order is None:
            self._via_count = getattr(self, "_via_count", 0) + 1
            okd, D = call(self.derived, G, degs, via + self._via_count)
            if not okd or not isinstance(D, CFDivisor):
                D = None
        if D is None:
            D = CFDivisor(G, pairs)
        seed = self.scn.get("poke")
        if seed is not None and self.names:
            # refused requests against the divisor about to be used (C20): unknown destination /
            # source, non-positive amounts, unknown vertex in a move or in a firing set
            r = _r.Random(seed + 1)
            taken = set(self.names)
            unknown = [u for u in ("\u2205late", "!early", self.names[-1] + "~", "zz9") if u not in taken]
            for _ in range(r.randint(1, 3)):
                a, b, u = r.choice(self.names), r.choice(self.names), r.choice(unknown)
                kind = r.choice(["to_unknown", "to_unknown", "from_unknown", "zero", "neg", "lend_unknown", "borrow_unknown", "fire_unknown"])
                if kind == "to_unknown":
                    call(D.chip_transfer, a, u, r.randint(1, 4))
                elif kind == "from_unknown":
                    call(D.chip_transfer, u, a, r.randint(1, 4))
                elif kind == "zero":
                    call(D.chip_transfer, a, b, 0)
                elif kind == "neg":
                    call(D.chip_transfer, a, b, -r.randint(1, 3))
                elif kind == "lend_unknown":
                    call(D.lending_move, u)
                elif kind == "borrow_unknown":
                    call(D.borrowing_move, u)
                else:
                    call(D.set_fire, {a, u})
        return D

    def degs(self, D):
        return [D.degrees[Vertex(nm)] for nm in self.names]

    def hint(self, G):
        return [[self.idx[w.name] for w in G.graph[Vertex(nm)]] for nm in self.names]

    def vorder(self, G):
        return [self.idx[v.name] for v in G.vertices]

    def gdigest(self, G):
        d = G.to_dict()
        assert d["vertices"] == list(self.names)
        return {
            "edges": [[self.idx[a], self.idx[b], k] for a, b, k in d["edges"]],
            "val": [G.vertex_total_valence[Vertex(nm)] for nm in self.names],
            "total": G.total_valence,
            "genus": G.get_genus(),
        }

    def orient_pairs(self, G, O):
        out = []
        for a in self.names:
            for b in self.names:
                if a != b and Vertex(b) in G.graph[Vertex(a)]:
                    st = O.orientation[Vertex(a)][Vertex(b)]
                    if st == OrientationState.SOURCE_TO_SINK:
                        out.append([self.idx[a], self.idx[b]])
        return sorted(out)


def keep(role, factory):
    """analysis objects built in the warm-up run are reused for the real run (same CFGonality /
    CFLaplacian object asked again after its graph changed)"""
    if WARM.get("phase") == 1:
        obj = factory()
        WARM["obj:" + role] = obj
        return obj
    if WARM.get("phase") == 2 and ("obj:" + role) in WARM:
        return WARM["obj:" + role]
    return factory()


def tag(x):
    """type tag of a number: plain int / bool / numpy scalar / other"""
    if type(x) is int:
        return "i"
    if type(x) is bool:
        return "b"
    mod = type(x).__module__
    if mod.startswith("numpy"):
        return "np"
    return type(x).__name__


# ----------------------------------------------------------------------------- ops

@op("ewd")
def op_ewd(scn):
    c = Ctx(scn)
    try:
        G = c.graph(scn)
    except Exception:
        return "ERR"
    D = c.divisor(G, scn["deg"], scn.get("dorder"))
    hint = c.hint(G)
    try:
        verdict, red, orient, viz = algo.EWD(G, D, optimized=bool(scn.get("opt")), visualize=bool(scn.get("viz")))
    except Timeout:
        raise
    except Exception:
        return "ERR"
    out = {"verdict": verdict, "_hint": hint, "_vorder": c.vorder(G)}
    if red is None:
        out.update(q=None, D=None, orient=None, indeg=None, outdeg=None, full=None)
    else:
        # the sink is the unique vertex allowed to be negative ... report the one EWD used:
        # it is recorded by the visualizer when on; otherwise recovered as the orientation's source
        out["D"] = c.degs(red)
        out["orient"] = c.orient_pairs(G, orient)
        out["indeg"] = [orient.in_degree[Vertex(nm)] for nm in c.names]
        out["outdeg"] = [orient.out_degree[Vertex(nm)] for nm in c.names]
        out["full"] = orient.check_fullness()
        out["_ret_is_arg"] = red is D
    if scn.get("viz"):
        out["trace"] = [c.degs(h["divisor"]) for h in viz.history]
        if red is not None and c.n:
            # snapshots must be independent of the live objects: disturb the returned divisor
            red.lending_move(c.names[0])
            D.borrowing_move(c.names[-1])
            if [c.degs(h["divisor"]) for h in viz.history] != out["trace"]:
                out["trace"] = "ALIASED"
            D.lending_move(c.names[-1])
            red.borrowing_move(c.names[0])
        if orient is not None and c.n >= 2 and WARM.get("phase") != 1:
            # ... and of the returned orientation: flip one of its edges and look at the recorded steps
            def osnaps():
                return [c.orient_pairs(h["orientation"].graph, h["orientation"]) for h in viz.history if h.get("orientation") is not None]
            ok1, before = call(osnaps)
            pairs = c.orient_pairs(G, orient)
            if ok1 and pairs:
                a, b = pairs[0]
                call(orient.set_orientation, Vertex(c.names[b]), Vertex(c.names[a]), OrientationState.SOURCE_TO_SINK)
                ok2, after = call(osnaps)
                call(orient.set_orientation, Vertex(c.names[a]), Vertex(c.names[b]), OrientationState.SOURCE_TO_SINK)
                if not ok2 or before != after:
                    out["trace"] = "ORIENT-ALIASED"
        qs = [h["q"] for h in viz.history if h["q"] is not None]
        out["q"] = c.index(qs[0]) if qs else None
    else:
        out["trace"] = None
        out["_viz_none"] = viz is None
    out["arg"] = c.degs(D)
    out["argtotal"] = D.total_degree
    out["graph"] = c.gdigest(G)
    if scn.get("viz") and c.n >= 2 and WARM.get("phase") != 1:
        # ... and independent of the live graph: edit it after the run (thicken a pair, join a new
        # one) and look at what the recorded steps hold
        def snaps():
            res = []
            for h in viz.history:
                for key in ("divisor", "orientation"):
                    o = h.get(key)
                    if o is not None:
                        res.append(digest_graph(o.graph, c.names))
            return res
        ok1, before = call(snaps)
        a, b = c.names[0], c.names[-1]
        call(G.add_edge, a, b, 1)
        call(G.add_edge, c.names[len(c.names) // 2], b, 2)
        ok2, after = call(snaps)
        if not (ok1 and ok2) or before != after or any(x != out["graph"] for x in before):
            out["trace"] = "GRAPH-ALIASED"
    return out



def digest_graph(G, names):
    idx = {nm: i for i, nm in enumerate(names)}
    d = G.to_dict()
    if d["vertices"] != list(names):
        return {"bad_vertices": d["vertices"]}
    return {
        "edges": [[idx[a], idx[b], k] for a, b, k in d["edges"]],
        "val": [G.vertex_total_valence[Vertex(nm)] for nm in names],
        "total": G.total_valence,
        "genus": G.get_genus(),
    }


def call(f, *a, **k):
    """(ok, value) with only raise-vs-return reported"""
    try:
        return True, f(*a, **k)
    except Timeout:
        raise
    except Exception:
        return False, None


@op("graph_hist")
def op_graph_hist(scn):
    c = Ctx(scn)
    ok, G = call(c.graph, scn)
    if not ok:
        return {"ctor": "ERR"}
    out = {"ctor": c.gdigest(G), "steps": []}
    kept = []
    for o in scn.get("ops", []):
        kind = o[0]
        if kind == "add":
            ok, _ = call(G.add_edge, c.name(o[1]), c.name(o[2]), o[3])
            r = "ok" if ok else "ERR"
        elif kind == "adds":
            ok, _ = call(G.add_edges, c.edges(o[1]))
            r = "ok" if ok else "ERR"
        elif kind == "valence":
            ok, v = call(G.get_valence, c.name(o[1]))
            r = v if ok else "ERR"
        elif kind == "remove":
            ok, H = call(G.remove_vertex, c.name(o[1]))
            if ok:
                rest = [nm for i, nm in enumerate(c.names) if i != o[1]]
                # the removed vertex is unknown to the induced graph: queries and insertions naming
                # it are refused (and leave nothing behind: the digest is taken afterwards)
                gone = []
                for probe in (lambda: H.get_valence(c.name(o[1])),
                              lambda: H.add_edge(c.name(o[1]), rest[0], 1) if rest else H.get_valence(c.name(o[1])),
                              lambda: H.add_edge(rest[-1], c.name(o[1]), 2) if rest else H.get_valence(c.name(o[1]))):
                    okp, val = call(probe)
                    gone.append("ERR" if not okp else {"answered": tag(val) if not isinstance(val, (int, type(None))) else val})
                r = digest_graph(H, rest)
                r["gone"] = gone
                # the induced graph is an object of its own: edit it (the original's digest is
                # taken below, after this edit) and keep it to see that later edits of the
                # original do not reach it
                if len(rest) >= 2:
                    a, b = rest[(len(kept)) % len(rest)], rest[(len(kept) + 1) % len(rest)]
                    call(H.add_edge, a, b, 1 + len(kept) % 2)
                kept.append((H, rest, digest_graph(H, rest)))
            else:
                r = "ERR"
        else:
            raise ValueError(kind)
        out["steps"].append({"r": r, "g": c.gdigest(G)})
    out["kept_same"] = all(digest_graph(H, rest) == d for H, rest, d in kept)
    return out


@op("div_hist")
def op_div_hist(scn):
    c = Ctx(scn)
    ok, G = call(c.graph, scn)
    if not ok:
        return {"ctor": "ERR"}
    ok, D = call(CFDivisor, G, [(c.name(i), k) for i, k in scn["entries"]])
    if not ok:
        return {"ctor": "ERR"}
    cfg = None
    if scn.get("q") is not None:
        ok, cfg = call(CFConfig, D, c.name(scn["q"]))
        if not ok:
            return {"ctor": "ERR"}
    out = {"ctor": {"deg": c.degs(D), "total": D.get_total_degree()}, "steps": []}
    for step_no, o in enumerate(scn.get("ops", [])):
        kind = o[0]
        ret = None
        if scn.get("copy_at") == step_no:
            # the history continues on a copy (CFConfig.copy() / deepcopy): a copy is the same game
            if cfg is not None:
                okc, cfg2 = call(cfg.copy)
                if okc and cfg2 is not None:
                    cfg, D = cfg2, cfg2.divisor
            else:
                D = copy.deepcopy(D)
        if kind == "lend":
            ok, _ = call(D.lending_move if not scn.get("alias") else D.firing_move, c.name(o[1]))
        elif kind == "borrow":
            ok, _ = call(D.borrowing_move, c.name(o[1]))
        elif kind == "fire":
            ok, _ = call(D.set_fire, {c.name(i) for i in o[1]})
        elif kind == "transfer":
            if o[3] == 1 and (o[1] + o[2]) % 2 == 0:
                ok, _ = call(D.chip_transfer, c.name(o[1]), c.name(o[2]))          # default amount
            elif (o[1] + 2 * o[2]) % 3 == 0:
                ok, _ = call(D.chip_transfer, vertex_from_name=c.name(o[1]), vertex_to_name=c.name(o[2]), amount=o[3])
            else:
                ok, _ = call(D.chip_transfer, c.name(o[1]), c.name(o[2]), o[3])
        elif kind == "cfg_lend":
            ok, _ = call(cfg.lending_move, c.name(o[1])) if cfg else (False, None)
        elif kind == "cfg_borrow":
            ok, _ = call(cfg.borrowing_move, c.name(o[1])) if cfg else (False, None)
        elif kind == "cfg_fire":
            ok, _ = call(cfg.set_fire, {c.name(i) for i in o[1]}) if cfg else (False, None)
        elif kind == "cfg_degree_at":
            ok, ret = call(cfg.get_degree_at, c.name(o[1])) if cfg else (False, None)
        elif kind == "swap":
            if o[1] >= c.n or o[2] >= c.n:
                ok = False
            else:
                da, db = D.get_degree(c.name(o[1])), D.get_degree(c.name(o[2]))
                if da > db:
                    ok, _ = call(D.chip_transfer, c.name(o[1]), c.name(o[2]), da - db)
                elif db > da:
                    ok, _ = call(D.chip_transfer, c.name(o[2]), c.name(o[1]), db - da)
                else:
                    ok = True
        elif kind == "cfg_superstable":
            ok, ret = call(cfg.is_superstable) if cfg else (False, None)
            ret = int(bool(ret)) if ok else None
        elif kind == "cfg_nonneg":
            ok, ret = call(cfg.is_non_negative) if cfg else (False, None)
            ret = int(bool(ret)) if ok else None
        elif kind == "cfg_legal":
            ok, ret = call(cfg.is_legal_set_firing, {c.name(i) for i in o[1]}) if cfg else (False, None)
            ret = int(bool(ret)) if ok else None
        else:
            raise ValueError(kind)
        out["steps"].append({"ok": ok, "deg": c.degs(D), "ret": ret if ok else None,
                             "total": D.get_total_degree(), "eff": D.is_effective()})
    out["graph"] = c.gdigest(G)
    return out


def ddig(c, D):
    return {"deg": c.degs(D), "total": D.get_total_degree()}


@op("div_arith")
def op_div_arith(scn):
    c = Ctx(scn)
    ok, G = call(c.graph, scn)
    if not ok:
        return {"ctor": "ERR"}
    n = c.n
    A = c.divisor(G, scn["A"])
    Acopy = c.divisor(G, scn["A"])
    if scn.get("names2") is not None:
        names2 = [c.name(i) for i in scn["names2"]]
        G2 = CFGraph(set(names2), [(c.name(a), c.name(b), k) for a, b, k in scn.get("edges2", [])])
        vals = list(scn["B"]) + [0] * len(names2)
        B = CFDivisor(G2, [(nm, vals[i]) for i, nm in enumerate(sorted(set(names2)))])
        valsA = list(scn["A"]) + [0] * len(names2)
        A2 = CFDivisor(G2, [(nm, valsA[i]) for i, nm in enumerate(sorted(set(names2)))])
    elif scn.get("edges2") is not None:
        G2 = CFGraph(set(c.names), c.edges(scn["edges2"]))
        B = c.divisor(G2, scn["B"])
        A2 = c.divisor(G2, scn["A"])
    else:
        G2 = G
        B = c.divisor(G, scn["B"])
        A2 = c.divisor(G, scn["A"])
    C = c.divisor(G, scn["C"])
    k = scn["k"]
    out = {}

    def d(okv):
        ok, v = okv
        return ddig(c, v) if ok else "ERR"
    out["add"] = d(call(lambda: A + B))
    out["sub"] = d(call(lambda: A - B))
    out["radd"] = d(call(lambda: B + A))
    out["rsub"] = d(call(lambda: B - A))
    out["neg"] = d(call(lambda: -A))
    out["rmul"] = d(call(lambda: k * A))
    out["eq_AB"] = bool(A == B)
    out["eq_AA2"] = bool(A == A2)
    out["eq_self"] = bool(A == Acopy)
    out["add3"] = d(call(lambda: (A + B) + C))
    out["chip"] = d(call(chipfiring.chip, G, c.name(scn["chipv"])))
    from chipfiring.CFDivisor import zero
    out["zero"] = d(call(zero, G))
    # the helpers hand out fresh objects: whatever is done to one result, asking again gives the
    # unit / the zero divisor
    for key, mk in (("chip2", lambda: chipfiring.chip(G, c.name(scn["chipv"]))), ("zero2", lambda: zero(G))):
        okz, Z = call(mk)
        if okz and c.n:
            call(Z.lending_move, c.names[0])
            call(Z.chip_transfer, c.names[0], c.names[-1], 2)
        out[key] = d(call(mk))
    # results must be fresh objects: disturbing a result must not disturb an operand
    aliased = False
    for mk in (lambda: A + B, lambda: A - B, lambda: -A, lambda: k * A, lambda: B + A):
        okr, R = call(mk)
        if okr and c.n:
            before = (c.degs(A), [B.degrees[v] for v in B.degrees])
            nm = next(iter(R.degrees)).name
            R.degrees[Vertex(nm)] += 1
            if (c.degs(A), [B.degrees[v] for v in B.degrees]) != before:
                aliased = True
            R.degrees[Vertex(nm)] -= 1
    out["result_aliases_operand"] = aliased
    # comparison with things that are not divisors: unequal, never an error
    out["eq_other"] = [r if okr else "ERR" for okr, r in (call(lambda: bool(A == "not a divisor")), call(lambda: bool(A == None)), call(lambda: bool(A != 7)))]  # noqa: E711
    # D.remove_vertex(v): a divisor on the induced graph, the original untouched (A_after below)
    okr, R = call(A.remove_vertex, c.name(scn["chipv"]))
    if okr:
        rest = [nm for i, nm in enumerate(c.names) if i != scn["chipv"]]
        try:
            out["rmv"] = {"graph": digest_graph(R.graph, rest), "deg": [R.degrees[Vertex(nm)] for nm in rest], "total": R.get_total_degree()}
        except Exception as e:
            out["rmv"] = {"unobservable": type(e).__name__}
        if rest:
            call(R.lending_move, rest[0])
    else:
        out["rmv"] = "ERR"
    out["A_after"] = ddig(c, A)
    if G2 is G or scn.get("names2") is None:
        out["B_after"] = ddig(c, B)
    else:
        out["B_after"] = {"deg": scn["B"], "total": sum(scn["B"])} if [B.degrees[Vertex(nm)] for nm in sorted(set(names2))] == (list(scn["B"]) + [0] * len(names2))[:len(set(names2))] else "CHANGED"
    out["graph"] = c.gdigest(G)
    return out


@op("lap")
def op_lap(scn):
    c = Ctx(scn)
    ok, G = call(c.graph, scn)
    if not ok:
        return {"ctor": "ERR"}
    n = c.n
    D = c.divisor(G, scn["deg"])
    ok, S = call(CFiringScript, G, {c.name(i): k for i, k in scn.get("init", [])})
    if not ok:
        return {"ctor": "ERR"}
    L = CFLaplacian(G)      # a Laplacian object is a snapshot of its graph by design: never reused across mutations
    out = {}
    out["matrix"] = [[L.get_matrix_entry(a, b) for b in c.names] for a in c.names]
    q = scn["q"]
    if q < n:
        red = L.get_reduced_matrix(Vertex(c.names[q]))
        keep = [nm for i, nm in enumerate(c.names) if i != q]
        ok_shape = set(red.keys()) == {Vertex(nm) for nm in keep} and all(set(red[Vertex(a)].keys()) == {Vertex(nm) for nm in keep} for a in keep)
        out["reduced"] = [[red[Vertex(a)][Vertex(b)] for b in keep] for a in keep] if ok_shape else "BADSHAPE"
    else:
        out["reduced"] = None
    ok, _ = call(L.get_matrix_entry, c.name(n + 3), c.name(0))
    out["entry_bad"] = "ERR" if not ok else "RETURNED"
    steps = []
    for o in scn.get("sops", []):
        ret = None
        if o[0] == "set":
            ok, _ = call(S.set_firings, c.name(o[1]), o[2])
        elif o[0] == "update":
            ok, _ = call(S.update_firings, c.name(o[1]), o[2])
        else:
            ok, ret = call(S.get_firings, c.name(o[1]))
        sc = S.script
        steps.append({"ok": ok, "s": [sc[nm] for nm in c.names], "ret": ret if ok else None})
    out["steps"] = steps
    sc = S.script
    out["script"] = [sc[nm] for nm in c.names]
    s_before = dict(S.script)
    ok, res = call(L.apply, D, S)
    if ok:
        out["apply"] = ddig(c, res)
        out["apply_tags"] = [tag(res.degrees[Vertex(nm)]) for nm in c.names]
        try:
            json.dumps(res.to_dict())
            out["apply_json_ok"] = True
        except Exception:
            out["apply_json_ok"] = False
    else:
        out["apply"] = "ERR"
        out["apply_tags"] = "ERR"
        out["apply_json_ok"] = False
    S2 = CFiringScript(G, dict(sc))
    for i, k in enumerate(scn["s2"]):
        S2.update_firings(c.names[i], k)
    ok, r2 = call(L.apply, D, S2)
    out["apply_sum"] = ddig(c, r2) if ok else "ERR"
    Sb = CFiringScript(G, {c.names[i]: k for i, k in enumerate(scn["s2"])})
    ok, r3 = call(lambda: L.apply(L.apply(D, S), Sb))
    out["apply_seq"] = ddig(c, r3) if ok else "ERR"
    out["D_after"] = ddig(c, D)
    sc = S.script
    out["s_after"] = [sc[nm] for nm in c.names] if dict(S.script) == s_before else "CHANGED"
    out["graph"] = c.gdigest(G)
    return out


def odigest(c, G, O):
    n = c.n
    V = [Vertex(nm) for nm in c.names]
    pairs, agree = [], True
    flip = {OrientationState.NO_ORIENTATION: OrientationState.NO_ORIENTATION,
            OrientationState.SOURCE_TO_SINK: OrientationState.SINK_TO_SOURCE,
            OrientationState.SINK_TO_SOURCE: OrientationState.SOURCE_TO_SINK}
    for i, u in enumerate(V):
        for j, v in enumerate(V):
            if v in G.graph[u]:
                st = O.orientation[u][v]
                if st == OrientationState.SOURCE_TO_SINK:
                    pairs.append([i, j])
                if O.orientation[v][u] != flip[st]:
                    agree = False
    return {"dir": pairs, "in": [O.in_degree[v] for v in V], "out": [O.out_degree[v] for v in V],
            "agree": agree, "is_full": O.is_full, "checked": O.is_full_checked}


@op("orient_hist")
def op_orient_hist(scn):
    c = Ctx(scn)
    ok, G = call(c.graph, scn)
    if not ok:
        return {"ctor": "ERR"}
    ok, O = call(CFOrientation, G, [(c.name(a), c.name(b)) for a, b in scn.get("init", [])])
    if not ok:
        return {"ctor": "ERR"}
    out = {"ctor": odigest(c, G, O), "steps": []}
    kept = None
    for o in scn.get("ops", []):
        kind = o[0]
        if kind == "reverse_keep":
            ok, R = call(O.reverse)
            if ok:
                kept = R
            r = odigest(c, G, R) if ok else "ERR"
        elif kind == "inspect_kept":
            r = odigest(c, G, kept) if kept is not None else None
        elif kind == "set_kept":
            if kept is None or o[1] >= c.n or o[2] >= c.n:
                r = "ERR"
            else:
                ok, _ = call(lambda: kept.set_orientation(Vertex(c.name(o[1])), Vertex(c.name(o[2])), OrientationState(o[3])))
                r = "ok" if ok else "ERR"
        elif kind == "set":
            ok, _ = call(lambda: O.set_orientation(Vertex(c.name(o[1])), Vertex(c.name(o[2])), OrientationState(o[3])))
            r = "ok" if ok else "ERR"
        elif kind == "get":
            ok, v = call(O.get_orientation, c.name(o[1]), c.name(o[2]))
            r = "ERR" if not ok else (None if v is None else [c.index(v[0]), c.index(v[1])])
        elif kind in ("is_source", "is_sink"):
            ok, v = call(getattr(O, kind), c.name(o[1]), c.name(o[2]))
            r = "ERR" if not ok else v
        elif kind == "in":
            ok, v = call(O.get_in_degree, c.name(o[1]))
            r = v if ok else "ERR"
        elif kind == "out":
            ok, v = call(O.get_out_degree, c.name(o[1]))
            r = v if ok else "ERR"
        elif kind == "full":
            ok, v = call(O.check_fullness)
            r = v if ok else "ERR"
        elif kind == "reverse":
            ok, R = call(O.reverse)
            r = odigest(c, G, R) if ok else "ERR"
        elif kind == "divisor":
            ok, Dv = call(O.divisor)
            r = ddig(c, Dv) if ok else "ERR"
        elif kind == "canonical":
            ok, Dv = call(O.canonical_divisor)
            r = ddig(c, Dv) if ok else "ERR"
        else:
            raise ValueError(kind)
        out["steps"].append({"r": r, "o": odigest(c, G, O)})
    out["graph"] = c.gdigest(G)
    return out


@op("config")
def op_config(scn):
    c = Ctx(scn)
    ok, G = call(c.graph, scn)
    if not ok:
        return {"ctor": "ERR"}
    D = c.divisor(G, scn["deg"])
    ok, cfg = call(CFConfig, D, c.name(scn["q"]))
    if not ok:
        return {"ctor": "ERR"}
    ans = []
    for qu in scn.get("queries", []):
        kind = qu[0]
        if kind == "outdeg":
            ok, v = call(cfg.get_out_degree_S, c.name(qu[1]), {c.name(i) for i in qu[2]})
        elif kind == "legal":
            ok, v = call(cfg.is_legal_set_firing, {c.name(i) for i in qu[1]})
        elif kind == "superstable":
            ok, v = call(cfg.is_superstable)
        elif kind == "nonneg":
            ok, v = call(cfg.is_non_negative)
        elif kind == "degsum":
            ok, v = call(cfg.get_degree_sum)
        elif kind == "cmp":
            opn, d2, q2, e2 = qu[1], qu[2], qu[3], qu[4]
            G2 = G if e2 is None else CFGraph(set(c.names), c.edges(e2))
            other = CFConfig(c.divisor(G2, d2), c.name(q2))
            import operator
            f = [operator.eq, operator.ge, operator.le, operator.lt, operator.gt][opn]
            ok, v = call(f, cfg, other)
            v = bool(v) if ok else None
        else:
            raise ValueError(kind)
        ans.append(v if ok else "ERR")
    return {"answers": ans, "deg_after": c.degs(D), "graph": c.gdigest(G)}



def second_graph(c, scn, G):
    if scn.get("edges2") is None:
        return G
    # an equal copy built separately: the vertex names go in in another order than for the first
    # graph (set iteration order depends on insertion history when hashes collide)
    order = list(reversed(c.names))
    k = (len(scn["edges2"]) + sum(len(nm) for nm in c.names)) % max(1, len(order))
    order = order[k:] + order[:k]
    vs = set()
    for nm in order:
        vs.add(nm)
    return CFGraph(vs, c.edges(scn["edges2"]))


@op("lin_equiv")
def op_lin_equiv(scn):
    c = Ctx(scn)
    ok, G = call(c.graph, scn)
    if not ok:
        return "ERR"
    G2 = second_graph(c, scn, G)
    D1 = c.divisor(G, scn["D1"])
    D2 = c.divisor(G2, scn["D2"])
    ok, v = call(algo.linear_equivalence, D1, D2)
    return {"equiv": v if ok else "ERR", "D1_after": c.degs(D1), "D2_after": c.degs(D2), "graph": c.gdigest(G)}


@op("api")
def op_api(scn):
    c = Ctx(scn)
    ok, G = call(c.graph, scn)
    if not ok:
        return "ERR"
    out = {}
    D = c.divisor(G, scn["deg"])
    ok, v = call(algo.is_winnable, D)
    out["is_winnable"] = v if ok else "ERR"
    out["is_winnable_arg"] = c.degs(D)
    D = c.divisor(G, scn["deg"])
    ok, v = call(algo.q_reduction, D)
    out["q_reduction"] = c.degs(v) if ok else "ERR"
    out["q_reduction_arg"] = c.degs(D)
    D = c.divisor(G, scn["deg"])
    ok, v = call(algo.is_q_reduced, D)
    out["is_q_reduced"] = v if ok else "ERR"
    out["argtotal"] = D.get_total_degree()
    out["graph"] = c.gdigest(G)
    return out


@op("dhar")
def op_dhar(scn):
    from chipfiring.CFEWDVisualizer import EWDVisualizer
    c = Ctx(scn)
    ok, G = call(c.graph, scn)
    if not ok:
        return "ERR"
    D = c.divisor(G, scn["deg"])
    viz = EWDVisualizer() if scn.get("viz") else None
    ok, dh = call(DharAlgorithm, G, D, c.name(scn["q"]), viz)
    if not ok:
        return "ERR"
    out = {"_hint": c.hint(G)}
    dh.send_debt_to_q()
    out["after_debt"] = c.degs(D)
    out["borrows"] = [c.degs(h["divisor"]) for h in viz.history] if viz else None
    snapshot = c.divisor(G, c.degs(D))
    unburnt, orient = dh.run()
    if c.degs(D) != out["after_debt"]:
        out["run_changed_divisor"] = c.degs(D)
    out["unburnt"] = sorted(c.index(nm) for nm in unburnt)
    out["orient"] = c.orient_pairs(G, orient)
    out["indeg"] = [orient.in_degree[Vertex(nm)] for nm in c.names]
    out["outdeg"] = [orient.out_degree[Vertex(nm)] for nm in c.names]
    mx = DharAlgorithm(G, c.divisor(G, out["after_debt"]), c.name(scn["q"])).get_maximal_legal_firing_set()
    if sorted(c.index(nm) for nm in mx) != out["unburnt"]:
        out["max_set_differs"] = sorted(c.index(nm) for nm in mx)
    dh.legal_set_fire(unburnt)
    out["after_fire"] = c.degs(D)
    # run() asked directly on the divisor that still has its debt (run concentrates debt itself)
    D3 = c.divisor(G, scn["deg"])
    ok3, res3 = call(lambda: DharAlgorithm(G, D3, c.name(scn["q"])).run())
    out["direct_unburnt"] = sorted(c.index(nm) for nm in res3[0]) if ok3 else "ERR"
    out["direct_after"] = c.degs(D3)
    out["superstable"] = CFConfig(snapshot, c.name(scn["q"])).is_superstable()
    out["argtotal"] = D.get_total_degree()
    out["graph"] = c.gdigest(G)
    return out


class _FailPool:
    def __init__(self, *a, **k):
        raise OSError("pool unusable (harness stub)")


@op("rank")
def op_rank(scn):
    import chipfiring.CFRank as R
    c = Ctx(scn)
    ok, G = call(c.graph, scn)
    if not ok:
        return "ERR"
    D = c.divisor(G, scn["deg"])
    mode = scn.get("pool", "stub")
    saved = R.Pool
    try:
        if mode == "stub":
            R.Pool = _FailPool
        elif mode == "thread":
            from multiprocessing.dummy import Pool as TP
            R.Pool = TP
        fn = R.r if scn.get("via_r") else (lambda d, optimized: R.rank(d, optimized).rank)
        ok, v = call(fn, D, optimized=bool(scn.get("opt")))
    finally:
        R.Pool = saved
    return {"rank": v if ok else "ERR", "arg": c.degs(D), "argtotal": D.get_total_degree(), "graph": c.gdigest(G)}


@op("gonality")
def op_gonality(scn):
    from chipfiring.CFGonality import gonality
    c = Ctx(scn)
    ok, G = call(c.graph, scn)
    if not ok:
        return "ERR"
    kw = {}
    if scn.get("max") is not None:
        kw["max_gonality"] = scn["max"]
    from chipfiring.CFGonality import CFGonality as _CG
    if scn.get("warmup") is not None:
        ok, res = call(lambda: keep("gon", lambda: _CG(G)).compute_gonality(kw.get("max_gonality"), bool(scn.get("strat", True))))
    else:
        ok, res = call(gonality, G, find_strategies=bool(scn.get("strat", True)), **kw)
    if not ok:
        return "ERR"
    return {"gonality": res.gonality, "strategies": [c.degs(s) for s in res.winning_strategies], "graph": c.gdigest(G)}


@op("play")
def op_play(scn):
    from chipfiring.CFGonality import play_gonality_game, CFGonality
    c = Ctx(scn)
    ok, G = call(c.graph, scn)
    if not ok:
        return "ERR"
    P = c.divisor(G, scn["P"])
    ok, res = call(play_gonality_game, G, scn["nchips"], P, c.name(scn["v"]))
    out = {"game": res.player_a_wins if ok else "ERR"}
    if ok and (res.player_a_wins != res.winnability):
        out["game"] = "INCONSISTENT"
    ok, res = call(keep("gon", lambda: CFGonality(G)).test_n_chip_strategy, scn["nchips"], P)
    out["test"] = [res[0], sorted(c.index(nm) for nm in res[1])] if ok else "ERR"
    out["P_after"] = c.degs(P)
    out["graph"] = c.gdigest(G)
    return out


@op("dhar_strategy")
def op_dhar_strategy(scn):
    from chipfiring.CFGonalityDhar import GonalityDharAlgorithm
    c = Ctx(scn)
    ok, G = call(c.graph, scn)
    if not ok:
        return "ERR"
    base = c.divisor(G, scn["base"])
    ok, alg = call(GonalityDharAlgorithm, G, base, c.name(scn["q"]))
    if not ok:
        return "ERR"
    ok, v = call(alg.test_strategy, [c.name(i) for i in scn["strategy"]])
    return {"wins": v if ok else "ERR", "base_after": c.degs(base)}


@op("enhanced_dhar")
def op_enhanced_dhar(scn):
    from chipfiring.CFGonalityDhar import enhanced_dhar_gonality_test
    c = Ctx(scn)
    ok, G = call(c.graph, scn)
    if not ok:
        return "ERR"
    kw = {}
    if scn.get("max") is not None:
        kw["max_gonality"] = scn["max"]
    ok, res = call(enhanced_dhar_gonality_test, G, c.name(scn["q"]), **kw)
    if not ok:
        return "ERR"
    k, strategies = res
    canon = sorted((sorted(c.index(nm) for nm in s) for s in strategies), key=lambda s: (len(s), s))
    return {"k": k, "strategies": canon}


@op("greedy")
def op_greedy(scn):
    from chipfiring.CFGreedyAlgorithm import GreedyAlgorithm
    c = Ctx(scn)
    ok, G = call(c.graph, scn)
    if not ok:
        return "ERR"
    D = c.divisor(G, scn["deg"])
    alg = GreedyAlgorithm(G, D)
    ok, res = call(alg.play)
    if not ok:
        return "ERR"
    success, script = res
    out = {"success": success, "_inject": {"vorder": c.vorder(G)}}
    if success:
        sc = script.script
        out["script"] = [sc[nm] for nm in c.names]
        out["final"] = c.degs(alg.divisor)
        applied = CFLaplacian(G).apply(c.divisor(G, scn["deg"]), script)
        out["certificate"] = (c.degs(applied) == out["final"]) and all(x >= 0 for x in out["final"])
    else:
        out["script"] = None
        out["final"] = None
        out["certificate"] = None
        if script is not None:
            out["script"] = "NOT-NONE"
    # the same solver asked again: a fresh budget from where the first call stopped; a script it
    # returns is still a certificate for the ORIGINAL divisor
    ok2, res2 = call(alg.play)
    if not ok2:
        out["again"] = "ERR"
    else:
        s2, script2 = res2
        ag = {"success": s2, "script": None, "final": None, "certificate": None}
        if s2:
            sc2 = script2.script
            ag["script"] = [sc2[nm] for nm in c.names]
            ag["final"] = c.degs(alg.divisor)
            applied2 = CFLaplacian(G).apply(c.divisor(G, scn["deg"]), script2)
            ag["certificate"] = (c.degs(applied2) == ag["final"]) and all(x >= 0 for x in ag["final"])
        elif script2 is not None:
            ag["script"] = "NOT-NONE"
        out["again"] = ag
    # the solver works on its own copy: stepping it by hand afterwards must not reach the caller's divisor
    if c.n:
        call(alg.borrowing_move, c.names[0])
        call(alg.borrowing_move, c.names[-1])
    out["arg"] = c.degs(D)
    out["graph"] = c.gdigest(G)
    return out



@op("parking")
def op_parking(scn):
    from chipfiring.CFCombinatorics import is_parking_function
    if scn.get("n") is None:
        ok, v = call(is_parking_function, list(scn["seq"]))
    else:
        ok, v = call(is_parking_function, list(scn["seq"]), scn["n"])
    return {"is": v if ok else "ERR"}


@op("parking_gen")
def op_parking_gen(scn):
    from chipfiring.CFCombinatorics import generate_parking_functions, parking_function_count
    ok, l = call(generate_parking_functions, scn["n"])
    ok2, cnt = call(parking_function_count, scn["n"])
    return {"list": l if ok else "ERR", "count": cnt if ok2 else "ERR"}


def exact_det(rows):
    """fraction-free (Bareiss) determinant over Python ints"""
    from fractions import Fraction
    m = [[Fraction(x) for x in r] for r in rows]
    n = len(m)
    det = Fraction(1)
    for i in range(n):
        p = next((r for r in range(i, n) if m[r][i] != 0), None)
        if p is None:
            return 0
        if p != i:
            m[i], m[p] = m[p], m[i]
            det = -det
        det *= m[i][i]
        for r in range(i + 1, n):
            f = m[r][i] / m[i][i]
            for c2 in range(i, n):
                m[r][c2] -= f * m[i][c2]
    assert det.denominator == 1
    return int(det)


@op("superstable_count")
def op_superstable_count(scn):
    import itertools
    c = Ctx(scn)
    ok, G = call(c.graph, scn)
    if not ok:
        return "ERR"
    q = scn["q"]
    others = [i for i in range(c.n) if i != q]
    adjrow = {i: sum(G.graph[Vertex(c.names[i])].values()) for i in others}
    cnt = 0
    for combo in itertools.product(*[range(adjrow[i]) for i in others]):
        degs = [0] * c.n
        for i, k in zip(others, combo):
            degs[i] = k
        if CFConfig(c.divisor(G, degs), c.names[q]).is_superstable():
            cnt += 1
    L = CFLaplacian(G)
    red = L.get_reduced_matrix(Vertex(c.names[q]))
    keep = [c.names[i] for i in others]
    rows = [[red[Vertex(a)][Vertex(b)] for b in keep] for a in keep]
    return {"count": cnt, "det": exact_det(rows) if rows else 1}


@op("kn_parking")
def op_kn_parking(scn):
    import itertools
    from chipfiring.CFCombinatorics import is_parking_function
    m = scn["m"]
    n = m + 1
    names = [f"v{i:02d}" for i in range(n)]
    G = CFGraph(set(names), [(names[a], names[b], 1) for a in range(n) for b in range(a + 1, n)])
    q = names[m]
    agree, ns, npk = True, 0, 0
    for combo in itertools.product(range(m + 1), repeat=m):
        degs = [(names[i], combo[i]) for i in range(m)] + [(q, 0)]
        ss = CFConfig(CFDivisor(G, degs), q).is_superstable()
        pk = is_parking_function([x + 1 for x in combo])
        ns += ss
        npk += pk
        if ss != pk:
            agree = False
    return {"agree": agree, "superstables": ns, "parking": npk}



@op("winnable_hist")
def op_winnable_hist(scn):
    c = Ctx(scn)
    ok, G = call(c.graph, scn)
    if not ok:
        return "ERR"

    def verdicts():
        ok1, a = call(algo.is_winnable, c.divisor(G, scn["deg"]))
        ok2, b = call(lambda: algo.EWD(G, c.divisor(G, scn["deg"]))[0])
        return [a if ok1 else "ERR", b if ok2 else "ERR"]
    outs = [verdicts()]
    for a, b, k in scn.get("adds", []):
        call(G.add_edge, c.name(a), c.name(b), k)
        outs.append(verdicts())
    return {"verdicts": outs, "graph": c.gdigest(G)}



def canon_elements(c, elements):
    nodes, edges = [], []
    for el in elements:
        d = el.get("data", {})
        if "source" in d:
            parts = d["id"].split("-")
            a, b, i = c.index(parts[0]), c.index(parts[1]), int(parts[2])
            oriented = bool(d.get("oriented"))
            if oriented != (d.get("arrow_shape") == "triangle"):
                oriented = "INCONSISTENT"
            edges.append({"id": [a, b, i], "oriented": oriented,
                          "dir": [c.index(d["source"]), c.index(d["target"])] if oriented is True else None,
                          "_ends": sorted([c.index(d["source"]), c.index(d["target"])])})
        else:
            name = d["id"]
            label = d.get("label", "")
            chips = None
            if label != name:
                head, _, tail = label.rpartition("\n")
                chips = int(tail) if head == name else "BADLABEL"
            nodes.append([c.index(name), chips, d.get("divisor_sign")])
    nodes.sort(key=lambda x: x[0])
    edges.sort(key=lambda e: e["id"])
    bad_ends = any(e["_ends"] != e["id"][:2] for e in edges)
    for e in edges:
        del e["_ends"]
    return nodes, edges, bad_ends


@op("elements")
def op_elements(scn):
    from chipfiring import CFVisualizer as V
    from chipfiring.CFEWDVisualizer import EWDVisualizer
    c = Ctx(scn)
    ok, G = call(c.graph, scn)
    if not ok:
        return "ERR"
    D = c.divisor(G, scn["deg"])
    ok, O = call(CFOrientation, G, [(c.name(a), c.name(b)) for a, b in scn.get("orient", [])])
    if not ok:
        return "ERR"
    out = {}
    flags = []
    makers = {"graph": lambda: V._graph_to_cytoscape_elements(G),
              "divisor": lambda: V._divisor_to_cytoscape_elements(D),
              "orientation": lambda: V._orientation_to_cytoscape_elements(O),
              "ewd": lambda: EWDVisualizer()._get_elements(D, O, set(), set(), c.names[0] if c.n else None)}
    order = scn.get("draw_order") or ["graph", "divisor", "orientation", "ewd"]
    if scn.get("second_orient") is not None:
        # another (sparser) orientation on the same graph object, drawn after the first
        ok2, O2 = call(CFOrientation, G, [(c.name(a), c.name(b)) for a, b in scn["second_orient"]])
        if ok2:
            makers["orientation2"] = lambda: V._orientation_to_cytoscape_elements(O2)
            order = list(order) + ["orientation2"]
    for key in order:
        els = makers[key]()
        nodes, edges, bad = canon_elements(c, els)
        out[key + "_nodes"] = nodes
        out[key + "_edges"] = edges
        flags.append(bad)
    if any(flags):
        out["endpoints_mismatch"] = True
    out["node_count"] = len(out["graph_nodes"])
    out["edge_element_count"] = len(out["graph_edges"])
    return out



def obj_digest(c, kind, obj):
    """observational digest of a loaded object (None / wrong class are reported as such)"""
    from chipfiring.CFGraph import CFGraph as _G
    cls = {"graph": _G, "divisor": CFDivisor, "orientation": CFOrientation, "script": CFiringScript}[kind]
    if obj is None:
        return "NONE"
    if not isinstance(obj, cls):
        return {"wrong_class": type(obj).__name__}
    g0 = obj if kind == "graph" else obj.graph
    got = sorted(v.name for v in g0.vertices)
    if got != list(c.names):
        return {"other_vertices": got}
    if kind == "graph":
        return {"graph": c.gdigest(obj)}
    if kind == "divisor":
        return {"graph": c.gdigest(obj.graph), "div": ddig(c, obj)}
    if kind == "orientation":
        d = odigest(c, obj.graph, obj)
        d.pop("is_full"); d.pop("checked")
        return {"graph": c.gdigest(obj.graph), "orient": d}
    sc = obj.script
    return {"graph": c.gdigest(obj.graph), "script": [sc[nm] for nm in c.names]}


def well_formed(kind, obj, res):
    """a returned object must be of the requested class and internally consistent"""
    try:
        if not isinstance(res, type(obj)):
            return False
        g2 = res if kind == "graph" else res.graph
        names2 = sorted(v.name for v in g2.vertices)
        dd = digest_graph(g2, names2)
        if "bad_vertices" in dd or sum(dd["val"]) != 2 * dd["total"]:
            return False
        if kind == "divisor":
            return set(res.degrees.keys()) == set(g2.vertices) and res.get_total_degree() == sum(res.degrees.values())
        if kind == "orientation":
            res.check_fullness()
            return all(isinstance(res.in_degree[v], int) for v in g2.vertices)
        if kind == "script":
            return all(isinstance(x, int) for x in res.script.values())
        return True
    except Timeout:
        raise
    except Exception:
        return False


@op("rt")
def op_rt(scn):
    import tempfile, random as _r
    from chipfiring.CFDataProcessor import CFDataProcessor
    c = Ctx(scn)
    kind = scn["kind"]
    ok, G = call(c.graph, scn)
    if not ok:
        return "ERR"
    if kind == "graph":
        obj = G
    elif kind == "divisor":
        obj = c.divisor(G, scn["deg"])
        if scn.get("via_apply"):
            # the same divisor, but produced by CFLaplacian.apply with the zero script
            obj = CFLaplacian(G).apply(obj, CFiringScript(G))
    elif kind == "orientation":
        ok, obj = call(CFOrientation, G, [(c.name(a), c.name(b)) for a, b in scn.get("orient", [])])
        if not ok:
            return "ERR"
    else:
        ok, obj = call(CFiringScript, G, {c.name(i): k for i, k in scn.get("script", [])})
        if not ok:
            return "ERR"
    tname = {"graph": "graph", "divisor": "divisor", "orientation": "orientation", "script": "firingscript"}[kind]
    proc = CFDataProcessor()
    out = {}
    ok, back = call(lambda: type(obj).from_dict(json.loads(json.dumps(obj.to_dict()))))
    out["dict"] = obj_digest(c, kind, back) if ok else "ERR"
    rng = _r.Random(scn.get("fseed", 0))
    raised = prefix_not_none = malformed = tried = 0
    with tempfile.TemporaryDirectory() as td:
        for fmt in ("json", "txt"):
            if fmt == "txt" and not scn.get("txt", True):
                continue
            path = os.path.join(td, "obj." + fmt)
            writer = proc.to_json if fmt == "json" else proc.to_txt
            reader = proc.read_json if fmt == "json" else proc.read_txt
            ok, _ = call(writer, obj, path)
            if ok and os.path.exists(path):
                # saving over an existing, longer file must replace it: leave a doubled earlier
                # save in place and write again
                d0 = open(path, "rb").read()
                with open(path, "wb") as f:
                    f.write(d0 + b"\n" + d0)
                ok, _ = call(writer, obj, path)
            ok2, back = call(reader, path, tname if rng.random() < 0.8 else tname.upper())
            out[fmt] = obj_digest(c, kind, back) if (ok and ok2) else "ERR"
            data = open(path, "rb").read() if os.path.exists(path) else b""
            # fault enumeration: byte-prefix truncations and single-byte corruptions
            full = scn.get("faults") == "all"
            cuts = list(range(len(data))) if full or len(data) <= 80 else sorted(set(
                [int(i * len(data) / 64) for i in range(64)] + list(range(max(0, len(data) - 16), len(data)))))
            dpath = os.path.join(td, "damaged." + fmt)
            for cut in cuts:
                with open(dpath, "wb") as f:
                    f.write(data[:cut])
                tried += 1
                ok3, res = call(reader, dpath, tname)
                if not ok3:
                    raised += 1
                elif fmt == "json" and res is not None:
                    prefix_not_none += 1
                elif res is not None and not well_formed(kind, obj, res):
                    malformed += 1
            positions = list(range(len(data))) if full else [rng.randrange(len(data)) for _ in range(48)] if data else []
            for pos in positions:
                for val in ((0, 255, ord("}")) if full else (rng.choice([0, 255, ord("}"), ord(","), ord(":"), ord("9"), ord("\n"), ord(" "), ord("-")]),)):
                    dmg = bytearray(data)
                    dmg[pos] = val
                    with open(dpath, "wb") as f:
                        f.write(bytes(dmg))
                    tried += 1
                    ok3, res = call(reader, dpath, tname)
                    if not ok3:
                        raised += 1
                    elif res is not None and not well_formed(kind, obj, res):
                        malformed += 1
        ok4, res = call(proc.read_json, os.path.join(td, "does-not-exist.json"), tname)
        ok5, res2 = call(proc.read_txt, os.path.join(td, "does-not-exist.txt"), tname)
        out["missing"] = "NONE" if (ok4 and ok5 and res is None and res2 is None) else "RAISED-OR-OBJECT"
    out["faults"] = {"raised": raised, "json_prefix_not_none": prefix_not_none, "malformed": malformed}
    out["_tried"] = tried
    return out



@op("txt_fields")
def op_txt_fields(scn):
    """the field layer of the TXT format, through Python's own join/split/strip and through the
    library (a graph with these vertex names written to a file and read back)"""
    import tempfile
    from chipfiring.CFDataProcessor import CFDataProcessor
    names = list(scn["names"])
    line = " " + ", ".join(names)
    out = {"line": line,
           "parsed_line": [p.strip() for p in line.split(",")],
           "parsed_text": [p.strip() for p in scn["text"].split(",")],
           "stripped": scn["pline"].replace(scn["prefix"], "")}
    # through the library: only when every name is a non-empty single line without ':' (the
    # reader removes the prefix with str.replace) - otherwise the file layer is out of scope
    lib = None
    if names and len(set(names)) == len(names) and all(nm and "\n" not in nm and "\r" not in nm and ":" not in nm and "\x0b" not in nm and "\x0c" not in nm
                                                       and "\x1c" not in nm and "\x1d" not in nm and "\x1e" not in nm and "\x85" not in nm
                                                       and "\u2028" not in nm and "\u2029" not in nm for nm in names):
        ok, G = call(CFGraph, set(names), [])
        if ok:
            proc = CFDataProcessor()
            with tempfile.TemporaryDirectory() as td:
                path = os.path.join(td, "g.txt")
                call(proc.to_txt, G, path)
                try:
                    first = open(path, encoding="utf-8").read().split("\n")[0]
                except Exception:
                    first = None
                ok2, back = call(proc.read_txt, path, "graph")
                lib = {"first_line_tail": first[len("VERTICES:"):] if isinstance(first, str) and first.startswith("VERTICES:") else first,
                       "sorted_names": sorted(names),
                       "read_back": sorted(v.name for v in back.vertices) if (ok2 and back is not None) else None}
    out["_lib"] = lib
    return out



def _build_rt_object(c, scn, G):
    kind = scn["kind"]
    if kind == "graph":
        return True, G
    if kind == "divisor":
        return True, c.divisor(G, scn["deg"])
    if kind == "orientation":
        return call(CFOrientation, G, [(c.name(a), c.name(b)) for a, b in scn.get("orient", [])])
    return call(CFiringScript, G, {c.name(i): k for i, k in scn.get("script", [])})


@op("txt_write")
def op_txt_write(scn):
    """the text `to_txt` writes, character by character (no newline translation on reading it)"""
    import tempfile
    from chipfiring.CFDataProcessor import CFDataProcessor
    c = Ctx(scn)
    ok, G = call(c.graph, scn)
    if not ok:
        return "ERR"
    ok, obj = _build_rt_object(c, scn, G)
    if not ok:
        return "ERR"
    with tempfile.TemporaryDirectory() as td:
        path = os.path.join(td, "o.txt")
        ok, _ = call(CFDataProcessor().to_txt, obj, path)
        try:
            with open(path, newline="") as f:
                text = f.read()
        except Exception as e:
            text = {"unreadable": type(e).__name__}
    if not ok or not isinstance(text, str):
        return {"text": text if ok else "ERR"}
    return {"text": text, "_inject": {"actual": text}}


@op("txt_read")
def op_txt_read(scn):
    """what `read_txt` hands to the constructors for the given text: the constructors are replaced,
    inside the data-processor module only, by recorders that note their arguments and then call the
    real class"""
    import tempfile
    import importlib
    DP = importlib.import_module("chipfiring.CFDataProcessor")
    kind = scn["kind"]
    tname = {"graph": "graph", "divisor": "divisor", "orientation": "orientation", "script": "firingscript"}[kind]
    seen = {}
    real = {k: getattr(DP, k) for k in ("CFGraph", "CFDivisor", "CFOrientation", "CFiringScript")}

    def spy(key):
        # records the arguments and returns a token: the parse is what is compared here, the
        # constructors are compared on their own (graph_hist / div_hist / rt scenarios)
        def f(*a, **k):
            seen.setdefault(key, []).append((a, k))
            return ("token", key)
        return f
    out = {}
    with tempfile.TemporaryDirectory() as td:
        path = os.path.join(td, "in.txt")
        with open(path, "w", newline="") as f:
            f.write(scn["text"])
        try:
            for k in real:
                setattr(DP, k, spy(k))
            ok, res = call(DP.CFDataProcessor().read_txt, path, tname)
        finally:
            for k, v in real.items():
                setattr(DP, k, v)
    out["_raised"] = not ok
    out["_returned"] = "NONE" if res is None else type(res).__name__
    g = seen.get("CFGraph")
    if not g:
        out["parsed"] = "NONE"
        return out
    (a, k) = g[-1]
    names, edges = a[0], (a[1] if len(a) > 1 else k.get("edges", []))
    parsed = {"names": sorted(names), "edges": [[e[0], e[1], e[2]] for e in edges]}
    second = {"divisor": "CFDivisor", "orientation": "CFOrientation", "script": "CFiringScript"}.get(kind)
    if second:
        r = seen.get(second)
        if r:
            arg = r[-1][0][1]
            if isinstance(arg, dict):
                parsed["recs"] = [[kk, vv] for kk, vv in arg.items()]
            else:
                parsed["recs"] = [list(t) for t in arg]
        else:
            parsed["recs"] = "<second constructor not reached>"
    out["parsed"] = parsed
    return out


class _Pairs(list):
    """a JSON object as its list of (key, value) pairs, in file order"""


@op("json_text")
def op_json_text(scn):
    """the text `to_json` writes, and what CPython's parser makes of its prefixes and of damaged
    variants (the scanner of the model must call every text open that `json.loads` accepts … never)"""
    import tempfile, random as _r
    from chipfiring.CFDataProcessor import CFDataProcessor
    c = Ctx(scn)
    ok, G = call(c.graph, scn)
    if not ok:
        return "ERR"
    ok, obj = _build_rt_object(c, scn, G)
    if not ok:
        return "ERR"
    kind = scn["kind"]
    with tempfile.TemporaryDirectory() as td:
        path = os.path.join(td, "o.json")
        ok, _ = call(CFDataProcessor().to_json, obj, path)
        try:
            with open(path, newline="") as f:
                text = f.read()
        except Exception as e:
            return {"text": {"unreadable": type(e).__name__}}
        rng = _r.Random(scn.get("fseed", 0))
        cuts = sorted(set([0, 1, 2, len(text) - 1, len(text) - 2] + [rng.randrange(len(text) + 1) for _ in range(40)]))
        texts, kinds = [], []
        for cut in cuts:
            if 0 <= cut < len(text):
                texts.append(text[:cut]); kinds.append("prefix")
        for _ in range(25):
            pos = rng.randrange(len(text))
            ch = rng.choice(['"', "\\", "{", "}", "[", "]", ",", ":", " ", "0", "\n", "x"])
            r = rng.random()
            if r < 0.4:
                t = text[:pos] + ch + text[pos + 1:]
            elif r < 0.7:
                t = text[:pos] + ch + text[pos:]
            else:
                t = text[:pos] + text[pos + 1:]
            texts.append(t); kinds.append("damaged")
        loads_ok = []
        for t in texts:
            try:
                json.loads(t)
                loads_ok.append(True)
            except Exception:
                loads_ok.append(False)
        # what read_json returns for the prefixes (the clause itself, on the implementation)
        not_none = 0
        proc = CFDataProcessor()
        tname = {"graph": "graph", "divisor": "divisor", "orientation": "orientation", "script": "firingscript"}[kind]
        dpath = os.path.join(td, "p.json")
        for t, k in zip(texts, kinds):
            if k != "prefix":
                continue
            with open(dpath, "w", newline="") as f:
                f.write(t)
            ok3, res = call(proc.read_json, dpath, tname)
            if not ok3 or res is not None:
                not_none += 1
    inject = {"texts": texts}
    # the value that was actually written, with its key order, and the indent width of the file: the
    # encoder model must reproduce the file from them (whatever order / width the writer chose)
    def enc(v):
        if isinstance(v, _Pairs):
            return ["o"] + [[k, enc(x)] for k, x in v]
        if isinstance(v, list):
            return ["a"] + [enc(x) for x in v]
        if isinstance(v, bool) or v is None or isinstance(v, float):
            return ["?", repr(v)]
        if isinstance(v, int):
            return ["i", v]
        return ["s", v]
    try:
        val = json.loads(text, object_pairs_hook=_Pairs)
        inject["jv"] = enc(val)
        second = text.split("\n")[1] if "\n" in text else ""
        inject["indent"] = (len(second) - len(second.lstrip(" "))) if second.strip() else 4
    except Exception:
        pass
    # the order in which the dict-valued part is written is whatever to_dict() hands to json.dump
    # (the property does not pin it down): read it off the dict itself
    if kind == "divisor":
        inject["dorder"] = [c.idx[nm] for nm in obj.to_dict()["degrees"].keys()]
    elif kind == "script":
        inject["dorder"] = [c.idx[nm] for nm in obj.to_dict()["script"].keys()]
    return {"text": text, "_inject": inject, "_kinds": kinds, "_loads_ok": loads_ok, "prefix_not_none": not_none}


@op("json_str")
def op_json_str(scn):
    """CPython's own decoder / encoder on one string literal"""
    try:
        v = json.loads(scn["text"])
        dec = v if isinstance(v, str) else None
    except Exception:
        dec = None
    return {"decoded": dec, "encoded": json.dumps(scn["name"])}

@op("bounds")
def op_bounds(scn):
    from chipfiring import CFCombinatorics as CC
    c = Ctx(scn)
    ok, G = call(c.graph, scn)
    if not ok:
        return "ERR"
    out = {}
    ok, a = call(CC.independence_number, G)
    out["independence_number"] = a if ok else "ERR"
    ok, b = call(CC.gonality_theoretical_bounds, G)
    for k in ("trivial_upper_bound", "independence_upper_bound", "minimum_degree_bound", "bramble_order_bound", "lower_bound", "upper_bound"):
        out[k] = (b.get(k, "<absent>") if ok and isinstance(b, dict) else "ERR")
    out["graph"] = c.gdigest(G)
    return out


@op("closed")
def op_closed(scn):
    from chipfiring import CFCombinatorics as CC, CFPlatonicSolids as PS
    f = {"complete_graph_gonality": PS.complete_graph_gonality,
         "complete_multipartite_gonality": CC.complete_multipartite_gonality,
         "parking_function_count": CC.parking_function_count}[scn["name"]]
    ok, v = call(f, scn["arg"])
    return {"value": v if ok else "ERR"}



@op("dhar_batch")
def op_dhar_batch(scn):
    """several GonalityDharAlgorithm instances (other sinks / base divisors / graphs with the same
    vertex names) asked about the same strategies through the batch entry point, in one process"""
    from chipfiring.CFGonalityDhar import GonalityDharAlgorithm
    c = Ctx(scn)
    outs = []
    for qd in scn["queries"]:
        sub = dict(scn)
        sub["edges"] = qd.get("edges", scn["edges"])
        ok, G = call(c.graph, sub)
        if not ok:
            outs.append("ERR")
            continue
        base = c.divisor(G, qd["base"])
        ok, alg = call(GonalityDharAlgorithm, G, base, c.name(qd["q"]))
        if not ok:
            outs.append("ERR")
            continue
        ok, res = call(alg.test_strategy_batch, [[c.name(i) for i in st] for st in qd["strategies"]])
        outs.append([bool(x) for x in res] if ok else "ERR")
    return {"answers": outs}


# ----------------------------------------------------------------------------- main loop

def _jsondefault(o):
    """numbers that are not plain ints (numpy scalars) are reported by value; their type is
    reported separately through `tag`"""
    try:
        import numpy as np
        if isinstance(o, np.integer):
            return int(o)
        if isinstance(o, np.floating):
            return {"float": repr(float(o))}
        if isinstance(o, np.bool_):
            return bool(o)
    except ImportError:
        pass
    return {"unserialisable": type(o).__name__}


def run_one(scn):
    f = OPS.get(scn["op"])
    if f is None:
        return {"bad": f"unknown op {scn['op']}"}
    limit = int(scn.get("timeout", 20))
    signal.alarm(limit)
    try:
        with contextlib.redirect_stdout(io.StringIO()):
            WARM.clear()
            if scn.get("warmup") is not None and scn["op"] not in NO_WARMUP:
                WARM["phase"] = 1
                try:
                    signal.alarm(3)
                    f(scn)
                except Timeout:
                    pass
                except Exception:
                    pass
                signal.alarm(limit)
                if "G" not in WARM:
                    WARM.clear()
                else:
                    WARM["phase"] = 2
            return f(scn)
    except Timeout:
        return "TIMEOUT"
    finally:
        WARM.clear()
        signal.alarm(0)


def main():
    src, dst = sys.argv[1], sys.argv[2]
    with open(src) as fi, open(dst, "w") as fo:
        for line in fi:
            line = line.strip()
            if not line:
                continue
            scn = json.loads(line)
            try:
                res = run_one(scn)
            except Exception as e:
                # the observation code itself failed: on the unchanged tree this never happens, so it
                # is reported as an observation (the library left an object in a state that cannot
                # even be inspected), not as an infrastructure error
                res = {"observation_failed": type(e).__name__}
            fo.write(json.dumps(res, default=_jsondefault) + "\n")
            fo.flush()
    if _COV is not None:
        _COV.stop()
        _COV.save()


if __name__ == "__main__":
    main()
