#!/venv/bin/python
"""Python side of the correspondence check.

Reads scenario lines (JSON) from the file given as argv[1], runs each one against the *working
tree* of /repo (imported in-process) and writes one JSON answer per line to argv[2].
Vertices are indices 0..n-1 (position of the name in sorted-name order); a reference >= n is a
name that is not a vertex.  Everything that comes out of a set/dict is canonicalised here; only
raise-vs-return is reported for exceptions ("ERR").
"""
import sys, os, json, signal, warnings, io, contextlib, copy

REPO = os.environ.get("CHIPFIRING_REPO", "/repo")
sys.path.insert(0, REPO)
warnings.filterwarnings("ignore")

import chipfiring  # noqa: E402
from chipfiring.CFGraph import CFGraph, Vertex  # noqa: E402
from chipfiring.CFDivisor import CFDivisor  # noqa: E402
from chipfiring.CFOrientation import CFOrientation, OrientationState  # noqa: E402
from chipfiring.CFConfig import CFConfig  # noqa: E402
from chipfiring.CFDhar import DharAlgorithm  # noqa: E402
from chipfiring.CFLaplacian import CFLaplacian  # noqa: E402
from chipfiring.CFiringScript import CFiringScript  # noqa: E402
from chipfiring import algo  # noqa: E402

assert os.path.realpath(chipfiring.__file__).startswith(os.path.realpath(REPO)), chipfiring.__file__


class Timeout(Exception):
    pass


def _alarm(signum, frame):
    raise Timeout()


signal.signal(signal.SIGALRM, _alarm)

OPS = {}


def op(name):
    def deco(f):
        OPS[name] = f
        return f
    return deco


# ----------------------------------------------------------------------------- helpers

class Ctx:
    """name <-> index bijection of one scenario"""

    def __init__(self, scn):
        self.n = scn["n"]
        self.names = scn.get("names") or [f"v{i}" for i in range(self.n)]
        assert len(self.names) == self.n and sorted(self.names) == list(self.names), "names must be sorted"
        self.idx = {nm: i for i, nm in enumerate(self.names)}

    def name(self, i):
        return self.names[i] if 0 <= i < self.n else f"∅unknown{i}"

    def index(self, nm):
        return self.idx[nm]

    def vlist(self, scn):
        order = scn.get("vlist")
        names = [self.name(i) for i in order] if order is not None else list(self.names)
        if scn.get("dupv"):
            return names + names[:1]
        return names if scn.get("vaslist") else set(names)

    def edges(self, es):
        return [(self.name(a), self.name(b), k) for a, b, k in es]

    def graph(self, scn):
        return CFGraph(self.vlist(scn), self.edges(scn["edges"]))

    def divisor(self, G, degs, order=None):
        pairs = [(self.names[i], degs[i]) for i in (order if order is not None else range(self.n))]
        return CFDivisor(G, pairs)

    def degs(self, D):
        return [D.degrees[Vertex(nm)] for nm in self.names]

    def hint(self, G):
        return [[self.idx[w.name] for w in G.graph[Vertex(nm)]] for nm in self.names]

    def vorder(self, G):
        return [self.idx[v.name] for v in G.vertices]

    def gdigest(self, G):
        d = G.to_dict()
        assert d["vertices"] == list(self.names)
        return {
            "edges": [[self.idx[a], self.idx[b], k] for a, b, k in d["edges"]],
            "val": [G.vertex_total_valence[Vertex(nm)] for nm in self.names],
            "total": G.total_valence,
            "genus": G.get_genus(),
        }

    def orient_pairs(self, G, O):
        out = []
        for a in self.names:
            for b in self.names:
                if a != b and Vertex(b) in G.graph[Vertex(a)]:
                    st = O.orientation[Vertex(a)][Vertex(b)]
                    if st == OrientationState.SOURCE_TO_SINK:
                        out.append([self.idx[a], self.idx[b]])
        return sorted(out)


def tag(x):
    """type tag of a number: plain int / bool / numpy scalar / other"""
    if type(x) is int:
        return "i"
    if type(x) is bool:
        return "b"
    mod = type(x).__module__
    if mod.startswith("numpy"):
        return "np"
    return type(x).__name__


# ----------------------------------------------------------------------------- ops

@op("ewd")
def op_ewd(scn):
    c = Ctx(scn)
    try:
        G = c.graph(scn)
    except Exception:
        return "ERR"
    D = c.divisor(G, scn["deg"], scn.get("dorder"))
    hint = c.hint(G)
    try:
        verdict, red, orient, viz = algo.EWD(G, D, optimized=bool(scn.get("opt")), visualize=bool(scn.get("viz")))
    except Timeout:
        raise
    except Exception:
        return "ERR"
    out = {"verdict": verdict, "_hint": hint, "_vorder": c.vorder(G)}
    if red is None:
        out.update(q=None, D=None, orient=None, indeg=None, outdeg=None, full=None)
    else:
        # the sink is the unique vertex allowed to be negative ... report the one EWD used:
        # it is recorded by the visualizer when on; otherwise recovered as the orientation's source
        out["D"] = c.degs(red)
        out["orient"] = c.orient_pairs(G, orient)
        out["indeg"] = [orient.in_degree[Vertex(nm)] for nm in c.names]
        out["outdeg"] = [orient.out_degree[Vertex(nm)] for nm in c.names]
        out["full"] = orient.check_fullness()
        out["_ret_is_arg"] = red is D
    if scn.get("viz"):
        out["trace"] = [c.degs(h["divisor"]) for h in viz.history]
        qs = [h["q"] for h in viz.history if h["q"] is not None]
        out["q"] = c.index(qs[0]) if qs else None
    else:
        out["trace"] = None
        out["_viz_none"] = viz is None
    out["arg"] = c.degs(D)
    out["argtotal"] = D.total_degree
    out["graph"] = c.gdigest(G)
    return out


# ----------------------------------------------------------------------------- main loop

def run_one(scn):
    f = OPS.get(scn["op"])
    if f is None:
        return {"bad": f"unknown op {scn['op']}"}
    limit = int(scn.get("timeout", 20))
    signal.alarm(limit)
    try:
        with contextlib.redirect_stdout(io.StringIO()):
            return f(scn)
    except Timeout:
        return "TIMEOUT"
    finally:
        signal.alarm(0)


def main():
    src, dst = sys.argv[1], sys.argv[2]
    with open(src) as fi, open(dst, "w") as fo:
        for line in fi:
            line = line.strip()
            if not line:
                continue
            scn = json.loads(line)
            try:
                res = run_one(scn)
            except Exception as e:  # harness bug, not an observation
                res = {"bad": f"{type(e).__name__}: {e}"}
            fo.write(json.dumps(res) + "\n")
            fo.flush()


if __name__ == "__main__":
    main()
