#!/bin/sh
# offline build of the Lean library (model, theory, property theorems) and the model driver
set -e
DIR="$(cd "$(dirname "$0")" && pwd)"
# data regenerated from /repo's working tree (also done by every check)
/venv/bin/python "$DIR/harness/regen.py" >/dev/null
cd "$DIR/lean"
lake build driver ChipFiring.AuditCmd ChipFiring.Properties
