#!/bin/sh
# offline build of the Lean library (model, theory, property theorems) and the model driver
set -e
DIR="$(cd "$(dirname "$0")" && pwd)"
cd "$DIR/lean"
lake build driver ChipFiring.AuditCmd ChipFiring.Properties
