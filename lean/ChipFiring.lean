import ChipFiring.Model.Core
import ChipFiring.Model.Dhar
