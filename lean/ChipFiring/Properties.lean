import ChipFiring.Properties.C01
import ChipFiring.Properties.C05
import ChipFiring.Properties.C06
import ChipFiring.Properties.C12
import ChipFiring.Properties.C13
