import ChipFiring.Properties.C01
import ChipFiring.Properties.C02
import ChipFiring.Properties.C05
import ChipFiring.Properties.C06
import ChipFiring.Properties.C08
import ChipFiring.Properties.C09
import ChipFiring.Properties.C12
import ChipFiring.Properties.C13
