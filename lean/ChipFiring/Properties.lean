import ChipFiring.Properties.C01
