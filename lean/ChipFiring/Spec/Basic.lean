import ChipFiring.Model.Core
import Mathlib.Algebra.BigOperators.Group.Finset.Basic
import Mathlib.Algebra.BigOperators.Fin
import Mathlib.Algebra.Order.BigOperators.Group.Finset
import Mathlib.Data.Fintype.Basic
import Mathlib.Data.Finset.Max
import Mathlib.Tactic.Linarith
import Mathlib.Tactic.Ring
/-
  The specification layer: the mathematics of chip-firing, stated once over the adjacency
  function of a model graph.  Everything else is proved against these definitions.
-/
open Finset

namespace CF
variable {n : Nat}

/-! bridging the list sums of the executable model to `Finset` sums -/

@[simp] theorem sumZ_eq (f : Fin n → Int) : sumZ f = ∑ i, f i := by
  unfold sumZ; rw [Fin.sum_univ_def]

@[simp] theorem sumN_eq (f : Fin n → Nat) : sumN f = ∑ i, f i := by
  unfold sumN; rw [Fin.sum_univ_def]

@[simp] theorem allF_iff (p : Fin n → Bool) : allF p = true ↔ ∀ v, p v = true := by
  unfold allF; simp [List.all_eq_true]

@[simp] theorem anyF_iff (p : Fin n → Bool) : anyF p = true ↔ ∃ v, p v = true := by
  unfold anyF; simp [List.any_eq_true]

namespace Graph

/-- symmetric, loopless, and both caches agree with the adjacency -/
structure WF (G : Graph n) : Prop where
  symm : ∀ v w, G.adj v w = G.adj w v
  loopless : ∀ v, G.adj v v = 0
  val_eq : ∀ v, G.val v = ∑ w, G.adj v w
  total_eq : 2 * G.total = ∑ v, G.val v

/-- connected, in rank-function form: from every root `q` every other vertex has a neighbour of
    smaller rank -/
def Connected (G : Graph n) : Prop :=
  ∀ q : Fin n, ∃ rk : Fin n → Nat, rk q = 0 ∧ ∀ v, v ≠ q → ∃ w, 0 < G.adj v w ∧ rk w < rk v

end Graph

/-- `D − L·s` -/
def applyScript (G : Graph n) (D s : Fin n → Int) : Fin n → Int :=
  fun w => D w - ∑ v, (G.adj w v : Int) * (s w - s v)

def LinEq (G : Graph n) (D D' : Fin n → Int) : Prop := ∃ s, D' = applyScript G D s
def Eff (D : Fin n → Int) : Prop := ∀ v, 0 ≤ D v
def Winnable (G : Graph n) (D : Fin n → Int) : Prop := ∃ E, LinEq G D E ∧ Eff E
def deg (D : Fin n → Int) : Int := ∑ v, D v

/-- edges from `v` leaving the set `S` -/
def outdeg (G : Graph n) (S : Fin n → Bool) (v : Fin n) : Int :=
  ∑ w, if S w then 0 else (G.adj v w : Int)

/-- `S` is a non-empty set avoiding `q` that can fire without any member going into debt -/
def Legal (G : Graph n) (q : Fin n) (D : Fin n → Int) (S : Fin n → Bool) : Prop :=
  (∃ v, S v = true) ∧ S q = false ∧ ∀ v, S v = true → outdeg G S v ≤ D v

def QReduced (G : Graph n) (q : Fin n) (D : Fin n → Int) : Prop :=
  (∀ v, v ≠ q → 0 ≤ D v) ∧ ∀ S, ¬ Legal G q D S

/-- Baker–Norine rank, as a relation (proved functional in `Theory`) -/
def IsRank (G : Graph n) (D : Fin n → Int) (r : Int) : Prop :=
  (r = -1 ∧ ¬ Winnable G D) ∨
  (0 ≤ r ∧ (∀ E, Eff E → deg E = r → Winnable G (fun v => D v - E v)) ∧
    ∃ E, Eff E ∧ deg E = r + 1 ∧ ¬ Winnable G (fun v => D v - E v))

def chipAt (v : Fin n) : Fin n → Int := fun w => if w = v then 1 else 0

def RankGeOne (G : Graph n) (D : Fin n → Int) : Prop := ∀ v, Winnable G (fun w => D w - chipAt v w)

def IsGonality (G : Graph n) (k : Nat) : Prop :=
  (∃ D, Eff D ∧ deg D = k ∧ RankGeOne G D) ∧ ∀ D, Eff D → deg D < k → ¬ RankGeOne G D

/-- orientation given by a direction predicate; `dir u v`: the edges between u and v point u → v -/
def OFull (G : Graph n) (dir : Fin n → Fin n → Bool) : Prop :=
  ∀ u v, 0 < G.adj u v → (dir u v = !dir v u)
def OAcyclic (G : Graph n) (dir : Fin n → Fin n → Bool) : Prop :=
  ∃ pos : Fin n → Nat, ∀ u v, dir u v = true → 0 < G.adj u v → pos u < pos v
def indeg (G : Graph n) (dir : Fin n → Fin n → Bool) (v : Fin n) : Int :=
  ∑ w, if dir w v then (G.adj w v : Int) else 0
def canonical (G : Graph n) : Fin n → Int := fun v => (∑ w, (G.adj v w : Int)) - 2
def genusZ (G : Graph n) : Int := (∑ v, ∑ w, (G.adj v w : Int)) / 2 - n + 1

end CF
