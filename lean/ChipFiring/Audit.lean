import ChipFiring.AuditCmd
import ChipFiring.Properties

#audit_properties
