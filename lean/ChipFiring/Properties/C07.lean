import ChipFiring.Properties.C01
import ChipFiring.Theory.GoodOf
import ChipFiring.Theory.Moves
/-
  C07 — linear_equivalence decides membership of D1 − D2 in the Laplacian lattice.
-/
namespace CF.C07
open CF Finset
variable {n : Nat}

theorem applyScript_sub (G : Graph n) (A B s : Fin n → Int) :
    applyScript G (fun v => A v - B v) s = fun v => applyScript G A s v - B v := by
  funext v; simp only [applyScript]; ring

/-- `D1 − D2 ∼ 0` iff `D1 ∼ D2` -/
theorem linEq_sub_zero (G : Graph n) (A B : Fin n → Int) :
    LinEq G (fun v => A v - B v) (fun _ => 0) ↔ LinEq G A B := by
  constructor
  · rintro ⟨s, hs⟩
    refine ⟨s, ?_⟩
    rw [applyScript_sub] at hs
    funext v; have := congrFun hs v; linarith
  · rintro ⟨s, hs⟩
    refine ⟨s, ?_⟩
    rw [applyScript_sub, ← hs]; funext v; simp

/-- a degree-0 divisor is winnable iff it is equivalent to 0 -/
theorem winnable_deg_zero (G : Graph n) (hs : ∀ v w, G.adj v w = G.adj w v) (X : Fin n → Int)
    (h0 : deg X = 0) : Winnable G X ↔ LinEq G X (fun _ => 0) := by
  constructor
  · rintro ⟨E, hE, he⟩
    have hd : deg E = 0 := by rw [deg_linEq G hs hE, h0]
    have : E = fun _ => 0 := by
      funext v
      have := (Finset.sum_eq_zero_iff_of_nonneg (fun v _ => he v)).mp hd v (mem_univ v)
      exact this
    rw [← this]; exact hE
  · intro h; exact ⟨_, h, fun _ => le_refl 0⟩

/-- `linear_equivalence(D1, D2)` is `True` exactly when the divisors live on the same multigraph
    and `D1 − D2` is an integer combination of Laplacian columns.
    (`sameGraph` = the structural gate; totals are the constructor's caches.) -/
theorem linEquiv_exact (G : Graph n) (hG : G.WF) (hc : G.Connected) (fuel : Nat) (sameGraph : Bool) (D1 D2 : Divisor n)
    (h1 : D1.total = deg D1.deg) (h2 : D2.total = deg D2.deg)
    (hcover : ∀ q v, v ≠ q → v ∈ debtOrder G (fun _ => []) q)
    (b : Bool) (h : linEquiv G fuel sameGraph D1 D2 = some b) :
    b = true ↔ (sameGraph = true ∧ LinEq G D1.deg D2.deg) := by
  unfold linEquiv at h
  cases hsame : sameGraph with
  | false =>
    subst hsame
    simp at h
    subst h; simp
  | true =>
    subst hsame
    simp only [Bool.not_true, Bool.false_eq_true, if_false] at h
    by_cases ht : D1.total ≠ D2.total
    · rw [if_pos ht] at h
      injection h with h; subst h
      simp only [Bool.false_eq_true, true_and, false_iff]
      intro hle
      have := deg_linEq G hG.symm hle
      rw [← h1, ← h2] at this; exact ht this.symm
    · rw [if_neg ht] at h
      by_cases heq : allF (fun v => decide (D1.deg v = D2.deg v)) = true
      · rw [if_pos heq] at h
        injection h with h; subst h
        have : D1.deg = D2.deg := by
          funext v; have := (allF_iff _).mp heq v; simpa using this
        simp only [true_and, true_iff]
        rw [this]; exact LinEq.refl G _
      · rw [if_neg heq] at h
        unfold winnableOpt at h
        cases he : ewd G (fun _ => []) fuel (Divisor.ofFn fun v => D1.deg v - D2.deg v) true with
        | none => simp [he] at h
        | some x =>
          cases x with
          | error e =>
            -- EWD raises only on the empty graph, where the two degree functions coincide
            exfalso
            have hn : 0 < n := by
              rcases Nat.eq_zero_or_pos n with hn | hn
              · exfalso; subst hn
                apply heq; rw [allF_iff]; intro v; exact v.elim0
              · exact hn
            unfold ewd at he
            simp only [Bool.true_and] at he
            split at he; · simp at he
            split at he; · simp at he
            have := sink_isSome (Divisor.ofFn fun v => D1.deg v - D2.deg v).deg hn
            split at he
            · rename_i hnone; rw [hnone] at this; simp at this
            · split at he <;> simp at he
          | ok r =>
            simp only [he] at h
            injection h with h; subst h
            have hd : (Divisor.ofFn fun v => D1.deg v - D2.deg v).total
                = deg (Divisor.ofFn fun v => D1.deg v - D2.deg v).deg := ofFn_total _
            have hex := C01.ewd_optimized_verdict_exact G hG hc _ fuel _ r hd hcover he
            rw [hex, Divisor.deg_ofFn]
            have hdeg0 : deg (fun v => D1.deg v - D2.deg v) = 0 := by
              have : D1.total = D2.total := by simpa using ht
              unfold deg at *
              rw [Finset.sum_sub_distrib]; omega
            rw [winnable_deg_zero G hG.symm _ hdeg0, linEq_sub_zero]
            simp

/-- consequences: reflexive (also across equal copies: `sameGraph` is structural), symmetric,
    transitive, invariant under firing moves, false when the degrees differ — all inherited from
    `LinEq` -/
theorem linEq_is_equivalence (G : Graph n) :
    (∀ D, LinEq G D D) ∧ (∀ D D', LinEq G D D' → LinEq G D' D) ∧
    (∀ D D' D'', LinEq G D D' → LinEq G D' D'' → LinEq G D D'') :=
  ⟨LinEq.refl G, fun _ _ => LinEq.symm G, fun _ _ _ => LinEq.trans G⟩

theorem linEq_invariant_under_moves (G : Graph n) (hs : ∀ v w, G.adj v w = G.adj w v)
    (D D' : Fin n → Int) (v : Fin n) :
    (LinEq G D D' ↔ LinEq G (lend G D v) D') ∧ (LinEq G D D' ↔ LinEq G (borrow G D v) D') := by
  constructor
  · exact ⟨fun h => LinEq.trans G (LinEq.symm G (lend_linEq G hs D v)) h,
           fun h => LinEq.trans G (lend_linEq G hs D v) h⟩
  · exact ⟨fun h => LinEq.trans G (LinEq.symm G (borrow_linEq G hs D v)) h,
           fun h => LinEq.trans G (borrow_linEq G hs D v) h⟩

theorem not_linEq_of_deg_ne (G : Graph n) (hs : ∀ v w, G.adj v w = G.adj w v) (D D' : Fin n → Int)
    (h : deg D ≠ deg D') : ¬ LinEq G D D' := fun hle => h (deg_linEq G hs hle).symm

/-- non-vacuity: on the 4-cycle, (1,0,0,-1) and (-1,1,0,0) are equivalent by firing vertex 0;
    Pic^0(C4) has order 4, and (1,-1,0,0) is not equivalent to 0 -/
example : ∃ G : Graph 4, Graph.new 4 false [(0, 1, 1), (1, 2, 1), (2, 3, 1), (3, 0, 1)] = .ok G ∧
    linEquiv G 1000 true (Divisor.ofFn fun v => [1, 0, 0, -1].getD v.1 0) (Divisor.ofFn fun v => [-1, 1, 0, 0].getD v.1 0) = some true ∧
    linEquiv G 1000 true (Divisor.ofFn fun v => [1, -1, 0, 0].getD v.1 0) (Divisor.ofFn fun _ => 0) = some false := by
  refine ⟨_, rfl, by decide +kernel, by decide +kernel⟩

/-- Headline form on connected graphs -/
theorem linEquiv_exact_connected (G : Graph n) (hG : G.WF) (hc : G.Connected) (fuel : Nat) (sameGraph : Bool)
    (D1 D2 : Divisor n) (h1 : D1.total = deg D1.deg) (h2 : D2.total = deg D2.deg) (b : Bool)
    (h : linEquiv G fuel sameGraph D1 D2 = some b) : b = true ↔ (sameGraph = true ∧ LinEq G D1.deg D2.deg) :=
  linEquiv_exact G hG hc fuel sameGraph D1 D2 h1 h2 (cover_of_connected G hG hc _) b h

end CF.C07
