import ChipFiring.Properties.C19
/-
  C19, heavy part (thorough tier): kernel evaluation of the verified gonality search on the cube
  (8 vertices, about ten minutes) and on K_6.
-/
namespace CF.C19
open CF

theorem cube_exact : (tableRow "cube").map (·.1) = some (some 4) ∧
    ∃ G : Graph Gen.cubeN, Graph.new _ false Gen.cubeEdges = .ok G ∧ IsGonality G 4 :=
  ⟨by decide +kernel, certified_is_gonality _ _ 4 (by omega) (by decide +kernel)⟩

theorem complete_graph_gonality_six :
    certifiedGonality 6 (completeEdges 6) = Gen.complete_graph_gonality 6 := by
  decide +kernel

end CF.C19
