import ChipFiring.Theory.Moves
/-
  C06 — The Laplacian is the graph Laplacian; applying a script is exact `D − L·s`.
  (`lapEntry` models `_construct_matrix`/`get_matrix_entry`: cached valence on the diagonal,
  minus the multiplicity elsewhere; the reduced matrix is its restriction to `V∖{q}`;
  `lapApply` models `apply` in unbounded integers.)
-/
namespace CF.C06
open CF Finset
variable {n : Nat}

theorem laplacian_symmetric (G : Graph n) (hG : G.WF) (v w : Fin n) : lapEntry G v w = lapEntry G w v := by
  unfold lapEntry
  by_cases h : v = w
  · subst h; rfl
  · have h' : ¬ w = v := fun e => h e.symm
    simp [h, h', hG.symm v w]

theorem diagonal_is_valence (G : Graph n) (hG : G.WF) (v : Fin n) :
    lapEntry G v v = ∑ w, (G.adj v w : Int) := by
  simp [lapEntry, hG.val_eq v]

theorem offdiagonal_is_minus_multiplicity (G : Graph n) (v w : Fin n) (h : v ≠ w) :
    lapEntry G v w = - (G.adj v w : Int) := by simp [lapEntry, h]

theorem row_sums_zero (G : Graph n) (hG : G.WF) (v : Fin n) : ∑ w, lapEntry G v w = 0 := by
  have h1 : ∀ w, lapEntry G v w = (if w = v then (G.val v : Int) else 0) - (G.adj v w : Int) := by
    intro w
    unfold lapEntry
    by_cases h : v = w
    · subst h; simp [hG.loopless v]
    · have h' : ¬ w = v := fun e => h e.symm
      simp [h, h']
  simp only [h1, Finset.sum_sub_distrib]
  simp [hG.val_eq v]

/-- `apply(D, s)` is `D − L·s` -/
theorem apply_eq_spec (G : Graph n) (hG : G.WF) (D s : Fin n → Int) :
    lapApply G D s = applyScript G D s := by
  funext v
  simp only [lapApply, applyScript, sumZ_eq]
  congr 1
  have h1 : ∀ w, lapEntry G v w * s w = (if w = v then (G.val v : Int) * s v else 0) - (G.adj v w : Int) * s w := by
    intro w
    unfold lapEntry
    by_cases h : v = w
    · subst h; simp [hG.loopless v]
    · have h' : ¬ w = v := fun e => h e.symm
      simp [h, h']
  simp only [h1, Finset.sum_sub_distrib]
  have h2 : ∑ w, (G.adj v w : Int) * (s v - s w) = (∑ w, (G.adj v w : Int)) * s v - ∑ w, (G.adj v w : Int) * s w := by
    rw [Finset.sum_mul, ← Finset.sum_sub_distrib]
    apply Finset.sum_congr rfl; intro w _; ring
  rw [h2]
  simp [hG.val_eq v]

/-- additive in the script; composing two applications = applying the sum -/
theorem apply_additive (G : Graph n) (hG : G.WF) (D s t : Fin n → Int) :
    lapApply G (lapApply G D s) t = lapApply G D (fun v => s v + t v) := by
  rw [apply_eq_spec G hG, apply_eq_spec G hG, apply_eq_spec G hG, applyScript_add]

/-- a scripted move: `true` = lend, `false` = borrow -/
def move (G : Graph n) (D : Fin n → Int) (m : Fin n × Bool) : Fin n → Int :=
  if m.2 then lend G D m.1 else borrow G D m.1

def net (ms : List (Fin n × Bool)) (v : Fin n) : Int :=
  (ms.count (v, true) : Int) - (ms.count (v, false) : Int)

/-- performing the scripted lends and borrows one at a time, in any interleaving, gives `apply` -/
theorem apply_eq_sequential_moves (G : Graph n) (hG : G.WF) (ms : List (Fin n × Bool)) (D : Fin n → Int) :
    ms.foldl (move G) D = lapApply G D (net ms) := by
  rw [apply_eq_spec G hG]
  induction ms generalizing D with
  | nil =>
    have : net ([] : List (Fin n × Bool)) = fun _ => 0 := by funext v; simp [net]
    simp [this, applyScript_zero]
  | cons m ms ih =>
    obtain ⟨u, b⟩ := m
    rw [List.foldl_cons, ih]
    cases b
    · simp only [move, Bool.false_eq_true, if_false]
      rw [borrow_eq G hG.symm, applyScript_add]
      congr 1; funext v
      by_cases h : u = v
      · subst h; simp [net, chipAt, List.count_cons]; ring
      · have h' : v ≠ u := fun e => h e.symm
        simp [net, chipAt, List.count_cons, h, h']
    · simp only [move, if_true]
      rw [lend_eq G hG.symm, applyScript_add]
      congr 1; funext v
      by_cases h : u = v
      · subst h; simp [net, chipAt, List.count_cons]; ring
      · have h' : v ≠ u := fun e => h e.symm
        simp [net, chipAt, List.count_cons, h, h']

/-- `apply` conserves the total degree -/
theorem apply_conserves (G : Graph n) (hG : G.WF) (D s : Fin n → Int) : deg (lapApply G D s) = deg D := by
  rw [apply_eq_spec G hG]; exact deg_applyScript G hG.symm D s

/-- script objects: `set` overwrites one entry, `update` adds to it, `get` reads it; unknown
    names are refused and change nothing; untouched entries read 0 -/
theorem script_set (s : Vec Int n) (v : Fin n) (k : Int) :
    sstep s (.set v.1 k) = .ok (mat fun w => if w = v then k else s.get w, none) := by
  simp [sstep, ref?]
theorem script_update (s : Vec Int n) (v : Fin n) (k : Int) :
    sstep s (.update v.1 k) = .ok (mat fun w => if w = v then s.get w + k else s.get w, none) := by
  simp [sstep, ref?]
theorem script_get (s : Vec Int n) (v : Fin n) : sstep s (.get v.1) = .ok (s, some (s.get v)) := by
  simp [sstep, ref?]
theorem script_unknown (s : Vec Int n) (i : Nat) (k : Int) (h : n ≤ i) :
    sstep s (.set i k) = .error () ∧ sstep s (.update i k) = .error () ∧ sstep s (.get i) = .error () := by
  have hr : ref? n i = none := by unfold ref?; simp; omega
  simp [sstep, hr]

/-- non-vacuity, with a product beyond 64 bits: K3, s = 2^62·e₀ -/
example : ∃ G : Graph 3, Graph.new 3 false [(0, 1, 1), (1, 2, 1), (0, 2, 1)] = .ok G ∧
    (List.finRange 3).map (lapApply G (fun _ => 0) (fun v => if v = 0 then 2 ^ 62 else 0))
      = [-9223372036854775808, 4611686018427387904, 4611686018427387904] := by
  refine ⟨_, rfl, ?_⟩; decide

end CF.C06
