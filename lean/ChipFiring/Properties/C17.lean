import ChipFiring.Properties.C02
import ChipFiring.Theory.RankTheory
import Mathlib.Logic.Equiv.Defs
import Mathlib.Algebra.BigOperators.Group.Finset.Basic
/-
  C17 — Answers depend only on the mathematical input, not on names, order or hash seed.

  Two kinds of statement:
  * *order/seed independence*: the model's answers do not depend on the container orders the
    interpreter happens to use (the adjacency order `hint`, and — after the repair F2 — the
    iteration order of the vertex set, which is not even an input of `sink`), nor on the fuel;
  * *renaming*: every specification notion (`Winnable`, `LinEq`, `QReduced`, `IsRank`,
    `IsGonality`) is carried along by a relabelling σ of the vertices; together with the
    exactness theorems of C01–C04/C07 this transports to the computed answers.
-/
namespace CF.C17
open CF Finset
variable {n : Nat}

/-- the verdict and the reduced divisor do not depend on the adjacency orders or on the fuel -/
theorem ewd_orders_irrelevant (G : Graph n) (hs : ∀ v w, G.adj v w = G.adj w v)
    (hint hint' : Fin n → List (Fin n)) (fuel fuel' : Nat) (Dv : Divisor n) (r r' : EwdOut n)
    (hcover : ∀ q v, v ≠ q → v ∈ debtOrder G hint q) (hcover' : ∀ q v, v ≠ q → v ∈ debtOrder G hint' q)
    (h : ewd G hint fuel Dv false = some (.ok r)) (h' : ewd G hint' fuel' Dv false = some (.ok r')) :
    r.q = r'.q ∧ r.verdict = r'.verdict ∧ ∃ red red', r.red = some red ∧ r'.red = some red' ∧ red.D = red'.D := by
  obtain ⟨q, red, hsq, hq, hr, hred, hv⟩ := ewd_plain_ok G h
  obtain ⟨q', red', hsq', hq', hr', hred', hv'⟩ := ewd_plain_ok G h'
  have hqq : q = q' := by rw [hsq] at hsq'; exact Option.some.inj hsq'
  subst hqq
  have hqeq : r.q = r'.q := by rw [hq, hq']
  obtain ⟨red1, red1', e1, e1', hD⟩ := C02.qred_unique G hs hint hint' fuel fuel' Dv Dv r r' hcover hcover' h h'
    (LinEq.refl G _) hqeq
  rw [hr] at e1; rw [hr'] at e1'
  injection e1 with e1; injection e1' with e1'; subst e1; subst e1'
  exact ⟨hqeq, by rw [hv, hv', hD], red, red', hr, hr', hD⟩

/-! ### renaming -/

/-- `G'` is `G` with every vertex `v` renamed `σ v` -/
def Renames (σ : Fin n ≃ Fin n) (G G' : Graph n) : Prop := ∀ u v, G'.adj (σ u) (σ v) = G.adj u v

/-- a divisor / script / set carried along the renaming -/
def push {α : Type} (σ : Fin n ≃ Fin n) (f : Fin n → α) : Fin n → α := fun v => f (σ.symm v)

theorem applyScript_push (σ : Fin n ≃ Fin n) (G G' : Graph n) (hR : Renames σ G G') (D s : Fin n → Int) :
    applyScript G' (push σ D) (push σ s) = push σ (applyScript G D s) := by
  funext v
  simp only [applyScript, push]
  congr 1
  rw [← Equiv.sum_comp σ]
  apply Finset.sum_congr rfl
  intro w _
  have := hR (σ.symm v) w
  rw [Equiv.apply_symm_apply] at this
  rw [this, Equiv.symm_apply_apply]

theorem push_push_symm {α : Type} (σ : Fin n ≃ Fin n) (f : Fin n → α) : push σ.symm (push σ f) = f := by
  funext v; simp [push]

theorem renames_symm (σ : Fin n ≃ Fin n) (G G' : Graph n) (hR : Renames σ G G') : Renames σ.symm G' G := by
  intro u v
  have := hR (σ.symm u) (σ.symm v)
  simp only [Equiv.apply_symm_apply] at this
  exact this.symm

theorem linEq_push (σ : Fin n ≃ Fin n) (G G' : Graph n) (hR : Renames σ G G') (D D' : Fin n → Int)
    (h : LinEq G D D') : LinEq G' (push σ D) (push σ D') := by
  obtain ⟨s, rfl⟩ := h
  exact ⟨push σ s, (applyScript_push σ G G' hR D s).symm⟩

/-- linear equivalence is carried along by any renaming -/
theorem linEq_perm (σ : Fin n ≃ Fin n) (G G' : Graph n) (hR : Renames σ G G') (D D' : Fin n → Int) :
    LinEq G D D' ↔ LinEq G' (push σ D) (push σ D') := by
  refine ⟨linEq_push σ G G' hR D D', fun h => ?_⟩
  have := linEq_push σ.symm G' G (renames_symm σ G G' hR) _ _ h
  rwa [push_push_symm, push_push_symm] at this

theorem eff_push (σ : Fin n ≃ Fin n) (D : Fin n → Int) : Eff (push σ D) ↔ Eff D :=
  ⟨fun h v => by have := h (σ v); simpa [push] using this, fun h v => h _⟩

theorem deg_push (σ : Fin n ≃ Fin n) (D : Fin n → Int) : deg (push σ D) = deg D := by
  unfold deg push
  exact Equiv.sum_comp σ.symm D

/-- winnability is carried along by any renaming -/
theorem winnable_perm (σ : Fin n ≃ Fin n) (G G' : Graph n) (hR : Renames σ G G') (D : Fin n → Int) :
    Winnable G D ↔ Winnable G' (push σ D) := by
  constructor
  · rintro ⟨E, hE, he⟩
    exact ⟨push σ E, (linEq_perm σ G G' hR D E).mp hE, (eff_push σ E).mpr he⟩
  · rintro ⟨E, hE, he⟩
    refine ⟨push σ.symm E, ?_, (eff_push σ.symm E).mpr he⟩
    have := linEq_push σ.symm G' G (renames_symm σ G G' hR) _ _ hE
    rwa [push_push_symm] at this

theorem push_sub (σ : Fin n ≃ Fin n) (D E : Fin n → Int) :
    push σ (fun v => D v - E v) = fun v => push σ D v - push σ E v := rfl

/-- rank is carried along by any renaming -/
theorem rank_perm (σ : Fin n ≃ Fin n) (G G' : Graph n) (hR : Renames σ G G') (D : Fin n → Int) (r : Int) :
    IsRank G D r ↔ IsRank G' (push σ D) r := by
  have key : ∀ (τ : Fin n ≃ Fin n) (H H' : Graph n), Renames τ H H' → ∀ (X : Fin n → Int) (k : Int),
      (∀ E, Eff E → deg E = k → Winnable H (fun v => X v - E v)) →
      (∀ E, Eff E → deg E = k → Winnable H' (fun v => push τ X v - E v)) := by
    intro τ H H' hτ X k hall E hE hd
    have := hall (push τ.symm E) ((eff_push τ.symm E).mpr hE) (by rw [deg_push]; exact hd)
    rw [winnable_perm τ H H' hτ] at this
    have e : push τ (fun v => X v - push τ.symm E v) = fun v => push τ X v - E v := by
      funext v; simp [push]
    rwa [e] at this
  have key2 : ∀ (τ : Fin n ≃ Fin n) (H H' : Graph n), Renames τ H H' → ∀ (X : Fin n → Int) (r : Int),
      IsRank H X r → IsRank H' (push τ X) r := by
    intro τ H H' hτ X r h
    rcases h with ⟨h1, h2⟩ | ⟨h0, h1, E, hE, hd, hu⟩
    · exact Or.inl ⟨h1, fun hc => h2 ((winnable_perm τ H H' hτ X).mpr hc)⟩
    · refine Or.inr ⟨h0, key τ H H' hτ X r h1, push τ E, (eff_push τ E).mpr hE, by rw [deg_push]; exact hd, ?_⟩
      intro hc
      apply hu
      rw [winnable_perm τ H H' hτ]
      exact hc
  refine ⟨key2 σ G G' hR D r, fun h => ?_⟩
  have := key2 σ.symm G' G (renames_symm σ G G' hR) _ r h
  rwa [push_push_symm] at this

/-- legal sets and q-reducedness are carried along; hence so is the reduced divisor -/
theorem legal_push (σ : Fin n ≃ Fin n) (G G' : Graph n) (hR : Renames σ G G') (q : Fin n) (D : Fin n → Int)
    (S : Fin n → Bool) (h : Legal G q D S) : Legal G' (σ q) (push σ D) (push σ S) := by
  obtain ⟨⟨v, hv⟩, hq, hall⟩ := h
  refine ⟨⟨σ v, by simpa [push] using hv⟩, by simpa [push] using hq, ?_⟩
  intro w hw
  have := hall (σ.symm w) (by simpa [push] using hw)
  have e : outdeg G' (push σ S) w = outdeg G S (σ.symm w) := by
    unfold outdeg push
    rw [← Equiv.sum_comp σ]
    apply Finset.sum_congr rfl
    intro u _
    have := hR (σ.symm w) u
    rw [Equiv.apply_symm_apply] at this
    rw [this, Equiv.symm_apply_apply]
  rw [e]; exact this

theorem qreduced_perm (σ : Fin n ≃ Fin n) (G G' : Graph n) (hR : Renames σ G G') (q : Fin n) (D : Fin n → Int)
    (h : QReduced G q D) : QReduced G' (σ q) (push σ D) := by
  refine ⟨fun v hv => h.1 (σ.symm v) (fun e => hv (by rw [← e]; simp)), ?_⟩
  intro S hS
  have := legal_push σ.symm G' G (renames_symm σ G G' hR) (σ q) (push σ D) S hS
  rw [push_push_symm, Equiv.symm_apply_apply] at this
  exact h.2 _ this

/-- the reduced divisor is renamed accordingly: if `D*` is the q-reduced form of `D` on `G`, then
    any σq-reduced divisor equivalent to the renamed input on the renamed graph is the renamed `D*` -/
theorem reduced_divisor_perm (σ : Fin n ≃ Fin n) (G G' : Graph n) (hR : Renames σ G G') (q : Fin n)
    (D Dstar X : Fin n → Int) (h1 : LinEq G D Dstar) (h2 : QReduced G q Dstar)
    (h3 : LinEq G' (push σ D) X) (h4 : QReduced G' (σ q) X) : X = push σ Dstar := by
  have a := (linEq_perm σ G G' hR D Dstar).mp h1
  have b := qreduced_perm σ G G' hR q Dstar h2
  exact (qreduced_unique G' (σ q) _ _ b h4 (LinEq.trans G' (LinEq.symm G' a) h3)).symm

/-- when the minimum-degree vertex is unique, the sink of the renamed divisor is the renamed sink -/
theorem sink_perm (σ : Fin n ≃ Fin n) (D : Fin n → Int) (q : Fin n) (hq : ∀ v, v ≠ q → D q < D v)
    (q' : Fin n) (h : sink (push σ D) = some q') : q' = σ q := by
  have hmin := sink_min (push σ D) q' h (σ q)
  simp only [push, Equiv.symm_apply_apply] at hmin
  by_contra hne
  have : σ.symm q' ≠ q := fun e => hne (by rw [← e]; simp)
  have := hq _ this
  omega

/-- gonality is carried along by any renaming -/
theorem gonality_perm (σ : Fin n ≃ Fin n) (G G' : Graph n) (hR : Renames σ G G') (k : Nat) :
    IsGonality G k ↔ IsGonality G' k := by
  have rk : ∀ (τ : Fin n ≃ Fin n) (H H' : Graph n), Renames τ H H' → ∀ X, RankGeOne H X → RankGeOne H' (push τ X) := by
    intro τ H H' hτ X h v
    have := h (τ.symm v)
    rw [winnable_perm τ H H' hτ] at this
    have e : push τ (fun w => X w - chipAt (τ.symm v) w) = fun w => push τ X w - chipAt v w := by
      funext w; simp only [push, chipAt]
      by_cases hw : w = v
      · subst hw; simp
      · have : τ.symm w ≠ τ.symm v := fun e => hw (τ.symm.injective e)
        simp [hw, this]
    rwa [e] at this
  have one : ∀ (τ : Fin n ≃ Fin n) (H H' : Graph n), Renames τ H H' → IsGonality H k → IsGonality H' k := by
    intro τ H H' hτ ⟨⟨D, hE, hd, hr⟩, hmin⟩
    refine ⟨⟨push τ D, (eff_push τ D).mpr hE, by rw [deg_push]; exact hd, rk τ H H' hτ D hr⟩, ?_⟩
    intro D' hE' hd' hr'
    have := rk τ.symm H' H (renames_symm τ H H' hτ) D' hr'
    exact hmin _ ((eff_push τ.symm D').mpr hE') (by rw [deg_push]; exact hd') this
  exact ⟨one σ G G' hR, one σ.symm G' G (renames_symm σ G G' hR)⟩

end CF.C17
