import ChipFiring.Properties.C02
import ChipFiring.Theory.RankTheory
/-
  C16 — Analyses never change the game they were handed.

  The model is purely functional: a call can only "change" what it returns as the new state of
  an argument.  The graph is never part of any returned state (`graph_never_written` below is
  the statement that every operation of the graph machine other than add_edge/add_edges returns
  the graph it was given).  For the pure family the argument's post-state is the argument itself;
  that the *code* does not write to it is observed by the correspondence (digests of every
  argument after every call).  For the in-place family (EWD, is_winnable, q_reduction, rank, Dhar
  runs) the post-state of the caller's divisor is the reduced divisor, and the theorems below say
  it is a linearly equivalent divisor of the same total degree.
-/
namespace CF.C16
open CF
variable {n : Nat}

/-- queries never write to the graph -/
theorem graph_never_written (G : Graph n) (v : Nat) :
    gapply G (.valence v) = G ∧ gapply G (.remove v) = G := ⟨rfl, rfl⟩

/-- EWD in either mode: the caller's divisor is either untouched (shortcut exits: no reduced
    divisor is returned) or replaced by a linearly equivalent divisor of the same degree -/
theorem ewd_post_state (G : Graph n) (hs : ∀ v w, G.adj v w = G.adj w v) (hint : Fin n → List (Fin n))
    (fuel : Nat) (Dv : Divisor n) (opt : Bool) (r : EwdOut n) (h : ewd G hint fuel Dv opt = some (.ok r)) :
    r.red = none ∨ ∃ red, r.red = some red ∧ LinEq G Dv.deg red.D ∧ deg red.D = deg Dv.deg := by
  cases opt with
  | false =>
    obtain ⟨q, red, -, hr, hle, hd⟩ := C02.qred_linEq G hs hint fuel Dv r h
    exact Or.inr ⟨red, hr, hle, hd⟩
  | true =>
    rcases ewd_opt_ok G h with ⟨-, -, hn⟩ | ⟨-, -, -, hn⟩ | ⟨-, -, q, red, -, -, hr, hred, -⟩
    · exact Or.inl hn
    · exact Or.inl hn
    · obtain ⟨hle, -⟩ := reduceLoop_spec G hs q _ fuel fuel _ _ _ red hred
      exact Or.inr ⟨red, hr, hle, deg_linEq G hs hle⟩

/-- Dhar runs: debt concentration and a legal set-firing stay in the class and keep the degree -/
theorem dhar_post_state (G : Graph n) (hs : ∀ v w, G.adj v w = G.adj w v) (order : List (Fin n)) (fuel : Nat)
    (D : Fin n → Int) (s : DebtSt n) (S : Fin n → Bool) (h : sendDebt G order fuel D = some s) :
    LinEq G D s.D ∧ deg s.D = deg D ∧ LinEq G D (fireSet G S s.D) ∧ deg (fireSet G S s.D) = deg D := by
  obtain ⟨h1, -⟩ := sendDebt_spec G hs order fuel D s h
  have h2 := LinEq.trans G h1 (fireSet_linEq G hs S s.D)
  exact ⟨h1, deg_linEq G hs h1, h2, deg_linEq G hs h2⟩

/-- the cached total of the caller's divisor is never rewritten by any move, so after an in-place
    reduction it still equals the sum of the (new) degrees -/
theorem cached_total_still_right (G : Graph n) (hs : ∀ v w, G.adj v w = G.adj w v) (Dv : Divisor n)
    (htot : Dv.total = deg Dv.deg) (D' : Fin n → Int) (h : LinEq G Dv.deg D') : Dv.total = deg D' := by
  rw [htot, deg_linEq G hs h]

end CF.C16
