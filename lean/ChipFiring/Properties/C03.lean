import ChipFiring.Theory.RankTheory
import ChipFiring.Theory.GoodOf
import ChipFiring.Theory.RiemannRoch
/-
  C03 — Rank equals the Baker–Norine rank in both calculation modes.

  `IsRank G D r` is the specification (a relation, proved functional below).  `rank G fuel Dv opt`
  is the model of `CFRank._calculate_rank` after the repair F3.  The worker pool only changes the
  order in which the winnability tests of one k are consumed and where the consumption stops;
  the model takes "all tests for this k say winnable" (`allWinnable`), which is what both the
  pool path and the sequential fallback compute.
-/
namespace CF.C03
open CF Finset
variable {n : Nat}

/-- the specification determines the value -/
theorem rank_unique (G : Graph n) (hn : 0 < n) (D : Fin n → Int) (r r' : Int)
    (h : IsRank G D r) (h' : IsRank G D r') : r = r' := isRank_functional G hn D r r' h h'

/-- rank is a class invariant -/
theorem rank_linEq_invariant (G : Graph n) (hn : 0 < n) {D D' : Fin n → Int} (h : LinEq G D D') (r : Int) :
    IsRank G D r ↔ IsRank G D' r := isRank_congr G hn h r

/-- the good k are downward closed: the first k with an unwinnable D − E ends the search -/
theorem good_degrees_downward_closed (G : Graph n) (hn : 0 < n) (D : Fin n → Int) {j k : Nat} (hjk : j ≤ k)
    (h : AllWin G D k) : AllWin G D j := allWin_mono G hn D hjk h

/-- plain mode: whenever `rank` returns, the value is the Baker–Norine rank: −1 exactly for
    unwinnable inputs, otherwise the largest k with D − E winnable for every effective E of
    degree k -/
theorem rank_plain_exact (G : Graph n) (hg : Good G) (fuel : Nat) (Dv : Divisor n) (r : Int)
    (h : rank G fuel Dv false = some (.ok r)) : IsRank G Dv.deg r := by
  unfold rank at h
  cases he : ewd G (fun _ => []) fuel Dv false with
  | none => simp [he] at h
  | some x =>
    cases x with
    | error e => simp [he] at h
    | ok out =>
      simp only [he] at h
      obtain ⟨q, red, -, -, hr, hred, hv⟩ := ewd_plain_ok G he
      obtain ⟨hle, hqr⟩ := reduceLoop_qreduced G hg.wf.symm q _ (hg.cover q) fuel fuel _ _ _ red hred
      have hex : out.verdict = true ↔ Winnable G Dv.deg := by
        rw [hv, decide_eq_true_eq, winnable_congr G hle]
        exact (qreduced_verdict G q red.D hqr).symm
      cases hver : out.verdict with
      | false =>
        simp only [hver, Bool.not_false, if_true] at h
        injection h with h; injection h with h; subst h
        exact Or.inl ⟨rfl, fun hw => by have := hex.mpr hw; rw [hver] at this; exact Bool.noConfusion this⟩
      | true =>
        simp only [hver, Bool.not_true, Bool.false_eq_true, if_false, hr] at h
        have hw : Winnable G red.D := (winnable_congr G hle).mp (hex.mp hver)
        cases hl : rankLoop G fuel red.D fuel 1 with
        | none => simp [hl] at h
        | some x =>
          simp only [hl, Option.map_some] at h
          injection h with h; injection h with h; subst h
          rw [isRank_congr G hg.pos hle]
          apply rankLoop_spec G hg fuel red.D fuel 1 x (le_refl 1) _ hl
          intro E hE hd
          have : E = fun _ => 0 := by
            funext v
            have hd0 : ∑ v, E v = 0 := by simpa [deg] using hd
            exact (Finset.sum_eq_zero_iff_of_nonneg (fun v _ => hE v)).mp hd0 v (mem_univ v)
          subst this; simpa using hw

/-- optimized mode, every branch that does not rely on Riemann–Roch: unwinnable inputs give −1,
    and when the search runs on D itself (deg(K − D) ≥ deg D) the value is the rank -/
theorem rank_optimized_exact_low (G : Graph n) (hg : Good G) (fuel : Nat) (Dv : Divisor n) (r : Int)
    (hnothigh : Dv.total ≤ 2 * G.genus - 2)
    (hlow : ∀ red : Reduced n, ¬ sumZ (fun v => canonicalOf G v - red.D v) < Dv.total)
    (h : rank G fuel Dv true = some (.ok r)) : IsRank G Dv.deg r := by
  have hplain : rank G fuel Dv false = some (.ok r) := by
    unfold rank at h ⊢
    cases he : ewd G (fun _ => []) fuel Dv false with
    | none => simp [he] at h
    | some x =>
      cases x with
      | error e => simp [he] at h
      | ok out =>
        simp only [he] at h ⊢
        cases hver : out.verdict with
        | false => simpa [hver] using h
        | true =>
          simp only [hver, Bool.not_true, Bool.false_eq_true, if_false] at h ⊢
          cases hr : out.red with
          | none => simpa [hr] using h
          | some red =>
            simp only [hr, if_true] at h ⊢
            have h1 : ¬ Dv.total > 2 * G.genus - 2 := by omega
            simp only [h1, if_false, get_mat] at h
            simp only [hlow red, if_false] at h
            exact h
  exact rank_plain_exact G hg fuel Dv r hplain

/-- optimized mode in the band where the search is moved to K − D: the value is
    r(K − D) + deg D + 1 − g, with r(K − D) computed exactly (−1 when K − D is unwinnable).
    That this equals r(D) is the Riemann–Roch theorem for graphs (`riemann_roch` below); the full
    statement for the optimized mode is `rank_optimized_exact`, of which this is a lemma. -/
theorem rank_optimized_band_partial (G : Graph n) (hg : Good G) (fuel : Nat) (Dv : Divisor n) (r : Int)
    (out : EwdOut n) (red : Reduced n)
    (he : ewd G (fun _ => []) fuel Dv false = some (.ok out)) (hver : out.verdict = true) (hr : out.red = some red)
    (hnothigh : Dv.total ≤ 2 * G.genus - 2)
    (hband : sumZ (fun v => canonicalOf G v - red.D v) < Dv.total)
    (h : rank G fuel Dv true = some (.ok r)) :
    IsRank G (fun v => canonicalOf G v - red.D v) (r - (Dv.total + 1 - G.genus)) := by
  unfold rank at h
  simp only [he, hver, Bool.not_true, Bool.false_eq_true, if_false, hr, if_true] at h
  have h1 : ¬ Dv.total > 2 * G.genus - 2 := by omega
  simp only [h1, if_false, get_mat, hband, if_true] at h
  cases hw : winnablePlain G fuel (fun v => canonicalOf G v - red.D v) with
  | none => simp [hw] at h
  | some b =>
    have hex := winnablePlain_exact G hg fuel _ b hw
    cases b
    · simp only [hw] at h
      injection h with h; injection h with h; subst h
      refine Or.inl ⟨by ring, fun hc => ?_⟩
      have := hex.mpr hc; simp at this
    · simp only [hw] at h
      cases hl : rankLoop G fuel (fun v => canonicalOf G v - red.D v) fuel 1 with
      | none => simp [hl] at h
      | some x =>
        simp only [hl, Option.map_some] at h
        injection h with h; injection h with h; subst h
        have : x + (Dv.total + 1 - G.genus) - (Dv.total + 1 - G.genus) = x := by ring
        rw [this]
        apply rankLoop_spec G hg fuel _ fuel 1 x (le_refl 1) _ hl
        intro E hE hd
        have : E = fun _ => 0 := by
          funext v
          have hd0 : ∑ v, E v = 0 := by simpa [deg] using hd
          exact (Finset.sum_eq_zero_iff_of_nonneg (fun v _ => hE v)).mp hd0 v (mem_univ v)
        subst this; simpa using hex.mp rfl

def okVal : Option (Except Unit Int) → Option Int
  | some (.ok r) => some r
  | _ => none

/-- non-vacuity: doubled triangle (g = 4), D = (2,3,1) of degree 6 = 2g − 2: both modes return 2 -/
example : ∃ G : Graph 3, Graph.new 3 false [(0, 1, 2), (1, 2, 2), (0, 2, 2)] = .ok G ∧
    okVal (rank G 1000 (Divisor.ofFn fun v => [2, 3, 1].getD v.1 0) false) = some 2 ∧
    okVal (rank G 1000 (Divisor.ofFn fun v => [2, 3, 1].getD v.1 0) true) = some 2 := by
  refine ⟨_, rfl, by decide +kernel, by decide +kernel⟩

/-- Headline form on connected graphs -/
theorem rank_plain_exact_connected (G : Graph n) (hG : G.WF) (hc : G.Connected) (hn : 0 < n) (fuel : Nat)
    (Dv : Divisor n) (r : Int) (h : rank G fuel Dv false = some (.ok r)) : IsRank G Dv.deg r :=
  rank_plain_exact G (good_of_connected G hG hc hn) fuel Dv r h

/-- Riemann–Roch for graphs (Baker–Norine): for every divisor D on a connected multigraph,
    r(D) − r(K − D) = deg D + 1 − g -/
theorem riemann_roch (G : Graph n) (hG : G.WF) (hc : G.Connected) (hn : 0 < n) (D : Fin n → Int) (r r' : Int)
    (h : IsRank G D r) (h' : IsRank G (fun v => canonical G v - D v) r') :
    r - r' = deg D + 1 - G.genus := CF.riemann_roch G hG hc hn D r r' h h'

/-- every divisor has a rank (so the relation `IsRank` is a total function) -/
theorem rank_exists (G : Graph n) (hG : G.WF) (hn : 0 < n) (D : Fin n → Int) : ∃ r, IsRank G D r :=
  exists_isRank G hG hn D

/-- r(D) = deg D − g whenever deg D > 2g − 2 -/
theorem rank_above_canonical_degree (G : Graph n) (hG : G.WF) (hc : G.Connected) (hn : 0 < n) (D : Fin n → Int)
    (h : 2 * G.genus - 2 < deg D) : IsRank G D (deg D - G.genus) := rank_high_degree G hG hc hn D h

theorem canonicalOf_eq (G : Graph n) (hG : G.WF) : canonicalOf G = canonical G := by
  funext v; simp only [canonicalOf, canonical, hG.val_eq v]; push_cast; rfl

/-- optimized mode, every branch: whenever `rank … true` returns on a divisor whose cached total is
    its degree (established by the constructor and kept by every move: C05), the value is the
    Baker–Norine rank.  The `deg > 2g − 2` shortcut and the switch to K − D are justified by
    Riemann–Roch. -/
theorem rank_optimized_exact (G : Graph n) (hg : Good G) (fuel : Nat) (Dv : Divisor n) (r : Int)
    (htot : Dv.total = deg Dv.deg)
    (h : rank G fuel Dv true = some (.ok r)) : IsRank G Dv.deg r := by
  have hG := hg.wf
  cases he : ewd G (fun _ => []) fuel Dv false with
  | none => simp [rank, he] at h
  | some x =>
    cases x with
    | error e => simp [rank, he] at h
    | ok out =>
      cases hver : out.verdict with
      | false =>
        apply rank_plain_exact G hg fuel Dv r
        unfold rank at h ⊢
        simpa [he, hver] using h
      | true =>
        cases hr : out.red with
        | none => simp [rank, he, hver, hr] at h
        | some red =>
          by_cases hhigh : Dv.total > 2 * G.genus - 2
          · have : r = Dv.total - G.genus := by
              unfold rank at h
              simp only [he, hver, Bool.not_true, Bool.false_eq_true, if_false, hr, if_true, hhigh] at h
              injection h with h; injection h with h; exact h.symm
            rw [this, htot]
            exact rank_high_degree G hG hg.conn hg.pos Dv.deg (by rw [← htot]; omega)
          · by_cases hband : sumZ (fun v => canonicalOf G v - red.D v) < Dv.total
            · have hpart := rank_optimized_band_partial G hg fuel Dv r out red he hver hr (by omega) hband h
              obtain ⟨q, red', -, -, hr', hred, -⟩ := ewd_plain_ok G he
              rw [hr] at hr'; injection hr' with hr'; subst hr'
              obtain ⟨hle, -⟩ := reduceLoop_spec G hG.symm q _ fuel fuel _ _ _ red hred
              obtain ⟨r0, hr0⟩ := exists_isRank G hG hg.pos red.D
              rw [canonicalOf_eq G hG] at hpart
              have hrr := CF.riemann_roch G hG hg.conn hg.pos red.D r0 _ hr0 hpart
              have hdeg : deg red.D = Dv.total := by rw [deg_linEq G hG.symm hle, htot]
              have : r0 = r := by rw [hdeg] at hrr; omega
              rw [isRank_congr G hg.pos hle, ← this]; exact hr0
            · apply rank_plain_exact G hg fuel Dv r
              unfold rank at h ⊢
              simp only [he, hver, Bool.not_true, Bool.false_eq_true, if_false, hr, if_true, hhigh, get_mat, hband] at h ⊢
              exact h

/-- consequently the two modes agree wherever both return -/
theorem rank_modes_agree (G : Graph n) (hg : Good G) (fuel fuel' : Nat) (Dv : Divisor n) (r r' : Int)
    (htot : Dv.total = deg Dv.deg)
    (h : rank G fuel Dv false = some (.ok r)) (h' : rank G fuel' Dv true = some (.ok r')) : r = r' :=
  isRank_functional G hg.pos Dv.deg r r' (rank_plain_exact G hg fuel Dv r h) (rank_optimized_exact G hg fuel' Dv r' htot h')

/-- and the computed values satisfy Riemann–Roch -/
theorem computed_riemann_roch (G : Graph n) (hg : Good G) (fuel fuel' : Nat) (opt opt' : Bool) (Dv KD : Divisor n) (r r' : Int)
    (htot : Dv.total = deg Dv.deg) (htot' : KD.total = deg KD.deg)
    (hK : ∀ v, KD.deg v = canonicalOf G v - Dv.deg v)
    (h : rank G fuel Dv opt = some (.ok r)) (h' : rank G fuel' KD opt' = some (.ok r')) :
    r - r' = Dv.total + 1 - G.genus := by
  have e1 : IsRank G Dv.deg r := by
    cases opt
    · exact rank_plain_exact G hg fuel Dv r h
    · exact rank_optimized_exact G hg fuel Dv r htot h
  have e2 : IsRank G KD.deg r' := by
    cases opt'
    · exact rank_plain_exact G hg fuel' KD r' h'
    · exact rank_optimized_exact G hg fuel' KD r' htot' h'
  have : KD.deg = fun v => canonical G v - Dv.deg v := by
    funext v; rw [hK v, canonicalOf_eq G hg.wf]
  rw [this] at e2
  rw [htot]
  exact CF.riemann_roch G hg.wf hg.conn hg.pos Dv.deg r r' e1 e2

end CF.C03
