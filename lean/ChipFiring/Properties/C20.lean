import ChipFiring.Properties.C13
import ChipFiring.Theory.OrientInv
import ChipFiring.Theory.Moves
/-
  C20 — Invalid requests are refused without side effects.
  Every machine of the model mirrors the order of the code's checks and writes (validate every
  name of a firing set, then transfer; per-edge insertion in batches; flag refresh before the
  fullness gate).  A refusal is `Except.error ()` / an unchanged state in the history runners.
-/
namespace CF.C20
open CF Orient
variable {n : Nat}

theorem ref?_none_iff (i : Nat) : ref? n i = none ↔ n ≤ i := by
  unfold ref?; split <;> simp <;> omega

theorem refs?_none_iff (S : List Nat) : refs? n S = none ↔ ∃ i ∈ S, n ≤ i := by
  induction S with
  | nil => simp [refs?]
  | cons a S ih =>
    unfold refs?
    cases ha : ref? n a with
    | none => simp [(ref?_none_iff a).mp ha]
    | some v =>
      have hlt : ¬ n ≤ a := fun hc => by rw [(ref?_none_iff a).mpr hc] at ha; simp at ha
      cases hS : refs? n S with
      | none => simp only [true_iff]; obtain ⟨i, hi, hn⟩ := ih.mp hS; exact ⟨i, List.mem_cons_of_mem _ hi, hn⟩
      | some vs =>
        simp only [false_iff, reduceCtorEq]
        rintro ⟨i, hi, hn⟩
        rcases List.mem_cons.mp hi with rfl | hi
        · exact hlt hn
        · have := ih.mpr ⟨i, hi, hn⟩; rw [hS] at this; simp at this

/-- `set_fire(S)` is refused exactly when S names a non-vertex — wherever in S it stands, and
    however many valid names surround it; nothing is transferred in that case -/
theorem set_fire_refused_iff (G : Graph n) (q : Option (Fin n)) (D : Vec Int n) (S : List Nat) :
    dstep G q D (.fire S) = .error () ↔ ∃ i ∈ S, n ≤ i := by
  rw [← refs?_none_iff]
  simp only [dstep]
  cases refs? n S <;> simp

/-- a configuration additionally refuses the sink inside the firing set -/
theorem cfg_fire_refuses_sink (G : Graph n) (q : Fin n) (D : Vec Int n) (S : List Nat) (h : q.1 ∈ S) :
    dstep G (some q) D (.cfgFire S) = .error () := by
  simp only [dstep]
  cases hS : refs? n S with
  | none => rfl
  | some vs =>
    have : vs.contains q = true := by
      have key : ∀ (S : List Nat) (vs : List (Fin n)), refs? n S = some vs → q.1 ∈ S → q ∈ vs := by
        intro S
        induction S with
        | nil => intro vs _ h; simp at h
        | cons a S ih =>
          intro vs hvs hmem
          unfold refs? at hvs
          cases ha : ref? n a with
          | none => simp [ha] at hvs
          | some v =>
            cases hS' : refs? n S with
            | none => simp [ha, hS'] at hvs
            | some ws =>
              simp only [ha, hS', Option.some.injEq] at hvs
              subst hvs
              rcases List.mem_cons.mp hmem with rfl | hmem
              · have : v = q := by
                  unfold ref? at ha; split at ha
                  · injection ha with ha; rw [← ha]
                  · simp at ha
                rw [this]; exact List.mem_cons_self
              · exact List.mem_cons_of_mem _ (ih ws hS' hmem)
      simpa using key S vs hS h
    simp only [this, if_true]

/-- unknown vertices and non-positive amounts are refused by every divisor / configuration move -/
theorem moves_refuse_unknown (G : Graph n) (q : Option (Fin n)) (D : Vec Int n) (i : Nat) (hi : n ≤ i) (j : Nat) (k : Int) :
    dstep G q D (.lend i) = .error () ∧ dstep G q D (.borrow i) = .error () ∧
    dstep G q D (.transfer i j k) = .error () ∧ dstep G q D (.transfer j i k) = .error () ∧
    dstep G q D (.cfgLend i) = .error () ∧ dstep G q D (.cfgBorrow i) = .error () ∧
    dstep G q D (.cfgDegreeAt i) = .error () := by
  have hr := (ref?_none_iff (n := n) i).mpr hi
  refine ⟨by simp [dstep, hr], by simp [dstep, hr], ?_, ?_, ?_, ?_, ?_⟩
  · simp only [dstep, hr]; split <;> [rfl; (cases ref? n j <;> rfl)]
  · simp only [dstep, hr]; split <;> [rfl; (cases ref? n j <;> rfl)]
  · cases q <;> simp [dstep, hr]
  · cases q <;> simp [dstep, hr]
  · cases q <;> simp [dstep, hr]

theorem transfer_refuses_nonpositive (G : Graph n) (q : Option (Fin n)) (D : Vec Int n) (a b : Nat) (k : Int) (hk : k ≤ 0) :
    dstep G q D (.transfer a b k) = .error () := by simp [dstep, hk]

theorem degree_at_refuses_sink (G : Graph n) (q : Fin n) (D : Vec Int n) :
    dstep G (some q) D (.cfgDegreeAt q.1) = .error () := by
  have : ref? n q.1 = some q := by simp [ref?]
  simp [dstep, this]

/-- a refused request — at any point of the history, since `drun` recurses on the current
    state — leaves the divisor exactly as it was and the rest of the history runs from there -/
theorem divisor_refused_is_identity (G : Graph n) (q : Option (Fin n)) (D : Vec Int n) (o : DOp) (os : List DOp)
    (h : dstep G q D o = .error ()) : drun G q D (o :: os) = (false, D, none) :: drun G q D os := by
  simp [drun, h]

/-- scripts: unknown names are refused by get / set / update and change nothing -/
theorem script_refused_is_identity (s : Vec Int n) (o : SOp) (os : List SOp) (h : sstep s o = .error ()) :
    srun s (o :: os) = (false, s, none) :: srun s os := by simp [srun, h]

/-- graphs: see C13 (`refused_add_unchanged`, `addEdges_prefix`) -/
theorem graph_refused_is_identity (G : Graph n) (a b : Nat) (k : Int) (h : G.addEdge a b k = .error ()) :
    gapply G (.add a b k) = G := C13.refused_add_unchanged G a b k h

/-- orientations: a refused `set_orientation` (non-edge, unknown vertex) leaves every edge state,
    counter and flag unchanged -/
theorem orientation_refused_is_identity (G : Graph n) (o : Orient n) (a b s : Nat)
    (h : oaccepts G o a b s = false) : oapply G o (.set a b s) = o := by
  unfold oaccepts at h
  simp only [oapply]
  cases ha : ref? n a <;> cases hb : ref? n b <;> simp only [ha, hb] at h ⊢
  rename_i u v
  by_cases hs : s ≤ 2
  · simp only [hs, decide_true, Bool.true_and] at h
    simp only [hs, if_true]
    cases hset : setO G o u v s with
    | ok o' => simp [hset] at h
    | error e => rfl
  · simp [hs]

theorem set_orientation_refuses_nonedge (G : Graph n) (o : Orient n) (u v : Fin n) (s : Nat) (h : G.adj u v = 0) :
    setO G o u v s = .error () := by simp [setO, h]

/-- `reverse` / `divisor` on a partial orientation are refused; they may refresh the cached
    fullness flags but never touch an edge state or a counter -/
theorem needs_full (G : Graph n) (o : Orient n) :
    (needFull G o).1.stV = o.stV ∧ (needFull G o).1.inV = o.inV ∧ (needFull G o).1.outV = o.outV := by
  unfold needFull; split <;> simp [checkFullness]

theorem needs_full_refuses (G : Graph n) (o : Orient n) (hinv : Inv G o) (h : fullNow G o = false) :
    (needFull G o).2 = false := by
  unfold needFull
  by_cases hc : o.isFullChecked = true
  · simp only [hc, if_true]
    have := hinv.flag hc
    cases hf : o.isFull
    · rfl
    · rw [this.mp hf] at h; exact Bool.noConfusion h
  · simp [hc, checkFullness, h]

/-- constructors: duplicate entries and unknown names are refused -/
theorem divisor_ctor_rejects (entries : List (Nat × Int)) :
    (Divisor.hasDup (entries.map (·.1)) = true → (Divisor.new entries : Except Unit (Divisor n)) = .error ()) := by
  intro h; simp [Divisor.new, h]

theorem divisor_ctor_rejects_unknown (i : Nat) (k : Int) (hi : n ≤ i) :
    (Divisor.new [(i, k)] : Except Unit (Divisor n)) = .error () := by
  have hr := (ref?_none_iff (n := n) i).mpr hi
  simp [Divisor.new, Divisor.hasDup, Divisor.new.go, hr]

theorem orientation_ctor_rejects (G : Graph n) (a b : Nat) (rest : List (Nat × Nat)) (o : Orient n)
    (h : n ≤ a ∨ n ≤ b) : Orient.new.go G ((a, b) :: rest) o = .error () := by
  unfold Orient.new.go
  rcases h with h | h
  · have := (ref?_none_iff (n := n) a).mpr h; simp [this]
  · have := (ref?_none_iff (n := n) b).mpr h
    cases ha : ref? n a <;> simp [this]

def isErr {α : Type} : Except Unit α → Bool
  | .error _ => true
  | .ok _ => false

example : ∃ G : Graph 3, Graph.new 3 false [(0, 1, 1), (1, 2, 1)] = .ok G ∧
    isErr (dstep G none (mat fun _ => 1) (.fire [0, 7, 1])) = true ∧
    isErr (dstep G (some 2) (mat fun _ => 1) (.cfgFire [0, 2])) = true ∧
    isErr (dstep G (some 2) (mat fun _ => 1) (.cfgFire [0, 1])) = false := by
  refine ⟨_, rfl, by decide, by decide, by decide⟩

end CF.C20
