import ChipFiring.Theory.Acyclic
import ChipFiring.Theory.RankTheory
import ChipFiring.Theory.CertCheck
import ChipFiring.Theory.EwdFull
import ChipFiring.Theory.GoodOf
/-
  C09 — The burning orientation is an acyclic certificate of the verdict.
  The orientation EWD returns is the direction predicate `red.st.dir G` of the final burn.
-/
namespace CF.C09
open CF Finset
variable {n : Nat}

/-- whenever EWD (either mode) returns an orientation: every edge is oriented, the orientation is
    acyclic, q is a source, every other vertex holds strictly fewer chips than its in-degree
    (so, the divisor being non-negative off q, q is the only source) -/
theorem ewd_orientation_certificate (G : Graph n) (hG : G.WF) (hint : Fin n → List (Fin n))
    (fuel : Nat) (Dv : Divisor n) (opt : Bool) (r : EwdOut n) (red : Reduced n)
    (hcover : ∀ q v, v ≠ q → v ∈ debtOrder G hint q)
    (h : ewd G hint fuel Dv opt = some (.ok r)) (hr : r.red = some red) :
    ∃ q, r.q = some q ∧
      OFull G (red.st.dir G) ∧ OAcyclic G (red.st.dir G) ∧
      red.st.indeg G q = 0 ∧
      (∀ v, v ≠ q → red.D v < red.st.indeg G v) ∧
      (∀ v, v ≠ q → 0 < red.st.indeg G v) ∧
      (∑ v, red.st.indeg G v = (G.total : Int)) := by
  have key : ∀ q (tr0 : List (Vec Int n)), reduceLoop G q (debtOrder G hint q) fuel fuel Dv.deg tr0 0 = some red →
      OFull G (red.st.dir G) ∧ OAcyclic G (red.st.dir G) ∧ red.st.indeg G q = 0 ∧
      (∀ v, v ≠ q → red.D v < red.st.indeg G v) ∧ (∀ v, v ≠ q → 0 < red.st.indeg G v) ∧
      (∑ v, red.st.indeg G v = (G.total : Int)) := by
    intro q tr0 hred
    obtain ⟨-, hcl, hst, hall⟩ := reduceLoop_spec G hG.symm q _ fuel fuel _ _ _ red hred
    have hall' := hall
    rw [hst] at hall'
    obtain ⟨h1, h2, h3, h4, h5⟩ := burn_certificate hG q red.D hall'
    rw [← hst] at h1 h2 h3 h4 h5
    refine ⟨h1, h2, h3, h4, ?_, h5⟩
    intro v hv
    have := h4 v hv
    have := hcl v (hcover q v hv)
    omega
  cases opt with
  | false =>
    obtain ⟨q, red', -, hq, hr', hred, -⟩ := ewd_plain_ok G h
    rw [hr] at hr'; injection hr' with hr'; subst hr'
    exact ⟨q, hq, key q _ hred⟩
  | true =>
    rcases ewd_opt_ok G h with ⟨-, -, hn⟩ | ⟨-, -, -, hn⟩ | ⟨-, -, q, red', -, hq, hr', hred, -⟩
    · rw [hr] at hn; exact absurd hn (by simp)
    · rw [hr] at hn; exact absurd hn (by simp)
    · rw [hr] at hr'; injection hr' with hr'; subst hr'
      exact ⟨q, hq, key q _ hred⟩

/-- for an unwinnable verdict the returned divisor is dominated vertex-wise by the orientation's
    divisor (in-degree minus one): a checkable proof of unwinnability -/
theorem unwinnable_dominated (G : Graph n) (hG : G.WF) (hint : Fin n → List (Fin n))
    (fuel : Nat) (Dv : Divisor n) (r : EwdOut n)
    (hcover : ∀ q v, v ≠ q → v ∈ debtOrder G hint q)
    (h : ewd G hint fuel Dv false = some (.ok r)) (hv : r.verdict = false) :
    ∃ red, r.red = some red ∧ ∀ v, red.D v ≤ red.st.indeg G v - 1 := by
  obtain ⟨q, red, -, hq, hr, hred, hver⟩ := ewd_plain_ok G h
  obtain ⟨q', hq', -, -, h0, hb, -, -⟩ := ewd_orientation_certificate G hG hint fuel Dv false r red hcover h hr
  have : q' = q := by rw [hq] at hq'; exact (Option.some.inj hq').symm
  subst this
  refine ⟨red, hr, ?_⟩
  intro v
  by_cases hvq : v = q'
  · subst hvq
    rw [hver] at hv
    have : ¬ (0 ≤ red.D v) := by simpa using hv
    rw [h0]; omega
  · have := hb v hvq; omega

/-- the model has no "orientation is not full" exit: whenever the loop ends, everything is burnt,
    and then every edge is oriented (first component above) -/
theorem never_not_full (G : Graph n) (hG : G.WF) (hint : Fin n → List (Fin n))
    (fuel : Nat) (Dv : Divisor n) (opt : Bool) (r : EwdOut n) (red : Reduced n)
    (hcover : ∀ q v, v ≠ q → v ∈ debtOrder G hint q)
    (h : ewd G hint fuel Dv opt = some (.ok r)) (hr : r.red = some red) :
    ∀ u v, 0 < G.adj u v → (red.st.dir G u v = !red.st.dir G v u) := by
  obtain ⟨q, -, hf, -⟩ := ewd_orientation_certificate G hG hint fuel Dv opt r red hcover h hr
  exact hf

/-- non-vacuity: an unwinnable input on a multigraph with cycles -/
example : ∃ G : Graph 4, Graph.new 4 false [(0, 3, 3), (1, 2, 2), (2, 3, 1)] = .ok G ∧
    ∃ r red, ewd G (fun _ => []) 1000 (Divisor.ofFn fun v => [-3, -1, -2, 6].getD v.1 0) false = some (.ok r) ∧
      r.red = some red ∧ r.verdict = false ∧ (List.finRange 4).map (red.st.indeg G) = [0, 2, 1, 3] := by
  refine ⟨_, rfl, _, _, rfl, rfl, by decide, by decide⟩

/-- Headline form on connected graphs: the certificate without side conditions on the BFS -/
theorem certificate_connected (G : Graph n) (hG : G.WF) (hc : G.Connected) (hint : Fin n → List (Fin n))
    (fuel : Nat) (Dv : Divisor n) (opt : Bool) (r : EwdOut n) (red : Reduced n)
    (h : ewd G hint fuel Dv opt = some (.ok r)) (hr : r.red = some red) :
    ∃ q, r.q = some q ∧ OFull G (red.st.dir G) ∧ OAcyclic G (red.st.dir G) ∧ red.st.indeg G q = 0 ∧
      (∀ v, v ≠ q → red.D v < red.st.indeg G v) ∧ (∀ v, v ≠ q → 0 < red.st.indeg G v) := by
  obtain ⟨q, h1, h2, h3, h4, h5, h6, -⟩ :=
    ewd_orientation_certificate G hG hint fuel Dv opt r red (cover_of_connected G hG hc hint) h hr
  exact ⟨q, h1, h2, h3, h4, h5, h6⟩

/-- **verified checker**: the driver runs `certOK` on the orientation the *implementation* returned
    (witness phase of the check); whatever it accepts is the certificate this property describes —
    full, acyclic, nothing enters q, every other vertex holds fewer chips than its in-degree — and
    for an unwinnable verdict the divisor is dominated by in-degree minus one.  This holds for any
    burn order the code may use. -/
theorem checker_sound (G : Graph n) (q : Fin n) (D : Fin n → Int) (dir : Fin n → Fin n → Bool) (pos : Fin n → Nat)
    (h : certOK G q D dir pos = true) :
    OFull G dir ∧ OAcyclic G dir ∧ indeg G dir q = 0 ∧ (∀ v, v ≠ q → D v < indeg G dir v) ∧
    (D q < 0 → ∀ v, D v ≤ indeg G dir v - 1) := by
  obtain ⟨h1, h2, h3, h4⟩ := certOK_sound G q D dir pos h
  exact ⟨h1, h2, h3, h4, certOK_dominated G q D dir pos h⟩

/-- and an accepted certificate with debt at q proves unwinnability of the class (T9 + domination) -/
theorem checker_proves_unwinnable (G : Graph n) (hG : G.WF) (hn : 0 < n) (q : Fin n) (D : Fin n → Int)
    (dir : Fin n → Fin n → Bool) (pos : Fin n → Nat)
    (h : certOK G q D dir pos = true) (hq : D q < 0) : ¬ Winnable G D := by
  obtain ⟨-, hac, -, -⟩ := certOK_sound G q D dir pos h
  have hdom := certOK_dominated G q D dir pos h hq
  intro hw
  have hF : Eff (fun v => (indeg G dir v - 1) - D v) := fun v => by have := hdom v; simp only; omega
  have := Winnable.add_eff G hw hF
  have heq : (fun v => D v + ((indeg G dir v - 1) - D v)) = fun v => indeg G dir v - 1 := by funext v; ring
  rw [heq] at this
  exact CF.acyclic_unwinnable G hG.symm hn dir hac this

end CF.C09
