import ChipFiring.Theory.Acyclic
import ChipFiring.Theory.OrientInv
import ChipFiring.Theory.LinEq
/-
  C11 — Orientation counters stay consistent; orientation divisors obey the K identities.
-/
namespace CF.C11
open CF Finset Orient
variable {n : Nat}

/-- the constructor (`CFOrientation(graph, pairs)`) establishes the invariant -/
theorem new_go_inv (G : Graph n) (hG : G.WF) :
    ∀ (pairs : List (Nat × Nat)) (o o' : Orient n), Inv G o → Orient.new.go G pairs o = .ok o' → Inv G o' := by
  intro pairs
  induction pairs with
  | nil => intro o o' hinv h; simp [Orient.new.go] at h; rw [← h]; exact checkFullness_inv hinv
  | cons p ps ih =>
    intro o o' hinv h
    obtain ⟨a, b⟩ := p
    unfold Orient.new.go at h
    split at h
    · split at h
      · exact absurd h (by simp)
      · split at h
        · exact absurd h (by simp)
        · split at h
          · rename_i o1 hset
            exact ih o1 o' (setO_inv hG.symm hinv (by omega) hset) h
          · exact absurd h (by simp)
    · exact absurd h (by simp)

theorem constructed_inv (G : Graph n) (hG : G.WF) (pairs : List (Nat × Nat)) (o : Orient n)
    (h : Orient.new G pairs = .ok o) : Inv G o := new_go_inv G hG pairs _ o (blank_inv G) h

/-- one operation keeps the invariant -/
theorem oapply_inv (G : Graph n) (hG : G.WF) (o : Orient n) (hinv : Inv G o) (op : OOp) : Inv G (oapply G o op) := by
  cases op with
  | set a b s =>
    simp only [oapply]
    split
    · split
      · rename_i hs
        split
        · rename_i o' hset; exact setO_inv hG.symm hinv hs hset
        · exact hinv
      · exact hinv
    · exact hinv
  | full => exact checkFullness_inv hinv
  | needFull =>
    simp only [oapply, needFull]
    split
    · exact hinv
    · exact checkFullness_inv hinv
  | query => exact hinv

/-- after any sequence of orienting, re-orienting and un-orienting edges (valid or refused, both
    endpoint orders, flag refreshes in between): each vertex's stored in/out-degree is the total
    multiplicity of the edges currently pointing into/out of it, both endpoints agree on every
    edge, and an up-to-date fullness flag is right -/
theorem history_inv (G : Graph n) (hG : G.WF) (o : Orient n) (hinv : Inv G o) (ops : List OOp) :
    Inv G (ops.foldl (oapply G) o) := by
  induction ops generalizing o with
  | nil => simpa
  | cons op ops ih => exact ih _ (oapply_inv G hG o hinv op)

/-- `check_fullness` reports fullness exactly when no edge is unoriented -/
theorem checkFullness_exact (G : Graph n) (o : Orient n) :
    (checkFullness G o).2 = true ↔ ∀ u v : Fin n, 0 < G.adj u v → u.1 < v.1 → o.st u v ≠ 0 := by
  simp only [checkFullness, fullNow, allF_iff, Bool.or_eq_true, Bool.not_eq_eq_eq_not, Bool.not_true,
    Bool.and_eq_false_imp, decide_eq_true_eq]
  constructor
  · intro h u v h1 h2
    rcases h u v with h3 | h3
    · exact absurd (h3 h2) (by simp; omega)
    · exact h3
  · intro h u v
    by_cases h2 : u.1 < v.1
    · by_cases h1 : 0 < G.adj u v
      · right; exact h u v h1 h2
      · left; intro _; simp; omega
    · left; intro hc; exact absurd hc h2

/-! full orientations -/

def IsFull (G : Graph n) (o : Orient n) : Prop := ∀ u v, 0 < G.adj u v → o.st u v ≠ 0

theorem I1_add_flip (s : Nat) (h : s ≤ 2) (h0 : s ≠ 0) : I1 s + I1 (Orient.flip s) = 1 := by
  interval_cases s <;> simp_all [I1, Orient.flip]

/-- in-degree + out-degree = valence at every vertex of a full orientation -/
theorem in_add_out (G : Graph n) (hG : G.WF) (o : Orient n) (hinv : Inv G o) (hf : IsFull G o) (v : Fin n) :
    o.inD v + o.outD v = ∑ u, (G.adj v u : Int) := by
  rw [hinv.inOk, hinv.outOk]
  unfold inSpec outSpec
  rw [← Finset.sum_add_distrib]
  apply Finset.sum_congr rfl
  intro u _
  rw [hG.symm u v, hinv.agree v u]
  by_cases h0 : G.adj v u = 0
  · simp [h0]
  · have := I1_add_flip (o.st v u) (hinv.range v u) (hf v u (Nat.pos_of_ne_zero h0))
    rw [← add_mul, add_comm, this]; ring

/-- the divisor of a full orientation is in-degree minus one (definition) and has degree g − 1 -/
theorem divisor_degree (G : Graph n) (hG : G.WF) (o : Orient n) (hinv : Inv G o) (hf : IsFull G o) :
    (∀ v, divisorOf o v = o.inD v - 1) ∧ deg (divisorOf o) = G.genus - 1 := by
  refine ⟨fun _ => rfl, ?_⟩
  have hsum : ∑ v, o.inD v = ∑ v, o.outD v := by
    simp only [hinv.inOk, hinv.outOk, inSpec, outSpec]
    rw [Finset.sum_comm]
  have h2 : ∑ v, (o.inD v + o.outD v) = ∑ v, ∑ u, (G.adj v u : Int) :=
    Finset.sum_congr rfl fun v _ => in_add_out G hG o hinv hf v
  rw [Finset.sum_add_distrib, ← hsum] at h2
  have h3 : ∑ v, ∑ u, (G.adj v u : Int) = 2 * (G.total : Int) := by
    have := hG.total_eq
    have h4 : ∑ v, ∑ w, (G.adj v w : Int) = ((∑ v, G.val v : Nat) : Int) := by
      push_cast
      apply Finset.sum_congr rfl; intro v _
      rw [hG.val_eq v]; push_cast; rfl
    rw [h4, ← this]; push_cast; ring
  simp only [deg, divisorOf, Finset.sum_sub_distrib]
  unfold Graph.genus
  simp
  omega

/-- reversing an orientation swaps the roles of the two counters: in the reversed orientation
    (every state flipped) the in-degree is the old out-degree -/
theorem reverse_in_eq_out (G : Graph n) (hG : G.WF) (o r : Orient n) (hinv : Inv G o) (hr : Inv G r)
    (hrev : ∀ u v, r.st u v = Orient.flip (o.st u v)) (v : Fin n) : r.inD v = o.outD v := by
  rw [hr.inOk, hinv.outOk]
  unfold inSpec outSpec
  apply Finset.sum_congr rfl
  intro u _
  rw [hrev u v, ← hinv.agree u v, hG.symm u v]

/-- hence the divisors of a full orientation and of its reverse add up to the canonical divisor
    (valence minus two) -/
theorem divisor_add_reverse (G : Graph n) (hG : G.WF) (o r : Orient n) (hinv : Inv G o) (hr : Inv G r)
    (hf : IsFull G o) (hrev : ∀ u v, r.st u v = Orient.flip (o.st u v)) (v : Fin n) :
    divisorOf o v + divisorOf r v = canonicalOf G v := by
  simp only [divisorOf, canonicalOf, reverse_in_eq_out G hG o r hinv hr hrev v]
  have := in_add_out G hG o hinv hf v
  have hv : (G.val v : Int) = ∑ u, (G.adj v u : Int) := by rw [hG.val_eq v]; push_cast; rfl
  rw [hv]; linarith

/-- T9: the divisor of an acyclic orientation (in-degree minus one) is unwinnable
    (proof in `Theory/Acyclic.lean`) -/
theorem acyclic_unwinnable (G : Graph n) (hs : ∀ v w, G.adj v w = G.adj w v) (hn : 0 < n)
    (dir : Fin n → Fin n → Bool) (h : OAcyclic G dir) :
    ¬ Winnable G (fun v => indeg G dir v - 1) := CF.acyclic_unwinnable G hs hn dir h

/-- the direction predicate stored in an orientation object -/
def dirOf (o : Orient n) : Fin n → Fin n → Bool := fun u v => decide (o.st u v = 1)

/-- the counters are the spec in-degrees of that predicate, so T9 applies to `O.divisor()` -/
theorem inD_eq_indeg (G : Graph n) (o : Orient n) (hinv : Inv G o) (v : Fin n) :
    o.inD v = indeg G (dirOf o) v := by
  rw [hinv.inOk]; unfold inSpec indeg dirOf I1
  apply Finset.sum_congr rfl; intro u _
  by_cases h : o.st u v = 1 <;> simp [h]

theorem acyclic_divisor_unwinnable (G : Graph n) (hG : G.WF) (hn : 0 < n) (o : Orient n) (hinv : Inv G o)
    (hac : OAcyclic G (dirOf o)) : ¬ Winnable G (divisorOf o) := by
  have := acyclic_unwinnable G hG.symm hn (dirOf o) hac
  have heq : divisorOf o = fun v => indeg G (dirOf o) v - 1 := by
    funext v; simp [divisorOf, inD_eq_indeg G o hinv v]
  rw [heq]; exact this

/-- non-vacuity: on the doubled triangle, orient, re-orient through the other endpoint, un-orient -/
example : ∃ G : Graph 3, Graph.new 3 false [(0, 1, 2), (1, 2, 2), (0, 2, 2)] = .ok G ∧
    ∃ o, Orient.new G [(0, 1), (1, 2), (0, 2)] = .ok o ∧
      (List.finRange 3).map (divisorOf o) = [-1, 1, 3] ∧
      (List.finRange 3).map (oapply G (oapply G o (.set 1 0 1)) (.set 2 1 0)).inD = [2, 0, 2] := by
  refine ⟨_, rfl, _, rfl, by decide +kernel, by decide +kernel⟩

end CF.C11
