import ChipFiring.Theory.RemoveVertex
import ChipFiring.Theory.GraphInv
/-
  C13 — Graph bookkeeping (valences, edge total, genus) consistent over any history.
-/
namespace CF.C13
open CF Finset
variable {n : Nat}

/-- every graph the constructor returns is well-formed: symmetric, loopless, cached valences =
    row sums, twice the cached edge total = sum of valences -/
theorem constructed_wf {dup : Bool} {es : List (Nat × Nat × Int)} {G : Graph n}
    (h : Graph.new n dup es = .ok G) : G.WF := new_wf h

/-- ... and it stays so after any history of `add_edge` / `add_edges` / queries, valid or refused -/
theorem history_invariant (G : Graph n) (hG : G.WF) (ops : List GOp) : (ops.foldl gapply G).WF := by
  induction ops generalizing G with
  | nil => simpa
  | cons o os ih => exact ih _ (gapply_wf hG o)

theorem valence_is_row_sum {G : Graph n} (hG : G.WF) (v : Fin n) : G.val v = ∑ w, G.adj v w := hG.val_eq v
theorem edge_total_is_half_valences {G : Graph n} (hG : G.WF) : 2 * G.total = ∑ v, G.val v := hG.total_eq
theorem genus_is_E_minus_V_plus_one {G : Graph n} (hG : G.WF) :
    G.genus = (∑ v, ∑ w, (G.adj v w : Int)) / 2 - n + 1 := genus_formula hG

/-- an accepted insertion adds exactly `k` to the multiplicity of the pair, in both directions -/
theorem accepted_add {G G' : Graph n} {a b : Nat} {k : Int} (h : G.addEdge a b k = .ok G') :
    ∃ (a' b' : Fin n), a'.1 = a ∧ b'.1 = b ∧ a' ≠ b' ∧ 0 < k ∧
      ∀ x y, (G'.adj x y : Int) = G.adj x y + if (x = a' ∧ y = b') ∨ (x = b' ∧ y = a') then k else 0 := by
  obtain ⟨a', b', m, ha, hb, hab, hm, hk, rfl⟩ := addEdge_ok h
  refine ⟨a', b', ha, hb, hab, by omega, ?_⟩
  intro x y
  simp only [Graph.adj_ofFns]
  split <;> simp [hk]

/-- loops, non-positive multiplicities and unknown endpoints are refused -/
theorem refuses_loop (G : Graph n) (a : Nat) (k : Int) : G.addEdge a a k = .error () := by
  simp [Graph.addEdge]
theorem refuses_nonpositive (G : Graph n) (a b : Nat) (k : Int) (hk : k ≤ 0) : G.addEdge a b k = .error () := by
  unfold Graph.addEdge; split <;> simp [hk]
theorem refuses_unknown (G : Graph n) (a b : Nat) (k : Int) (h : n ≤ a ∨ n ≤ b) : G.addEdge a b k = .error () := by
  unfold Graph.addEdge
  split; · rfl
  split; · rfl
  have : ref? n a = none ∨ ref? n b = none := by
    rcases h with h | h
    · left; unfold ref?; simp; omega
    · right; unfold ref?; simp; omega
  rcases this with h | h <;> simp [h]

/-- a refused insertion leaves the graph as it was -/
theorem refused_add_unchanged (G : Graph n) (a b : Nat) (k : Int) (h : G.addEdge a b k = .error ()) :
    gapply G (.add a b k) = G := by
  simp [gapply, h]

/-- batch insertion is per edge: the state after `add_edges` is the state after its accepted
    prefix, and it is refused iff some edge of the batch is -/
theorem addEdges_prefix (G : Graph n) (es : List (Nat × Nat × Int)) :
    ∃ pre suf, es = pre ++ suf ∧ (G.addEdges pre) = ((G.addEdges es).1, true) ∧
      ((G.addEdges es).2 = true ↔ suf = []) ∧
      (∀ e, suf.head? = some e → (G.addEdges es).1.addEdge e.1 e.2.1 e.2.2 = .error ()) := by
  induction es generalizing G with
  | nil => exact ⟨[], [], rfl, rfl, by simp [Graph.addEdges], by simp⟩
  | cons e es ih =>
    obtain ⟨a, b, k⟩ := e
    cases h : G.addEdge a b k with
    | ok G' =>
      obtain ⟨pre, suf, h1, h2, h3, h4⟩ := ih G'
      refine ⟨(a, b, k) :: pre, suf, by rw [h1]; rfl, ?_, ?_, ?_⟩
      · simp only [Graph.addEdges, h]; exact h2
      · simp only [Graph.addEdges, h]; exact h3
      · simp only [Graph.addEdges, h]; exact h4
    | error u =>
      refine ⟨[], (a, b, k) :: es, rfl, ?_, ?_, ?_⟩
      · simp [Graph.addEdges, h]
      · simp [Graph.addEdges, h]
      · intro e he
        simp only [List.head?_cons, Option.some.injEq] at he
        subst he
        simp only [Graph.addEdges, h]

/-- removing a vertex builds a well-formed graph and never touches the original -/
theorem removeVertex_wf (G : Graph n) (v : Fin n) : (removeVertex G v).WF := CF.removeVertex_wf G v
theorem removeVertex_pure (G : Graph n) (v : Nat) : gapply G (.remove v) = G := rfl

/-- non-vacuity: a triangle with a doubled edge built from repeated pairs in both endpoint orders -/
example : ∃ G : Graph 3, Graph.new 3 false [(0, 1, 1), (1, 0, 1), (1, 2, 1), (2, 0, 1)] = .ok G ∧
    G.adj 0 1 = 2 ∧ G.val 1 = 3 ∧ G.total = 4 ∧ G.genus = 2 := by
  refine ⟨_, rfl, ?_, ?_, ?_, ?_⟩ <;> decide

/-- `remove_vertex(v)` yields exactly the induced multigraph on the remaining vertices -/
theorem remove_vertex_is_induced (G : Graph n) (hG : G.WF) (v x y : Fin n) :
    (removeVertex G v).adj x y = if x = v ∨ y = v then 0 else G.adj x y := removeVertex_adj G hG v x y

theorem remove_vertex_valences (G : Graph n) (hG : G.WF) (v x : Fin n) :
    (removeVertex G v).val x = ∑ y, (if x = v ∨ y = v then 0 else G.adj x y) := removeVertex_val G hG v x

end CF.C13
