import ChipFiring.Theory.EwdFull
import ChipFiring.Theory.GoodOf
import ChipFiring.Theory.Termination
import ChipFiring.Model.Algos
/-
  C02 — q-reduction returns the unique q-reduced representative of the class.
  `q_reduction(D)` is the second component of plain-mode `EWD`; the theorems are stated on the
  `Reduced` record `red` that `ewd … false` returns together with its sink `q`.
-/
namespace CF.C02
open CF
variable {n : Nat}

/-- the returned divisor is linearly equivalent to the input and has the same degree -/
theorem qred_linEq (G : Graph n) (hs : ∀ v w, G.adj v w = G.adj w v) (hint : Fin n → List (Fin n))
    (fuel : Nat) (Dv : Divisor n) (r : EwdOut n) (h : ewd G hint fuel Dv false = some (.ok r)) :
    ∃ q red, r.q = some q ∧ r.red = some red ∧ LinEq G Dv.deg red.D ∧ deg red.D = deg Dv.deg := by
  obtain ⟨q, red, -, hq, hr, hred, -⟩ := ewd_plain_ok G h
  obtain ⟨hle, -⟩ := reduceLoop_spec G hs q _ fuel fuel _ _ _ red hred
  exact ⟨q, red, hq, hr, hle, deg_linEq G hs hle⟩

/-- the sink had minimum degree in the input (least index among ties) -/
theorem qred_sink_is_min (G : Graph n) (hint : Fin n → List (Fin n))
    (fuel : Nat) (Dv : Divisor n) (r : EwdOut n) (h : ewd G hint fuel Dv false = some (.ok r)) :
    ∃ q, r.q = some q ∧ ∀ v, Dv.deg q ≤ Dv.deg v := by
  obtain ⟨q, red, hs, hq, -, -, -⟩ := ewd_plain_ok G h
  exact ⟨q, hq, sink_min Dv.deg q hs⟩

/-- it carries no debt off the sink and admits no non-empty legal set-firing away from it -/
theorem qred_is_qreduced (G : Graph n) (hs : ∀ v w, G.adj v w = G.adj w v) (hint : Fin n → List (Fin n))
    (fuel : Nat) (Dv : Divisor n) (r : EwdOut n)
    (hcover : ∀ q v, v ≠ q → v ∈ debtOrder G hint q)
    (h : ewd G hint fuel Dv false = some (.ok r)) :
    ∃ q red, r.q = some q ∧ r.red = some red ∧ QReduced G q red.D := by
  obtain ⟨q, red, -, hq, hr, hred, -⟩ := ewd_plain_ok G h
  exact ⟨q, red, hq, hr, (reduceLoop_qreduced G hs q _ (hcover q) fuel fuel _ _ _ red hred).2⟩

/-- hence linearly equivalent inputs reduced with respect to the same q give identical outputs
    (whatever adjacency orders and fuel the two runs used) -/
theorem qred_unique (G : Graph n) (hs : ∀ v w, G.adj v w = G.adj w v)
    (hint hint' : Fin n → List (Fin n)) (fuel fuel' : Nat) (Dv Dv' : Divisor n) (r r' : EwdOut n)
    (hcover : ∀ q v, v ≠ q → v ∈ debtOrder G hint q) (hcover' : ∀ q v, v ≠ q → v ∈ debtOrder G hint' q)
    (h : ewd G hint fuel Dv false = some (.ok r)) (h' : ewd G hint' fuel' Dv' false = some (.ok r'))
    (heq : LinEq G Dv.deg Dv'.deg) (hq : r.q = r'.q) :
    ∃ red red', r.red = some red ∧ r'.red = some red' ∧ red.D = red'.D := by
  obtain ⟨q, red, -, hq1, hr, hred, -⟩ := ewd_plain_ok G h
  obtain ⟨q', red', -, hq2, hr', hred', -⟩ := ewd_plain_ok G h'
  have : q = q' := by rw [hq1, hq2] at hq; exact Option.some.inj hq
  subst this
  obtain ⟨hl, hqr⟩ := reduceLoop_qreduced G hs q _ (hcover q) fuel fuel _ _ _ red hred
  obtain ⟨hl', hqr'⟩ := reduceLoop_qreduced G hs q _ (hcover' q) fuel' fuel' _ _ _ red' hred'
  refine ⟨red, red', hr, hr', ?_⟩
  exact qreduced_unique G q _ _ hqr hqr' (LinEq.trans G (LinEq.symm G hl) (LinEq.trans G heq hl'))

/-- the verdict equals "the output has no debt at q" (equivalently: no debt anywhere) -/
theorem verdict_iff_no_debt_at_q (G : Graph n) (hs : ∀ v w, G.adj v w = G.adj w v) (hint : Fin n → List (Fin n))
    (fuel : Nat) (Dv : Divisor n) (r : EwdOut n)
    (hcover : ∀ q v, v ≠ q → v ∈ debtOrder G hint q)
    (h : ewd G hint fuel Dv false = some (.ok r)) :
    ∃ q red, r.q = some q ∧ r.red = some red ∧ (r.verdict = true ↔ 0 ≤ red.D q) ∧ (r.verdict = true ↔ Eff red.D) := by
  obtain ⟨q, red, -, hq, hr, hred, hv⟩ := ewd_plain_ok G h
  obtain ⟨-, hqr⟩ := reduceLoop_qreduced G hs q _ (hcover q) fuel fuel _ _ _ red hred
  refine ⟨q, red, hq, hr, by rw [hv, decide_eq_true_eq], ?_⟩
  rw [hv, decide_eq_true_eq]
  constructor
  · intro h0 v; by_cases hvq : v = q
    · subst hvq; exact h0
    · exact hqr.1 v hvq
  · intro he; exact he q

/-- `is_q_reduced` as coded compares the in-place result with its own argument: it is `true`
    for every input on which EWD returns.  The "exactly when" clause of the property is
    therefore refuted (known finding K1); what remains true is the direction below. -/
def isQReducedApi (G : Graph n) (fuel : Nat) (Dv : Divisor n) : Option Bool :=
  match ewd G (fun _ => []) fuel Dv false with
  | some (.ok _) => some true
  | _ => none

theorem isQReducedApi_const (G : Graph n) (fuel : Nat) (Dv : Divisor n) (b : Bool)
    (h : isQReducedApi G fuel Dv = some b) : b = true := by
  unfold isQReducedApi at h; split at h <;> simp_all

/-- K1 witness: on the triangle, D = (3,−1,0) is not q-reduced, yet the API answers `true` -/
theorem isQReduced_refuted : ∃ G : Graph 3, Graph.new 3 false [(0, 1, 1), (1, 2, 1), (0, 2, 1)] = .ok G ∧
    isQReducedApi G 1000 (Divisor.ofFn fun v => [3, -1, 0].getD v.1 0) = some true ∧
    (∃ r red, ewd G (fun _ => []) 1000 (Divisor.ofFn fun v => [3, -1, 0].getD v.1 0) false = some (.ok r) ∧
      r.red = some red ∧ (List.finRange 3).map red.D ≠ [3, -1, 0]) := by
  refine ⟨_, rfl, by decide, _, _, rfl, rfl, by decide⟩

/-- the provable half: a divisor that already is the representative is reported reduced -/
theorem isQReduced_partial (G : Graph n) (fuel : Nat) (Dv : Divisor n) (r : EwdOut n)
    (h : ewd G (fun _ => []) fuel Dv false = some (.ok r)) : isQReducedApi G fuel Dv = some true := by
  simp [isQReducedApi, h]

/-- Headline form on connected graphs (no side conditions on the BFS): `q_reduction` returns, and
    what it returns is the q-reduced representative of the input's class for the sink q = the
    minimum-degree vertex of least name -/
theorem q_reduction_spec (G : Graph n) (hG : G.WF) (hc : G.Connected) (hn : 0 < n)
    (hint : Fin n → List (Fin n)) (Dv : Divisor n) :
    ∃ F, ∀ fuel, F ≤ fuel → ∃ r q red, ewd G hint fuel Dv false = some (.ok r) ∧ r.q = some q ∧ r.red = some red ∧
      (∀ v, Dv.deg q ≤ Dv.deg v) ∧ LinEq G Dv.deg red.D ∧ QReduced G q red.D ∧
      (r.verdict = true ↔ 0 ≤ red.D q) := by
  obtain ⟨q, hq⟩ := Option.isSome_iff_exists.mp (sink_isSome Dv.deg hn)
  have hqn : q ∉ debtOrder G hint q := by unfold debtOrder; simp
  have hcov := cover_of_connected G hG hc hint
  obtain ⟨F, hF⟩ := reduceLoop_terminates G hG hc q (debtOrder G hint q) hqn (hcov q) Dv.deg
  refine ⟨F, fun fuel hf => ?_⟩
  obtain ⟨red, hred⟩ := hF fuel hf [Dv.degV] 0
  have he : ewd G hint fuel Dv false = some (.ok ⟨decide (0 ≤ red.D q), some q, some red, (red.DV :: red.tr).reverse⟩) := by
    unfold ewd
    simp only [Bool.false_and, Bool.false_eq_true, if_false, hq, hred]
  obtain ⟨hle, hqr⟩ := reduceLoop_qreduced G hG.symm q _ (hcov q) fuel fuel _ _ _ red hred
  exact ⟨_, q, red, he, rfl, rfl, sink_min Dv.deg q hq, hle, hqr, by simp⟩

end CF.C02
