import ChipFiring.Theory.Moves
/-
  C05 — Chip moves act by the Laplacian, commute, and conserve chips over any history.
-/
namespace CF.C05
open CF Finset
variable {n : Nat}

/-- lending at `v` is `D − L·e_v`: v loses the multiplicities of its edges, each neighbour gains
    the multiplicity of the shared edge -/
theorem lend_is_laplacian_column (G : Graph n) (hG : G.WF) (D : Fin n → Int) (v : Fin n) :
    lend G D v = applyScript G D (chipAt v) ∧
    (lend G D v v = D v - ∑ u, (G.adj v u : Int)) ∧
    (∀ w, w ≠ v → lend G D v w = D w + G.adj v w) := by
  refine ⟨lend_eq G hG.symm D v, ?_, ?_⟩
  · simp [lend, hG.loopless v, rowSum_cast]
  · intro w hw; simp [lend, hw]

/-- borrowing is the exact inverse of lending (both orders) -/
theorem borrow_inverse (G : Graph n) (D : Fin n → Int) (v : Fin n) :
    borrow G (lend G D v) v = D ∧ lend G (borrow G D v) v = D :=
  ⟨borrow_lend G D v, lend_borrow G D v⟩

/-- firing a set equals firing its members one by one, for every enumeration of the set -/
theorem set_fire_eq_sequential (G : Graph n) (hG : G.WF) (l : List (Fin n)) (hl : l.Nodup) (D : Fin n → Int) :
    fireSet G (setOf l) D = l.foldl (lend G) D := fireSet_eq_foldl_lend G hG.symm l hl D

/-- ... so the enumeration order is irrelevant -/
theorem sequential_order_irrelevant (G : Graph n) (hG : G.WF) (l l' : List (Fin n)) (hl : l.Nodup)
    (hl' : l'.Nodup) (hp : ∀ v, v ∈ l ↔ v ∈ l') (D : Fin n → Int) :
    l.foldl (lend G) D = l'.foldl (lend G) D := by
  rw [← fireSet_eq_foldl_lend G hG.symm l hl, ← fireSet_eq_foldl_lend G hG.symm l' hl']
  apply fireSet_congr
  intro v; simp only [setOf]
  have := hp v
  by_cases h : v ∈ l <;> simp [h, this.mp, (not_congr this).mp] <;> simp_all

/-- firing all vertices is the identity -/
theorem fire_all_is_identity (G : Graph n) (hG : G.WF) (D : Fin n → Int) :
    fireSet G (fun _ => true) D = D := fireSet_univ G hG.symm D

theorem moves_commute (G : Graph n) (D : Fin n → Int) (v w : Fin n) :
    lend G (lend G D v) w = lend G (lend G D w) v ∧ lend G (borrow G D v) w = borrow G (lend G D w) v :=
  ⟨lend_comm G D v w, lend_borrow_comm G D v w⟩

/-- the constructor caches the sum of the degrees it stored -/
theorem constructor_total (entries : List (Nat × Int)) (d : Divisor n) (h : Divisor.new entries = .ok d) :
    d.total = deg d.deg := new_total entries d h

/-- after any history of lend / borrow / set-fire / transfer (through the divisor or through a
    configuration; refused requests included) the sum of the degrees is what it was — hence
    equal to the total the constructor cached, which no operation rewrites -/
theorem history_conserves (G : Graph n) (hG : G.WF) (q : Option (Fin n)) (entries : List (Nat × Int))
    (d : Divisor n) (h : Divisor.new entries = .ok d) (ops : List DOp) :
    ∀ x ∈ drun G q d.degV ops, deg x.2.1.get = d.total := by
  intro x hx
  rw [drun_deg G hG.symm q ops d.degV x hx, new_total entries d h]; rfl

/-- a refused operation leaves the degrees exactly as they were -/
theorem refused_is_identity (G : Graph n) (q : Option (Fin n)) (D : Vec Int n) (o : DOp) (os : List DOp)
    (h : dstep G q D o = .error ()) : drun G q D (o :: os) = (false, D, none) :: drun G q D os := by
  simp [drun, h]

/-- non-vacuity: the doubled triangle, a lend and a set-fire -/
example : ∃ G : Graph 3, Graph.new 3 false [(0, 1, 2), (1, 2, 2), (0, 2, 2)] = .ok G ∧
    (List.finRange 3).map (lend G (fun _ => 1) 0) = [-3, 3, 3] ∧
    (List.finRange 3).map (fireSet G (setOf [1, 2]) (fun _ => 1)) = [5, -1, -1] := by
  refine ⟨_, rfl, ?_, ?_⟩ <;> decide

end CF.C05
