import ChipFiring.Theory.Independent
import ChipFiring.Theory.Complete
import ChipFiring.Theory.Serial
import ChipFiring.Properties.C04
import ChipFiring.Theory.Cert
import ChipFiring.Model.Comb
import ChipFiring.Generated.Solids
import ChipFiring.Generated.ClosedForms
/-
  C19 — Published closed forms and bounds agree with the true gonality.

  `ChipFiring/Generated/*.lean` is rewritten from /repo's working tree on every run (the five
  generated graphs, the Platonic-solid table, a translation of the closed-form one-liners); the
  theorems below are re-checked by the kernel against that.

  Proved: the translated closed forms are the modelled ones; the generated solids have the stated
  vertex/edge/regularity counts; the three exact table entries (tetrahedron, octahedron, cube)
  ARE the gonality of the regenerated graph (kernel evaluation of the verified search + kernel-
  checked certificates of its hypotheses); K_n closed form for n = 2..6 the same way.
  Refuted (known finding K2): the multipartite formula, on K_{3,1}.
  Not proved (partial): K_n for all n; the bounds report (decided per explored graph by comparison
  with the verified gonality search).
-/
namespace CF.C19
open CF
variable {n : Nat}

/-! closed forms: the regenerated translation is the model -/

theorem complete_graph_closed_form (k : Int) :
    Gen.complete_graph_gonality k = (match completeGraphGonality k with | .ok v => some v | .error _ => none) := by
  unfold Gen.complete_graph_gonality completeGraphGonality
  split <;> simp_all

theorem pyMin_eq (p : Int) (ps : List Int) : Gen.pyMin (p :: ps) = ps.foldl min p := rfl

theorem multipartite_closed_form (ps : List Int) :
    Gen.complete_multipartite_gonality ps = some (completeMultipartiteGonality ps) := by
  unfold Gen.complete_multipartite_gonality completeMultipartiteGonality
  match ps with
  | [] => simp
  | [p] => simp
  | p :: q :: r =>
    simp only [List.isEmpty_cons, Bool.false_eq_true, if_false, List.length_cons, pyMin_eq]
    have h0 : ¬ ((r.length : Int) + 1 = 0) := by omega
    simp [h0]

theorem parking_count_closed_form (k : Int) : Gen.parking_function_count k = some (parkingCount k) := by
  unfold Gen.parking_function_count parkingCount
  split <;> simp_all

/-! the regenerated solids -/

/-- (vertices, edges, regular of this degree) of a generated graph -/
def counts (N : Nat) (es : List (Nat × Nat × Int)) : Option (Nat × Nat × Option Nat) :=
  match Graph.new N false es with
  | .ok G =>
    let ds := (List.finRange N).map G.val
    some (N, G.total, match ds with
      | [] => none
      | d :: rest => if rest.all (· == d) then some d else none)
  | .error _ => none

def tableRow (name : String) : Option (Option Int × Int × Int × Nat × Nat) :=
  (Gen.table.find? (·.1 == name)).map (·.2)

/-- the five generated solids have the vertex and edge counts the table states and are regular of
    degree 3, 3, 4, 3, 5 (a finite table: kernel evaluation is a proof) -/
theorem solid_counts :
    counts Gen.tetrahedronN Gen.tetrahedronEdges = some (4, 6, some 3) ∧
    counts Gen.cubeN Gen.cubeEdges = some (8, 12, some 3) ∧
    counts Gen.octahedronN Gen.octahedronEdges = some (6, 12, some 4) ∧
    counts Gen.dodecahedronN Gen.dodecahedronEdges = some (20, 30, some 3) ∧
    counts Gen.icosahedronN Gen.icosahedronEdges = some (12, 30, some 5) ∧
    (tableRow "tetrahedron").map (·.2.2.2) = some (4, 6) ∧ (tableRow "cube").map (·.2.2.2) = some (8, 12) ∧
    (tableRow "octahedron").map (·.2.2.2) = some (6, 12) ∧ (tableRow "dodecahedron").map (·.2.2.2) = some (20, 30) ∧
    (tableRow "icosahedron").map (·.2.2.2) = some (12, 30) := by
  decide +kernel

/-- value found by the verified search, with its hypotheses certified -/
def certifiedGonality (N : Nat) (es : List (Nat × Nat × Int)) : Option Int :=
  match Graph.new N false es with
  | .ok G => if goodCert G then (computeGonality G 100000 N false).map (·.1) else none
  | .error _ => none

theorem certified_is_gonality (N : Nat) (es : List (Nat × Nat × Int)) (k : Nat) (hk : 1 ≤ k)
    (h : certifiedGonality N es = some (k : Int)) :
    ∃ G : Graph N, Graph.new N false es = .ok G ∧ IsGonality G k := by
  unfold certifiedGonality at h
  cases hG : Graph.new N false es with
  | error e => simp [hG] at h
  | ok G =>
    simp only [hG] at h
    by_cases hc : goodCert G = true
    · simp only [hc, if_true] at h
      cases hcg : computeGonality G 100000 N false with
      | none => simp [hcg] at h
      | some r =>
        obtain ⟨g, l⟩ := r
        simp only [hcg, Option.map_some, Option.some.injEq] at h
        subst h
        rcases C04.computeGonality_exact G (good_of_cert G hc) 100000 N false _ l hcg with ⟨h1, -⟩ | ⟨k', h1, -, -, h4, -⟩
        · omega
        · have : k' = k := by exact_mod_cast h1.symm
          subst this
          exact ⟨G, rfl, h4⟩
    · simp [hc] at h

/-- the exact entries of the table for the tetrahedron and the octahedron are the gonalities of
    the regenerated graphs (the cube: `C19Heavy.cube_exact`, ten minutes of kernel evaluation, built
    in the thorough tier) -/
theorem tetrahedron_exact : (tableRow "tetrahedron").map (·.1) = some (some 3) ∧
    ∃ G : Graph Gen.tetrahedronN, Graph.new _ false Gen.tetrahedronEdges = .ok G ∧ IsGonality G 3 :=
  ⟨by decide +kernel, certified_is_gonality _ _ 3 (by omega) (by decide +kernel)⟩

theorem octahedron_exact : (tableRow "octahedron").map (·.1) = some (some 4) ∧
    ∃ G : Graph Gen.octahedronN, Graph.new _ false Gen.octahedronEdges = .ok G ∧ IsGonality G 4 :=
  ⟨by decide +kernel, certified_is_gonality _ _ 4 (by omega) (by decide +kernel)⟩

/-- complete graph K_m as the library generates it -/
def completeEdges (m : Nat) : List (Nat × Nat × Int) :=
  (List.range m).flatMap fun a => (List.range m).filterMap fun b => if a < b then some (a, b, (1 : Int)) else none

/-- K_n closed form n − 1, for n = 2..5 (n = 6 and the cube: `C19Heavy`, thorough tier), by kernel evaluation of the verified search (a test of the
    closed form on these n, not its proof for all n) -/
theorem complete_graph_gonality_small :
    ∀ m ∈ [2, 3, 4, 5], certifiedGonality m (completeEdges m) = (Gen.complete_graph_gonality m) := by
  decide +kernel

/-- known finding K2: the complete-multipartite closed form subtracts the *smallest* part; on
    K_{3,1} (a star, gonality 1) it answers 3 -/
theorem multipartite_formula_wrong :
    Gen.complete_multipartite_gonality [3, 1] = some 3 ∧
    certifiedGonality 4 [(0, 3, 1), (1, 3, 1), (2, 3, 1)] = some 1 := by
  decide +kernel

/-- independence number: the model maximises over all independent subsets -/
theorem independence_is_max (G : Graph n) (S : List (Fin n)) (hS : S ∈ subsetsOf n) (hi : isIndependent G S = true) :
    S.length ≤ independenceNumber G := by
  unfold independenceNumber
  have : ∀ (l : List (List (Fin n))) (m : Nat), S ∈ l → S.length ≤ l.foldl (fun m S => max m S.length) m := by
    intro l
    induction l with
    | nil => intro m h; simp at h
    | cons x xs ih =>
      intro m h
      rw [List.foldl_cons]
      rcases List.mem_cons.mp h with rfl | h
      · have mono : ∀ (ys : List (List (Fin n))) (a b : Nat), a ≤ b →
            a ≤ ys.foldl (fun m S => max m S.length) b := by
          intro ys
          induction ys with
          | nil => intro a b h; simpa
          | cons y ys ihy => intro a b h; rw [List.foldl_cons]; exact ihy a _ (le_trans h (le_max_left _ _))
        exact mono xs _ _ (le_max_right _ _)
      · exact ih _ h
  exact this _ 0 (List.mem_filter.mpr ⟨hS, hi⟩)

/-! ### K_n for every n (T14) -/

theorem sum_range_zero (m : Nat) (g : Nat → Nat) (h : ∀ i, i < m → g i = 0) : ((List.range m).map g).sum = 0 := by
  induction m with
  | zero => simp
  | succ m ih =>
    rw [List.range_succ, List.map_append, List.sum_append, ih (fun i hi => h i (by omega))]
    simp [h m (by omega)]

theorem sum_range_single (m c : Nat) (g : Nat → Nat) (hc : c < m) (h : ∀ i, i < m → i ≠ c → g i = 0) :
    ((List.range m).map g).sum = g c := by
  induction m with
  | zero => omega
  | succ m ih =>
    rw [List.range_succ, List.map_append, List.sum_append]
    by_cases hcm : c = m
    · subst hcm
      rw [sum_range_zero c g (fun i hi => h i (by omega) (by omega))]; simp
    · rw [ih (by omega) (fun i hi hne => h i (by omega) hne)]; simp [h m (by omega) (fun e => hcm e.symm)]

/-- the edge list of K_m as generated: every unordered pair once -/
theorem completeEdges_contrib (m : Nat) (x y : Fin m) :
    ((completeEdges m).map fun e => contrib e x y).sum = if x = y then 0 else 1 := by
  unfold completeEdges
  rw [sum_map_flatMap]
  let f : Nat → Nat → Nat := fun a b => if a < b then contrib (a, b, (1:Int)) x y else 0
  have hin : ∀ a, (((List.range m).filterMap fun b => if a < b then some (a, b, (1 : Int)) else none).map
      fun e => contrib e x y).sum = ((List.range m).map (f a)).sum := by
    intro a; rw [sum_map_filterMap]; congr 1; apply List.map_congr_left; intro b _
    simp only [f]; split <;> simp_all
  simp only [hin]
  by_cases hxy : x = y
  · subst hxy
    simp only [if_true]
    apply sum_range_zero; intro a _
    apply sum_range_zero; intro b _
    simp only [f, contrib]
    split
    · rw [if_neg]; omega
    · rfl
  · simp only [hxy, if_false]
    have hne : x.1 ≠ y.1 := fun h => hxy (Fin.ext h)
    have hlo : min x.1 y.1 < m := by have := x.2; omega
    have hhi : max x.1 y.1 < m := by have := x.2; have := y.2; omega
    rw [sum_range_single m (min x.1 y.1) _ hlo]
    · rw [sum_range_single m (max x.1 y.1) _ hhi]
      · simp only [f, contrib]
        rw [if_pos (by omega), if_pos (by omega)]; rfl
      · intro b _ hb
        simp only [f, contrib]
        split
        · rw [if_neg]; omega
        · rfl
    · intro a _ ha
      apply sum_range_zero; intro b _
      simp only [f, contrib]
      split
      · rw [if_neg]; omega
      · rfl

theorem completeEdges_isComplete (m : Nat) (G : Graph m) (h : Graph.new m false (completeEdges m) = .ok G) :
    IsComplete G := by
  intro x y
  unfold Graph.new at h
  split at h
  · exact absurd h (by simp)
  · split at h
    · rename_i G' hG'
      injection h with h; subst h
      have := addEdges_adj (completeEdges m) (Graph.empty (n := m)) _ hG' x y
      rw [this, completeEdges_contrib]
      simp [Graph.empty]
    · exact absurd h (by simp)

theorem addEdges_accepts {n : Nat} (es : List (Nat × Nat × Int))
    (h : ∀ e ∈ es, e.1 ≠ e.2.1 ∧ 0 < e.2.2 ∧ e.1 < n ∧ e.2.1 < n) (G : Graph n) :
    (G.addEdges es).2 = true := by
  induction es generalizing G with
  | nil => rfl
  | cons e es ih =>
    obtain ⟨a, b, k⟩ := e
    obtain ⟨hab, hk, ha, hb⟩ := h (a, b, k) (List.mem_cons_self ..)
    unfold Graph.addEdges
    have : ∃ G', G.addEdge a b k = .ok G' := by
      unfold Graph.addEdge
      simp only at hab hk ha hb
      simp [hab, not_le.mpr hk, ref?, ha, hb]
    obtain ⟨G', hG'⟩ := this
    simp only [hG']
    exact ih (fun e he => h e (List.mem_cons_of_mem _ he)) G'

theorem completeEdges_valid (m : Nat) : ∀ e ∈ completeEdges m, e.1 ≠ e.2.1 ∧ 0 < e.2.2 ∧ e.1 < m ∧ e.2.1 < m := by
  intro e he
  unfold completeEdges at he
  simp only [List.mem_flatMap, List.mem_range, List.mem_filterMap] at he
  obtain ⟨a, ha, b, hb, hab⟩ := he
  split at hab
  · injection hab with hab; subst hab; simp; omega
  · exact absurd hab (by simp)

/-- **K_n, all n ≥ 2**: the constructor accepts the generated edge list, the resulting graph has
    gonality n − 1, and that is the value of the published closed form (regenerated from source) -/
theorem complete_graph_gonality_all (m : Nat) (hm : 2 ≤ m) :
    ∃ G : Graph m, Graph.new m false (completeEdges m) = .ok G ∧ IsGonality G (m - 1) ∧
      Gen.complete_graph_gonality (m : Int) = some (((m - 1 : Nat) : Int)) := by
  have hacc := addEdges_accepts (completeEdges m) (completeEdges_valid m) (Graph.empty (n := m))
  have hnew : Graph.new m false (completeEdges m) = .ok ((Graph.empty (n := m)).addEdges (completeEdges m)).1 := by
    unfold Graph.new
    simp only [Bool.false_eq_true, if_false]
    generalize hh : (Graph.empty (n := m)).addEdges (completeEdges m) = p at hacc ⊢
    obtain ⟨G, b⟩ := p
    simp only at hacc; subst hacc; rfl
  refine ⟨_, hnew, complete_gonality _ (completeEdges_isComplete m _ hnew) hm, ?_⟩
  unfold Gen.complete_graph_gonality
  rw [if_neg (by omega)]
  push_cast [Nat.cast_sub (by omega : 1 ≤ m)]; rfl

/-- the same for any presentation of K_n (any insertion order, either endpoint order) -/
theorem complete_graph_gonality_any {m : Nat} (G : Graph m) (hK : IsComplete G) (hm : 2 ≤ m) :
    IsGonality G (m - 1) := complete_gonality G hK hm

/-- the two theorem-backed upper entries of the bounds report (n − 1 and n − α) and their
    minimum, the aggregate `upper_bound`, bound the gonality of every connected simple graph on
    at least two vertices from above -/
theorem bounds_upper_valid (G : Graph n) (hG : G.WF) (hc : G.Connected) (hn : 2 ≤ n) (hsimple : ∀ u v, G.adj u v ≤ 1)
    (k : Nat) (hk : IsGonality G k) :
    (k : Int) ≤ (boundsReport G).trivialUpper ∧ (k : Int) ≤ (boundsReport G).independenceUpper ∧
    (k : Int) ≤ (boundsReport G).upper := CF.bounds_upper_valid G hG hc hn hsimple k hk

/-- the independence number is attained -/
theorem independence_attained (G : Graph n) : ∃ S : List (Fin n), S.Nodup ∧ isIndependent G S = true ∧
    S.length = independenceNumber G := independenceNumber_attained G

end CF.C19
