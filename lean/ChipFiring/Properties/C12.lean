import ChipFiring.Theory.Moves
/-
  C12 — Divisor arithmetic is the free abelian group on the vertices.
  (`dAdd`, `dSub`, `dNeg`, `dSmul`, `dChip`, `dZero`, `dEq` model `__add__`, `__sub__`, `__neg__`,
  `__rmul__`, `chip`, `zero`, `__eq__`; results are rebuilt through the constructor, so the
  cached total of a result is recomputed.  Operands are immutable values of the model; that
  the code does not write to them is part of the correspondence check.)
-/
namespace CF.C12
open CF Finset
variable {n : Nat}

theorem ofFn_inj (f g : Fin n → Int) (h : f = g) : Divisor.ofFn f = Divisor.ofFn g := by rw [h]

theorem add_vertexwise (A B : Fin n → Int) :
    ∃ d, dAdd true A B = .ok d ∧ (∀ v, d.deg v = A v + B v) ∧ d.total = deg A + deg B := by
  refine ⟨_, rfl, by simp, ?_⟩
  simp [Divisor.ofFn, deg, Finset.sum_add_distrib]

theorem sub_vertexwise (A B : Fin n → Int) :
    ∃ d, dSub true A B = .ok d ∧ (∀ v, d.deg v = A v - B v) ∧ d.total = deg A - deg B := by
  refine ⟨_, rfl, by simp, ?_⟩
  simp [Divisor.ofFn, deg, Finset.sum_sub_distrib]

theorem neg_vertexwise (A : Fin n → Int) : (∀ v, (dNeg A).deg v = - A v) ∧ (dNeg A).total = - deg A := by
  refine ⟨by simp [dNeg], ?_⟩
  simp [dNeg, Divisor.ofFn, deg]

theorem smul_vertexwise (k : Int) (A : Fin n → Int) :
    (∀ v, (dSmul k A).deg v = k * A v) ∧ (dSmul k A).total = k * deg A := by
  refine ⟨by simp [dSmul], ?_⟩
  simp [dSmul, Divisor.ofFn, deg, Finset.mul_sum]

theorem add_comm' (A B : Fin n → Int) : dAdd true A B = dAdd true B A := by
  simp only [dAdd, if_true]; congr 1; apply ofFn_inj; funext v; ring
theorem add_assoc' (A B C : Fin n → Int) :
    dAdd true (fun v => A v + B v) C = dAdd true A (fun v => B v + C v) := by
  simp only [dAdd, if_true]; congr 1; apply ofFn_inj; funext v; ring
theorem add_zero' (A : Fin n → Int) : dAdd true A (dZero : Divisor n).deg = .ok (Divisor.ofFn A) := by
  simp only [dAdd, if_true, dZero]; congr 1; apply ofFn_inj; funext v; simp
theorem add_neg' (A : Fin n → Int) : dAdd true A (dNeg A).deg = .ok dZero := by
  simp only [dAdd, if_true, dNeg, dZero]; congr 1; apply ofFn_inj; funext v; simp
theorem sub_eq_add_neg (A B : Fin n → Int) : dSub true A B = dAdd true A (dNeg B).deg := by
  simp only [dAdd, dSub, if_true, dNeg]; congr 1; apply ofFn_inj; funext v; simp; ring
theorem smul_add (j k : Int) (A : Fin n → Int) :
    dSmul (j + k) A = Divisor.ofFn fun v => (dSmul j A).deg v + (dSmul k A).deg v := by
  simp only [dSmul]; apply ofFn_inj; funext v; simp; ring
theorem smul_smul (j k : Int) (A : Fin n → Int) : dSmul j (dSmul k A).deg = dSmul (j * k) A := by
  simp only [dSmul]; apply ofFn_inj; funext v; simp; ring
theorem one_smul' (A : Fin n → Int) : dSmul 1 A = Divisor.ofFn A := by
  simp only [dSmul]; apply ofFn_inj; funext v; simp

/-- total degree is additive (the cached totals of the results are the sums) -/
theorem total_additive (A B : Fin n → Int) :
    (Divisor.ofFn fun v => A v + B v).total = (Divisor.ofFn A).total + (Divisor.ofFn B).total := by
  simp [Divisor.ofFn, Finset.sum_add_distrib]

/-- `chip(G, v)` is the unit at `v`; an unknown name is refused -/
theorem chip_is_unit (v : Fin n) : ∃ d : Divisor n, dChip v.1 = .ok d ∧ d.deg = chipAt v ∧ d.total = 1 := by
  have hr : ref? n v.1 = some v := by simp [ref?]
  have h : (dChip v.1 : Except Unit (Divisor n)) =
      .ok { degV := mat fun w => if w = v then 1 else (0:Int), total := 0 + 1 } := by
    simp [dChip, Divisor.new, Divisor.hasDup, Divisor.new.go, hr, Divisor.deg]
  refine ⟨_, h, ?_, ?_⟩
  · funext w; simp [Divisor.deg, chipAt]
  · simp
theorem chip_unknown (i : Nat) (h : n ≤ i) : (dChip i : Except Unit (Divisor n)) = .error () := by
  have hr : ref? n i = none := by unfold ref?; simp; omega
  simp [dChip, Divisor.new, Divisor.hasDup, Divisor.new.go, hr]

/-- every divisor is the integer combination of the units -/
theorem unit_decomposition (A : Fin n → Int) : A = fun w => ∑ v, A v * chipAt v w := by
  funext w; simp [chipAt]

/-- equality: same vertex set, same chip counts, same multigraph -/
theorem eq_iff (same : Bool) (G H : Graph n) (A B : Fin n → Int) :
    dEq same G H A B = true ↔ same = true ∧ A = B ∧ G.adj = H.adj := by
  simp only [dEq, graphEqB, Bool.and_eq_true, allF_iff, decide_eq_true_eq]
  constructor
  · rintro ⟨⟨h1, h2⟩, h3⟩; exact ⟨h1, funext h2, funext fun u => funext fun v => h3 u v⟩
  · rintro ⟨h1, h2, h3⟩; exact ⟨⟨h1, fun v => congrFun h2 v⟩, fun u v => congrFun (congrFun h3 u) v⟩

/-- operands on different vertex sets are rejected -/
theorem mismatch_rejected (A B : Fin n → Int) : dAdd false A B = .error () ∧ dSub false A B = .error () :=
  ⟨rfl, rfl⟩

/-- the gate is exactly "the two name lists describe the same set" -/
theorem sameVertexSet_iff (vs2 : List Nat) :
    sameVertexSet n vs2 = true ↔ vs2.length = n ∧ (∀ i ∈ vs2, i < n) ∧ vs2.Nodup := by
  simp only [sameVertexSet, Bool.and_eq_true, beq_iff_eq, List.all_eq_true, decide_eq_true_eq,
    Bool.not_eq_eq_eq_not, Bool.not_true, hasDup_false_iff, and_assoc]

example : dAdd true (fun (v : Fin 3) => (v.1 : Int) - 1) (fun _ => 2 ^ 70)
    = .ok (Divisor.ofFn fun v => (v.1 : Int) - 1 + 2 ^ 70) := rfl

end CF.C12
