import ChipFiring.Theory.Burn
import ChipFiring.Model.Machines
import ChipFiring.Model.Comb
import Mathlib.Tactic
/-
  C10 — Legal set-firings, superstables and parking functions match their definitions.
-/
namespace CF.C10
open CF Finset
variable {n : Nat}

theorem mem_setOf (l : List (Fin n)) (v : Fin n) : setOf l v = true ↔ v ∈ l := by simp [setOf]

theorem outDegS_eq (G : Graph n) (S : Fin n → Bool) (v : Fin n) : outDegS G S v = outdeg G S v := by
  simp [outDegS, outdeg]

/-- a set S of vertices is reported legal to fire exactly when it is non-empty and every member
    holds at least as many chips as it has edges leaving S -/
theorem legal_iff (G : Graph n) (D : Fin n → Int) (S : List (Fin n)) :
    isLegalFiring G D S = true ↔ S ≠ [] ∧ ∀ v ∈ S, outdeg G (setOf S) v ≤ D v := by
  unfold isLegalFiring
  by_cases hS : S = []
  · simp [hS]
  · have : S.isEmpty = false := by simpa using hS
    simp only [this, Bool.false_eq_true, if_false, List.all_eq_true, decide_eq_true_eq, ne_eq, hS,
      not_false_eq_true, true_and]
    constructor
    · intro h v hv
      have := h v hv
      simp only [fireSet, (mem_setOf S v).mpr hv, if_true, sumZ_eq] at this
      unfold outdeg; linarith
    · intro h v hv
      have := h v hv
      simp only [fireSet, (mem_setOf S v).mpr hv, if_true, sumZ_eq]
      unfold outdeg at this; linarith

theorem filter_mem_sublists {α : Type} (p : α → Bool) (xs : List α) : xs.filter p ∈ sublists xs := by
  induction xs with
  | nil => simp [sublists]
  | cons x xs ih =>
    simp only [sublists, List.mem_append, List.mem_map]
    by_cases hp : p x = true
    · right; exact ⟨xs.filter p, ih, by simp [List.filter_cons, hp]⟩
    · left; simpa [List.filter_cons, hp] using ih

theorem mem_sublists_subset {α : Type} (xs l : List α) (h : l ∈ sublists xs) : ∀ x ∈ l, x ∈ xs := by
  induction xs generalizing l with
  | nil => simp [sublists] at h; subst h; simp
  | cons a xs ih =>
    simp only [sublists, List.mem_append, List.mem_map] at h
    rcases h with h | ⟨l', hl', rfl⟩
    · intro x hx; exact List.mem_cons_of_mem _ (ih l h x hx)
    · intro x hx
      rcases List.mem_cons.mp hx with rfl | hx
      · exact List.mem_cons_self
      · exact List.mem_cons_of_mem _ (ih l' hl' x hx)

theorem mem_vtilde (q v : Fin n) : v ∈ vtilde q ↔ v ≠ q := by simp [vtilde]

/-- the configuration is reported superstable exactly when it is non-negative off q and no
    non-empty set avoiding q is legal (the specification `QReduced`, i.e. `Superstable`) -/
theorem superstable_iff (G : Graph n) (q : Fin n) (D : Fin n → Int) :
    isSuperstable G q D = true ↔ QReduced G q D := by
  unfold isSuperstable QReduced
  simp only [Bool.and_eq_true, nonNegOffQ, List.all_eq_true, decide_eq_true_eq, Bool.not_eq_eq_eq_not,
    Bool.not_true]
  constructor
  · rintro ⟨hnn, hno⟩
    refine ⟨fun v hv => hnn v ((mem_vtilde q v).mpr hv), ?_⟩
    intro S hS
    let l := (vtilde q).filter S
    have hl : l ∈ sublists (vtilde q) := filter_mem_sublists S _
    have hset : setOf l = S := by
      funext v
      by_cases hv : S v = true
      · have hvq : v ≠ q := by rintro rfl; rw [hS.2.1] at hv; exact Bool.noConfusion hv
        have : v ∈ l := List.mem_filter.mpr ⟨(mem_vtilde q v).mpr hvq, hv⟩
        rw [(mem_setOf l v).mpr this, hv]
      · have hv' : S v = false := by simpa using hv
        have : v ∉ l := fun h => by have := (List.mem_filter.mp h).2; rw [hv'] at this; exact Bool.noConfusion this
        rw [hv']; by_contra hc; exact this ((mem_setOf l v).mp (by simpa using hc))
    have := hno l hl
    have hleg : isLegalFiring G D l = true := by
      rw [legal_iff]
      obtain ⟨v, hv⟩ := hS.1
      refine ⟨?_, ?_⟩
      · intro he
        have : v ∈ l := by rw [← mem_setOf, hset]; exact hv
        rw [he] at this; simp at this
      · intro w hw
        rw [hset]
        exact hS.2.2 w (by rw [← hset]; exact (mem_setOf l w).mpr hw)
    rw [hleg] at this; exact Bool.noConfusion this
  · rintro ⟨hnn, hno⟩
    refine ⟨fun v hv => hnn v ((mem_vtilde q v).mp hv), ?_⟩
    intro l hl
    by_contra hc
    have hleg : isLegalFiring G D l = true := by simpa using hc
    rw [legal_iff] at hleg
    apply hno (setOf l)
    obtain ⟨hne, hall⟩ := hleg
    refine ⟨?_, ?_, ?_⟩
    · obtain ⟨v, hv⟩ := List.exists_mem_of_ne_nil l hne
      exact ⟨v, (mem_setOf l v).mpr hv⟩
    · by_contra hq
      have : q ∈ l := (mem_setOf l q).mp (by simpa using hq)
      exact ((mem_vtilde q q).mp (mem_sublists_subset _ l hl q this)) rfl
    · intro v hv; exact hall v ((mem_setOf l v).mp hv)

/-- superstable iff Dhar's burn from q consumes every vertex (for configurations non-negative off q) -/
theorem superstable_iff_burn_all (G : Graph n) (q : Fin n) (D : Fin n → Int) (hnn : ∀ v, v ≠ q → 0 ≤ D v) :
    isSuperstable G q D = true ↔ ∀ v, (burn G q D).B v = true := by
  rw [superstable_iff, burn_all_iff]
  exact ⟨fun h => h.2, fun h => ⟨hnn, h⟩⟩

/-- the comparison operators are the vertex-wise partial order on the vertices other than q -/
theorem cmp_is_pointwise_order (q : Fin n) (c d : Fin n → Int) :
    cfgCmp q true c d 0 = .ok (decide (∀ v, v ≠ q → c v = d v)) ∧
    cfgCmp q true c d 1 = .ok (decide (∀ v, v ≠ q → d v ≤ c v)) ∧
    cfgCmp q true c d 2 = .ok (decide (∀ v, v ≠ q → c v ≤ d v)) ∧
    cfgCmp q true c d 3 = .ok (decide ((∀ v, v ≠ q → c v ≤ d v) ∧ ¬ ∀ v, v ≠ q → c v = d v)) ∧
    cfgCmp q true c d 4 = .ok (decide ((∀ v, v ≠ q → d v ≤ c v) ∧ ¬ ∀ v, v ≠ q → c v = d v)) := by
  have key : ∀ (p : Fin n → Prop) [DecidablePred p], ((vtilde q).all fun v => decide (p v)) = decide (∀ v, v ≠ q → p v) := by
    intro p _
    rw [Bool.eq_iff_iff]
    simp only [List.all_eq_true, decide_eq_true_eq, mem_vtilde]
  refine ⟨?_, ?_, ?_, ?_, ?_⟩ <;> simp only [cfgCmp, Bool.true_and, if_true, key] <;> congr 1
  · rw [Bool.eq_iff_iff]; simp
  · rw [Bool.eq_iff_iff]; simp

/-- configurations on different graphs or with different sinks: `==` is False, the order
    comparisons are refused -/
theorem cmp_incomparable (q : Fin n) (c d : Fin n → Int) :
    cfgCmp q false c d 0 = .ok false ∧ ∀ op, 1 ≤ op → cfgCmp q false c d op = .error () := by
  refine ⟨by simp [cfgCmp], ?_⟩
  intro op hop
  match op, hop with
  | 1, _ => rfl
  | 2, _ => rfl
  | 3, _ => rfl
  | (k + 4), _ => rfl

/-! parking functions -/

/-- length mismatch and out-of-range values are rejected; the empty sequence is a parking
    function of length 0 only -/
theorem parking_length_mismatch (seq : List Int) (m : Int) (h : (seq.length : Int) ≠ m) :
    isParkingFunction seq (some m) = false := by
  simp [isParkingFunction, h]

theorem parking_empty : isParkingFunction [] none = true ∧ isParkingFunction [] (some 0) = true := by
  constructor <;> rfl

theorem parking_range (seq : List Int) (x : Int) (hx : x ∈ seq) (hr : x < 1 ∨ (seq.length : Int) < x) :
    isParkingFunction seq none = false := by
  unfold isParkingFunction
  simp only [Option.getD_none, ne_eq, not_true_eq_false, if_false]
  have hne : seq.isEmpty = false := by cases seq <;> simp_all
  simp only [hne, Bool.false_eq_true, if_false]
  have : (seq.all fun x => decide (1 ≤ x) && decide (x ≤ (seq.length : Int))) = false := by
    rw [Bool.eq_false_iff]
    intro hall
    have := List.all_eq_true.mp hall x hx
    simp only [Bool.and_eq_true, decide_eq_true_eq] at this
    omega
  simp [this]

/-- the library's count is the closed form (n+1)^(n−1); agreement with the generated list is
    checked by kernel evaluation for n ≤ 5 (a test of the closed form, not its general proof) -/
theorem parking_count_small : ∀ k ∈ [1, 2, 3, 4, 5], ((generateParking k).length : Int) = parkingCount k := by
  decide +kernel

theorem generated_are_parking (m : Int) : ∀ s ∈ generateParking m, isParkingFunction s (some m) = true := by
  intro s hs
  unfold generateParking at hs
  split at hs
  · simp at hs
  · exact (List.mem_filter.mp hs).2

example : isParkingFunction [2, 1, 1] none = true ∧ isParkingFunction [3, 3, 1] none = false ∧
    isParkingFunction [] (some 3) = false := by decide

end CF.C10
