import ChipFiring.Theory.Txt
import ChipFiring.Theory.TxtFile
import ChipFiring.Theory.JsonText
import ChipFiring.Theory.JsonDecode
import ChipFiring.Theory.OrientRT
import ChipFiring.Theory.Serial
import Std.Data.String.ToInt
import Mathlib.Data.List.Nodup
/-
  C15 — Save/load round-trips every object; damaged files never raise.

  Proved here (dict level = what `to_dict` / `from_dict` exchange, which is also what the JSON and
  TXT writers serialise): rebuilding a graph from its canonical edge list, a divisor from its
  degree map, a firing script from its net-firing map gives the object back; the decimal codec
  used for chip counts round-trips every integer.
  Also proved: the TXT text layer — field layer (`strip`/`split`/`replace`/`join`), record lines,
  and the whole file for each of the four kinds (`txt_*_file_roundtrip`: the reader loops of
  `read_txt` applied to the text `to_txt` writes return the constructor arguments the object was
  written from), with `int()` and text-mode line splitting modelled.
  NOT proved (partial): CPython's `json` text, the byte layer (encodings, `open`), and the
  damaged-file clause.  Those are runtime/library behaviour; they are explored per generated file
  by fault enumeration in the correspondence run.
-/
namespace CF.C15
open CF Finset
variable {n : Nat}

/-- `CFGraph.from_dict(G.to_dict())` has the same multiplicities, cached valences and edge total -/
theorem graph_dict_roundtrip (G : Graph n) (hG : G.WF) :
    ∃ G', Graph.new n false (dictEdges G) = .ok G' ∧ G'.adj = G.adj ∧ G'.val = G.val ∧ G'.total = G.total :=
  CF.graph_dict_roundtrip G hG

/-- the canonical edge list lists every unordered pair once, smaller name first, with its multiplicity -/
theorem edge_list_canonical (G : Graph n) (a b : Fin n) (k : Nat) :
    (a, b, k) ∈ G.edgeList ↔ a.1 < b.1 ∧ 0 < G.adj a b ∧ k = G.adj a b := mem_edgeList G a b k

theorem new_go_degrees (D : Fin n → Int) (vs : List (Fin n)) (hnd : vs.Nodup) :
    ∀ d : Divisor n, ∃ d', Divisor.new.go (vs.map fun v => (v.1, D v)) d = .ok d' ∧
      ∀ w, d'.deg w = if w ∈ vs then D w else d.deg w := by
  induction vs with
  | nil => intro d; exact ⟨d, rfl, by simp⟩
  | cons v vs ih =>
    intro d
    have hr : ref? n v.1 = some v := by simp [ref?]
    simp only [List.map_cons, Divisor.new.go, hr]
    obtain ⟨d', h1, h2⟩ := ih (List.nodup_cons.mp hnd).2 { degV := mat fun w => if w = v then D v else d.deg w, total := d.total + D v }
    refine ⟨d', h1, ?_⟩
    intro w
    rw [h2 w]
    by_cases hw : w ∈ vs
    · simp [hw]
    · by_cases hwv : w = v
      · subst hwv; simp [hw, Divisor.deg]
      · simp [hw, hwv, Divisor.deg]

/-- `CFDivisor.from_dict(D.to_dict())`: the same chip counts, and the total the constructor caches
    is their sum -/
theorem divisor_dict_roundtrip (D : Fin n → Int) :
    ∃ d : Divisor n, Divisor.new ((List.finRange n).map fun v => (v.1, D v)) = .ok d ∧ d.deg = D ∧ d.total = deg D := by
  have hnd : ((List.finRange n).map fun v => (v.1, D v)).map (·.1) = (List.finRange n).map (·.1) := by
    simp [Function.comp_def]
  have hdup : Divisor.hasDup (((List.finRange n).map fun v => (v.1, D v)).map (·.1)) = false := by
    rw [hnd, hasDup_false_iff]
    exact (List.nodup_finRange n).map_on (fun a _ b _ h => Fin.ext h)
  obtain ⟨d, h1, h2⟩ := new_go_degrees D (List.finRange n) (List.nodup_finRange n) ⟨mat fun _ => 0, 0⟩
  have hnew : Divisor.new ((List.finRange n).map fun v => (v.1, D v)) = .ok d := by
    unfold Divisor.new
    rw [if_neg (by rw [hdup]; simp)]
    exact h1
  have hdeg : d.deg = D := by funext w; rw [h2 w]; simp
  exact ⟨d, hnew, hdeg, by rw [new_total _ d hnew, hdeg]⟩

/-- firing scripts: the net-firing map (all entries, or only the non-zero ones as the TXT writer
    does) rebuilds the same script; missing vertices read 0 -/
theorem script_go (s : Fin n → Int) (vs : List (Fin n)) (hnd : vs.Nodup) :
    ∀ t : Vec Int n, ∃ t', scriptNew.go (vs.map fun v => (v.1, s v)) t = .ok t' ∧
      ∀ w, t'.get w = if w ∈ vs then s w else t.get w := by
  induction vs with
  | nil => intro t; exact ⟨t, rfl, by simp⟩
  | cons v vs ih =>
    intro t
    have hr : ref? n v.1 = some v := by simp [ref?]
    simp only [List.map_cons, scriptNew.go, hr]
    obtain ⟨t', h1, h2⟩ := ih (List.nodup_cons.mp hnd).2 (mat fun w => if w = v then s v else t.get w)
    refine ⟨t', h1, ?_⟩
    intro w
    rw [h2 w]
    by_cases hw : w ∈ vs
    · simp [hw]
    · by_cases hwv : w = v
      · subst hwv; simp [hw]
      · simp [hw, hwv]

theorem script_dict_roundtrip (s : Fin n → Int) (vs : List (Fin n)) (hnd : vs.Nodup)
    (hsupp : ∀ w, w ∉ vs → s w = 0) :
    ∃ t : Vec Int n, scriptNew (vs.map fun v => (v.1, s v)) = .ok t ∧ t.get = s := by
  obtain ⟨t, h1, h2⟩ := script_go s vs hnd (mat fun _ => 0)
  refine ⟨t, h1, ?_⟩
  funext w
  rw [h2 w]
  by_cases hw : w ∈ vs
  · simp [hw]
  · simp [hw, hsupp w hw]

/-- the decimal codec used for chip counts, multiplicities and firings round-trips every integer,
    of any size and sign -/
theorem decimal_roundtrip (k : Int) : k.repr.toInt? = some k := Int.toInt?_repr k

/-- non-vacuity -/
example : ∃ G : Graph 3, Graph.new 3 false [(1, 0, 2), (2, 1, 1), (0, 1, 1)] = .ok G ∧
    dictEdges G = [(0, 1, 3), (1, 2, 1)] := by
  refine ⟨_, rfl, by decide +kernel⟩

/-- orientations: rebuilding from the list of oriented edges (source first) that `to_dict` writes,
    in any order, restores every edge state and both counters -/
theorem orientation_dict_roundtrip (G : Graph n) (hG : G.WF) (o : Orient n) (hinv : Orient.Inv G o)
    (ps : List (Fin n × Fin n)) (hnd : ps.Nodup)
    (hps : ∀ a b, (a, b) ∈ ps ↔ 0 < G.adj a b ∧ o.st a b = 1) :
    ∃ o', Orient.new G (ps.map fun p => (p.1.1, p.2.1)) = .ok o' ∧
      (∀ x y, o'.st x y = o.st x y) ∧ (∀ v, o'.inD v = o.inD v) ∧ (∀ v, o'.outD v = o.outD v) :=
  CF.orientation_dict_roundtrip G hG o hinv ps hnd hps

/-- **TXT field layer**: a record line `PREFIX: f1, f2, …` written with `', '.join` and read back
    with `[p.strip() for p in rest.split(',')]` returns exactly the fields, for every list of ≥ 1
    fields that contain no comma and that `strip()` leaves alone (no leading/trailing white space in
    Python's sense) — the names "the line-oriented TXT format can represent" (the colon is excluded
    separately because the reader removes the prefix with `str.replace`).  `joinFields`,
    `splitOn`, `stripPy` are compared with Python's own `join` / `split` / `strip` on generated
    (also hostile) strings in the correspondence run. -/
theorem txt_fields_roundtrip (fs : List (List Char)) (hne : fs ≠ [])
    (hclean : ∀ f ∈ fs, Txt.cleanField f = true) :
    Txt.parseFields (' ' :: Txt.joinFields fs) = fs := by
  apply Txt.parse_join fs hne
  intro f hf
  have := hclean f hf
  simp only [Txt.cleanField, Bool.and_eq_true, Bool.not_eq_true', beq_iff_eq] at this
  refine ⟨fun c hc he => ?_, this.2⟩
  subst he
  have : f.contains ',' = true := List.contains_iff_mem.mpr hc
  simp_all

/-- a whole record line: prefix (with its colon) removed by `str.replace`, split at commas, parts
    stripped — exactly the fields, for clean fields without colons -/
theorem txt_line_roundtrip (P : List Char) (hP : ':' ∈ P) (fs : List (List Char)) (hne : fs ≠ [])
    (hclean : ∀ f ∈ fs, Txt.cleanField f = true) (hcolon : ∀ f ∈ fs, ':' ∉ f) :
    Txt.parseFields (Txt.removeAll P (P ++ ' ' :: Txt.joinFields fs)) = fs :=
  Txt.line_roundtrip P hP fs hne hclean hcolon

/-- the decimal text of any integer is a representable field … -/
theorem txt_int_field_clean (k : Int) : Txt.cleanField k.repr.toList = true := Txt.int_field_clean k

/-- … so EDGE / DEGREE / FIRING records (names, then an integer) come back as the names and the
    integer -/
theorem txt_record_roundtrip (names : List (List Char)) (k : Int)
    (hclean : ∀ f ∈ names, Txt.cleanField f = true) :
    Txt.parseFields (' ' :: Txt.joinFields (names ++ [k.repr.toList])) = names ++ [k.repr.toList] ∧
    k.repr.toInt? = some k := Txt.record_roundtrip names k hclean

/-- **TXT graph files**: for any list of representable vertex names (possibly empty) and any edge
    records over representable names, `read_txt(…, 'graph')` run on the text `to_txt` writes
    reaches the constructor with exactly those names and edges.  (The constructor's own round trip
    is `graph_dict_roundtrip`.) -/
theorem txt_graph_file_roundtrip (names : List Txt.Str) (edges : List Txt.Edge)
    (hn : ∀ f ∈ names, Txt.nameOK f = true)
    (he : ∀ e ∈ edges, Txt.nameOK e.1 = true ∧ Txt.nameOK e.2.1 = true) :
    Txt.readGraph (Txt.writeText (Txt.writeGraph names edges)) = some (names, edges) :=
  Txt.readGraph_writeGraph names edges (fun f hf => (Txt.nameOK_iff f).mp (hn f hf))
    (fun e h => ⟨(Txt.nameOK_iff _).mp (he e h).1, (Txt.nameOK_iff _).mp (he e h).2⟩)

/-- … also when the file carries `\r\n` line ends (text-mode reading translates them) -/
theorem txt_graph_file_roundtrip_crlf (names : List Txt.Str) (edges : List Txt.Edge)
    (hn : ∀ f ∈ names, Txt.nameOK f = true)
    (he : ∀ e ∈ edges, Txt.nameOK e.1 = true ∧ Txt.nameOK e.2.1 = true) :
    Txt.readGraph (Txt.writeTextCRLF (Txt.writeGraph names edges)) = some (names, edges) :=
  Txt.readGraph_writeGraph_crlf names edges (fun f hf => (Txt.nameOK_iff f).mp (hn f hf))
    (fun e h => ⟨(Txt.nameOK_iff _).mp (he e h).1, (Txt.nameOK_iff _).mp (he e h).2⟩)

/-- **TXT divisor files**: names, edges and the `(vertex, chips)` records come back, any integers -/
theorem txt_divisor_file_roundtrip (names : List Txt.Str) (edges : List Txt.Edge) (degs : List (Txt.Str × Int))
    (hn : ∀ f ∈ names, Txt.nameOK f = true)
    (he : ∀ e ∈ edges, Txt.nameOK e.1 = true ∧ Txt.nameOK e.2.1 = true)
    (hd : ∀ r ∈ degs, Txt.nameOK r.1 = true) :
    Txt.readDivisor (Txt.writeText (Txt.writeDivisor names edges degs)) = some (names, edges, degs) :=
  Txt.readDivisor_write names edges degs (fun f hf => (Txt.nameOK_iff f).mp (hn f hf))
    (fun e h => ⟨(Txt.nameOK_iff _).mp (he e h).1, (Txt.nameOK_iff _).mp (he e h).2⟩)
    (fun r h => (Txt.nameOK_iff _).mp (hd r h))

/-- **TXT orientation files**: names, edges and the `(source, sink)` records come back -/
theorem txt_orientation_file_roundtrip (names : List Txt.Str) (edges : List Txt.Edge) (os : List (Txt.Str × Txt.Str))
    (hn : ∀ f ∈ names, Txt.nameOK f = true)
    (he : ∀ e ∈ edges, Txt.nameOK e.1 = true ∧ Txt.nameOK e.2.1 = true)
    (ho : ∀ r ∈ os, Txt.nameOK r.1 = true ∧ Txt.nameOK r.2 = true) :
    Txt.readOrientation (Txt.writeText (Txt.writeOrientation names edges os)) = some (names, edges, os) :=
  Txt.readOrientation_write names edges os (fun f hf => (Txt.nameOK_iff f).mp (hn f hf))
    (fun e h => ⟨(Txt.nameOK_iff _).mp (he e h).1, (Txt.nameOK_iff _).mp (he e h).2⟩)
    (fun r h => ⟨(Txt.nameOK_iff _).mp (ho r h).1, (Txt.nameOK_iff _).mp (ho r h).2⟩)

/-- **TXT firing-script files**: the writer lists the non-zero net firings; exactly those come back
    as the dict handed to the constructor (which gives every vertex not listed 0 firings:
    `script_dict_roundtrip`) -/
theorem txt_script_file_roundtrip (names : List Txt.Str) (edges : List Txt.Edge) (fs : List (Txt.Str × Int))
    (hn : ∀ f ∈ names, Txt.nameOK f = true)
    (he : ∀ e ∈ edges, Txt.nameOK e.1 = true ∧ Txt.nameOK e.2.1 = true)
    (hf : ∀ r ∈ fs, Txt.nameOK r.1 = true) (hnd : (fs.map (·.1)).Nodup) :
    Txt.readScript (Txt.writeText (Txt.writeScript names edges fs)) =
      some (names, edges, fs.filter fun r => r.2 != 0) :=
  Txt.readScript_write names edges fs (fun f hf => (Txt.nameOK_iff f).mp (hn f hf))
    (fun e h => ⟨(Txt.nameOK_iff _).mp (he e h).1, (Txt.nameOK_iff _).mp (he e h).2⟩)
    (fun r h => (Txt.nameOK_iff _).mp (hf r h)) hnd

/-- `int(str(k)) = k` for the model of Python's `int()` (what the readers apply to the last field) -/
theorem txt_int_roundtrip (k : Int) : Txt.pyInt? k.repr.toList = some k := Txt.pyInt_repr k

/-- non-vacuity: representable names exist (blanks inside, non-ASCII, digits, prefix look-alikes),
    the hypotheses of the file theorems are met by a concrete divisor file, and the names the
    format cannot represent are rejected by `nameOK` -/
example : Txt.nameOK ['a', ' ', 'b'] = true ∧ Txt.nameOK ['é'] = true ∧ Txt.nameOK ['-', '7'] = true ∧
    Txt.nameOK ['E', 'D', 'G', 'E'] = true ∧ Txt.nameOK [] = false ∧ Txt.nameOK ['a', ','] = false ∧
    Txt.nameOK ['x', ':', 'y'] = false ∧ Txt.nameOK [' ', 'a'] = false ∧ Txt.nameOK ['a', '\n', 'b'] = false := by
  decide

example : Txt.readDivisor (Txt.writeText (Txt.writeDivisor [['a', ' ', 'b'], ['c']] [(['a', ' ', 'b'], ['c'], 3)]
    [(['a', ' ', 'b'], -5), (['c'], 10 ^ 30)])) =
    some ([['a', ' ', 'b'], ['c']], [(['a', ' ', 'b'], ['c'], 3)], [(['a', ' ', 'b'], -5), (['c'], 10 ^ 30)]) :=
  txt_divisor_file_roundtrip _ _ _ (by decide) (by decide) (by decide)

/-- the empty graph: written as a names line with an empty field, read back as no vertices (F8) -/
example : Txt.readGraph (Txt.writeText (Txt.writeGraph [] [])) = some ([], []) :=
  txt_graph_file_roundtrip [] [] (by simp) (by simp)

/-- **truncated JSON files**: the text `json.dump(d, f, indent=k)` writes for *any* dict `d` of the
    value shapes the library serialises (strings — any names, escaped as Python escapes them —,
    integers of any size, lists, dicts with string keys), for any indent width and any key order,
    has the property that every proper non-empty prefix ends inside a bracket or a string: it is
    not a complete JSON document, so `json.load` rejects it and `read_json` returns `None`; the
    complete text is closed.  (That CPython's parser rejects a text that is empty or still open at
    its end is the assumption this rests on; it is compared with `json.loads` on generated prefixes
    and damaged texts in every run.) -/
theorem json_truncation_open_any (ind : Nat) (l : List (JsonText.Str × JsonText.JV)) (p : JsonText.Str)
    (hp : p <+: JsonText.dumps ind (.obj l)) (hne : p ≠ []) (hproper : p ≠ JsonText.dumps ind (.obj l)) :
    JsonText.openAtEnd p = true ∧ JsonText.openAtEnd (JsonText.dumps ind (.obj l)) = false :=
  ⟨JsonText.truncated_dict_open ind l p hp hne hproper, JsonText.complete_dict_closed ind l⟩

/-- … in particular for the four `to_dict` shapes as the library writes them (`indent=4`) -/
theorem json_truncation_open (v : JsonText.JV) (hv : JsonText.IsFileJV v) (p : JsonText.Str)
    (hp : p <+: JsonText.dumps 4 v) (hne : p ≠ []) (hproper : p ≠ JsonText.dumps 4 v) :
    JsonText.openAtEnd p = true ∧ JsonText.openAtEnd (JsonText.dumps 4 v) = false := by
  cases hv <;> exact json_truncation_open_any 4 _ p hp hne hproper

/-- the written JSON text is pure ASCII (`ensure_ascii`), whatever the vertex names: every
    byte prefix of the file is a character prefix of the text, so the truncation clause about
    byte-prefix truncations follows from `json_truncation_open` -/
theorem json_text_ascii (ind : Nat) (v : JsonText.JV) : ∀ c ∈ JsonText.dumps ind v, c.toNat < 128 :=
  JsonText.dumps_ascii ind v

/-- **any string survives the JSON text**: CPython's string scanner (`py_scanstring`, strict mode:
    plain characters, short escapes, `\uXXXX`, surrogate pairs) applied to the quoted, escaped
    text the encoder writes for a string returns the string — vertex names of any content
    (quotes, backslashes, control characters, non-ASCII, beyond the BMP) come back from a JSON file -/
theorem json_string_roundtrip (s : JsonText.Str) : JsonText.decodeStr (JsonText.quote s) = some s :=
  JsonText.decodeStr_quote s

/-- non-vacuity: the file of the empty graph and its first character as a proper prefix; the
    scanner sees through escaped quotes and brackets inside names -/
example : JsonText.openAtEnd ['{'] = true ∧ JsonText.openAtEnd (JsonText.dumps 4 (JsonText.graphJV [] [])) = false :=
  json_truncation_open _ (.graph [] []) ['{'] ⟨_, rfl⟩ (by simp) (by decide +kernel)

example : JsonText.openAtEnd (JsonText.dumps 4 (JsonText.divisorJV [['a'], ['"', ']', 'é']] [(['a'], ['"', ']', 'é'], 2)]
    [(['a'], -3), (['"', ']', 'é'], 7)])) = false := by decide +kernel

/-- the edge records `to_txt` writes for a graph whose vertex `v` is called `nm v` -/
def namedEdges (G : Graph n) (nm : Fin n → Txt.Str) : List Txt.Edge :=
  G.edgeList.map fun e => (nm e.1, nm e.2.1, (e.2.2 : Int))

/-- the constructor finds a vertex by its name: here, its position in the (sorted, duplicate-free)
    name list that the harness and the model use as the vertex index -/
def resolveEdges (names : List Txt.Str) (es : List Txt.Edge) : List (Nat × Nat × Int) :=
  es.map fun e => (names.idxOf e.1, names.idxOf e.2.1, e.2.2)

/-- **a graph through a TXT file, end to end**: writing the graph `G` with representable, distinct
    vertex names and reading the text back hands the constructor the same names and an edge list
    that resolves to the canonical edge list of `G`, from which the constructor rebuilds the same
    multiplicities, cached valences and edge total.  (Composition of `txt_graph_file_roundtrip`
    with `graph_dict_roundtrip`.) -/
theorem txt_graph_object_roundtrip (G : Graph n) (hG : G.WF) (names : List Txt.Str) (hlen : names.length = n)
    (hnd : names.Nodup) (hok : ∀ f ∈ names, Txt.nameOK f = true) :
    ∃ es G', Txt.readGraph (Txt.writeText (Txt.writeGraph names
        (namedEdges G fun v => names[v.1]'(hlen ▸ v.2)))) = some (names, es) ∧
      Graph.new n false (resolveEdges names es) = .ok G' ∧ G'.adj = G.adj ∧ G'.val = G.val ∧ G'.total = G.total := by
  let nm : Fin n → Txt.Str := fun v => names[v.1]'(hlen ▸ v.2)
  have hnm : ∀ v, nm v ∈ names := fun v => List.getElem_mem _
  have hfile := txt_graph_file_roundtrip names (namedEdges G nm) hok (by
    intro e he
    obtain ⟨⟨a, b, k⟩, -, rfl⟩ := List.mem_map.mp he
    exact ⟨hok _ (hnm a), hok _ (hnm b)⟩)
  have hres : resolveEdges names (namedEdges G nm) = dictEdges G := by
    unfold resolveEdges namedEdges dictEdges
    rw [List.map_map]
    apply List.map_congr_left
    rintro ⟨a, b, k⟩ -
    have ha : names.idxOf (nm a) = a.1 := List.get_idxOf hnd ⟨a.1, hlen ▸ a.2⟩
    have hb : names.idxOf (nm b) = b.1 := List.get_idxOf hnd ⟨b.1, hlen ▸ b.2⟩
    simp [ha, hb]
  obtain ⟨G', h1, h2, h3, h4⟩ := graph_dict_roundtrip G hG
  exact ⟨_, G', hfile, by rw [hres]; exact h1, h2, h3, h4⟩

/-- **a divisor through a TXT file, end to end**: names, edge records and `(vertex, chips)` records
    come back; resolved against the name list they rebuild the same graph and a divisor with the
    same chip counts whose cached total is their sum -/
theorem txt_divisor_object_roundtrip (G : Graph n) (hG : G.WF) (D : Fin n → Int) (names : List Txt.Str)
    (hlen : names.length = n) (hnd : names.Nodup) (hok : ∀ f ∈ names, Txt.nameOK f = true) :
    ∃ es recs G' d, Txt.readDivisor (Txt.writeText (Txt.writeDivisor names
        (namedEdges G fun v => names[v.1]'(hlen ▸ v.2))
        ((List.finRange n).map fun v => (names[v.1]'(hlen ▸ v.2), D v)))) = some (names, es, recs) ∧
      Graph.new n false (resolveEdges names es) = .ok G' ∧ G'.adj = G.adj ∧ G'.val = G.val ∧ G'.total = G.total ∧
      Divisor.new (recs.map fun r => (names.idxOf r.1, r.2)) = .ok d ∧ d.deg = D ∧ d.total = deg D := by
  let nm : Fin n → Txt.Str := fun v => names[v.1]'(hlen ▸ v.2)
  have hnm : ∀ v, nm v ∈ names := fun v => List.getElem_mem _
  have hidx : ∀ v : Fin n, names.idxOf (nm v) = v.1 := fun v => List.get_idxOf hnd ⟨v.1, hlen ▸ v.2⟩
  have hfile := txt_divisor_file_roundtrip names (namedEdges G nm) ((List.finRange n).map fun v => (nm v, D v)) hok
    (by
      intro e he
      obtain ⟨⟨a, b, k⟩, -, rfl⟩ := List.mem_map.mp he
      exact ⟨hok _ (hnm a), hok _ (hnm b)⟩)
    (by
      intro r hr
      obtain ⟨v, -, rfl⟩ := List.mem_map.mp hr
      exact hok _ (hnm v))
  have hres : resolveEdges names (namedEdges G nm) = dictEdges G := by
    unfold resolveEdges namedEdges dictEdges
    rw [List.map_map]
    apply List.map_congr_left
    rintro ⟨a, b, k⟩ -
    simp [hidx a, hidx b]
  have hrecs : ((List.finRange n).map fun v => (nm v, D v)).map (fun r => (names.idxOf r.1, r.2)) =
      (List.finRange n).map fun v => (v.1, D v) := by
    rw [List.map_map]
    apply List.map_congr_left
    intro v _
    simp [hidx v]
  obtain ⟨G', h1, h2, h3, h4⟩ := graph_dict_roundtrip G hG
  obtain ⟨d, hd1, hd2, hd3⟩ := divisor_dict_roundtrip D
  exact ⟨_, _, G', d, hfile, by rw [hres]; exact h1, h2, h3, h4, by rw [hrecs]; exact hd1, hd2, hd3⟩

/-- **a firing script through a TXT file, end to end**: the writer lists the non-zero net firings;
    read back and resolved against the name list they rebuild exactly the script (vertices that are
    not listed fire 0 times) -/
theorem txt_script_object_roundtrip (G : Graph n) (hG : G.WF) (sc : Fin n → Int) (names : List Txt.Str)
    (hlen : names.length = n) (hnd : names.Nodup) (hok : ∀ f ∈ names, Txt.nameOK f = true) :
    ∃ es recs G' t, Txt.readScript (Txt.writeText (Txt.writeScript names
        (namedEdges G fun v => names[v.1]'(hlen ▸ v.2))
        ((List.finRange n).map fun v => (names[v.1]'(hlen ▸ v.2), sc v)))) = some (names, es, recs) ∧
      Graph.new n false (resolveEdges names es) = .ok G' ∧ G'.adj = G.adj ∧
      (scriptNew (recs.map fun r => (names.idxOf r.1, r.2)) : Except Unit (Vec Int n)) = .ok t ∧ t.get = sc := by
  let nm : Fin n → Txt.Str := fun v => names[v.1]'(hlen ▸ v.2)
  have hnm : ∀ v, nm v ∈ names := fun v => List.getElem_mem _
  have hidx : ∀ v : Fin n, names.idxOf (nm v) = v.1 := fun v => List.get_idxOf hnd ⟨v.1, hlen ▸ v.2⟩
  have hinj : ∀ a b : Fin n, nm a = nm b → a = b := by
    intro a b h
    have := congrArg names.idxOf h
    rw [hidx a, hidx b] at this
    exact Fin.ext this
  have hfile := txt_script_file_roundtrip names (namedEdges G nm) ((List.finRange n).map fun v => (nm v, sc v)) hok
    (by
      intro e he
      obtain ⟨⟨a, b, k⟩, -, rfl⟩ := List.mem_map.mp he
      exact ⟨hok _ (hnm a), hok _ (hnm b)⟩)
    (by
      intro r hr
      obtain ⟨v, -, rfl⟩ := List.mem_map.mp hr
      exact hok _ (hnm v))
    (by
      rw [List.map_map]
      exact (List.nodup_finRange n).map_on (fun a _ b _ h => hinj a b h))
  have hres : resolveEdges names (namedEdges G nm) = dictEdges G := by
    unfold resolveEdges namedEdges dictEdges
    rw [List.map_map]
    apply List.map_congr_left
    rintro ⟨a, b, k⟩ -
    simp [hidx a, hidx b]
  let vs := (List.finRange n).filter fun v => sc v != 0
  have hrecs : ((((List.finRange n).map fun v => (nm v, sc v)).filter fun r => r.2 != 0).map
      fun r => (names.idxOf r.1, r.2)) = vs.map fun v => (v.1, sc v) := by
    rw [List.filter_map, List.map_map]
    apply List.map_congr_left
    intro v _
    simp [hidx v]
  obtain ⟨G', h1, h2, -, -⟩ := graph_dict_roundtrip G hG
  obtain ⟨t, ht1, ht2⟩ := script_dict_roundtrip sc vs ((List.nodup_finRange n).filter _) (by
    intro w hw
    by_contra hne
    exact hw (List.mem_filter.mpr ⟨List.mem_finRange w, by simpa using hne⟩))
  exact ⟨_, _, G', t, hfile, by rw [hres]; exact h1, h2, by rw [hrecs]; exact ht1, ht2⟩

/-- **an orientation through a TXT file, end to end**: the `(source, sink)` records of the oriented
    edges come back and, resolved against the name list, rebuild every edge state and both
    counters -/
theorem txt_orientation_object_roundtrip (G : Graph n) (hG : G.WF) (o : Orient n) (hinv : Orient.Inv G o)
    (ps : List (Fin n × Fin n)) (hpnd : ps.Nodup) (hps : ∀ a b, (a, b) ∈ ps ↔ 0 < G.adj a b ∧ o.st a b = 1)
    (names : List Txt.Str) (hlen : names.length = n) (hnd : names.Nodup) (hok : ∀ f ∈ names, Txt.nameOK f = true) :
    ∃ es recs G' o', Txt.readOrientation (Txt.writeText (Txt.writeOrientation names
        (namedEdges G fun v => names[v.1]'(hlen ▸ v.2))
        (ps.map fun p => (names[p.1.1]'(hlen ▸ p.1.2), names[p.2.1]'(hlen ▸ p.2.2))))) = some (names, es, recs) ∧
      Graph.new n false (resolveEdges names es) = .ok G' ∧ G'.adj = G.adj ∧
      Orient.new G (recs.map fun r => (names.idxOf r.1, names.idxOf r.2)) = .ok o' ∧
      (∀ x y, o'.st x y = o.st x y) ∧ (∀ v, o'.inD v = o.inD v) ∧ (∀ v, o'.outD v = o.outD v) := by
  let nm : Fin n → Txt.Str := fun v => names[v.1]'(hlen ▸ v.2)
  have hnm : ∀ v, nm v ∈ names := fun v => List.getElem_mem _
  have hidx : ∀ v : Fin n, names.idxOf (nm v) = v.1 := fun v => List.get_idxOf hnd ⟨v.1, hlen ▸ v.2⟩
  have hfile := txt_orientation_file_roundtrip names (namedEdges G nm) (ps.map fun p => (nm p.1, nm p.2)) hok
    (by
      intro e he
      obtain ⟨⟨a, b, k⟩, -, rfl⟩ := List.mem_map.mp he
      exact ⟨hok _ (hnm a), hok _ (hnm b)⟩)
    (by
      intro r hr
      obtain ⟨p, -, rfl⟩ := List.mem_map.mp hr
      exact ⟨hok _ (hnm p.1), hok _ (hnm p.2)⟩)
  have hres : resolveEdges names (namedEdges G nm) = dictEdges G := by
    unfold resolveEdges namedEdges dictEdges
    rw [List.map_map]
    apply List.map_congr_left
    rintro ⟨a, b, k⟩ -
    simp [hidx a, hidx b]
  have hrecs : ((ps.map fun p => (nm p.1, nm p.2)).map fun r => (names.idxOf r.1, names.idxOf r.2)) =
      ps.map fun p => (p.1.1, p.2.1) := by
    rw [List.map_map]
    apply List.map_congr_left
    intro p _
    simp [hidx p.1, hidx p.2]
  obtain ⟨G', h1, h2, -, -⟩ := graph_dict_roundtrip G hG
  obtain ⟨o', ho1, ho2, ho3, ho4⟩ := orientation_dict_roundtrip G hG o hinv ps hpnd hps
  exact ⟨_, _, G', o', hfile, by rw [hres]; exact h1, h2, by rw [hrecs]; exact ho1, ho2, ho3, ho4⟩

end CF.C15
