import ChipFiring.Theory.EwdFull
import ChipFiring.Model.Elements
import Mathlib.Tactic
/-
  C18 — Visualisation recording does not perturb results; drawn elements mirror objects.
  Recording is modelled as the extra output `tr` of `ewd` (the list of divisor snapshots the
  recorder would take); the result fields are computed by the same function either way.
-/
namespace CF.C18
open CF Finset
variable {n : Nat}

/-- the result (verdict, sink, reduced divisor, orientation) is a function of the input alone:
    the recorder is not an input of `ewd` -/
theorem recording_does_not_perturb (G : Graph n) (hint : Fin n → List (Fin n)) (fuel : Nat) (Dv : Divisor n)
    (opt : Bool) (r r' : EwdOut n) (h : ewd G hint fuel Dv opt = some (.ok r))
    (h' : ewd G hint fuel Dv opt = some (.ok r')) : r = r' := by
  rw [h] at h'; injection h' with h'; injection h' with h'

theorem debtLoop_trace (G : Graph n) (hs : ∀ v w, G.adj v w = G.adj w v) (order : List (Fin n)) (D0 : Fin n → Int) :
    ∀ (f : Nat) (s s' : DebtSt n), debtLoop G order f s = some s' →
      LinEq G D0 s.D → (∀ x ∈ s.tr, LinEq G D0 x.get) → (∀ x ∈ s'.tr, LinEq G D0 x.get) ∧ LinEq G D0 s'.D := by
  intro f
  induction f with
  | zero => intro s s' h; simp [debtLoop] at h
  | succ f ih =>
    intro s s' h hD htr
    rw [debtLoop] at h
    split at h
    · rename_i v rest hv
      split at h
      · have hb : LinEq G D0 (borrow G s.D v) := LinEq.trans G hD (borrow_linEq G hs s.D v)
        apply ih _ _ h
        · simpa [DebtSt.D] using hb
        · intro x hx
          rcases List.mem_cons.mp hx with rfl | hx
          · simpa using hb
          · exact htr x hx
      · exact ih { DV := s.DV, todo := rest, tr := s.tr } _ h hD htr
    · split at h
      · exact ih { DV := s.DV, todo := order, tr := s.tr } _ h hD htr
      · injection h with h; subst h; exact ⟨htr, hD⟩

theorem reduceLoop_trace (G : Graph n) (hs : ∀ v w, G.adj v w = G.adj w v) (q : Fin n) (order : List (Fin n))
    (fuel : Nat) (D0 : Fin n → Int) :
    ∀ (f : Nat) (D : Fin n → Int) (tr : List (Vec Int n)) (k : Nat) (r : Reduced n),
      reduceLoop G q order fuel f D tr k = some r → LinEq G D0 D → (∀ x ∈ tr, LinEq G D0 x.get) →
      (∀ x ∈ r.tr, LinEq G D0 x.get) ∧ LinEq G D0 r.D := by
  intro f
  induction f with
  | zero => intro D tr k r h; simp [reduceLoop] at h
  | succ f ih =>
    intro D tr k r h hD htr
    rw [reduceLoop] at h
    split at h
    · exact absurd h (by simp)
    · rename_i s hsd
      unfold sendDebt at hsd
      obtain ⟨h1, h2⟩ := debtLoop_trace G hs order D0 fuel _ s hsd (by simpa [DebtSt.D] using hD) (by simp)
      simp only at h
      have hall : ∀ x ∈ List.replicate ((burn G q s.D).t - 1 + 1) s.DV ++ (s.tr ++ tr), LinEq G D0 x.get := by
        intro x hx
        rcases List.mem_append.mp hx with hx | hx
        · rw [List.eq_of_mem_replicate hx]; exact h2
        · rcases List.mem_append.mp hx with hx | hx
          · exact h1 x hx
          · exact htr x hx
      split at h
      · injection h with h; subst h
        exact ⟨hall, h2⟩
      · have hf : LinEq G D0 (fireSet G (unburnt (burn G q s.D)) s.D) := LinEq.trans G h2 (fireSet_linEq G hs _ _)
        apply ih _ _ _ _ h
        · simpa using hf
        · intro x hx
          rcases List.mem_cons.mp hx with rfl | hx
          · simpa using hf
          · rcases List.mem_cons.mp hx with rfl | hx
            · exact h2
            · exact hall x hx

/-- every recorded snapshot is linearly equivalent to the input, and the last recorded divisor is
    the returned one -/
theorem trace_snapshots (G : Graph n) (hs : ∀ v w, G.adj v w = G.adj w v) (hint : Fin n → List (Fin n))
    (fuel : Nat) (Dv : Divisor n) (opt : Bool) (r : EwdOut n) (h : ewd G hint fuel Dv opt = some (.ok r)) :
    (∀ x ∈ r.tr, LinEq G Dv.deg x.get) ∧ (∀ red, r.red = some red → r.tr.getLast? = some red.DV) := by
  have base : ∀ x ∈ [Dv.degV, Dv.degV, Dv.degV], LinEq G Dv.deg x.get := by
    intro x hx; simp at hx; subst hx; exact LinEq.refl G _
  cases opt with
  | false =>
    obtain ⟨q, red, -, -, hr, hred, -⟩ := ewd_plain_ok G h
    have htr : r.tr = (red.DV :: red.tr).reverse := by
      unfold ewd at h
      simp only [Bool.false_and, Bool.false_eq_true, if_false] at h
      split at h; · simp at h
      rename_i q' hq'
      split at h; · simp at h
      rename_i red' hred'
      injection h with h; injection h with h; subst h
      simp only at hr; injection hr with hr; rw [hr]
    obtain ⟨h1, h2⟩ := reduceLoop_trace G hs q _ fuel Dv.deg fuel _ _ _ red hred (LinEq.refl G _)
      (by intro x hx; simp at hx; subst hx; exact LinEq.refl G _)
    constructor
    · intro x hx
      rw [htr] at hx
      rcases List.mem_cons.mp (List.mem_reverse.mp hx) with rfl | hx
      · exact h2
      · exact h1 x hx
    · intro red' hr'
      rw [hr] at hr'; injection hr' with hr'; subst hr'
      rw [htr]; simp
  | true =>
    rcases ewd_opt_ok G h with ⟨hneg, -, hn⟩ | ⟨h0, hge, -, hn⟩ | ⟨h0, hlt, q, red, -, -, hr, hred, -⟩
    · have htr : r.tr = [Dv.degV] := by
        unfold ewd at h
        simp only [Bool.true_and, hneg, decide_true, if_true] at h
        injection h with h; injection h with h; subst h; rfl
      refine ⟨?_, fun red hr => by rw [hn] at hr; exact absurd hr (by simp)⟩
      intro x hx; rw [htr] at hx; simp at hx; subst hx; exact LinEq.refl G _
    · have htr : r.tr = [Dv.degV, Dv.degV] := by
        unfold ewd at h
        have h1 : ¬ Dv.total < 0 := by omega
        simp only [Bool.true_and, h1, decide_false, Bool.false_eq_true, if_false, ge_iff_le, hge, decide_true, if_true] at h
        injection h with h; injection h with h; subst h; rfl
      refine ⟨?_, fun red hr => by rw [hn] at hr; exact absurd hr (by simp)⟩
      intro x hx; rw [htr] at hx; simp at hx; subst hx; exact LinEq.refl G _
    · have htr : r.tr = (red.DV :: red.tr).reverse := by
        unfold ewd at h
        have h1 : ¬ Dv.total < 0 := by omega
        have h2 : ¬ Dv.total ≥ G.genus := by omega
        simp only [Bool.true_and, h1, decide_false, Bool.false_eq_true, if_false, h2] at h
        split at h; · simp at h
        split at h; · simp at h
        rename_i red' hred'
        injection h with h; injection h with h; subst h
        simp only at hr; injection hr with hr; rw [hr]
      obtain ⟨h1, h2⟩ := reduceLoop_trace G hs q _ fuel Dv.deg fuel _ _ _ red hred (LinEq.refl G _) base
      constructor
      · intro x hx
        rw [htr] at hx
        rcases List.mem_cons.mp (List.mem_reverse.mp hx) with rfl | hx
        · exact h2
        · exact h1 x hx
      · intro red' hr'
        rw [hr] at hr'; injection hr' with hr'; subst hr'
        rw [htr]; simp

/-! drawable elements -/

/-- one node per vertex, labelled with the current chip count -/
theorem one_node_per_vertex (D : Fin n → Int) :
    (nodeElements D).map (·.1) = List.finRange n ∧ ∀ x ∈ nodeElements D, x.2.1 = D x.1 := by
  constructor
  · simp [nodeElements, Function.comp_def]
  · intro x hx
    simp only [nodeElements, List.mem_map] at hx
    obtain ⟨v, -, rfl⟩ := hx; rfl

/-- edge elements: exactly `m` copies (indices 0..m−1) of each unordered pair of multiplicity `m`;
    an arrow exactly on the oriented edges, in the stored direction -/
theorem edge_elements_spec (G : Graph n) (st : Fin n → Fin n → Nat) (e : EdgeEl n) :
    e ∈ edgeElements G st ↔
      e.a.1 < e.b.1 ∧ e.i < G.adj e.a e.b ∧
      e.oriented = decide (st e.a e.b = 1 ∨ st e.a e.b = 2) ∧
      e.src = (if st e.a e.b = 2 then e.b else e.a) ∧ e.tgt = (if st e.a e.b = 2 then e.a else e.b) := by
  unfold edgeElements
  simp only [List.mem_flatMap, List.mem_finRange, true_and]
  constructor
  · rintro ⟨a, b, hmem⟩
    split at hmem
    · rename_i hab
      simp only [List.mem_map, List.mem_range] at hmem
      obtain ⟨i, hi, rfl⟩ := hmem
      exact ⟨hab, hi, rfl, rfl, rfl⟩
    · simp at hmem
  · rintro ⟨hab, hi, ho, hs, ht⟩
    refine ⟨e.a, e.b, ?_⟩
    rw [if_pos hab]
    simp only [List.mem_map, List.mem_range]
    refine ⟨e.i, hi, ?_⟩
    cases e; simp_all

/-- hence: arrows exactly on oriented edges, pointing the stored way -/
theorem arrows_iff_oriented (G : Graph n) (st : Fin n → Fin n → Nat) (e : EdgeEl n) (h : e ∈ edgeElements G st) :
    (e.oriented = true ↔ st e.a e.b ≠ 0 ∧ st e.a e.b ≤ 2 ∨ st e.a e.b = 1 ∨ st e.a e.b = 2) ∧
    (st e.a e.b = 1 → e.src = e.a ∧ e.tgt = e.b) ∧ (st e.a e.b = 2 → e.src = e.b ∧ e.tgt = e.a) := by
  obtain ⟨-, -, ho, hs, ht⟩ := (edge_elements_spec G st e).mp h
  refine ⟨?_, ?_, ?_⟩
  · rw [ho, decide_eq_true_eq]
    constructor
    · intro h; exact Or.inr h
    · rintro (⟨h0, h2⟩ | h)
      · omega
      · exact h
  · intro h1; rw [hs, ht]; simp [h1]
  · intro h2; rw [hs, ht]; simp [h2]

/-- non-vacuity: doubled edge 0–1 oriented 1 → 0, single edge 1–2 unoriented: three elements -/
example : ∃ G : Graph 3, Graph.new 3 false [(0, 1, 2), (1, 2, 1)] = .ok G ∧
    ∃ o, Orient.new G [(1, 0)] = .ok o ∧
      (edgeElements G o.st).map (fun e => (e.a.1, e.b.1, e.i, e.oriented, e.src.1, e.tgt.1))
        = [(0, 1, 0, true, 1, 0), (0, 1, 1, true, 1, 0), (1, 2, 0, false, 1, 2)] := by
  refine ⟨_, rfl, _, rfl, by decide +kernel⟩

end CF.C18
