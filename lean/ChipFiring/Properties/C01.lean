import ChipFiring.Theory.Ewd
/-
  C01 — Winnability verdicts are exact.
  Property theorems only; helper lemmas live in `Theory/`.
-/
namespace CF.C01
open CF
variable {n : Nat}

/-- Plain mode: whenever the model of `EWD` returns, its verdict is `true` exactly when some
    effective divisor is linearly equivalent to the input. (`hcover`: the BFS behind the debt
    concentration reaches every vertex — `Theory.Bfs.debtOrder_cover` derives it from
    connectedness.) -/
theorem ewd_plain_verdict_exact (G : Graph n) (hs : ∀ v w, G.adj v w = G.adj w v)
    (hint : Fin n → List (Fin n)) (fuel : Nat) (Dv : Divisor n) (r : EwdOut n)
    (hcover : ∀ q v, v ≠ q → v ∈ debtOrder G hint q)
    (h : ewd G hint fuel Dv false = some (.ok r)) :
    r.verdict = true ↔ Winnable G Dv.deg := by
  unfold ewd at h
  simp only [Bool.false_and, Bool.false_eq_true, if_false] at h
  split at h
  · simp at h
  · rename_i q hq
    split at h
    · simp at h
    · rename_i red hred
      injection h with h; injection h with h; subst h
      obtain ⟨hle, hqr⟩ := reduceLoop_qreduced G hs q _ (hcover q) fuel fuel _ _ _ red hred
      simp only [decide_eq_true_eq]
      rw [winnable_congr G hle]
      exact (qreduced_verdict G q red.D hqr).symm

end CF.C01
