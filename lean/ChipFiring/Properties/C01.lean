import ChipFiring.Theory.EwdFull
import ChipFiring.Theory.Potential
import ChipFiring.Theory.GoodOf
import ChipFiring.Theory.Termination
import ChipFiring.Model.Algos
/-
  C01 — Winnability verdicts are exact.
  Property theorems only; helper lemmas live in `Theory/`.

  Standing hypotheses, each decidable and exhibited by the example at the end:
  * `G.WF`            — what every constructed graph satisfies (C13.constructed_wf);
  * `Dv.total = deg`  — what every constructed divisor satisfies (C05.constructor_total);
  * `hcover`          — the BFS behind the debt concentration reaches every vertex
                        (`Theory.Bfs`: follows from connectedness);
  * `G.Connected`     — rank-function form of connectedness (needed for the degree ≥ genus
                        shortcut only);
  * "returns"         — the statement is about runs that return.
-/
namespace CF.C01
open CF
variable {n : Nat}

/-- Plain mode: whenever the model of `EWD` returns, its verdict is `true` exactly when some
    effective divisor is linearly equivalent to the input. -/
theorem ewd_plain_verdict_exact (G : Graph n) (hs : ∀ v w, G.adj v w = G.adj w v)
    (hint : Fin n → List (Fin n)) (fuel : Nat) (Dv : Divisor n) (r : EwdOut n)
    (hcover : ∀ q v, v ≠ q → v ∈ debtOrder G hint q)
    (h : ewd G hint fuel Dv false = some (.ok r)) :
    r.verdict = true ↔ Winnable G Dv.deg := by
  obtain ⟨q, red, -, -, -, hred, hv⟩ := ewd_plain_ok G h
  obtain ⟨hle, hqr⟩ := reduceLoop_qreduced G hs q _ (hcover q) fuel fuel _ _ _ red hred
  rw [hv, decide_eq_true_eq, winnable_congr G hle]
  exact (qreduced_verdict G q red.D hqr).symm

/-- Optimized mode: the two shortcuts (negative degree ⇒ unwinnable; degree ≥ genus ⇒ winnable,
    which on a connected graph is the theorem `winnable_of_deg_ge_genus`: existence of the
    q-reduced form + the acyclic burning orientation of degree g − 1) and the reduction give the
    exact verdict as well. -/
theorem ewd_optimized_verdict_exact (G : Graph n) (hG : G.WF) (hc : G.Connected)
    (hint : Fin n → List (Fin n)) (fuel : Nat) (Dv : Divisor n) (r : EwdOut n)
    (htot : Dv.total = deg Dv.deg)
    (hcover : ∀ q v, v ≠ q → v ∈ debtOrder G hint q)
    (h : ewd G hint fuel Dv true = some (.ok r)) :
    r.verdict = true ↔ Winnable G Dv.deg := by
  rcases ewd_opt_ok G h with ⟨hneg, hv, -⟩ | ⟨-, hge, hv, -⟩ | ⟨-, -, q, red, -, -, -, hred, hv⟩
  · rw [hv]
    have := not_winnable_of_deg_neg G hG.symm (D := Dv.deg) (by rw [← htot]; exact hneg)
    simp [this]
  · rw [hv]
    simp only [true_iff]
    rcases Nat.eq_zero_or_pos n with hn | hn
    · exfalso
      subst hn
      have ht : G.total = 0 := by have := hG.total_eq; simp at this; exact this
      have hd : deg Dv.deg = 0 := by simp [deg]
      unfold Graph.genus at hge
      rw [htot, hd, ht] at hge
      simp at hge
    · exact winnable_of_deg_ge_genus G hG hc hn Dv.deg (by rw [← htot]; exact hge)
  · obtain ⟨hle, hqr⟩ := reduceLoop_qreduced G hG.symm q _ (hcover q) fuel fuel _ _ _ red hred
    rw [hv, decide_eq_true_eq, winnable_congr G hle]
    exact (qreduced_verdict G q red.D hqr).symm

/-- both modes always agree -/
theorem ewd_modes_agree (G : Graph n) (hG : G.WF) (hc : G.Connected)
    (hint : Fin n → List (Fin n)) (fuel : Nat) (Dv : Divisor n) (r0 r : EwdOut n)
    (htot : Dv.total = deg Dv.deg)
    (hcover : ∀ q v, v ≠ q → v ∈ debtOrder G hint q)
    (h0 : ewd G hint fuel Dv false = some (.ok r0))
    (h : ewd G hint fuel Dv true = some (.ok r)) : r.verdict = r0.verdict := by
  have a := ewd_plain_verdict_exact G hG.symm hint fuel Dv r0 hcover h0
  have b := ewd_optimized_verdict_exact G hG hc hint fuel Dv r htot hcover h
  cases hr : r.verdict <;> cases hr0 : r0.verdict <;> simp_all

/-- `is_winnable(D)` (= optimized EWD) is exact -/
theorem isWinnable_exact (G : Graph n) (hG : G.WF) (hc : G.Connected) (fuel : Nat) (Dv : Divisor n) (b : Bool)
    (htot : Dv.total = deg Dv.deg)
    (hcover : ∀ q v, v ≠ q → v ∈ debtOrder G (fun _ => []) q)
    (h : isWinnable G fuel Dv = some (.ok b)) : b = true ↔ Winnable G Dv.deg := by
  unfold isWinnable at h
  cases he : ewd G (fun _ => []) fuel Dv true with
  | none => simp [he] at h
  | some x =>
    cases x with
    | error e => simp [he, Except.map] at h
    | ok r =>
      simp only [he, Option.map_some, Except.map] at h
      injection h with h; injection h with h; subst h
      exact ewd_optimized_verdict_exact G hG hc _ fuel Dv r htot hcover he

/-- Headline form: for every connected well-formed multigraph, every divisor, both modes, every
    adjacency order and every fuel: whenever EWD returns, the verdict is `true` exactly when some
    effective divisor is linearly equivalent to the input. -/
theorem verdict_exact (G : Graph n) (hG : G.WF) (hc : G.Connected) (hint : Fin n → List (Fin n)) (fuel : Nat)
    (Dv : Divisor n) (htot : Dv.total = deg Dv.deg) (opt : Bool) (r : EwdOut n)
    (h : ewd G hint fuel Dv opt = some (.ok r)) : r.verdict = true ↔ Winnable G Dv.deg := by
  cases opt with
  | false => exact ewd_plain_verdict_exact G hG.symm hint fuel Dv r (cover_of_connected G hG hc hint) h
  | true => exact ewd_optimized_verdict_exact G hG hc hint fuel Dv r htot (cover_of_connected G hG hc hint) h

/-- The call terminates: on a connected well-formed multigraph with at least one vertex, for every
    divisor and both modes there is a fuel from which on the model of `EWD` returns a result
    (debt concentration is bounded by least action against a clearing script, the firing rounds by
    the potential Σ b·D of a positive supersolution b of the reduced Laplacian). -/
theorem ewd_terminates (G : Graph n) (hG : G.WF) (hc : G.Connected) (hn : 0 < n)
    (hint : Fin n → List (Fin n)) (Dv : Divisor n) (opt : Bool) :
    ∃ F, ∀ fuel, F ≤ fuel → ∃ r, ewd G hint fuel Dv opt = some (.ok r) := by
  obtain ⟨q, hq⟩ := Option.isSome_iff_exists.mp (sink_isSome Dv.deg hn)
  have hqn : q ∉ debtOrder G hint q := by
    unfold debtOrder; simp
  obtain ⟨F, hF⟩ := reduceLoop_terminates G hG hc q (debtOrder G hint q) hqn
    (cover_of_connected G hG hc hint q) Dv.deg
  refine ⟨F, fun fuel hf => ?_⟩
  unfold ewd
  by_cases h1 : (opt && decide (Dv.total < 0)) = true
  · simp only [h1, if_true]; exact ⟨_, rfl⟩
  · simp only [h1, Bool.false_eq_true, if_false]
    by_cases h2 : (opt && decide (Dv.total ≥ G.genus)) = true
    · simp only [h2, if_true]; exact ⟨_, rfl⟩
    · simp only [h2, Bool.false_eq_true, if_false, hq]
      obtain ⟨r, hr⟩ := hF fuel hf (Dv.degV :: if opt = true then [Dv.degV, Dv.degV] else []) 0
      simp only [hr]
      exact ⟨_, rfl⟩

/-- the recorded trace is not an input of the result: the verdict, divisor and orientation are
    computed by the same function whether or not recording is on (recording is modelled as the
    extra output `tr`) -/
theorem recording_irrelevant (G : Graph n) (hint : Fin n → List (Fin n)) (fuel : Nat) (Dv : Divisor n)
    (opt : Bool) : ∀ r, ewd G hint fuel Dv opt = some (.ok r) →
      ∃ v q red, r = { verdict := v, q := q, red := red, tr := r.tr } := by
  intro r _; exact ⟨r.verdict, r.q, r.red, rfl⟩

/-- non-vacuity: the counter-example quoted with the property (multi-edges, three indebted
    vertices) satisfies every hypothesis; the verdict is `false` in both modes. -/
example : ∃ G : Graph 4, Graph.new 4 false [(0, 3, 3), (1, 2, 2), (2, 3, 1)] = .ok G ∧
    (∀ q v : Fin 4, v ≠ q → v ∈ debtOrder G (fun _ => []) q) ∧
    (∃ r, ewd G (fun _ => []) 1000 (Divisor.ofFn fun v => [-3, -1, -2, 6].getD v.1 0) false = some (.ok r) ∧ r.verdict = false) ∧
    (∃ r, ewd G (fun _ => []) 1000 (Divisor.ofFn fun v => [-3, -1, -2, 6].getD v.1 0) true = some (.ok r) ∧ r.verdict = false) := by
  refine ⟨_, rfl, by decide, ⟨_, rfl, by decide⟩, ⟨_, rfl, by decide⟩⟩

end CF.C01
