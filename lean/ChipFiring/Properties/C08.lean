import ChipFiring.Theory.EwdFull
import ChipFiring.Theory.GoodOf
import ChipFiring.Theory.Termination
/-
  C08 — Debt concentration clears V∖{q}; the burn returns the maximal legal firing set.
-/
namespace CF.C08
open CF Finset
variable {n : Nat}

/-- concentrating debt at q (for any sink q, any sweep order covering V∖{q}): same linear
    equivalence class, same total degree, no debt left off q -/
theorem send_debt_spec (G : Graph n) (hs : ∀ v w, G.adj v w = G.adj w v) (q : Fin n)
    (order : List (Fin n)) (hcover : ∀ v, v ≠ q → v ∈ order) (fuel : Nat) (D : Fin n → Int) (s : DebtSt n)
    (h : sendDebt G order fuel D = some s) :
    LinEq G D s.D ∧ deg s.D = deg D ∧ ∀ v, v ≠ q → 0 ≤ s.D v := by
  obtain ⟨h1, h2⟩ := sendDebt_spec G hs order fuel D s h
  exact ⟨h1, deg_linEq G hs h1, fun v hv => h2 v (hcover v hv)⟩

/-- the burn returns exactly the union of all non-empty sets avoiding q that can legally fire
    together: every legal set lies inside the unburnt set, and the unburnt set, if non-empty, is
    itself legal -/
theorem burn_is_max_legal (G : Graph n) (q : Fin n) (D : Fin n → Int) :
    (∀ S, Legal G q D S → ∀ v, S v = true → unburnt (burn G q D) v = true) ∧
    ((∃ v, unburnt (burn G q D) v = true) → Legal G q D (unburnt (burn G q D))) := by
  constructor
  · intro S hS v hv
    simp [unburnt, legal_subset_unburnt G q D S hS v hv]
  · rintro ⟨v, hv⟩
    exact burn_unburnt_legal G q D ⟨v, by simpa [unburnt] using hv⟩

/-- so firing the returned set leaves its members debt-free and nobody else worse off -/
theorem fire_unburnt_debt_free (G : Graph n) (q : Fin n) (D : Fin n → Int)
    (hne : ∃ v, unburnt (burn G q D) v = true) :
    (∀ v, unburnt (burn G q D) v = true → 0 ≤ fireSet G (unburnt (burn G q D)) D v) ∧
    (∀ v, unburnt (burn G q D) v = false → D v ≤ fireSet G (unburnt (burn G q D)) D v) := by
  have hL := (burn_is_max_legal G q D).2 hne
  constructor
  · intro v hv
    have := hL.2.2 v hv
    simp only [fireSet, hv, if_true, sumZ_eq]
    unfold outdeg at this
    linarith
  · intro v hv
    simp only [fireSet, hv, Bool.false_eq_true, if_false, sumZ_eq]
    have : 0 ≤ ∑ u, if unburnt (burn G q D) u = true then (G.adj u v : Int) else 0 :=
      Finset.sum_nonneg fun u _ => by split <;> positivity
    linarith

/-- the burn returns the empty set exactly when no set can legally fire, i.e. (for a
    configuration non-negative off q) exactly when it is superstable -/
theorem burn_empty_iff_superstable (G : Graph n) (q : Fin n) (D : Fin n → Int)
    (hnn : ∀ v, v ≠ q → 0 ≤ D v) :
    (∀ v, unburnt (burn G q D) v = false) ↔ QReduced G q D := by
  have : (∀ v, unburnt (burn G q D) v = false) ↔ ∀ v, (burn G q D).B v = true := by
    simp [unburnt]
  rw [this, burn_all_iff]
  exact ⟨fun h => ⟨hnn, h⟩, fun h => h.2⟩

/-- `outdegree_S(v, burnt)` is the multiplicity-weighted number of edges from v into the set -/
theorem edgesTo_is_weighted_count (G : Graph n) (B : Fin n → Bool) (v : Fin n) :
    edgesTo G B v = ∑ w, if B w then (G.adj v w : Int) else 0 := edgesTo_eq G B v

/-- non-vacuity (the C08 witness): path q–a–b with D = (0,−1,0); concentration must clear b too -/
example : ∃ G : Graph 3, Graph.new 3 false [(0, 1, 1), (1, 2, 1)] = .ok G ∧
    ∃ s, sendDebt G (debtOrder G (fun _ => []) 0) 1000 (fun v => [0, -1, 0].getD v.1 0) = some s ∧
      (List.finRange 3).map s.D = [-1, 0, 0] := by
  refine ⟨_, rfl, _, rfl, by decide⟩

/-- Headline form: on a connected graph, for ANY sink q, debt concentration (driven by the BFS
    order from q, whatever the adjacency orders) returns, stays in the class, keeps the degree and
    leaves no debt off q -/
theorem send_debt_total (G : Graph n) (hG : G.WF) (hc : G.Connected) (hint : Fin n → List (Fin n))
    (q : Fin n) (D : Fin n → Int) :
    ∃ F, ∀ fuel, F ≤ fuel → ∃ s, sendDebt G (debtOrder G hint q) fuel D = some s ∧
      LinEq G D s.D ∧ deg s.D = deg D ∧ ∀ v, v ≠ q → 0 ≤ s.D v := by
  have hqn : q ∉ debtOrder G hint q := by unfold debtOrder; simp
  obtain ⟨F, hF⟩ := sendDebt_terminates G hG.symm hc q (debtOrder G hint q) hqn D
  refine ⟨F, fun fuel hf => ?_⟩
  obtain ⟨s, hs⟩ := hF fuel hf
  obtain ⟨h1, h2, h3⟩ := send_debt_spec G hG.symm q _ (cover_of_connected G hG hc hint q) fuel D s hs
  exact ⟨s, hs, h1, h2, h3⟩

end CF.C08
