import ChipFiring.Properties.C10Base
import ChipFiring.Theory.Parking
import ChipFiring.Theory.SSCount
import ChipFiring.Theory.DetPos
import ChipFiring.Theory.Pollak
/-
  C10, continued: the two counting clauses that tie the configuration logic, the Laplacian and
  the combinatorics module together (the elementary clauses are in `C10Base.lean`, same namespace).
-/
namespace CF.C10
open CF
variable {n : Nat}

/-- **matrix-tree, as the library computes both sides**: on a connected multigraph the number of
    configurations in the box Π_v [0, val v) that `is_superstable` accepts equals |det| of the
    reduced Laplacian (Laplace expansion).  Proof: existence and uniqueness of q-reduced
    representatives make superstables ↔ cokernel of the reduced Laplacian a bijection; Mathlib's
    Smith-normal-form theorem gives |coker| = |det|. -/
theorem superstable_count_eq_det (G : Graph n) (hG : G.WF) (hc : G.Connected) (hn : 0 < n) (q : Fin n) :
    ((boxConfigs (vtilde q) (fun v => G.rowSum v)).filter fun c => isSuperstable G q c).length
      = (detRows (n + 1) ((vtilde q).map fun v => (vtilde q).map fun w => lapEntry G v w)).natAbs :=
  CF.superstable_count_eq_det G q hG hc hn

/-- the abstract form: superstables are as many as |det| of the reduced Laplacian -/
theorem card_superstable (G : Graph n) (hG : G.WF) (hc : G.Connected) (hn : 0 < n) (q : Fin n) :
    Nat.card {c : Off q → Int // Superstable G q c} = ((redLap G q).det).natAbs :=
  card_superstable_eq_det G q hG hc hn

/-- **K_(m+1)**: a configuration on the complete graph is reported superstable exactly when its
    chip counts plus one, listed over the vertices other than q, form a parking function -/
theorem complete_superstable_iff_parking (G : Graph n) (hK : IsComplete G) (q : Fin n) (D : Fin n → Int) :
    isSuperstable G q D = true ↔ isParkingFunction ((vtilde q).map fun v => D v + 1) none = true :=
  CF.complete_superstable_iff_parking G hK q D

/-- `is_parking_function` is the counting condition "for every i at least i entries are ≤ i" on
    sequences of positive entries -/
theorem parking_iff_counting (seq : List Int) :
    isParkingFunction seq none = true ↔ (∀ x ∈ seq, 1 ≤ x) ∧ CountCond seq 0 := isParkingFunction_iff seq

/-- **Pollak's count, for every length**: `generate_parking_functions(m)` lists exactly
    (m+1)^(m−1) sequences, which is the closed form `parking_function_count(m)` publishes.
    Route: parking functions of length m ↔ superstables of K_(m+1) ↔ cokernel of its reduced
    Laplacian, of size det (m+1)·1 − J = (m+1)^(m−1). -/
theorem parking_count_all (m : Nat) (hm : 1 ≤ m) :
    (generateParking (m : Int)).length = (m + 1) ^ (m - 1) ∧
    ((generateParking (m : Int)).length : Int) = parkingCount (m : Int) :=
  ⟨generateParking_length m hm, generateParking_count m hm⟩

/-- Cayley: the reduced Laplacian of K_n has determinant n^(n−2) -/
theorem complete_reduced_det (G : Graph n) (hK : IsComplete G) (hn : 2 ≤ n) (q : Fin n) :
    (redLap G q).det = (n : Int) ^ (n - 2) := det_complete G q hK hn

/-- the reduced Laplacian of a connected multigraph is positive definite, so its determinant is
    positive and the matrix-tree count holds as an equality of integers, without absolute value -/
theorem superstable_count_eq_det_exact (G : Graph n) (hG : G.WF) (hc : G.Connected) (hn : 0 < n) (q : Fin n) :
    (((boxConfigs (vtilde q) (fun v => G.rowSum v)).filter fun c => isSuperstable G q c).length : Int)
      = detRows (n + 1) ((vtilde q).map fun v => (vtilde q).map fun w => lapEntry G v w) := by
  rw [CF.superstable_count_eq_det G q hG hc hn, detRows_red G q hG]
  exact Int.natAbs_of_nonneg (le_of_lt (redLap_det_pos G q hG hc))

theorem reduced_det_pos (G : Graph n) (hG : G.WF) (hc : G.Connected) (q : Fin n) : 0 < (redLap G q).det :=
  redLap_det_pos G q hG hc

end CF.C10
