import ChipFiring.Theory.MinStrat
import ChipFiring.Theory.RankTheory
import ChipFiring.Theory.GoodOf
/-
  C04 — Gonality is the least degree of a rank ≥ 1 divisor; strategies are genuine.
-/
namespace CF.C04
open CF Finset
variable {n : Nat}

/-- single game: Player A wins exactly when the placement minus one chip at the opponent's vertex
    is winnable — for every placement, effective or not -/
theorem playGame_exact (G : Graph n) (hg : Good G) (fuel : Nat) (P : Fin n → Int) (v : Fin n) (b : Bool)
    (h : playGame G fuel P v = some b) : b = true ↔ Winnable G (fun w => P w - chipAt v w) := by
  have := winnableOpt_exact G hg fuel _ b h
  simpa [chipAt] using this

theorem losing_fold (G : Graph n) (fuel : Nat) (P : Fin n → Int) (l : List (Fin n)) :
    ∀ acc res, l.foldl (fun acc v =>
        match acc, playGame G fuel P v with
        | some l, some true => some l
        | some l, some false => some (l ++ [v])
        | _, _ => none) acc = some res →
      ∃ a, acc = some a ∧ (res = [] ↔ a = [] ∧ ∀ v ∈ l, playGame G fuel P v = some true) ∧
        (∀ v ∈ l, ∃ b, playGame G fuel P v = some b) := by
  induction l with
  | nil => intro acc res h; simp at h; exact ⟨res, h, by simp, by simp⟩
  | cons x l ih =>
    intro acc res h
    rw [List.foldl_cons] at h
    obtain ⟨a', ha', h1, h2⟩ := ih _ res h
    cases acc with
    | none => simp at ha'
    | some a =>
      cases hp : playGame G fuel P x with
      | none => simp [hp] at ha'
      | some b =>
        cases b
        · simp only [hp] at ha'
          injection ha' with ha'
          refine ⟨a, rfl, ?_, ?_⟩
          · rw [h1, ← ha']
            constructor
            · rintro ⟨h3, -⟩; simp at h3
            · rintro ⟨-, h3⟩; have := h3 x List.mem_cons_self; rw [hp] at this; simp at this
          · intro v hv; rcases List.mem_cons.mp hv with rfl | hv
            · exact ⟨false, hp⟩
            · exact h2 v hv
        · simp only [hp] at ha'
          injection ha' with ha'
          refine ⟨a, rfl, ?_, ?_⟩
          · rw [h1, ← ha']
            constructor
            · rintro ⟨h3, h4⟩; exact ⟨h3, fun v hv => by
                rcases List.mem_cons.mp hv with rfl | hv
                · exact hp
                · exact h4 v hv⟩
            · rintro ⟨h3, h4⟩; exact ⟨h3, fun v hv => h4 v (List.mem_cons_of_mem _ hv)⟩
          · intro v hv; rcases List.mem_cons.mp hv with rfl | hv
            · exact ⟨true, hp⟩
            · exact h2 v hv

/-- strategy test: the placement works exactly when it beats every opponent vertex, i.e. when it
    has rank at least one -/
theorem strategyWorks_exact (G : Graph n) (hg : Good G) (fuel : Nat) (P : Fin n → Int) (b : Bool)
    (h : strategyWorks G fuel P = some b) : b = true ↔ RankGeOne G P := by
  unfold strategyWorks at h
  cases hl : losingVertices G fuel P with
  | none => simp [hl] at h
  | some res =>
    simp only [hl, Option.map_some] at h
    injection h with h; subst h
    unfold losingVertices at hl
    obtain ⟨a, ha, h1, h2⟩ := losing_fold G fuel P _ _ res hl
    injection ha with ha; subst ha
    rw [List.isEmpty_iff, h1]
    simp only [true_and]
    constructor
    · intro hall v
      exact (playGame_exact G hg fuel P v true (hall v (List.mem_finRange v))).mp rfl
    · intro hr v _
      obtain ⟨b, hb⟩ := h2 v (List.mem_finRange v)
      have := (playGame_exact G hg fuel P v b hb).mpr (hr v)
      rw [hb, this]

/-- adding chips preserves winnability (so supersets of winning strategies win) -/
theorem winnable_mono (G : Graph n) {D F : Fin n → Int} (h : Winnable G D) (hF : Eff F) :
    Winnable G (fun v => D v + F v) := Winnable.add_eff G h hF

/-- the all-ones placement has rank ≥ 1: gonality ≤ |V|, so the default cut-off never truncates -/
theorem all_ones_wins (G : Graph n) : RankGeOne G (fun _ => 1) ∧ Eff (fun _ : Fin n => (1 : Int)) ∧
    deg (fun _ : Fin n => (1 : Int)) = n := by
  refine ⟨fun v => Eff.winnable G (fun w => by simp only [chipAt]; split <;> omega), fun _ => by show (0:Int) ≤ 1; omega, by simp [deg]⟩

/-- with fewer than one chip nobody wins -/
theorem zero_chips_lose (G : Graph n) (hg : Good G) (D : Fin n → Int) (hE : Eff D) (hd : deg D < 1) :
    ¬ RankGeOne G D := by
  intro hr
  have hv := hr ⟨0, hg.pos⟩
  apply not_winnable_of_deg_neg G hg.wf.symm _ hv
  have : deg (fun w => D w - chipAt (⟨0, hg.pos⟩ : Fin n) w) = deg D - 1 := by
    simp [deg, chipAt, Finset.sum_sub_distrib]
  rw [this]; omega

theorem firstWinning_spec (G : Graph n) (hg : Good G) (fuel cap : Nat) (hcap : 0 < cap) (cands : List (Fin n → Int)) :
    ∀ acc res, firstWinning G fuel cap cands acc = some res →
      (∀ P ∈ res, P ∈ acc ∨ (P ∈ cands ∧ RankGeOne G P)) ∧
      (res = [] → acc = [] ∧ ∀ P ∈ cands, ¬ RankGeOne G P) := by
  induction cands with
  | nil => intro acc res h; simp [firstWinning] at h; subst h; simp
  | cons P ps ih =>
    intro acc res h
    rw [firstWinning] at h
    split at h
    · rename_i hge
      injection h with h; subst h
      refine ⟨fun Q hQ => Or.inl hQ, fun he => ?_⟩
      subst he; simp at hge; omega
    · cases hs : strategyWorks G fuel P with
      | none => simp [hs] at h
      | some b =>
        have hex := strategyWorks_exact G hg fuel P b hs
        cases b
        · simp only [hs] at h
          obtain ⟨h1, h2⟩ := ih acc res h
          refine ⟨fun Q hQ => ?_, fun he => ?_⟩
          · rcases h1 Q hQ with h3 | ⟨h3, h4⟩
            · exact Or.inl h3
            · exact Or.inr ⟨List.mem_cons_of_mem _ h3, h4⟩
          · obtain ⟨h3, h4⟩ := h2 he
            refine ⟨h3, fun Q hQ => ?_⟩
            rcases List.mem_cons.mp hQ with rfl | hQ
            · intro hc; have := hex.mpr hc; simp at this
            · exact h4 Q hQ
        · simp only [hs] at h
          obtain ⟨h1, h2⟩ := ih _ res h
          refine ⟨fun Q hQ => ?_, fun he => ?_⟩
          · rcases h1 Q hQ with h3 | ⟨h3, h4⟩
            · rcases List.mem_append.mp h3 with h5 | h5
              · exact Or.inl h5
              · simp at h5; subst h5; exact Or.inr ⟨List.mem_cons_self, hex.mp rfl⟩
            · exact Or.inr ⟨List.mem_cons_of_mem _ h3, h4⟩
          · have := (h2 he).1; simp at this

/-- the search: started at N with every smaller positive degree known to have no strategy, it
    returns the least degree with a strategy (or −1 when none exists up to the cut-off), together
    with genuine strategies of exactly that degree -/
theorem gonLoop_spec (G : Graph n) (hg : Good G) (fuel cap : Nat) (hcap : 0 < cap) :
    ∀ (f N : Nat) (g : Int) (l : List (Fin n → Int)),
      (∀ D, Eff D → deg D < N → ¬ RankGeOne G D) →
      gonLoop G fuel cap f N = some (g, l) →
      (g = -1 ∧ l = [] ∧ ∀ D, Eff D → deg D < N + f → ¬ RankGeOne G D) ∨
      (∃ k : Nat, g = k ∧ N ≤ k ∧ k < N + f ∧ IsGonality G k ∧ l ≠ [] ∧
        ∀ P ∈ l, Eff P ∧ deg P = k ∧ RankGeOne G P) := by
  intro f
  induction f with
  | zero =>
    intro N g l hprev h
    simp [gonLoop] at h
    obtain ⟨rfl, rfl⟩ := h
    exact Or.inl ⟨rfl, rfl, by simpa using hprev⟩
  | succ f ih =>
    intro N g l hprev h
    rw [gonLoop] at h
    cases hf : firstWinning G fuel cap (effDivs n N) [] with
    | none => simp [hf] at h
    | some res =>
      obtain ⟨h1, h2⟩ := firstWinning_spec G hg fuel cap hcap _ _ res hf
      cases res with
      | nil =>
        simp only [hf] at h
        have hnone := (h2 rfl).2
        have hprev' : ∀ D, Eff D → deg D < (N + 1 : Nat) → ¬ RankGeOne G D := by
          intro D hE hd
          by_cases hlt : deg D < N
          · exact hprev D hE hlt
          · have h0 : 0 ≤ deg D := Finset.sum_nonneg fun v _ => hE v
            have : deg D = (N : Int) := by push_cast at hd; omega
            exact hnone D (effDivs_complete N D hE this)
        rcases ih (N + 1) g l hprev' h with ⟨a, b, c⟩ | ⟨k, a, b, c, d⟩
        · left; refine ⟨a, b, ?_⟩; intro D hE hd; apply c D hE; push_cast at hd ⊢; omega
        · right; exact ⟨k, a, by omega, by omega, d⟩
      | cons P ps =>
        simp only [hf] at h
        injection h with h; injection h with hg' hl; subst hg'; subst hl
        right
        refine ⟨N, rfl, le_refl N, by omega, ?_, by simp, ?_⟩
        · have hP := h1 P List.mem_cons_self
          rcases hP with hP | ⟨hP, hr⟩
          · simp at hP
          · obtain ⟨hE, hd⟩ := effDivs_sound N P hP
            exact ⟨⟨P, hE, hd, hr⟩, fun D hE' hd' => hprev D hE' hd'⟩
        · intro Q hQ
          rcases h1 Q hQ with hQ' | ⟨hQ', hr⟩
          · simp at hQ'
          · obtain ⟨hE, hd⟩ := effDivs_sound N Q hQ'
            exact ⟨hE, hd, hr⟩

/-- `gonality(G, max, find_strategies)`: the reported value is the gonality when it is ≤ max and
    −1 otherwise; every reported strategy is an effective placement of exactly that many chips
    that beats every opponent vertex; no placement with fewer chips does -/
theorem computeGonality_exact (G : Graph n) (hg : Good G) (fuel : Nat) (maxGon : Int) (fs : Bool)
    (g : Int) (l : List (Fin n → Int)) (h : computeGonality G fuel maxGon fs = some (g, l)) :
    (g = -1 ∧ l = [] ∧ ∀ D, Eff D → deg D ≤ maxGon → ¬ RankGeOne G D) ∨
    (∃ k : Nat, g = k ∧ 1 ≤ k ∧ (k : Int) ≤ maxGon ∧ IsGonality G k ∧ l ≠ [] ∧
      ∀ P ∈ l, Eff P ∧ deg P = k ∧ RankGeOne G P) := by
  unfold computeGonality at h
  have hcap : 0 < (if fs then 5 else 1) := by split <;> omega
  rcases gonLoop_spec G hg fuel _ hcap maxGon.toNat 1 g l
      (fun D hE hd => zero_chips_lose G hg D hE (by simpa using hd)) h with ⟨a, b, c⟩ | ⟨k, a, b, c, d⟩
  · left; refine ⟨a, b, ?_⟩
    intro D hE hd
    apply c D hE
    have h0 : 0 ≤ deg D := Finset.sum_nonneg fun v _ => hE v
    have : (maxGon.toNat : Int) = maxGon := Int.toNat_of_nonneg (by omega)
    push_cast; omega
  · right
    refine ⟨k, a, b, ?_, d⟩
    have : (k : Int) < 1 + maxGon.toNat := by exact_mod_cast c
    have h2 : (maxGon.toNat : Int) = max maxGon 0 := Int.toNat_eq_max maxGon
    rcases le_or_gt 0 maxGon with h3 | h3
    · rw [max_eq_left h3] at h2; omega
    · rw [max_eq_right (le_of_lt h3)] at h2
      have : (1 : Int) ≤ k := by exact_mod_cast b
      omega

/-- the gonality relation determines its value -/
theorem gonality_unique (G : Graph n) (k k' : Nat) (h : IsGonality G k) (h' : IsGonality G k') : k = k' := by
  obtain ⟨⟨D, hE, hd, hr⟩, hmin⟩ := h
  obtain ⟨⟨D', hE', hd', hr'⟩, hmin'⟩ := h'
  rcases Nat.lt_trichotomy k k' with hlt | heq | hgt
  · exact absurd hr (hmin' D hE (by rw [hd]; exact_mod_cast hlt))
  · exact heq
  · exact absurd hr' (hmin D' hE' (by rw [hd']; exact_mod_cast hgt))

/-- per-sink Dhar-based strategy test: exactly the winnability of base + strategy − one chip at q -/
theorem dharTestStrategy_exact (G : Graph n) (hg : Good G) (fuel : Nat) (q : Fin n) (base : Fin n → Int)
    (strategy : List (Fin n)) (b : Bool) (h : dharTestStrategy G fuel q base strategy = some b) :
    b = true ↔ Winnable G (fun w => base w + countVec strategy w - chipAt q w) := by
  have := winnableOpt_exact G hg fuel _ b h
  simpa [chipAt] using this

/-- non-vacuity: the 4-cycle has gonality 2, found with and without collecting strategies -/
def gonVal : Option (Int × List (Fin 4 → Int)) → Option (Int × Nat)
  | some (g, l) => some (g, l.length)
  | none => none

example : ∃ G : Graph 4, Graph.new 4 false [(0, 1, 1), (1, 2, 1), (2, 3, 1), (3, 0, 1)] = .ok G ∧
    gonVal (computeGonality G 1000 4 false) = some (2, 1) ∧
    (gonVal (computeGonality G 1000 1 true)) = some (-1, 0) := by
  refine ⟨_, rfl, by decide +kernel, by decide +kernel⟩

/-- Headline form on connected graphs -/
theorem computeGonality_exact_connected (G : Graph n) (hG : G.WF) (hc : G.Connected) (hn : 0 < n) (fuel : Nat)
    (maxGon : Int) (fs : Bool) (g : Int) (l : List (Fin n → Int)) (h : computeGonality G fuel maxGon fs = some (g, l)) :
    (g = -1 ∧ l = [] ∧ ∀ D, Eff D → deg D ≤ maxGon → ¬ RankGeOne G D) ∨
    (∃ k : Nat, g = k ∧ 1 ≤ k ∧ (k : Int) ≤ maxGon ∧ IsGonality G k ∧ l ≠ [] ∧
      ∀ P ∈ l, Eff P ∧ deg P = k ∧ RankGeOne G P) :=
  computeGonality_exact G (good_of_connected G hG hc hn) fuel maxGon fs g l h

/-- per-sink search (`enhanced_dhar_gonality_test`, `find_minimal_winning_strategies`): the value
    is the least number of chips off q of a non-empty placement that survives a chip removed at q
    (cut-off + 1 when there is none within the cut-off), and the strategies are exactly the
    surviving placements with that many chips, each up to the order of its chips -/
theorem per_sink_search_exact (G : Graph n) (hg : Good G) (fuel : Nat) (q : Fin n) (vt : List (Fin n)) (hnd : vt.Nodup)
    (maxGon k : Nat) (ms : List (List (Fin n))) (h : enhancedDhar G fuel q vt maxGon = some (k, ms)) :
    (ms = [] ∧ k = maxGon + 1 ∧
      ∀ s, (∀ x ∈ s, x ∈ vt) → s ≠ [] → s.length ≤ maxGon → ¬ Wins G q (fun _ => 0) s) ∨
    (1 ≤ k ∧ k ≤ maxGon ∧ ms ≠ [] ∧
      (∀ t ∈ ms, t.length = k ∧ (∀ x ∈ t, x ∈ vt) ∧ Wins G q (fun _ => 0) t) ∧
      (∀ s, (∀ x ∈ s, x ∈ vt) → s ≠ [] → s.length < k → ¬ Wins G q (fun _ => 0) s) ∧
      (∀ s, (∀ x ∈ s, x ∈ vt) → s.length = k → Wins G q (fun _ => 0) s → ∃ t ∈ ms, ∀ v, t.count v = s.count v)) :=
  enhancedDhar_exact G q fuel hg vt hnd maxGon k ms h

/-- the minimal-strategy list itself (any base divisor, any cut-off): everything listed is a
    non-empty winner none of whose one-chip-smaller non-empty placements wins, and every such
    placement of admissible size over `vt` is listed (up to the order of its chips) -/
theorem minimal_strategies_exact (G : Graph n) (hg : Good G) (fuel : Nat) (q : Fin n) (base : Fin n → Int)
    (vt : List (Fin n)) (hnd : vt.Nodup) (maxChips : Nat) (found : List (List (Fin n)))
    (h : minimalStrategies G fuel q base vt maxChips = some found) :
    (∀ t ∈ found, t ≠ [] ∧ t.length ≤ maxChips ∧ (∀ x ∈ t, x ∈ vt) ∧ MinWin G q base t) ∧
    (∀ s, (∀ x ∈ s, x ∈ vt) → s ≠ [] → s.length ≤ maxChips → MinWin G q base s →
      ∃ t ∈ found, ∀ v, t.count v = s.count v) := by
  have hinv := minimalStrategies_spec G q base fuel hg vt maxChips found h
  refine ⟨fun t ht => ?_, fun s hs hne hM hmw => minwin_found G q base vt hnd maxChips found hinv s hs hne hM hmw⟩
  obtain ⟨hP, hne, hmw⟩ := hinv.1 t ht
  obtain ⟨-, b, c⟩ := processed_sound vt maxChips t hP
  exact ⟨hne, b, c, hmw⟩

end CF.C04
