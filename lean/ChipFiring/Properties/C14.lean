import ChipFiring.Theory.LeastAction
import ChipFiring.Properties.C06
/-
  C14 — Greedy solver: success carries a valid script; failure only if unwinnable or capped.
  `greedy G vorder D = (success, final divisor, script)`; `vorder` is the iteration order of the
  vertex set (hash-seed dependent in the code), any list containing every vertex.
-/
namespace CF.C14
open CF Finset
variable {n : Nat}

/-- the run behind a call of `greedy` -/
theorem greedy_run (G : Graph n) (hG : G.WF) (vorder : List (Fin n)) (hcov : ∀ v, v ∈ vorder) (D : Fin n → Int) :
    ∃ l : List (Fin n), ValidRun G D l ∧
      (greedy G vorder D).2.1.get = applyScript G D (negCount l) ∧
      (greedy G vorder D).2.2.get = negCount l ∧ l.length ≤ 10 * n ∧
      ((greedy G vorder D).1 = true → Eff (greedy G vorder D).2.1.get) ∧
      ((greedy G vorder D).1 = false → l.length = 10 * n ∧ ¬ Eff (greedy G vorder D).2.1.get) := by
  obtain ⟨l, h1, h2, h3, h4, h5, h6⟩ := greedyGo_spec G vorder hcov (10 * n) (mat D) (mat fun _ => 0)
  rw [get_mat] at h1 h2
  refine ⟨l, h1, ?_, ?_, h4, h5, h6⟩
  · show (greedyGo G vorder (10 * n) (mat D) (mat fun _ => 0)).2.1.get = _
    rw [h2, foldl_borrow_eq G hG.symm]
  · show (greedyGo G vorder (10 * n) (mat D) (mat fun _ => 0)).2.2.get = _
    rw [h3]; funext v; simp [negCount]

/-- success carries a checkable proof of winnability: the returned script, applied through the
    Laplacian to the original divisor, yields exactly the effective divisor the solver ended on -/
theorem success_certificate (G : Graph n) (hG : G.WF) (vorder : List (Fin n)) (hcov : ∀ v, v ∈ vorder)
    (D : Fin n → Int) (h : (greedy G vorder D).1 = true) :
    lapApply G D (greedy G vorder D).2.2.get = (greedy G vorder D).2.1.get ∧
    Eff (greedy G vorder D).2.1.get ∧ Winnable G D := by
  obtain ⟨l, -, h2, h3, -, h5, -⟩ := greedy_run G hG vorder hcov D
  refine ⟨?_, h5 h, ?_⟩
  · rw [C06.apply_eq_spec G hG, h3, h2]
  · exact ⟨_, ⟨negCount l, h2⟩, h5 h⟩

/-- the outcome (success or failure, and the script) is the same whatever order the vertices are
    visited in -/
theorem order_irrelevant (G : Graph n) (hG : G.WF) (vo vo' : List (Fin n))
    (hcov : ∀ v, v ∈ vo) (hcov' : ∀ v, v ∈ vo') (D : Fin n → Int) :
    (greedy G vo D).1 = (greedy G vo' D).1 ∧
    ((greedy G vo D).1 = true → (greedy G vo D).2.2.get = (greedy G vo' D).2.2.get ∧
                                 (greedy G vo D).2.1.get = (greedy G vo' D).2.1.get) := by
  obtain ⟨l, hv, h2, h3, h4, h5, h6⟩ := greedy_run G hG vo hcov D
  obtain ⟨l', hv', h2', h3', h4', h5', h6'⟩ := greedy_run G hG vo' hcov' D
  -- a successful run dominates every valid run
  have dom : ∀ (a b : List (Fin n)), ValidRun G D b → Eff (applyScript G D (negCount a)) →
      ∀ v, (b.count v : Int) ≤ a.count v := by
    intro a b hb ha
    apply least_action G hG.symm D (fun v => (a.count v : Int)) (fun v => by positivity) _ b hb
    intro v; exact ha v
  have eqOfLe : ∀ (a b : List (Fin n)), (∀ v, (b.count v : Int) ≤ a.count v) → (a.length : Int) ≤ b.length →
      negCount a = negCount b := by
    intro a b hle hlen
    have hs : ∑ v, ((a.count v : Int) - b.count v) = (a.length : Int) - b.length := by
      rw [Finset.sum_sub_distrib, sum_count, sum_count]
    have hz : ∀ v, (a.count v : Int) - b.count v = 0 := by
      have hnn : ∀ v ∈ (Finset.univ : Finset (Fin n)), 0 ≤ (a.count v : Int) - b.count v := fun v _ => by
        have := hle v; omega
      have hsum : ∑ v, ((a.count v : Int) - b.count v) = 0 := by
        have : ∑ v, ((a.count v : Int) - b.count v) ≥ 0 := Finset.sum_nonneg hnn
        omega
      intro v; exact (Finset.sum_eq_zero_iff_of_nonneg hnn).mp hsum v (mem_univ v)
    funext v; simp only [negCount]; have := hz v; omega
  -- success of one run forces success of the other
  have force : ∀ (a b : List (Fin n)) (okb : Bool) (Db : Fin n → Int), ValidRun G D b →
      Eff (applyScript G D (negCount a)) → a.length ≤ 10 * n →
      Db = applyScript G D (negCount b) → (okb = false → b.length = 10 * n ∧ ¬ Eff Db) → okb = true := by
    intro a b okb Db hb ha hlen hDb hfail
    by_contra hne
    have hf : okb = false := by cases okb <;> simp_all
    obtain ⟨hbl, hbe⟩ := hfail hf
    have hle := dom a b hb ha
    have : negCount a = negCount b := eqOfLe a b hle (by
      have h1 : ∑ v, (b.count v : Int) ≤ ∑ v, (a.count v : Int) := Finset.sum_le_sum fun v _ => hle v
      rw [sum_count, sum_count] at h1
      have : (a.length : Int) ≤ 10 * n := by exact_mod_cast hlen
      have : (b.length : Int) = 10 * n := by exact_mod_cast hbl
      omega)
    rw [hDb, ← this] at hbe; exact hbe ha
  have hsucc : (greedy G vo D).1 = (greedy G vo' D).1 := by
    cases h1 : (greedy G vo D).1 <;> cases h1' : (greedy G vo' D).1 <;> try rfl
    · have he' := h5' h1'; rw [h2'] at he'
      have := force l' l _ _ hv he' h4' h2 h6
      rw [h1] at this; exact absurd this (by simp)
    · have he := h5 h1; rw [h2] at he
      have := force l l' _ _ hv' he h4 h2' h6'
      rw [h1'] at this; exact absurd this (by simp)
  refine ⟨hsucc, ?_⟩
  intro hok
  have hok' : (greedy G vo' D).1 = true := by rw [← hsucc]; exact hok
  have he := h5 hok; rw [h2] at he
  have he' := h5' hok'; rw [h2'] at he'
  have hle := dom l l' hv' he
  have hle' := dom l' l hv he'
  have : negCount l = negCount l' := by
    funext v; simp only [negCount]; have := hle v; have := hle' v; omega
  rw [h3, h3', h2, h2', this]; exact ⟨rfl, rfl⟩

/-- failure is reported only when the divisor is unwinnable or every way of clearing the debt by
    borrowing needs more than the documented budget of 10·|V| moves -/
theorem failure_only_if_unwinnable_or_capped (G : Graph n) (hG : G.WF) (vorder : List (Fin n))
    (hcov : ∀ v, v ∈ vorder) (D : Fin n → Int) (h : (greedy G vorder D).1 = false) :
    ∀ σ : Fin n → Int, (∀ v, 0 ≤ σ v) → Eff (applyScript G D (fun w => - σ w)) → (10 * n : Int) < ∑ v, σ v := by
  intro σ hσ hclear
  obtain ⟨l, hv, h2, -, -, -, h6⟩ := greedy_run G hG vorder hcov D
  obtain ⟨hlen, hne⟩ := h6 h
  have hle := least_action G hG.symm D σ hσ hclear l hv
  by_contra hcon
  have hsum : ∑ v, (l.count v : Int) ≤ ∑ v, σ v := Finset.sum_le_sum fun v _ => hle v
  rw [sum_count] at hsum
  have hl : (l.length : Int) = 10 * n := by exact_mod_cast hlen
  have heq : ∑ v, (σ v - l.count v) = 0 := by
    rw [Finset.sum_sub_distrib, sum_count]; omega
  have hz : ∀ v, σ v - l.count v = 0 := by
    have hnn : ∀ v ∈ (Finset.univ : Finset (Fin n)), 0 ≤ σ v - l.count v := fun v _ => by have := hle v; omega
    intro v; exact (Finset.sum_eq_zero_iff_of_nonneg hnn).mp heq v (mem_univ v)
  have : (fun w => - σ w) = negCount l := by
    funext w; simp only [negCount]; have := hz w; omega
  rw [this, ← h2] at hclear
  exact hne hclear

/-- a winnable divisor always has a non-negative clearing script, so the clause above is not
    vacuous: failure on a winnable input means the budget was the reason -/
theorem winnable_has_clearing_script (G : Graph n) (D : Fin n → Int) (hn : 0 < n) (h : Winnable G D) :
    ∃ σ : Fin n → Int, (∀ v, 0 ≤ σ v) ∧ Eff (applyScript G D (fun w => - σ w)) := by
  obtain ⟨E, ⟨s, rfl⟩, hE⟩ := h
  obtain ⟨m, -, hm⟩ := Finset.exists_max_image (Finset.univ : Finset (Fin n)) s ⟨⟨0, hn⟩, mem_univ _⟩
  refine ⟨fun v => s m - s v, fun v => by have := hm v (mem_univ v); show 0 ≤ s m - s v; omega, ?_⟩
  have : applyScript G D (fun w => - (s m - s w)) = applyScript G D s := by
    funext w; simp only [applyScript]; congr 1
    apply Finset.sum_congr rfl; intro v _; ring
  rw [this]; exact hE

/-- non-vacuity: on the path 0–1–2, (−1,0,3) is solved with script (−2,−1,0); (−1,0,0) fails -/
example : ∃ G : Graph 3, Graph.new 3 false [(0, 1, 1), (1, 2, 1)] = .ok G ∧
    (greedy G [2, 0, 1] (fun v => [-1, 0, 3].getD v.1 0)).1 = true ∧
    (List.finRange 3).map (greedy G [2, 0, 1] (fun v => [-1, 0, 3].getD v.1 0)).2.2.get = [-2, -1, 0] ∧
    (greedy G [2, 0, 1] (fun v => [-1, 0, 0].getD v.1 0)).1 = false := by
  refine ⟨_, rfl, by decide +kernel, by decide +kernel, by decide +kernel⟩

/-- `play()` asked again on the same solver (a fresh budget, the working divisor and the script
    where the previous call left them — in particular after a capped failure): a script it then
    returns is still a certificate for the ORIGINAL divisor -/
theorem resumed_play_certificate (G : Graph n) (hG : G.WF) (vorder : List (Fin n)) (hcov : ∀ v, v ∈ vorder)
    (D : Fin n → Int)
    (h : (greedyGo G vorder (10 * n) (greedy G vorder D).2.1 (greedy G vorder D).2.2).1 = true) :
    lapApply G D (greedyGo G vorder (10 * n) (greedy G vorder D).2.1 (greedy G vorder D).2.2).2.2.get
      = (greedyGo G vorder (10 * n) (greedy G vorder D).2.1 (greedy G vorder D).2.2).2.1.get ∧
    Eff (greedyGo G vorder (10 * n) (greedy G vorder D).2.1 (greedy G vorder D).2.2).2.1.get ∧ Winnable G D := by
  obtain ⟨l, -, h2, h3, -, -, -⟩ := greedy_run G hG vorder hcov D
  obtain ⟨l', -, k2, k3, -, k5, -⟩ :=
    greedyGo_spec G vorder hcov (10 * n) (greedy G vorder D).2.1 (greedy G vorder D).2.2
  have hD2 : (greedyGo G vorder (10 * n) (greedy G vorder D).2.1 (greedy G vorder D).2.2).2.1.get
      = applyScript G D (fun v => negCount l v + negCount l' v) := by
    rw [k2, foldl_borrow_eq G hG.symm, h2, applyScript_add]
  have hs2 : (greedyGo G vorder (10 * n) (greedy G vorder D).2.1 (greedy G vorder D).2.2).2.2.get
      = fun v => negCount l v + negCount l' v := by
    rw [k3, h3]; funext v; simp [negCount]; ring
  refine ⟨?_, k5 h, ?_⟩
  · rw [C06.apply_eq_spec G hG, hs2, hD2]
  · exact ⟨_, ⟨_, hD2⟩, k5 h⟩

end CF.C14
