import Lean
open Lean Elab Command

/-- print, as JSON lines prefixed `AUDIT`, the axioms every theorem of namespace `CF.Cxx` depends on -/
elab "#audit_properties" : command => do
  let env ← getEnv
  let mut out : Array String := #[]
  for (name, info) in env.constants.toList do
    if !name.isInternal then
      match name.components with
      | `CF :: p :: _ =>
        let ps := p.toString
        if ps.startsWith "C" && ps.length ≤ 4 && (ps.drop 1).all Char.isDigit then
          match info with
          | .thmInfo _ =>
            let axs ← liftCoreM <| Lean.collectAxioms name
            let axl := ", ".intercalate (axs.toList.map fun a => "\"" ++ toString a ++ "\"")
            out := out.push ("AUDIT {\"theorem\":\"" ++ toString name ++ "\",\"axioms\":[" ++ axl ++ "]}")
          | _ => pure ()
      | _ => pure ()
  for l in out.qsort (· < ·) do
    IO.println l

