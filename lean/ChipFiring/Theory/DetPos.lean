import ChipFiring.Theory.MatrixTree
import Mathlib.Analysis.Matrix.PosDef
/-
  The determinant of the reduced Laplacian of a connected multigraph is positive (the reduced
  Laplacian is positive definite), so the matrix-tree count holds without the absolute value.
-/
open Finset
namespace CF
variable {n : Nat} (G : Graph n) (q : Fin n)

/-- real extension by 0 at the sink -/
noncomputable def extR (x : Off q → ℝ) : Fin n → ℝ := fun v => if h : v = q then 0 else x ⟨v, h⟩

theorem extR_off (x : Off q → ℝ) (v : Off q) : extR q x v.1 = x v := by unfold extR; rw [dif_neg v.2]
theorem extR_q (x : Off q → ℝ) : extR q x q = 0 := by unfold extR; rw [dif_pos rfl]

/-- real Laplacian -/
noncomputable def lapR (y : Fin n → ℝ) : Fin n → ℝ := fun w => ∑ v, (G.adj w v : ℝ) * (y w - y v)

theorem sum_split (f : Fin n → ℝ) : ∑ u, f u = f q + ∑ w : Off q, f w.1 := by
  rw [← Finset.sum_erase_add _ _ (mem_univ q), add_comm]
  congr 1
  refine Finset.sum_bij' (fun u hu => ⟨u, (Finset.mem_erase.mp hu).1⟩) (fun w _ => w.1) ?_ ?_ ?_ ?_ ?_ <;> simp

theorem redLapR_mulVec (hl : ∀ v, G.adj v v = 0) (x : Off q → ℝ) (v : Off q) :
    ((redLap G q).map (Int.cast : ℤ → ℝ)).mulVec x v = lapR G (extR q x) v.1 := by
  simp only [Matrix.mulVec, dotProduct, lapR, Matrix.map_apply]
  rw [sum_split q (fun u => (G.adj v.1 u : ℝ) * (extR q x v.1 - extR q x u))]
  simp only [extR_q, extR_off, sub_zero]
  have hrow : ∑ w : Off q, ((redLap G q v w : ℤ) : ℝ) * x w
      = (∑ u, (G.adj v.1 u : ℝ)) * x v - ∑ w : Off q, (G.adj v.1 w.1 : ℝ) * x w := by
    have : ∀ w : Off q, ((redLap G q v w : ℤ) : ℝ) * x w
        = (if w = v then (∑ u, (G.adj v.1 u : ℝ)) * x v else 0) - (G.adj v.1 w.1 : ℝ) * x w
          + (if w = v then (G.adj v.1 v.1 : ℝ) * x v else 0) := by
      intro w
      unfold redLap
      by_cases h : v = w
      · subst h; simp
      · have h' : ¬ w = v := fun e => h e.symm
        simp [h, h']
    simp only [this, Finset.sum_add_distrib, Finset.sum_sub_distrib, Finset.sum_ite_eq', mem_univ, if_true, hl v.1]
    simp
  rw [hrow, sum_split q (fun u => (G.adj v.1 u : ℝ))]
  have h3 : ∑ w : Off q, (G.adj v.1 w.1 : ℝ) * (x v - x w)
      = (∑ w : Off q, (G.adj v.1 w.1 : ℝ)) * x v - ∑ w : Off q, (G.adj v.1 w.1 : ℝ) * x w := by
    simp only [mul_sub, Finset.sum_sub_distrib, Finset.sum_mul]
  rw [h3]; ring

/-- the Dirichlet form: 2·⟨y, L y⟩ = Σ adj (y_w − y_v)² -/
theorem two_mul_energy (hs : ∀ v w, G.adj v w = G.adj w v) (y : Fin n → ℝ) :
    2 * ∑ w, y w * lapR G y w = ∑ w, ∑ v, (G.adj w v : ℝ) * (y w - y v) ^ 2 := by
  have h1 : ∑ w, y w * lapR G y w = ∑ w, ∑ v, (G.adj w v : ℝ) * (y w * (y w - y v)) := by
    apply Finset.sum_congr rfl; intro w _
    unfold lapR; rw [Finset.mul_sum]
    apply Finset.sum_congr rfl; intro v _; ring
  have h2 : ∑ w, ∑ v, (G.adj w v : ℝ) * (y w * (y w - y v)) = ∑ w, ∑ v, (G.adj w v : ℝ) * (y v * (y v - y w)) := by
    rw [Finset.sum_comm]
    apply Finset.sum_congr rfl; intro w _
    apply Finset.sum_congr rfl; intro v _
    rw [hs v w]
  have h3 : 2 * ∑ w, y w * lapR G y w
      = ∑ w, ∑ v, (G.adj w v : ℝ) * (y w * (y w - y v)) + ∑ w, ∑ v, (G.adj w v : ℝ) * (y v * (y v - y w)) := by
    rw [two_mul]
    exact congrArg₂ (· + ·) h1 (h1.trans h2)
  rw [h3, ← Finset.sum_add_distrib]
  apply Finset.sum_congr rfl; intro w _
  rw [← Finset.sum_add_distrib]
  apply Finset.sum_congr rfl; intro v _
  ring

/-- equal across every edge ⇒ constant, on a connected graph -/
theorem const_of_edge_eq (hs : ∀ v w, G.adj v w = G.adj w v) (hc : G.Connected) (y : Fin n → ℝ)
    (h : ∀ v w, 0 < G.adj v w → y v = y w) : ∀ v, y v = y q := by
  obtain ⟨rk, -, hrk⟩ := hc q
  have hall : ∀ k v, rk v = k → y v = y q := by
    intro k
    induction k using Nat.strong_induction_on with
    | _ k ih =>
      intro v hv
      by_cases hvq : v = q
      · rw [hvq]
      · obtain ⟨w, hw, hlt⟩ := hrk v hvq
        rw [h v w hw]
        exact ih (rk w) (by omega) w rfl
  exact fun v => hall _ v rfl

theorem redLap_posDef (hG : G.WF) (hc : G.Connected) :
    ((redLap G q).map (Int.cast : ℤ → ℝ)).PosDef := by
  apply Matrix.PosDef.of_dotProduct_mulVec_pos
  · -- symmetric
    ext v w
    simp only [Matrix.conjTranspose_apply, Matrix.map_apply, star_trivial, redLap]
    by_cases h : v = w
    · subst h; simp
    · have h' : ¬ w = v := fun e => h e.symm
      simp [h, h', hG.symm w.1 v.1]
  · intro x hx
    simp only [star_trivial]
    have hq : x ⬝ᵥ ((redLap G q).map (Int.cast : ℤ → ℝ)).mulVec x = ∑ w, extR q x w * lapR G (extR q x) w := by
      rw [sum_split q (fun w => extR q x w * lapR G (extR q x) w), extR_q, zero_mul, zero_add]
      unfold dotProduct
      apply Finset.sum_congr rfl; intro v _
      rw [redLapR_mulVec G q hG.loopless x v, extR_off]
    rw [hq]
    have h2 := two_mul_energy G hG.symm (extR q x)
    have hnn : ∀ w ∈ (univ : Finset (Fin n)), 0 ≤ ∑ v, (G.adj w v : ℝ) * (extR q x w - extR q x v) ^ 2 :=
      fun w _ => Finset.sum_nonneg fun v _ => mul_nonneg (by positivity) (sq_nonneg _)
    have hge : 0 ≤ ∑ w, ∑ v, (G.adj w v : ℝ) * (extR q x w - extR q x v) ^ 2 := Finset.sum_nonneg hnn
    rcases hge.lt_or_eq with hpos | hzero
    · linarith
    · exfalso
      apply hx
      have hedge : ∀ v w, 0 < G.adj v w → extR q x v = extR q x w := by
        intro v w hvw
        have h3 := (Finset.sum_eq_zero_iff_of_nonneg hnn).mp hzero.symm v (mem_univ v)
        have h4 := (Finset.sum_eq_zero_iff_of_nonneg (fun u _ => mul_nonneg (by positivity) (sq_nonneg _))).mp h3 w (mem_univ w)
        have h5 : (0:ℝ) < (G.adj v w : ℝ) := by exact_mod_cast hvw
        have h6 : (extR q x v - extR q x w) ^ 2 = 0 := by
          rcases mul_eq_zero.mp h4 with h7 | h7
          · linarith
          · exact h7
        have := pow_eq_zero_iff (two_ne_zero) |>.mp h6
        linarith
      have hconst := const_of_edge_eq G q hG.symm hc (extR q x) hedge
      funext v
      have := hconst v.1
      rw [extR_off, extR_q] at this
      exact this

/-- the determinant of the reduced Laplacian of a connected multigraph is positive -/
theorem redLap_det_pos (hG : G.WF) (hc : G.Connected) : 0 < (redLap G q).det := by
  have h := (redLap_posDef G q hG hc).det_pos
  rw [← Int.cast_det] at h
  exact_mod_cast h

/-- matrix-tree without the absolute value -/
theorem card_superstable_eq_det' (hG : G.WF) (hc : G.Connected) (hn : 0 < n) :
    (Nat.card {c : Off q → Int // Superstable G q c} : Int) = (redLap G q).det := by
  rw [card_superstable_eq_det G q hG hc hn]
  exact Int.natAbs_of_nonneg (le_of_lt (redLap_det_pos G q hG hc))

end CF
