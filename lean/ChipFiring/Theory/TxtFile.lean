import ChipFiring.Model.TxtFile
import ChipFiring.Theory.Txt
/-
  The TXT file layer round-trips: what `to_txt` writes for names/edges/records the format can
  represent is read back by `read_txt` as exactly those names, edges and records.
-/
namespace CF.Txt

-- ---------------------------------------------------------------- int()

theorem pyNatGo_digits (l : Str) (hl : ∀ c ∈ l, c.isDigit = true) (acc : Nat) (last : Bool)
    (h : l ≠ [] ∨ last = true) : pyNatGo l acc last = some (Nat.ofDigitChars 10 l acc) := by
  induction l generalizing acc last with
  | nil =>
    rcases h with h | h
    · exact absurd rfl h
    · simp [pyNatGo, h, Nat.ofDigitChars_nil]
  | cons c cs ih =>
    have hc := hl c List.mem_cons_self
    rw [pyNatGo, if_pos hc, ih (fun x hx => hl x (List.mem_cons_of_mem _ hx)) _ true (Or.inr rfl),
      Nat.ofDigitChars_cons]

theorem pyNat_repr (n : Nat) : pyNatGo (Nat.repr n).toList 0 false = some n := by
  rw [Nat.toList_repr, pyNatGo_digits _ (fun c hc => Nat.isDigit_of_mem_toDigits (by omega) (by omega) hc) 0 false
    (Or.inl Nat.toDigits_ne_nil), Nat.ofDigitChars_ten_toDigits]

/-- `int(str(k)) == k` for the model of `int()` -/
theorem pyInt_repr (k : Int) : pyInt? k.repr.toList = some k := by
  rw [Int.repr_eq_if]
  split
  · rename_i h
    have hd := pyNat_repr k.toNat
    have hne : (Nat.repr k.toNat).toList ≠ [] := by rw [Nat.toList_repr]; exact Nat.toDigits_ne_nil
    match hL : (Nat.repr k.toNat).toList with
    | [] => exact absurd hL hne
    | c :: r =>
      have hc : c.isDigit = true := by
        have : c ∈ Nat.toDigits 10 k.toNat := by rw [← Nat.toList_repr, hL]; exact List.mem_cons_self
        exact Nat.isDigit_of_mem_toDigits (by omega) (by omega) this
      have h1 : c ≠ '-' := by rintro rfl; exact absurd hc (by decide)
      have h2 : c ≠ '+' := by rintro rfl; exact absurd hc (by decide)
      rw [hL] at hd
      simp only [pyInt?, h1, h2, if_false, hd, Option.map_some]
      exact congrArg some (Int.toNat_of_nonneg h)
  · rename_i h
    have hd := pyNat_repr (-k).toNat
    have : ("-" ++ (Nat.repr (-k).toNat)).toList = '-' :: (Nat.repr (-k).toNat).toList := by simp
    rw [this]
    simp only [pyInt?, if_true, hd, Option.map_some]
    have h3 : ((-k).toNat : Int) = -k := Int.toNat_of_nonneg (by omega)
    refine congrArg some ?_
    show -((-k).toNat : Int) = k
    omega

-- ---------------------------------------------------------------- lines

theorem normNL_id (s : Str) (h : '\r' ∉ s) : normNL false s = s := by
  induction s with
  | nil => rfl
  | cons c cs ih =>
    have hc : c ≠ '\r' := fun e => h (e ▸ List.mem_cons_self)
    have := ih (fun hm => h (List.mem_cons_of_mem _ hm))
    by_cases hn : c = '\n'
    · simp [normNL, hn, this]
    · simp [normNL, hc, hn, this]

theorem mem_writeText (ls : List Str) (x : Char) (hx : x ∈ writeText ls) : x = '\n' ∨ ∃ l ∈ ls, x ∈ l := by
  induction ls with
  | nil => simp [writeText] at hx
  | cons l ls ih =>
    simp only [writeText, List.mem_append, List.mem_cons] at hx
    rcases hx with h | h | h
    · exact Or.inr ⟨l, List.mem_cons_self, h⟩
    · exact Or.inl h
    · rcases ih h with h | ⟨m, hm, hxm⟩
      · exact Or.inl h
      · exact Or.inr ⟨m, List.mem_cons_of_mem _ hm, hxm⟩

theorem splitOn_writeText (ls : List Str) (h : ∀ l ∈ ls, '\n' ∉ l) :
    splitOn '\n' (writeText ls) = ls ++ [[]] := by
  induction ls with
  | nil => simp [writeText, splitOn]
  | cons l ls ih =>
    rw [writeText, splitOn_append '\n' l _ (fun c hc e => h l List.mem_cons_self (e ▸ hc)),
      ih (fun m hm => h m (List.mem_cons_of_mem _ hm))]
    rfl

theorem stripPy_nil : stripPy [] = [] := rfl

/-- reading back what was written: the lines, each stripped -/
theorem readLines_writeText (ls : List Str) (hn : ∀ l ∈ ls, '\n' ∉ l) (hr : ∀ l ∈ ls, '\r' ∉ l)
    (hne : ∀ l ∈ ls, stripPy l ≠ []) : readLines (writeText ls) = ls.map stripPy := by
  have hcr : '\r' ∉ writeText ls := by
    intro hm
    rcases mem_writeText ls _ hm with h | ⟨l, hl, hx⟩
    · exact absurd h (by decide)
    · exact hr l hl hx
  unfold readLines
  rw [normNL_id _ hcr, splitOn_writeText ls hn, List.map_append, List.filter_append]
  have h1 : (ls.map stripPy).filter (fun l => !l.isEmpty) = ls.map stripPy := by
    apply List.filter_eq_self.mpr
    intro l hl
    obtain ⟨m, hm, rfl⟩ := List.mem_map.mp hl
    have := hne m hm
    cases hs : stripPy m with
    | nil => exact absurd hs this
    | cons _ _ => rfl
  rw [h1]
  simp [stripPy_nil]

/-- the same lines written with `\r\n` line ends (a file that went through another platform's text
    mode): text-mode reading sees the same text -/
def writeTextCRLF : List Str → Str
  | [] => []
  | l :: ls => l ++ '\r' :: '\n' :: writeTextCRLF ls

theorem normNL_append_plain (l rest : Str) (b : Bool) (hr : '\r' ∉ l) (hn : '\n' ∉ l) (hne : l ≠ []) :
    normNL b (l ++ rest) = l ++ normNL false rest := by
  induction l generalizing b with
  | nil => exact absurd rfl hne
  | cons c cs ih =>
    have hc1 : c ≠ '\r' := fun e => hr (e ▸ List.mem_cons_self)
    have hc2 : c ≠ '\n' := fun e => hn (e ▸ List.mem_cons_self)
    cases cs with
    | nil => simp [normNL, hc1, hc2]
    | cons d ds =>
      have := ih false (fun hm => hr (List.mem_cons_of_mem _ hm)) (fun hm => hn (List.mem_cons_of_mem _ hm)) (by simp)
      simp only [List.cons_append, normNL, hc1, hc2, if_false] at this ⊢
      rw [this]

theorem normNL_crlf (ls : List Str) (hn : ∀ l ∈ ls, '\n' ∉ l) (hr : ∀ l ∈ ls, '\r' ∉ l) :
    normNL false (writeTextCRLF ls) = writeText ls := by
  induction ls with
  | nil => rfl
  | cons l ls ih =>
    have ih' := ih (fun m hm => hn m (List.mem_cons_of_mem _ hm)) (fun m hm => hr m (List.mem_cons_of_mem _ hm))
    have tail : normNL false ('\r' :: '\n' :: writeTextCRLF ls) = '\n' :: writeText ls := by
      simp [normNL, ih']
    by_cases hl : l = []
    · subst hl
      simpa [writeTextCRLF, writeText] using tail
    · rw [writeTextCRLF, writeText, normNL_append_plain l _ false (hr l List.mem_cons_self) (hn l List.mem_cons_self) hl, tail]

/-- … so a file rewritten with `\r\n` line ends reads back as the same lines -/
theorem readLines_crlf (ls : List Str) (hn : ∀ l ∈ ls, '\n' ∉ l) (hr : ∀ l ∈ ls, '\r' ∉ l) :
    readLines (writeTextCRLF ls) = readLines (writeText ls) := by
  have hcr : '\r' ∉ writeText ls := by
    intro hm
    rcases mem_writeText ls _ hm with h | ⟨l, hl, hx⟩
    · exact absurd h (by decide)
    · exact hr l hl hx
  unfold readLines
  rw [normNL_crlf ls hn hr, normNL_id _ hcr]

-- ---------------------------------------------------------------- strip() on written lines

/-- nothing for `strip()` to remove at either end, and something there -/
def Fixed (s : Str) : Prop := s ≠ [] ∧ s.dropWhile isSpacePy = s ∧ s.reverse.dropWhile isSpacePy = s.reverse

theorem Fixed.strip {s : Str} (h : Fixed s) : stripPy s = s := by
  unfold stripPy
  rw [h.2.1, h.2.2, List.reverse_reverse]

theorem fixed_of_strip {f : Str} (h : stripPy f = f) (hne : f ≠ []) : Fixed f := by
  refine ⟨hne, dropWhile_of_strip_fixed f h, ?_⟩
  have h2 := h
  unfold stripPy at h2
  rw [dropWhile_of_strip_fixed f h] at h2
  have := congrArg List.reverse h2
  rwa [List.reverse_reverse] at this

theorem dropWhile_append_of_fixed (a b : Str) (ha : a ≠ []) (h : a.dropWhile isSpacePy = a) :
    (a ++ b).dropWhile isSpacePy = a ++ b := by
  cases a with
  | nil => exact absurd rfl ha
  | cons c cs =>
    by_cases hc : isSpacePy c = true
    · exfalso
      have : ((c :: cs).dropWhile isSpacePy).length ≤ cs.length := by
        simp only [List.dropWhile_cons, hc, if_true]
        exact List.length_dropWhile_le _ _
      rw [h] at this
      simp at this
    · simp [List.dropWhile_cons, hc]

theorem Fixed.append {x y : Str} (m : Str) (hx : Fixed x) (hy : Fixed y) : Fixed (x ++ m ++ y) := by
  refine ⟨by simp [hx.1], ?_, ?_⟩
  · rw [List.append_assoc]
    exact dropWhile_append_of_fixed x _ hx.1 hx.2.1
  · rw [List.reverse_append, List.reverse_append]
    exact dropWhile_append_of_fixed y.reverse _ (by simp [hy.1]) hy.2.2

theorem fixed_joinFields (fs : List Str) (hne : fs ≠ []) (h : ∀ f ∈ fs, Fixed f) : Fixed (joinFields fs) := by
  induction fs with
  | nil => exact absurd rfl hne
  | cons f rest ih =>
    cases rest with
    | nil => simpa [joinFields] using h f List.mem_cons_self
    | cons g gs =>
      have := ih (by simp) (fun x hx => h x (List.mem_cons_of_mem _ hx))
      simp only [joinFields]
      exact Fixed.append _ (h f List.mem_cons_self) this

/-- a written record line `P ++ " " ++ ", ".join(fields)` is left alone by `strip()` -/
theorem fixed_line (P : Str) (hP : Fixed P) (fs : List Str) (hne : fs ≠ []) (h : ∀ f ∈ fs, Fixed f) :
    Fixed (P ++ ' ' :: joinFields fs) := by
  have := Fixed.append [' '] hP (fixed_joinFields fs hne h)
  simpa using this

theorem mem_joinFields (x : Char) (fs : List Str) (hx : x ∈ joinFields fs) :
    x = ',' ∨ x = ' ' ∨ ∃ f ∈ fs, x ∈ f := by
  induction fs with
  | nil => simp [joinFields] at hx
  | cons f rest ih =>
    cases rest with
    | nil => exact Or.inr (Or.inr ⟨f, List.mem_cons_self, by simpa [joinFields] using hx⟩)
    | cons g gs =>
      simp only [joinFields, List.mem_append, List.mem_cons, List.not_mem_nil, or_false] at hx
      rcases hx with (h | h | h) | h
      · exact Or.inr (Or.inr ⟨f, List.mem_cons_self, h⟩)
      · exact Or.inl h
      · exact Or.inr (Or.inl h)
      · rcases ih h with h | h | ⟨m, hm, hxm⟩
        · exact Or.inl h
        · exact Or.inr (Or.inl h)
        · exact Or.inr (Or.inr ⟨m, List.mem_cons_of_mem _ hm, hxm⟩)

-- ---------------------------------------------------------------- representable names

structure NameOK (f : Str) : Prop where
  ne : f ≠ []
  clean : cleanField f = true
  colon : ':' ∉ f
  nl : '\n' ∉ f
  cr : '\r' ∉ f

theorem nameOK_iff (f : Str) : nameOK f = true ↔ NameOK f := by
  unfold nameOK
  simp only [Bool.and_eq_true, Bool.not_eq_true', List.isEmpty_eq_false_iff]
  constructor
  · rintro ⟨⟨⟨⟨h1, h2⟩, h3⟩, h4⟩, h5⟩
    exact ⟨h1, h2, fun hm => by simp at h3; exact h3 hm,
      fun hm => by simp at h4; exact h4 hm, fun hm => by simp at h5; exact h5 hm⟩
  · intro h
    refine ⟨⟨⟨⟨h.ne, h.clean⟩, ?_⟩, ?_⟩, ?_⟩
    · cases hc : f.contains ':' with
      | false => rfl
      | true => exact absurd (List.contains_iff_mem.mp hc) h.colon
    · cases hc : f.contains '\n' with
      | false => rfl
      | true => exact absurd (List.contains_iff_mem.mp hc) h.nl
    · cases hc : f.contains '\r' with
      | false => rfl
      | true => exact absurd (List.contains_iff_mem.mp hc) h.cr

theorem NameOK.fixed {f : Str} (h : NameOK f) : Fixed f := by
  have := h.clean
  simp only [cleanField, Bool.and_eq_true, Bool.not_eq_true', beq_iff_eq] at this
  exact fixed_of_strip this.2 h.ne

theorem intOK (k : Int) : NameOK k.repr.toList := by
  have hch := chars_of_repr k
  refine ⟨?_, int_field_clean k, ?_, ?_, ?_⟩
  · have := pyInt_repr k
    intro h
    rw [h] at this
    simp [pyInt?] at this
  all_goals
    intro hm
    rcases hch _ hm with h | h
    · exact absurd h (by decide)
    · exact absurd h (by decide)

-- ---------------------------------------------------------------- record lines

theorem isPrefixOf_append (P rest : Str) : P.isPrefixOf (P ++ rest) = true :=
  List.isPrefixOf_iff_prefix.mpr (List.prefix_append P rest)

theorem clean_of_ok {fs : List Str} (h : ∀ f ∈ fs, NameOK f) : ∀ f ∈ fs, cleanField f = true :=
  fun f hf => (h f hf).clean
theorem colon_of_ok {fs : List Str} (h : ∀ f ∈ fs, NameOK f) : ∀ f ∈ fs, ':' ∉ f :=
  fun f hf => (h f hf).colon

/-- the fields of a written record line -/
theorem recFields_line (P : Str) (hP : ':' ∈ P) (fs : List Str) (hne : fs ≠ []) (h : ∀ f ∈ fs, NameOK f) :
    recFields P (P ++ ' ' :: joinFields fs) = fs :=
  line_roundtrip P hP fs hne (clean_of_ok h) (colon_of_ok h)

/-- the names line: written names come back; the empty list is the bare prefix after `strip()` -/
theorem nameFields_line (P : Str) (hP : ':' ∈ P) (fs : List Str) (hne : fs ≠ []) (h : ∀ f ∈ fs, NameOK f) :
    nameFields P (P ++ ' ' :: joinFields fs) = fs := by
  have hrec := recFields_line P hP fs hne h
  unfold recFields at hrec
  unfold nameFields
  have hPne : P ≠ [] := List.ne_nil_of_mem hP
  have hrest : ':' ∉ (' ' :: joinFields fs) := by
    intro hm
    rcases List.mem_cons.mp hm with hm | hm
    · exact absurd hm (by decide)
    · exact not_mem_joinFields ':' (by decide) (by decide) fs (colon_of_ok h) hm
  have hrem := removeAll_prefix P _ hPne ':' hP hrest
  have hJ : Fixed (joinFields fs) := fixed_joinFields fs hne (fun f hf => (h f hf).fixed)
  have hs : stripPy (' ' :: joinFields fs) = joinFields fs := strip_space_cons _ hJ.strip
  simp only [hrem, hs]
  rw [hrem] at hrec
  cases hj : joinFields fs with
  | nil => exact absurd hj hJ.1
  | cons c cs => simpa [hj] using hrec

theorem nameFields_bare (P : Str) (hP : P ≠ []) : nameFields P P = [] := by
  have : removeAll P P = [] := by
    cases hPc : P with
    | nil => exact absurd hPc hP
    | cons c cs =>
      rw [removeAll, if_pos ⟨by simp, by simp⟩]
      simp [removeAll]
  simp [nameFields, this, stripPy_nil]

theorem edge_fields_ok (e : Edge) (he : NameOK e.1 ∧ NameOK e.2.1) :
    ∀ f ∈ [e.1, e.2.1, e.2.2.repr.toList], NameOK f := by
  intro f hf
  simp only [List.mem_cons, List.not_mem_nil, or_false] at hf
  rcases hf with rfl | rfl | rfl
  · exact he.1
  · exact he.2
  · exact intOK _

theorem edgeRec_line (P : Str) (hP : ':' ∈ P) (e : Edge) (he : NameOK e.1 ∧ NameOK e.2.1) (es : List Edge) :
    edgeRec P (edgeLine P e) es = some (es ++ [e]) := by
  unfold edgeRec edgeLine
  rw [recFields_line P hP _ (by simp) (edge_fields_ok e he)]
  simp [pyInt_repr]

-- ---------------------------------------------------------------- folds

theorem foldM?_append {σ α : Type} (f : σ → α → Option σ) (s s' : σ) (l m : List α)
    (h : foldM? f s l = some s') : foldM? f s (l ++ m) = foldM? f s' m := by
  induction l generalizing s with
  | nil => simp only [foldM?, Option.some.injEq] at h; subst h; rfl
  | cons a as ih =>
    simp only [foldM?, List.cons_append] at h ⊢
    cases hf : f s a with
    | none => simp [hf] at h
    | some t => simp only [hf] at h ⊢; exact ih t h

theorem foldM?_map {σ α β : Type} (f : σ → α → Option σ) (g : β → α) (upd : σ → β → σ) (l : List β)
    (hstep : ∀ s b, b ∈ l → f s (g b) = some (upd s b)) (s : σ) :
    foldM? f s (l.map g) = some (l.foldl upd s) := by
  induction l generalizing s with
  | nil => rfl
  | cons b bs ih =>
    simp only [List.map_cons, foldM?, hstep s b List.mem_cons_self, List.foldl_cons]
    exact ih (fun s b hb => hstep s b (List.mem_cons_of_mem _ hb)) _

-- ---------------------------------------------------------------- what is written survives the line layer

theorem fixedP_VERTICES : Fixed pVERTICES := by refine ⟨by decide, by decide, by decide⟩
theorem fixedP_EDGE : Fixed pEDGE := by refine ⟨by decide, by decide, by decide⟩
theorem fixedP_GVERTICES : Fixed pGVERTICES := by refine ⟨by decide, by decide, by decide⟩
theorem fixedP_GEDGE : Fixed pGEDGE := by refine ⟨by decide, by decide, by decide⟩
theorem fixedP_DEGREE : Fixed pDEGREE := by refine ⟨by decide, by decide, by decide⟩
theorem fixedP_ORIENTED : Fixed pORIENTED := by refine ⟨by decide, by decide, by decide⟩
theorem fixedP_FIRING : Fixed pFIRING := by refine ⟨by decide, by decide, by decide⟩

/-- a prefix made of capital letters, `_`, `-` and `:` (all ten prefixes and markers) -/
def plainP (P : Str) : Prop := ∀ c ∈ P, c ≠ '\n' ∧ c ≠ '\r'

theorem line_no_breaks (P : Str) (hP : plainP P) (fs : List Str) (h : ∀ f ∈ fs, NameOK f) :
    '\n' ∉ (P ++ ' ' :: joinFields fs) ∧ '\r' ∉ (P ++ ' ' :: joinFields fs) := by
  constructor
  · intro hm
    rcases List.mem_append.mp hm with hm | hm
    · exact (hP _ hm).1 rfl
    · rcases List.mem_cons.mp hm with hm | hm
      · exact absurd hm (by decide)
      · rcases mem_joinFields _ fs hm with h1 | h1 | ⟨f, hf, hx⟩
        · exact absurd h1 (by decide)
        · exact absurd h1 (by decide)
        · exact (h f hf).nl hx
  · intro hm
    rcases List.mem_append.mp hm with hm | hm
    · exact (hP _ hm).2 rfl
    · rcases List.mem_cons.mp hm with hm | hm
      · exact absurd hm (by decide)
      · rcases mem_joinFields _ fs hm with h1 | h1 | ⟨f, hf, hx⟩
        · exact absurd h1 (by decide)
        · exact absurd h1 (by decide)
        · exact (h f hf).cr hx

/-- `strip()` of the names line: unchanged, or the bare prefix when there are no names -/
def namesLineRead (P : Str) (names : List Str) : Str := if names = [] then P else P ++ ' ' :: joinFields names

theorem strip_namesLine (P : Str) (hP : Fixed P) (names : List Str) (h : ∀ f ∈ names, NameOK f) :
    stripPy (P ++ ' ' :: joinFields names) = namesLineRead P names := by
  unfold namesLineRead
  split
  · rename_i hn
    subst hn
    simp only [joinFields]
    unfold stripPy
    rw [dropWhile_append_of_fixed P _ hP.1 hP.2.1]
    have : (P ++ [' ']).reverse = ' ' :: P.reverse := by simp
    rw [this, List.dropWhile_cons, if_pos (by decide), hP.2.2, List.reverse_reverse]
  · rename_i hn
    exact (fixed_line P hP names hn (fun f hf => (h f hf).fixed)).strip

theorem nameFields_read (P : Str) (hPc : ':' ∈ P) (names : List Str) (h : ∀ f ∈ names, NameOK f) :
    nameFields P (namesLineRead P names) = names := by
  unfold namesLineRead
  split
  · rename_i hn; subst hn; exact nameFields_bare P (List.ne_nil_of_mem hPc)
  · rename_i hn; exact nameFields_line P hPc names hn h

theorem isPrefixOf_namesLineRead (P : Str) (names : List Str) : P.isPrefixOf (namesLineRead P names) = true := by
  unfold namesLineRead
  split
  · simpa using isPrefixOf_append P []
  · exact isPrefixOf_append P _

-- ---------------------------------------------------------------- graph files

theorem plain_of_dec (P : Str) (h : (P.all fun c => c != '\n' && c != '\r') = true) : plainP P := by
  intro c hc
  have := List.all_eq_true.mp h c hc
  simp only [Bool.and_eq_true, bne_iff_ne, ne_eq] at this
  exact this

theorem edgeLine_ok (P : Str) (hF : Fixed P) (hpl : plainP P) (e : Edge) (he : NameOK e.1 ∧ NameOK e.2.1) :
    '\n' ∉ edgeLine P e ∧ '\r' ∉ edgeLine P e ∧ stripPy (edgeLine P e) = edgeLine P e ∧ edgeLine P e ≠ [] := by
  have hok := edge_fields_ok e he
  have hfx := fixed_line P hF _ (by simp) (fun f hf => (hok f hf).fixed)
  obtain ⟨h1, h2⟩ := line_no_breaks P hpl _ hok
  exact ⟨h1, h2, hfx.strip, hfx.1⟩

theorem namesLine_ok (P : Str) (hF : Fixed P) (hpl : plainP P) (names : List Str) (h : ∀ f ∈ names, NameOK f) :
    '\n' ∉ (P ++ ' ' :: joinFields names) ∧ '\r' ∉ (P ++ ' ' :: joinFields names) ∧
    stripPy (P ++ ' ' :: joinFields names) ≠ [] := by
  obtain ⟨h1, h2⟩ := line_no_breaks P hpl names h
  refine ⟨h1, h2, ?_⟩
  rw [strip_namesLine P hF names h]
  unfold namesLineRead
  split
  · exact hF.1
  · simp [hF.1]

theorem foldl_snoc_edges (edges : List Edge) (st : GraphFile) :
    edges.foldl (fun st e => { st with edges := st.edges ++ [e] }) st = { st with edges := st.edges ++ edges } := by
  induction edges generalizing st with
  | nil => simp
  | cons e es ih => simp [List.foldl_cons, ih]

/-- **graph files round-trip**: the text `to_txt` writes for a graph whose vertex names the format
    can represent is read back by `read_txt` as exactly the names and the edge records (any number
    of vertices, including none; any multiplicities; any order of the lists) -/
theorem readGraph_writeGraph (names : List Str) (edges : List Edge)
    (hn : ∀ f ∈ names, NameOK f) (he : ∀ e ∈ edges, NameOK e.1 ∧ NameOK e.2.1) :
    readGraph (writeText (writeGraph names edges)) = some (names, edges) := by
  have hplV : plainP pVERTICES := plain_of_dec _ (by decide)
  have hplE : plainP pEDGE := plain_of_dec _ (by decide)
  have hN := namesLine_ok pVERTICES fixedP_VERTICES hplV names hn
  have hlines : readLines (writeText (writeGraph names edges)) =
      namesLineRead pVERTICES names :: edges.map (edgeLine pEDGE) := by
    rw [readLines_writeText]
    · simp only [writeGraph, List.map_cons, List.map_map, strip_namesLine pVERTICES fixedP_VERTICES names hn]
      congr 1
      apply List.map_congr_left
      intro e hem
      exact (edgeLine_ok pEDGE fixedP_EDGE hplE e (he e hem)).2.2.1
    · intro l hl
      rcases List.mem_cons.mp hl with rfl | hl
      · exact hN.1
      · obtain ⟨e, hem, rfl⟩ := List.mem_map.mp hl
        exact (edgeLine_ok pEDGE fixedP_EDGE hplE e (he e hem)).1
    · intro l hl
      rcases List.mem_cons.mp hl with rfl | hl
      · exact hN.2.1
      · obtain ⟨e, hem, rfl⟩ := List.mem_map.mp hl
        exact (edgeLine_ok pEDGE fixedP_EDGE hplE e (he e hem)).2.1
    · intro l hl
      rcases List.mem_cons.mp hl with rfl | hl
      · exact hN.2.2
      · obtain ⟨e, hem, rfl⟩ := List.mem_map.mp hl
        have := edgeLine_ok pEDGE fixedP_EDGE hplE e (he e hem)
        rw [this.2.2.1]; exact this.2.2.2
  have hstep : ∀ (st : GraphFile) (e : Edge), e ∈ edges →
      graphStep st (edgeLine pEDGE e) = some { st with edges := st.edges ++ [e] } := by
    intro st e hem
    have h1 : pVERTICES.isPrefixOf (edgeLine pEDGE e) = false := rfl
    have h2 : pEDGE.isPrefixOf (edgeLine pEDGE e) = true := isPrefixOf_append pEDGE _
    simp only [graphStep, h1, h2, Bool.false_eq_true, if_false, if_true,
      edgeRec_line pEDGE (by decide) e (he e hem), Option.map_some]
  unfold readGraph
  rw [hlines]
  simp only [foldM?, graphStep, isPrefixOf_namesLineRead, if_true,
    nameFields_read pVERTICES (by decide) names hn]
  rw [foldM?_map graphStep (edgeLine pEDGE) (fun st e => { st with edges := st.edges ++ [e] }) edges hstep,
    foldl_snoc_edges]
  simp

-- ---------------------------------------------------------------- files with a section

/-- what a record prefix / section marker must satisfy (checked by evaluation for the three kinds) -/
structure SecOK (marker P : Str) : Prop where
  colon : ':' ∈ P
  fixedP : Fixed P
  plP : plainP P
  fixedM : Fixed marker
  plM : plainP marker
  notGV : ∀ r, pGVERTICES.isPrefixOf (P ++ r) = false
  notGE : ∀ r, pGEDGE.isPrefixOf (P ++ r) = false
  notM : ∀ r, P ++ r ≠ marker
  mGV : pGVERTICES.isPrefixOf marker = false
  mGE : pGEDGE.isPrefixOf marker = false

theorem foldl_snoc_edges' {β : Type} (edges : List Edge) (st : SecFile β) :
    edges.foldl (fun st e => { st with edges := st.edges ++ [e] }) st = { st with edges := st.edges ++ edges } := by
  induction edges generalizing st with
  | nil => simp
  | cons e es ih => simp [List.foldl_cons, ih]

theorem foldl_recs {β : Type} (add : List β → β → List β) (recs : List β) (st : SecFile β) :
    recs.foldl (fun st r => { st with recs := add st.recs r }) st = { st with recs := recs.foldl add st.recs } := by
  induction recs generalizing st with
  | nil => simp
  | cons e es ih => simp [List.foldl_cons, ih]

/-- **sectioned files round-trip** (divisor, orientation, firing script): header, marker, records
    written by `to_txt` are read back as the names, the edge records and the records folded with the
    reader's `add` -/
theorem readSec_write {β : Type} (marker P : Str) (hS : SecOK marker P)
    (mk : Str → Str → Option β) (add : List β → β → List β) (flds : β → Str × Str)
    (names : List Str) (edges : List Edge) (recs : List β)
    (hn : ∀ f ∈ names, NameOK f) (he : ∀ e ∈ edges, NameOK e.1 ∧ NameOK e.2.1)
    (hr : ∀ r ∈ recs, NameOK (flds r).1 ∧ NameOK (flds r).2 ∧ mk (flds r).1 (flds r).2 = some r) :
    readSec marker P mk add (writeText (header names edges ++
      marker :: recs.map fun r => P ++ ' ' :: joinFields [(flds r).1, (flds r).2])) =
      some (names, edges, recs.foldl add []) := by
  have hplV : plainP pGVERTICES := plain_of_dec _ (by decide)
  have hplE : plainP pGEDGE := plain_of_dec _ (by decide)
  have hN := namesLine_ok pGVERTICES fixedP_GVERTICES hplV names hn
  let recLine : β → Str := fun r => P ++ ' ' :: joinFields [(flds r).1, (flds r).2]
  have hfl : ∀ r ∈ recs, ∀ f ∈ [(flds r).1, (flds r).2], NameOK f := by
    intro r hrm f hf
    simp only [List.mem_cons, List.not_mem_nil, or_false] at hf
    rcases hf with rfl | rfl
    · exact (hr r hrm).1
    · exact (hr r hrm).2.1
  have hrec : ∀ r ∈ recs, '\n' ∉ recLine r ∧ '\r' ∉ recLine r ∧ stripPy (recLine r) = recLine r ∧ recLine r ≠ [] := by
    intro r hrm
    have hfx := fixed_line P hS.fixedP _ (by simp) (fun f hf => (hfl r hrm f hf).fixed)
    obtain ⟨h1, h2⟩ := line_no_breaks P hS.plP _ (hfl r hrm)
    exact ⟨h1, h2, hfx.strip, hfx.1⟩
  have hlines : readLines (writeText (header names edges ++ marker :: recs.map recLine)) =
      (namesLineRead pGVERTICES names :: edges.map (edgeLine pGEDGE)) ++ marker :: recs.map recLine := by
    rw [readLines_writeText]
    · have e1 : edges.map (stripPy ∘ edgeLine pGEDGE) = edges.map (edgeLine pGEDGE) := by
        apply List.map_congr_left
        intro e hem
        exact (edgeLine_ok pGEDGE fixedP_GEDGE hplE e (he e hem)).2.2.1
      have e2 : recs.map (stripPy ∘ recLine) = recs.map recLine := by
        apply List.map_congr_left
        intro r hrm
        exact (hrec r hrm).2.2.1
      simp only [header, List.map_cons, List.map_append, List.map_map, List.cons_append,
        strip_namesLine pGVERTICES fixedP_GVERTICES names hn, hS.fixedM.strip, e1, e2]
    all_goals
      intro l hl
      simp only [header, List.cons_append, List.mem_cons, List.mem_append, List.mem_map] at hl
      rcases hl with rfl | ⟨e, hem, rfl⟩ | rfl | ⟨r, hrm, rfl⟩
    · exact hN.1
    · exact (edgeLine_ok pGEDGE fixedP_GEDGE hplE e (he e hem)).1
    · exact fun hm => (hS.plM _ hm).1 rfl
    · exact (hrec r hrm).1
    · exact hN.2.1
    · exact (edgeLine_ok pGEDGE fixedP_GEDGE hplE e (he e hem)).2.1
    · exact fun hm => (hS.plM _ hm).2 rfl
    · exact (hrec r hrm).2.1
    · exact hN.2.2
    · have := edgeLine_ok pGEDGE fixedP_GEDGE hplE e (he e hem)
      rw [this.2.2.1]; exact this.2.2.2
    · rw [hS.fixedM.strip]; exact hS.fixedM.1
    · rw [(hrec r hrm).2.2.1]; exact (hrec r hrm).2.2.2
  have hstepE : ∀ (st : SecFile β) (e : Edge), e ∈ edges →
      secStep marker P mk add st (edgeLine pGEDGE e) = some { st with edges := st.edges ++ [e] } := by
    intro st e hem
    have h1 : pGVERTICES.isPrefixOf (edgeLine pGEDGE e) = false := rfl
    have h2 : pGEDGE.isPrefixOf (edgeLine pGEDGE e) = true := isPrefixOf_append pGEDGE _
    simp only [secStep, h1, h2, Bool.false_eq_true, if_false, if_true,
      edgeRec_line pGEDGE (by decide) e (he e hem), Option.map_some]
  have hstepR : ∀ (st : SecFile β) (r : β), r ∈ recs → st.parsing = true →
      secStep marker P mk add st (recLine r) = some { st with recs := add st.recs r } := by
    intro st r hrm hp
    have h1 : pGVERTICES.isPrefixOf (recLine r) = false := hS.notGV _
    have h2 : pGEDGE.isPrefixOf (recLine r) = false := hS.notGE _
    have h3 : recLine r ≠ marker := hS.notM _
    have h4 : P.isPrefixOf (recLine r) = true := isPrefixOf_append P _
    have h5 : recFields P (recLine r) = [(flds r).1, (flds r).2] :=
      recFields_line P hS.colon _ (by simp) (hfl r hrm)
    simp only [secStep, h1, h2, h3, h4, hp, h5, Bool.false_eq_true, if_false, and_self, if_true,
      (hr r hrm).2.2, Option.map_some]
  -- the fold, in three stretches
  unfold readSec
  rw [hlines]
  have hA : foldM? (secStep marker P mk add) {} (namesLineRead pGVERTICES names :: edges.map (edgeLine pGEDGE)) =
      some { names := some names, edges := edges, parsing := false, recs := [] } := by
    simp only [foldM?, secStep, isPrefixOf_namesLineRead, if_true,
      nameFields_read pGVERTICES (by decide) names hn]
    rw [foldM?_map _ (edgeLine pGEDGE) (fun st e => { st with edges := st.edges ++ [e] }) edges hstepE,
      foldl_snoc_edges']
    simp
  rw [foldM?_append _ _ _ _ _ hA]
  have hM : secStep marker P mk add { names := some names, edges := edges, parsing := false, recs := [] } marker =
      some { names := some names, edges := edges, parsing := true, recs := [] } := by
    simp only [secStep, hS.mGV, hS.mGE, Bool.false_eq_true, if_false, if_true]
  simp only [foldM?, hM]
  have hR : ∀ (st : SecFile β), st.parsing = true →
      foldM? (secStep marker P mk add) st (recs.map recLine) =
        some { st with recs := recs.foldl add st.recs } := by
    intro st hp
    have key : ∀ (l : List β), (∀ r ∈ l, r ∈ recs) → ∀ st : SecFile β, st.parsing = true →
        foldM? (secStep marker P mk add) st (l.map recLine) = some { st with recs := l.foldl add st.recs } := by
      intro l
      induction l with
      | nil => intro _ st _; rfl
      | cons r rs ih =>
        intro hsub st hp
        simp only [List.map_cons, foldM?, hstepR st r (hsub r List.mem_cons_self) hp, List.foldl_cons]
        exact ih (fun x hx => hsub x (List.mem_cons_of_mem _ hx)) _ hp
    exact key recs (fun r h => h) st hp
  rw [hR _ rfl]

-- ---------------------------------------------------------------- the three sectioned kinds

theorem secOK_degrees : SecOK mDEGREES pDEGREE :=
  ⟨by decide, fixedP_DEGREE, plain_of_dec _ (by decide), ⟨by decide, by decide, by decide⟩, plain_of_dec _ (by decide),
   fun _ => rfl, fun _ => rfl, fun r h => by simp [pDEGREE, mDEGREES] at h, rfl, rfl⟩

theorem secOK_orientations : SecOK mORIENTATIONS pORIENTED :=
  ⟨by decide, fixedP_ORIENTED, plain_of_dec _ (by decide), ⟨by decide, by decide, by decide⟩, plain_of_dec _ (by decide),
   fun _ => rfl, fun _ => rfl, fun r h => by simp [pORIENTED, mORIENTATIONS] at h, rfl, rfl⟩

theorem secOK_script : SecOK mSCRIPT pFIRING :=
  ⟨by decide, fixedP_FIRING, plain_of_dec _ (by decide), ⟨by decide, by decide, by decide⟩, plain_of_dec _ (by decide),
   fun _ => rfl, fun _ => rfl, fun r h => by simp [pFIRING, mSCRIPT] at h, rfl, rfl⟩

theorem foldl_snoc {β : Type} (l acc : List β) : l.foldl snoc acc = acc ++ l := by
  induction l generalizing acc with
  | nil => simp
  | cons b bs ih => simp [List.foldl_cons, ih, snoc]

theorem dictSet_fresh (d : List (Str × Int)) (kv : Str × Int) (h : kv.1 ∉ d.map (·.1)) : dictSet d kv = d ++ [kv] := by
  induction d with
  | nil => rfl
  | cons e es ih =>
    obtain ⟨k, v⟩ := e
    have hk : k ≠ kv.1 := fun heq => h (by simp [heq])
    simp only [dictSet, hk, if_false, List.cons_append]
    rw [ih (fun hm => h (by simp at hm ⊢; exact Or.inr hm))]

theorem foldl_dictSet (l acc : List (Str × Int)) (h : ((acc ++ l).map (·.1)).Nodup) :
    l.foldl dictSet acc = acc ++ l := by
  induction l generalizing acc with
  | nil => simp
  | cons b bs ih =>
    have hb : b.1 ∉ acc.map (·.1) := by
      intro hm
      rw [List.map_append, List.nodup_append] at h
      exact h.2.2 _ hm _ (by simp) rfl
    rw [List.foldl_cons, dictSet_fresh acc b hb, ih _ (by simpa using h)]
    simp

/-- **divisor files round-trip** -/
theorem readDivisor_write (names : List Str) (edges : List Edge) (degs : List (Str × Int))
    (hn : ∀ f ∈ names, NameOK f) (he : ∀ e ∈ edges, NameOK e.1 ∧ NameOK e.2.1)
    (hd : ∀ r ∈ degs, NameOK r.1) :
    readDivisor (writeText (writeDivisor names edges degs)) = some (names, edges, degs) := by
  have := readSec_write mDEGREES pDEGREE secOK_degrees mkInt snoc (fun r => (r.1, r.2.repr.toList))
    names edges degs hn he (fun r hr => ⟨hd r hr, intOK _, by simp [mkInt, pyInt_repr]⟩)
  rw [foldl_snoc, List.nil_append] at this
  exact this

/-- **orientation files round-trip** -/
theorem readOrientation_write (names : List Str) (edges : List Edge) (os : List (Str × Str))
    (hn : ∀ f ∈ names, NameOK f) (he : ∀ e ∈ edges, NameOK e.1 ∧ NameOK e.2.1)
    (ho : ∀ r ∈ os, NameOK r.1 ∧ NameOK r.2) :
    readOrientation (writeText (writeOrientation names edges os)) = some (names, edges, os) := by
  have := readSec_write mORIENTATIONS pORIENTED secOK_orientations mkPair snoc (fun r => r)
    names edges os hn he (fun r hr => ⟨(ho r hr).1, (ho r hr).2, rfl⟩)
  rw [foldl_snoc, List.nil_append] at this
  exact this

/-- **firing-script files round-trip**: the non-zero firings come back (the constructor gives the
    vertices that are not listed 0 firings) -/
theorem readScript_write (names : List Str) (edges : List Edge) (fs : List (Str × Int))
    (hn : ∀ f ∈ names, NameOK f) (he : ∀ e ∈ edges, NameOK e.1 ∧ NameOK e.2.1)
    (hf : ∀ r ∈ fs, NameOK r.1) (hnd : (fs.map (·.1)).Nodup) :
    readScript (writeText (writeScript names edges fs)) = some (names, edges, fs.filter fun r => r.2 != 0) := by
  have hsub : ∀ r ∈ fs.filter (fun r => r.2 != 0), r ∈ fs := fun r hr => (List.mem_filter.mp hr).1
  have := readSec_write mSCRIPT pFIRING secOK_script mkInt dictSet (fun r => (r.1, r.2.repr.toList))
    names edges (fs.filter fun r => r.2 != 0) hn he
    (fun r hr => ⟨hf r (hsub r hr), intOK _, by simp [mkInt, pyInt_repr]⟩)
  have hnd' : ((([] : List (Str × Int)) ++ fs.filter (fun r => r.2 != 0)).map (fun r => r.1)).Nodup := by
    rw [List.nil_append]
    exact (List.filter_sublist.map _).nodup hnd
  rw [foldl_dictSet _ [] hnd', List.nil_append] at this
  exact this

-- ---------------------------------------------------------------- `\r\n` line ends

theorem writeGraph_no_breaks (names : List Str) (edges : List Edge)
    (hn : ∀ f ∈ names, NameOK f) (he : ∀ e ∈ edges, NameOK e.1 ∧ NameOK e.2.1) :
    (∀ l ∈ writeGraph names edges, '\n' ∉ l) ∧ (∀ l ∈ writeGraph names edges, '\r' ∉ l) := by
  have hplV : plainP pVERTICES := plain_of_dec _ (by decide)
  have hplE : plainP pEDGE := plain_of_dec _ (by decide)
  have hN := namesLine_ok pVERTICES fixedP_VERTICES hplV names hn
  constructor <;> intro l hl <;> rcases List.mem_cons.mp hl with rfl | hl
  · exact hN.1
  · obtain ⟨e, hem, rfl⟩ := List.mem_map.mp hl
    exact (edgeLine_ok pEDGE fixedP_EDGE hplE e (he e hem)).1
  · exact hN.2.1
  · obtain ⟨e, hem, rfl⟩ := List.mem_map.mp hl
    exact (edgeLine_ok pEDGE fixedP_EDGE hplE e (he e hem)).2.1

/-- graph files with `\r\n` line ends (written through another platform's text mode) read back the same -/
theorem readGraph_writeGraph_crlf (names : List Str) (edges : List Edge)
    (hn : ∀ f ∈ names, NameOK f) (he : ∀ e ∈ edges, NameOK e.1 ∧ NameOK e.2.1) :
    readGraph (writeTextCRLF (writeGraph names edges)) = some (names, edges) := by
  obtain ⟨h1, h2⟩ := writeGraph_no_breaks names edges hn he
  have := readGraph_writeGraph names edges hn he
  unfold readGraph at this ⊢
  rw [readLines_crlf _ h1 h2]
  exact this

end CF.Txt
