import ChipFiring.Theory.Serial
import ChipFiring.Theory.GraphInv
/-
  `remove_vertex` = the induced multigraph on the remaining vertices.
-/
open Finset
namespace CF
variable {n : Nat}

/-- the adjacency with `v` isolated -/
def isolate (G : Graph n) (v : Fin n) : Graph n :=
  Graph.ofFns (fun a b => if a = v ∨ b = v then 0 else G.adj a b) (fun _ => 0) 0

theorem inducedEdges_eq (G : Graph n) (v : Fin n) :
    (G.inducedEdges v).map (fun (x, y, k) => (x.1, y.1, (k : Int))) = dictEdges (isolate G v) := by
  unfold dictEdges Graph.inducedEdges Graph.edgeList
  congr 1
  apply List.flatMap_congr
  intro a _
  apply List.filterMap_congr
  intro b _
  simp only [isolate, Graph.adj_ofFns]
  by_cases h1 : a.1 < b.1 <;> by_cases ha : a = v <;> by_cases hb : b = v <;> simp [h1, ha, hb]

/-- `remove_vertex(v)` is the induced multigraph on the remaining vertices: multiplicities between
    the other vertices are kept, `v` is left without edges -/
theorem removeVertex_adj (G : Graph n) (hG : G.WF) (v x y : Fin n) :
    (removeVertex G v).adj x y = if x = v ∨ y = v then 0 else G.adj x y := by
  unfold removeVertex
  rw [inducedEdges_eq]
  have hv : ∀ e ∈ dictEdges (isolate G v), e.1 < n ∧ e.2.1 < n ∧ e.1 ≠ e.2.1 ∧ 0 < e.2.2 := by
    intro e he
    unfold dictEdges at he
    obtain ⟨⟨a, b, k⟩, hmem, rfl⟩ := List.mem_map.mp he
    obtain ⟨h1, h2, rfl⟩ := (mem_edgeList _ a b k).mp hmem
    exact ⟨a.2, b.2, by simp; omega, by simp; exact h2⟩
  have hok := addEdges_all_ok (dictEdges (isolate G v)) hv (Graph.empty : Graph n)
  have hpair : (Graph.empty : Graph n).addEdges (dictEdges (isolate G v))
      = (((Graph.empty : Graph n).addEdges (dictEdges (isolate G v))).1, true) := by rw [← hok]
  rw [addEdges_adj _ _ _ hpair x y]
  rw [sum_contrib_edgeList' (isolate G v)
    (by intro a b; simp only [isolate, Graph.adj_ofFns, hG.symm a b]; simp [or_comm])
    (by intro a; simp only [isolate, Graph.adj_ofFns, hG.loopless a]; simp) x y]
  simp [Graph.empty, isolate]

/-- the cached valences and the edge total of the rebuilt graph are those of the induced multigraph -/
theorem removeVertex_val (G : Graph n) (hG : G.WF) (v x : Fin n) :
    (removeVertex G v).val x = ∑ y, (if x = v ∨ y = v then 0 else G.adj x y) := by
  rw [(removeVertex_wf G v).val_eq x]
  exact Finset.sum_congr rfl fun y _ => removeVertex_adj G hG v x y

end CF
