import ChipFiring.Theory.LinEq
/-
  T9: the divisor of an acyclic orientation (in-degree minus one) is unwinnable; reversal of a full
  acyclic orientation; the in-degree sum of a full orientation is the edge total.
-/
open Finset

namespace CF
variable {n : Nat}

/-- T9: the divisor of an acyclic orientation (in-degree minus one) is unwinnable -/
theorem acyclic_unwinnable (G : Graph n) (hs : ∀ v w, G.adj v w = G.adj w v) (hn : 0 < n)
    (dir : Fin n → Fin n → Bool) (h : OAcyclic G dir) :
    ¬ Winnable G (fun v => indeg G dir v - 1) := by
  obtain ⟨pos, hacyc⟩ := h
  rintro ⟨E, ⟨s, rfl⟩, hE⟩
  have hne : (Finset.univ : Finset (Fin n)).Nonempty := ⟨⟨0, hn⟩, mem_univ _⟩
  obtain ⟨vmax, -, hmax⟩ := Finset.exists_max_image (Finset.univ : Finset (Fin n)) s hne
  have hmax' : ∀ w, s w ≤ s vmax := fun w => hmax w (mem_univ w)
  let S : Finset (Fin n) := Finset.univ.filter (fun v => s v = s vmax)
  have hSne : S.Nonempty := ⟨vmax, by simp [S]⟩
  obtain ⟨v, hvS, hvmin⟩ := Finset.exists_min_image S pos hSne
  have hv : s v = s vmax := by simpa [S] using hvS
  have hEv := hE v
  simp only [applyScript] at hEv
  have h1 : indeg G dir v ≤ ∑ w, (G.adj v w : Int) * (s v - s w) := by
    unfold indeg
    apply Finset.sum_le_sum
    intro w _
    have hm0 : (0:Int) ≤ (G.adj v w : Int) := by positivity
    by_cases hw : s w = s vmax
    · have hwS : w ∈ S := by simp [S, hw]
      have hpos := hvmin w hwS
      have hterm : (G.adj v w : Int) * (s v - s w) = 0 := by rw [hv, hw]; ring
      rw [hterm]
      split
      · rename_i hd
        by_cases hm : 0 < G.adj w v
        · have := hacyc w v hd hm; omega
        · have : G.adj w v = 0 := by omega
          simp [this]
      · exact le_refl _
    · have hlt : s w < s vmax := lt_of_le_of_ne (hmax' w) hw
      have h1 : (1:Int) ≤ s v - s w := by rw [hv]; linarith
      have : (G.adj w v : Int) = (G.adj v w : Int) := by rw [hs w v]
      split
      · rw [this]; nlinarith
      · nlinarith
  linarith

/-- the reversed direction predicate -/
def revDir (dir : Fin n → Fin n → Bool) : Fin n → Fin n → Bool := fun u v => dir v u

theorem revDir_full (G : Graph n) (dir : Fin n → Fin n → Bool) (hf : OFull G dir) : OFull G (revDir dir) := by
  intro u v huv
  have := hf u v huv
  simp only [revDir]
  rw [this]; simp

theorem revDir_acyclic (G : Graph n) (hs : ∀ v w, G.adj v w = G.adj w v) (dir : Fin n → Fin n → Bool)
    (ha : OAcyclic G dir) : OAcyclic G (revDir dir) := by
  obtain ⟨pos, hp⟩ := ha
  refine ⟨fun v => (∑ w, pos w) - pos v, ?_⟩
  intro u v hd huv
  have h1 := hp v u hd (by rw [hs v u]; exact huv)
  have h2 : pos u ≤ ∑ w, pos w := Finset.single_le_sum (f := pos) (fun _ _ => Nat.zero_le _) (mem_univ u)
  simp only
  omega

/-- in a full orientation every edge bundle enters exactly one of its two ends -/
theorem indeg_add_rev (G : Graph n) (hs : ∀ v w, G.adj v w = G.adj w v)
    (dir : Fin n → Fin n → Bool) (hf : OFull G dir) (v : Fin n) :
    indeg G dir v + indeg G (revDir dir) v = ∑ w, (G.adj v w : Int) := by
  unfold indeg revDir
  rw [← Finset.sum_add_distrib]
  apply Finset.sum_congr rfl
  intro w _
  by_cases hm : 0 < G.adj w v
  · have h1 := hf w v hm
    rw [hs v w]
    cases hd : dir v w <;> simp [h1, hd]
  · have h0 : G.adj w v = 0 := by omega
    rw [hs v w]; simp [h0]

theorem sum_indeg_rev (G : Graph n) (hs : ∀ v w, G.adj v w = G.adj w v) (dir : Fin n → Fin n → Bool) :
    ∑ v, indeg G (revDir dir) v = ∑ v, indeg G dir v := by
  unfold indeg revDir
  rw [Finset.sum_comm]
  apply Finset.sum_congr rfl; intro v _
  apply Finset.sum_congr rfl; intro w _
  rw [hs v w]

/-- the in-degrees of a full orientation add up to the number of edges -/
theorem sum_indeg_full (G : Graph n) (hG : G.WF) (dir : Fin n → Fin n → Bool) (hf : OFull G dir) :
    ∑ v, indeg G dir v = (G.total : Int) := by
  have h1 : ∑ v, (indeg G dir v + indeg G (revDir dir) v) = ∑ v, ∑ w, (G.adj v w : Int) :=
    Finset.sum_congr rfl fun v _ => indeg_add_rev G hG.symm dir hf v
  rw [Finset.sum_add_distrib, sum_indeg_rev G hG.symm dir] at h1
  have h3 : ∑ v, ∑ w, (G.adj v w : Int) = 2 * (G.total : Int) := by
    have := hG.total_eq
    have h4 : ∑ v, ∑ w, (G.adj v w : Int) = ((∑ v, G.val v : Nat) : Int) := by
      push_cast
      apply Finset.sum_congr rfl; intro v _
      rw [hG.val_eq v]; push_cast; rfl
    rw [h4, ← this]; push_cast; ring
  omega

end CF
