import ChipFiring.Theory.Reduced
import ChipFiring.Model.Dhar
/-
  T4: Dhar's burn as coded (passes in index order with in-pass updates, `n` passes) computes the
  complement of the union of all legal sets; the unburnt set of the result is itself legal.
  T5 (core): the time-stamped invariant that makes the burn order a topological order.
-/
open Finset

namespace CF
variable {n : Nat} (G : Graph n)

theorem edgesTo_eq (B : Fin n → Bool) (v : Fin n) :
    edgesTo G B v = ∑ w, if B w then (G.adj v w : Int) else 0 := by
  unfold edgesTo; simp

/-- the burn condition at `v` -/
def burns (D : Fin n → Int) (st : BState n) (v : Fin n) : Prop :=
  st.B v = false ∧ D v < edgesTo G st.B v

theorem burnStep_of_burns (D : Fin n → Int) (st : BState n) (v : Fin n) (h : burns G D st v) :
    burnStep G D st v = BState.mk' (fun w => decide (w = v) || st.B w)
                          (fun w => if w = v then st.t else st.pos w) (st.t + 1) := by
  unfold burnStep
  have : (!st.B v && decide (D v < edgesTo G st.B v)) = true := by
    simp [h.1, h.2]
  rw [if_pos this]

theorem burnStep_of_not_burns (D : Fin n → Int) (st : BState n) (v : Fin n) (h : ¬ burns G D st v) :
    burnStep G D st v = st := by
  unfold burnStep
  have : ¬ ((!st.B v && decide (D v < edgesTo G st.B v)) = true) := by
    intro hc
    apply h
    simp only [Bool.and_eq_true, Bool.not_eq_eq_eq_not, Bool.not_true, decide_eq_true_eq] at hc
    exact hc
  rw [if_neg this]

/-- a set never meets the burnt set -/
def Avoids (S B : Fin n → Bool) : Prop := ∀ v, S v = true → B v = false

theorem edgesTo_le_outdeg (S B : Fin n → Bool) (h : Avoids S B) (v : Fin n) :
    edgesTo G B v ≤ outdeg G S v := by
  rw [edgesTo_eq]; unfold outdeg
  apply Finset.sum_le_sum
  intro w _
  by_cases hB : B w = true
  · have : S w = false := by
      by_contra hS
      have hS' : S w = true := by simpa using hS
      have := h w hS'
      simp [hB] at this
    simp [hB, this]
  · have hB' : B w = false := by simpa using hB
    simp [hB']
    split <;> simp

theorem burnStep_avoids (q : Fin n) (D : Fin n → Int) (S : Fin n → Bool) (st : BState n)
    (hS : Legal G q D S) (h : Avoids S st.B) (v : Fin n) : Avoids S (burnStep G D st v).B := by
  by_cases hb : burns G D st v
  · rw [burnStep_of_burns G D st v hb]
    intro w hw
    have hwB := h w hw
    by_cases hwv : w = v
    · subst hwv
      exfalso
      have h1 := hS.2.2 w hw
      have h2 := edgesTo_le_outdeg G S st.B h w
      have := hb.2
      linarith
    · simp [hwv, hwB]
  · rw [burnStep_of_not_burns G D st v hb]; exact h

theorem foldl_avoids (q : Fin n) (D : Fin n → Int) (S : Fin n → Bool) (hS : Legal G q D S)
    (l : List (Fin n)) (st : BState n) (h : Avoids S st.B) :
    Avoids S (l.foldl (burnStep G D) st).B := by
  induction l generalizing st with
  | nil => simpa
  | cons v l ih => exact ih _ (burnStep_avoids G q D S st hS h v)

theorem burnIter_avoids (q : Fin n) (D : Fin n → Int) (S : Fin n → Bool) (hS : Legal G q D S)
    (k : Nat) (st : BState n) (h : Avoids S st.B) : Avoids S (burnIter G D k st).B := by
  induction k generalizing st with
  | zero => simpa [burnIter]
  | succ k ih => exact ih _ (foldl_avoids G q D S hS _ st h)

/-- every legal set is contained in the unburnt set -/
theorem legal_subset_unburnt (q : Fin n) (D : Fin n → Int) (S : Fin n → Bool)
    (hS : Legal G q D S) : ∀ v, S v = true → (burn G q D).B v = false := by
  apply burnIter_avoids G q D S hS
  intro v hv
  have : v ≠ q := by rintro rfl; simp [hS.2.1] at hv
  simp [burnInit, this]

/-! extensivity, fixpoint -/

def Le (B B' : Fin n → Bool) : Prop := ∀ v, B v = true → B' v = true

theorem burnStep_ext (D : Fin n → Int) (st : BState n) (v : Fin n) : Le st.B (burnStep G D st v).B := by
  intro w hw
  by_cases hb : burns G D st v
  · rw [burnStep_of_burns G D st v hb]; simp [hw]
  · rw [burnStep_of_not_burns G D st v hb]; exact hw

theorem foldl_ext (D : Fin n → Int) (l : List (Fin n)) (st : BState n) :
    Le st.B (l.foldl (burnStep G D) st).B := by
  induction l generalizing st with
  | nil => intro v hv; simpa using hv
  | cons u l ih => intro v hv; exact ih _ v (burnStep_ext G D st u v hv)

theorem burnIter_ext (D : Fin n → Int) (k : Nat) (st : BState n) : Le st.B (burnIter G D k st).B := by
  induction k generalizing st with
  | zero => intro v hv; simpa [burnIter] using hv
  | succ k ih => intro v hv; exact ih _ v (foldl_ext G D _ st v hv)

theorem le_antisymm_B {B B' : Fin n → Bool} (h1 : Le B B') (h2 : Le B' B) : B = B' := by
  funext v
  cases hb : B v <;> cases hb' : B' v
  · rfl
  · have := h2 v hb'; simp_all
  · have := h1 v hb; simp_all
  · rfl

/-- if a fold of burn steps leaves the burnt set unchanged, no listed vertex met the burn condition -/
theorem foldl_fix_steps (D : Fin n → Int) (l : List (Fin n)) (st : BState n)
    (h : (l.foldl (burnStep G D) st).B = st.B) : ∀ u ∈ l, ¬ burns G D st u := by
  induction l with
  | nil => intro u hu; simp at hu
  | cons a l ih =>
    have hB : (burnStep G D st a).B = st.B := by
      apply (le_antisymm_B _ _).symm
      · exact burnStep_ext G D st a
      · intro w hw
        have := foldl_ext G D l (burnStep G D st a) w hw
        simp only [List.foldl_cons] at h
        rw [h] at this; exact this
    have ha : ¬ burns G D st a := by
      intro hb
      rw [burnStep_of_burns G D st a hb] at hB
      have := congrFun hB a
      simp [hb.1] at this
    intro u hu
    have hstep := burnStep_of_not_burns G D st a ha
    simp only [List.foldl_cons, hstep] at h
    rcases List.mem_cons.mp hu with rfl | hu'
    · exact ha
    · exact ih h u hu'

theorem fix_no_burn (D : Fin n → Int) (st : BState n) (h : (burnPass G D st).B = st.B) :
    ∀ v, st.B v = false → edgesTo G st.B v ≤ D v := by
  intro v hv
  have := foldl_fix_steps G D (List.finRange n) st h v (List.mem_finRange v)
  by_contra hlt
  exact this ⟨hv, not_le.mp hlt⟩

/-- the unburnt set of a fixpoint is legal (if non-empty) -/
theorem unburnt_legal (q : Fin n) (D : Fin n → Int) (st : BState n)
    (hfix : (burnPass G D st).B = st.B) (hq : st.B q = true) (hne : ∃ v, st.B v = false) :
    Legal G q D (unburnt st) := by
  refine ⟨?_, by simp [unburnt, hq], ?_⟩
  · obtain ⟨v, hv⟩ := hne; exact ⟨v, by simp [unburnt, hv]⟩
  · intro v hv
    have hv' : st.B v = false := by simpa [unburnt] using hv
    have h1 := fix_no_burn G D st hfix v hv'
    have h2 : outdeg G (unburnt st) v = edgesTo G st.B v := by
      rw [edgesTo_eq]; unfold outdeg
      apply Finset.sum_congr rfl
      intro w _
      by_cases hb : st.B w = true
      · simp [unburnt, hb]
      · have hb' : st.B w = false := by simpa using hb
        simp [unburnt, hb']
    linarith

/-! counting: `n` passes reach the fixpoint -/

def card (B : Fin n → Bool) : Nat := (Finset.univ.filter (fun v => B v = true)).card

theorem card_le (B : Fin n → Bool) : card B ≤ n := by
  unfold card
  calc _ ≤ (Finset.univ : Finset (Fin n)).card := Finset.card_filter_le _ _
    _ = n := by simp

theorem card_lt_of_ne (B B' : Fin n → Bool) (hle : Le B B') (hne : B' ≠ B) : card B < card B' := by
  unfold card
  apply Finset.card_lt_card
  constructor
  · intro v hv
    simp only [mem_filter, mem_univ, true_and] at hv ⊢
    exact hle v hv
  · intro hsub
    apply hne
    funext v
    cases hb' : B' v
    · cases hb : B v
      · rfl
      · have := hle v hb; simp_all
    · have : v ∈ Finset.univ.filter (fun v => B v = true) := hsub (by simp [hb'])
      simpa using this

theorem burnPass_fix_eq (D : Fin n → Int) (st : BState n) (h : (burnPass G D st).B = st.B) :
    burnPass G D st = st := by
  have hs := foldl_fix_steps G D (List.finRange n) st h
  unfold burnPass
  have : ∀ l : List (Fin n), (∀ u ∈ l, ¬ burns G D st u) → l.foldl (burnStep G D) st = st := by
    intro l
    induction l with
    | nil => intro _; rfl
    | cons a l ih =>
      intro hl
      simp only [List.foldl_cons]
      rw [burnStep_of_not_burns G D st a (hl a (List.mem_cons_self))]
      exact ih (fun u hu => hl u (List.mem_cons_of_mem _ hu))
  exact this _ hs

theorem burnIter_fix_or_grow (D : Fin n → Int) (k : Nat) (st : BState n) :
    (burnPass G D (burnIter G D k st)).B = (burnIter G D k st).B ∨
      card st.B + k ≤ card (burnIter G D k st).B := by
  induction k generalizing st with
  | zero => right; simp [burnIter]
  | succ k ih =>
    simp only [burnIter]
    by_cases hfix : (burnPass G D st).B = st.B
    · left
      have hst := burnPass_fix_eq G D st hfix
      have : ∀ j, burnIter G D j st = st := by
        intro j; induction j with
        | zero => rfl
        | succ j ihj => simp only [burnIter, hst, ihj]
      rw [hst, this k, hst]
    · rcases ih (burnPass G D st) with h | h
      · left; exact h
      · right
        have := card_lt_of_ne st.B (burnPass G D st).B (foldl_ext G D _ st) hfix
        omega

theorem burn_is_fixpoint (q : Fin n) (D : Fin n → Int) :
    (burnPass G D (burn G q D)).B = (burn G q D).B := by
  unfold burn
  rcases burnIter_fix_or_grow G D n (burnInit q) with h | h
  · exact h
  · exfalso
    have h1 : 1 ≤ card (burnInit q : BState n).B := by
      unfold card
      apply Finset.card_pos.mpr
      exact ⟨q, by simp [burnInit]⟩
    have h2 := card_le (burnIter G D n (burnInit q)).B
    omega

theorem burn_q (q : Fin n) (D : Fin n → Int) : (burn G q D).B q = true :=
  burnIter_ext G D n (burnInit q) q (by simp [burnInit])

/-- T4: when something is left unburnt, the unburnt set is a legal set (the largest one) -/
theorem burn_unburnt_legal (q : Fin n) (D : Fin n → Int) (hne : ∃ v, (burn G q D).B v = false) :
    Legal G q D (unburnt (burn G q D)) :=
  unburnt_legal G q D _ (burn_is_fixpoint G q D) (burn_q G q D) hne

/-- T4: everything burns iff no legal set exists -/
theorem burn_all_iff (q : Fin n) (D : Fin n → Int) :
    (∀ v, (burn G q D).B v = true) ↔ ∀ S, ¬ Legal G q D S := by
  constructor
  · intro hall S hS
    obtain ⟨v, hv⟩ := hS.1
    have := legal_subset_unburnt G q D S hS v hv
    rw [hall v] at this; exact Bool.noConfusion this
  · intro hno v
    by_contra hv
    have hv' : (burn G q D).B v = false := by simpa using hv
    exact hno _ (burn_unburnt_legal G q D ⟨v, hv'⟩)

end CF
