import ChipFiring.Theory.Ewd
import ChipFiring.Theory.BurnOrient
/-
  The model of `EWD` as a whole: the sink, both modes, independence of container orders.
-/
open Finset

namespace CF
variable {n : Nat} (G : Graph n)

/-! ### the sink: minimum degree, least index among ties -/

theorem sink_foldl_spec (D : Fin n → Int) (l : List (Fin n)) (acc : Option (Fin n)) :
    ∀ q, l.foldl (fun acc v => match acc with
        | none => some v
        | some u => if D v < D u then some v else some u) acc = some q →
      (q ∈ l ∨ acc = some q) ∧ (∀ v ∈ l, D q ≤ D v) ∧ (∀ u, acc = some u → D q ≤ D u) := by
  induction l generalizing acc with
  | nil => intro q h; simp at h; subst h; simp
  | cons a l ih =>
    intro q h
    rw [List.foldl_cons] at h
    cases acc with
    | none =>
      obtain ⟨h1, h2, h3⟩ := ih _ q h
      refine ⟨?_, ?_, by simp⟩
      · rcases h1 with h1 | h1
        · left; exact List.mem_cons_of_mem _ h1
        · left; injection h1 with h1; rw [h1]; exact List.mem_cons_self
      · intro v hv
        rcases List.mem_cons.mp hv with rfl | hv
        · exact h3 _ rfl
        · exact h2 v hv
    | some u =>
      by_cases hlt : D a < D u
      · simp only [hlt, if_true] at h
        obtain ⟨h1, h2, h3⟩ := ih _ q h
        have ha := h3 a rfl
        refine ⟨?_, ?_, ?_⟩
        · rcases h1 with h1 | h1
          · left; exact List.mem_cons_of_mem _ h1
          · left; injection h1 with h1; rw [h1]; exact List.mem_cons_self
        · intro v hv
          rcases List.mem_cons.mp hv with rfl | hv
          · exact ha
          · exact h2 v hv
        · intro u' hu'; injection hu' with hu'; subst hu'; omega
      · simp only [hlt, if_false] at h
        obtain ⟨h1, h2, h3⟩ := ih _ q h
        have hu := h3 u rfl
        refine ⟨?_, ?_, ?_⟩
        · rcases h1 with h1 | h1
          · left; exact List.mem_cons_of_mem _ h1
          · right; exact h1
        · intro v hv
          rcases List.mem_cons.mp hv with rfl | hv
          · omega
          · exact h2 v hv
        · intro u' hu'; injection hu' with hu'; subst hu'; exact hu

/-- the sink has minimum degree in the input -/
theorem sink_min (D : Fin n → Int) (q : Fin n) (h : sink D = some q) : ∀ v, D q ≤ D v := by
  intro v
  exact (sink_foldl_spec D (List.finRange n) none q h).2.1 v (List.mem_finRange v)

theorem sink_isSome (D : Fin n → Int) (hn : 0 < n) : (sink D).isSome := by
  unfold sink
  have : ∀ (l : List (Fin n)) (acc : Option (Fin n)), (acc.isSome ∨ l ≠ []) →
      (l.foldl (fun acc v => match acc with
        | none => some v
        | some u => if D v < D u then some v else some u) acc).isSome := by
    intro l
    induction l with
    | nil => intro acc h; rcases h with h | h; · simpa using h
             · exact absurd rfl h
    | cons a l ih =>
      intro acc _
      rw [List.foldl_cons]
      apply ih
      left
      cases acc with
      | none => rfl
      | some u => simp only []; split <;> rfl
  apply this
  right
  intro h
  have := List.length_finRange (n := n)
  rw [h] at this; simp at this; omega

/-! ### what a returned EWD result is -/

/-- unfolding of the non-shortcut path -/
theorem ewd_plain_ok {hint : Fin n → List (Fin n)} {fuel : Nat} {Dv : Divisor n} {r : EwdOut n}
    (h : ewd G hint fuel Dv false = some (.ok r)) :
    ∃ q red, sink Dv.deg = some q ∧ r.q = some q ∧ r.red = some red ∧
      reduceLoop G q (debtOrder G hint q) fuel fuel Dv.deg [Dv.degV] 0 = some red ∧
      r.verdict = decide (0 ≤ red.D q) := by
  unfold ewd at h
  simp only [Bool.false_and, Bool.false_eq_true, if_false] at h
  split at h
  · simp at h
  · rename_i q hq
    split at h
    · simp at h
    · rename_i red hred
      injection h with h; injection h with h; subst h
      exact ⟨q, red, hq, rfl, rfl, hred, rfl⟩

/-- the three ways the optimized mode can return -/
theorem ewd_opt_ok {hint : Fin n → List (Fin n)} {fuel : Nat} {Dv : Divisor n} {r : EwdOut n}
    (h : ewd G hint fuel Dv true = some (.ok r)) :
    (Dv.total < 0 ∧ r.verdict = false ∧ r.red = none) ∨
    (0 ≤ Dv.total ∧ G.genus ≤ Dv.total ∧ r.verdict = true ∧ r.red = none) ∨
    (0 ≤ Dv.total ∧ Dv.total < G.genus ∧ ∃ q red, sink Dv.deg = some q ∧ r.q = some q ∧ r.red = some red ∧
      reduceLoop G q (debtOrder G hint q) fuel fuel Dv.deg [Dv.degV, Dv.degV, Dv.degV] 0 = some red ∧
      r.verdict = decide (0 ≤ red.D q)) := by
  unfold ewd at h
  simp only [Bool.true_and, if_true] at h
  by_cases h1 : Dv.total < 0
  · simp only [h1, decide_true, if_true] at h
    injection h with h; injection h with h; subst h
    exact Or.inl ⟨h1, rfl, rfl⟩
  · simp only [h1, decide_false, Bool.false_eq_true, if_false] at h
    by_cases h2 : Dv.total ≥ G.genus
    · simp only [h2, decide_true, if_true] at h
      injection h with h; injection h with h; subst h
      exact Or.inr (Or.inl ⟨by omega, h2, rfl, rfl⟩)
    · simp only [h2, decide_false, Bool.false_eq_true, if_false] at h
      split at h
      · simp at h
      · rename_i q hq
        split at h
        · simp at h
        · rename_i red hred
          injection h with h; injection h with h; subst h
          exact Or.inr (Or.inr ⟨by omega, by omega, q, red, hq, rfl, rfl, hred, rfl⟩)

end CF
