import ChipFiring.Theory.BurnOrient
/-
  T6/T7: on a connected graph the reduced Laplacian has a positive supersolution `b`; firing a
  set off q lowers the potential Σ b·D.  Consequences: every divisor has a q-reduced
  representative (existence), and a divisor of degree ≥ genus is winnable (T10).
-/
open Finset

namespace CF
variable {n : Nat} (G : Graph n)

/-- H 0 = 0, H (j+1) = (Δ+1) H j + 1 -/
def Hseq (Δ : Nat) : Nat → Int
  | 0 => 0
  | j+1 => ((Δ : Int) + 1) * Hseq Δ j + 1

theorem Hseq_nonneg (Δ j : Nat) : 0 ≤ Hseq Δ j := by
  induction j with
  | zero => simp [Hseq]
  | succ j ih => simp only [Hseq]; positivity

theorem Hseq_step_le (Δ j : Nat) : Hseq Δ j ≤ Hseq Δ (j+1) := by
  have := Hseq_nonneg Δ j
  simp only [Hseq]; nlinarith

theorem Hseq_mono (Δ : Nat) {i j : Nat} (h : i ≤ j) : Hseq Δ i ≤ Hseq Δ j := by
  induction h with
  | refl => exact le_refl _
  | step _ ih => exact le_trans ih (Hseq_step_le Δ _)

/-- positive supersolution of the reduced Laplacian from a rank function -/
theorem supersolution (q : Fin n) (rk : Fin n → Nat) (N Δ : Nat)
    (hq : rk q = 0) (hN : ∀ v, rk v ≤ N) (hΔ : ∀ v, ∑ w, (G.adj v w : Int) ≤ Δ)
    (hdesc : ∀ v, v ≠ q → ∃ w, 0 < G.adj v w ∧ rk w < rk v) :
    ∃ b : Fin n → Int, (∀ v, 0 ≤ b v) ∧ b q = 0 ∧
      ∀ v, v ≠ q → 1 ≤ ∑ w, (G.adj v w : Int) * (b v - b w) := by
  refine ⟨fun v => Hseq Δ N - Hseq Δ (N - rk v), ?_, ?_, ?_⟩
  · intro v
    have := Hseq_mono Δ (Nat.sub_le N (rk v))
    linarith
  · simp [hq]
  · intro v hv
    obtain ⟨w0, hm, hlt⟩ := hdesc v hv
    set j := N - rk v with hj
    have hHj := Hseq_nonneg Δ j
    have hall : ∀ w, -(Hseq Δ j) ≤ (Hseq Δ N - Hseq Δ (N - rk v)) - (Hseq Δ N - Hseq Δ (N - rk w)) := by
      intro w
      have := Hseq_nonneg Δ (N - rk w)
      linarith
    have hw0 : (Δ:Int) * Hseq Δ j + 1 ≤ (Hseq Δ N - Hseq Δ (N - rk v)) - (Hseq Δ N - Hseq Δ (N - rk w0)) := by
      have h1 : j + 1 ≤ N - rk w0 := by have := hN v; omega
      have h2 := Hseq_mono Δ h1
      have h3 : Hseq Δ (j+1) = ((Δ:Int)+1) * Hseq Δ j + 1 := rfl
      rw [← hj]
      linarith
    rw [← Finset.add_sum_erase _ _ (mem_univ w0)]
    have hrest : -( (Δ:Int) - 1) * Hseq Δ j ≤
        ∑ w ∈ univ.erase w0, (G.adj v w : Int) * ((Hseq Δ N - Hseq Δ (N - rk v)) - (Hseq Δ N - Hseq Δ (N - rk w))) := by
      have h1 : ∑ w ∈ univ.erase w0, (G.adj v w : Int) * (-(Hseq Δ j)) ≤
          ∑ w ∈ univ.erase w0, (G.adj v w : Int) * ((Hseq Δ N - Hseq Δ (N - rk v)) - (Hseq Δ N - Hseq Δ (N - rk w))) := by
        apply Finset.sum_le_sum
        intro w _
        have hm0 : (0:Int) ≤ (G.adj v w : Int) := by positivity
        exact mul_le_mul_of_nonneg_left (hall w) hm0
      have h2 : ∑ w ∈ univ.erase w0, (G.adj v w : Int) * (-(Hseq Δ j)) =
          (∑ w ∈ univ.erase w0, (G.adj v w : Int)) * (-(Hseq Δ j)) := by
        rw [Finset.sum_mul]
      have h3 : (G.adj v w0 : Int) + ∑ w ∈ univ.erase w0, (G.adj v w : Int) = ∑ w, (G.adj v w : Int) :=
        Finset.add_sum_erase _ (fun w => (G.adj v w : Int)) (mem_univ w0)
      have h4 : ∑ w ∈ univ.erase w0, (G.adj v w : Int) ≤ (Δ:Int) - 1 := by
        have := hΔ v
        have hm1 : (1:Int) ≤ (G.adj v w0 : Int) := by exact_mod_cast hm
        linarith
      have h5 : (0:Int) ≤ ∑ w ∈ univ.erase w0, (G.adj v w : Int) := by
        apply Finset.sum_nonneg; intro w _; positivity
      rw [h2] at h1
      nlinarith
    have hm1 : (1:Int) ≤ (G.adj v w0 : Int) := by exact_mod_cast hm
    have hfirst : (Δ:Int) * Hseq Δ j + 1 ≤
        (G.adj v w0 : Int) * ((Hseq Δ N - Hseq Δ (N - rk v)) - (Hseq Δ N - Hseq Δ (N - rk w0))) := by
      have hpos : (0:Int) ≤ (Δ:Int) * Hseq Δ j + 1 := by positivity
      nlinarith
    linarith

/-- connected ⇒ a supersolution exists for every root q -/
theorem exists_supersolution (hc : G.Connected) (q : Fin n) :
    ∃ b : Fin n → Int, (∀ v, 0 ≤ b v) ∧ b q = 0 ∧
      ∀ v, v ≠ q → 1 ≤ ∑ w, (G.adj v w : Int) * (b v - b w) := by
  obtain ⟨rk, hq, hdesc⟩ := hc q
  obtain ⟨vN, -, hN⟩ := Finset.exists_max_image (Finset.univ : Finset (Fin n)) rk ⟨q, mem_univ q⟩
  let f : Fin n → Int := fun v => ∑ w, (G.adj v w : Int)
  obtain ⟨vΔ, -, hΔ⟩ := Finset.exists_max_image (Finset.univ : Finset (Fin n)) f ⟨q, mem_univ q⟩
  have hfn : 0 ≤ f vΔ := Finset.sum_nonneg fun w _ => by positivity
  refine supersolution G q rk (rk vN) (f vΔ).toNat hq (fun v => hN v (mem_univ v)) ?_ hdesc
  intro v
  have := hΔ v (mem_univ v)
  have h2 : ((f vΔ).toNat : Int) = f vΔ := Int.toNat_of_nonneg hfn
  rw [h2]; exact this

/-- firing a set S (q ∉ S) lowers Φ = Σ b·D by at least |S| -/
theorem potential_drop (hsymm : ∀ v w, G.adj v w = G.adj w v) (q : Fin n) (b : Fin n → Int)
    (hb : ∀ v, v ≠ q → 1 ≤ ∑ w, (G.adj v w : Int) * (b v - b w))
    (S : Fin n → Bool) (hSq : S q = false) (D : Fin n → Int) :
    ∑ v, b v * applyScript G D (indicator S) v + ∑ v, indicator S v ≤ ∑ v, b v * D v := by
  have key : ∑ v, b v * (∑ w, (G.adj v w : Int) * (indicator S v - indicator S w))
      = ∑ v, indicator S v * ∑ w, (G.adj v w : Int) * (b v - b w) := by
    simp only [Finset.mul_sum]
    have e1 : ∀ v w : Fin n, b v * ((G.adj v w : Int) * (indicator S v - indicator S w))
        = (G.adj v w : Int) * b v * indicator S v - (G.adj v w : Int) * b v * indicator S w := by
      intro v w; ring
    have e2 : ∀ v w : Fin n, indicator S v * ((G.adj v w : Int) * (b v - b w))
        = (G.adj v w : Int) * b v * indicator S v - (G.adj v w : Int) * b w * indicator S v := by
      intro v w; ring
    simp only [e1, e2, Finset.sum_sub_distrib]
    congr 1
    rw [Finset.sum_comm]
    apply Finset.sum_congr rfl; intro v _
    apply Finset.sum_congr rfl; intro w _
    rw [hsymm w v]
  have hge : ∑ v, indicator S v ≤ ∑ v, indicator S v * ∑ w, (G.adj v w : Int) * (b v - b w) := by
    apply Finset.sum_le_sum
    intro v _
    by_cases hS : S v = true
    · have hvq : v ≠ q := by rintro rfl; simp [hSq] at hS
      simp only [indicator, hS, if_true, one_mul]
      exact hb v hvq
    · have : S v = false := by simpa using hS
      simp [indicator, this]
  have expand : ∑ v, b v * applyScript G D (indicator S) v = ∑ v, b v * D v -
      ∑ v, b v * (∑ w, (G.adj v w : Int) * (indicator S v - indicator S w)) := by
    rw [← Finset.sum_sub_distrib]
    apply Finset.sum_congr rfl; intro v _
    simp only [applyScript]; ring
  rw [expand, key]
  linarith

/-- firing a legal set keeps everything off q non-negative -/
theorem legal_fire_nonneg (q : Fin n) (D : Fin n → Int) (S : Fin n → Bool) (hL : Legal G q D S)
    (hs : ∀ v w, G.adj v w = G.adj w v) (hnn : ∀ v, v ≠ q → 0 ≤ D v) :
    ∀ v, v ≠ q → 0 ≤ applyScript G D (indicator S) v := by
  intro v hv
  rw [← fireSet_eq G hs]
  by_cases hS : S v = true
  · have := hL.2.2 v hS
    simp only [fireSet, hS, if_true, sumZ_eq]
    unfold outdeg at this; linarith
  · have hS' : S v = false := by simpa using hS
    simp only [fireSet, hS', Bool.false_eq_true, if_false, sumZ_eq]
    have : 0 ≤ ∑ u, if S u = true then (G.adj u v : Int) else 0 :=
      Finset.sum_nonneg fun u _ => by split <;> positivity
    have := hnn v hv
    linarith

/-- existence of the q-reduced representative, from a configuration that is debt-free off q -/
theorem exists_qreduced_of_nonneg (hs : ∀ v w, G.adj v w = G.adj w v) (q : Fin n) (b : Fin n → Int)
    (hb0 : ∀ v, 0 ≤ b v) (hbq : b q = 0)
    (hb : ∀ v, v ≠ q → 1 ≤ ∑ w, (G.adj v w : Int) * (b v - b w)) :
    ∀ (m : Nat) (D : Fin n → Int), (∀ v, v ≠ q → 0 ≤ D v) → ∑ v, b v * D v ≤ m →
      ∃ D', LinEq G D D' ∧ QReduced G q D' := by
  intro m
  induction m with
  | zero =>
    intro D hnn hΦ
    by_cases hex : ∃ S, Legal G q D S
    · exfalso
      obtain ⟨S, hL⟩ := hex
      have hdrop := potential_drop G hs q b hb S hL.2.1 D
      have hnn' := legal_fire_nonneg G q D S hL hs hnn
      have hpos : 0 ≤ ∑ v, b v * applyScript G D (indicator S) v := by
        apply Finset.sum_nonneg; intro v _
        by_cases hv : v = q
        · subst hv; simp [hbq]
        · exact mul_nonneg (hb0 v) (hnn' v hv)
      have hcard : 1 ≤ ∑ v, indicator S v := by
        obtain ⟨v, hv⟩ := hL.1
        have : indicator S v ≤ ∑ w, indicator S w :=
          Finset.single_le_sum (f := indicator S) (fun w _ => by unfold indicator; split <;> simp) (mem_univ v)
        simp only [indicator, hv, if_true] at this
        exact this
      simp at hΦ; linarith
    · exact ⟨D, LinEq.refl G D, hnn, fun S hS => hex ⟨S, hS⟩⟩
  | succ m ih =>
    intro D hnn hΦ
    by_cases hex : ∃ S, Legal G q D S
    · obtain ⟨S, hL⟩ := hex
      have hdrop := potential_drop G hs q b hb S hL.2.1 D
      have hnn' := legal_fire_nonneg G q D S hL hs hnn
      have hcard : 1 ≤ ∑ v, indicator S v := by
        obtain ⟨v, hv⟩ := hL.1
        have : indicator S v ≤ ∑ w, indicator S w :=
          Finset.single_le_sum (f := indicator S) (fun w _ => by unfold indicator; split <;> simp) (mem_univ v)
        simp only [indicator, hv, if_true] at this
        exact this
      obtain ⟨D', hle, hqr⟩ := ih (applyScript G D (indicator S)) hnn' (by push_cast at hΦ ⊢; linarith)
      exact ⟨D', LinEq.trans G ⟨_, rfl⟩ hle, hqr⟩
    · exact ⟨D, LinEq.refl G D, hnn, fun S hS => hex ⟨S, hS⟩⟩

/-- every divisor on a connected graph has a q-reduced representative -/
theorem exists_qreduced (hG : G.WF) (hc : G.Connected) (q : Fin n) (D : Fin n → Int) :
    ∃ D', LinEq G D D' ∧ QReduced G q D' := by
  obtain ⟨b, hb0, hbq, hb⟩ := exists_supersolution G hc q
  -- clear the debt off q with the script −K·b
  obtain ⟨vm, -, hvm⟩ := Finset.exists_max_image (Finset.univ : Finset (Fin n)) (fun v => - D v) ⟨q, mem_univ q⟩
  let K : Int := max 0 (- D vm)
  have hK0 : 0 ≤ K := le_max_left _ _
  have hK : ∀ v, - D v ≤ K := fun v => le_trans (hvm v (mem_univ v)) (le_max_right _ _)
  let D1 := applyScript G D (fun v => - (K * b v))
  have hnn : ∀ v, v ≠ q → 0 ≤ D1 v := by
    intro v hv
    simp only [D1, applyScript]
    have h1 := hb v hv
    have h2 : ∑ w, (G.adj v w : Int) * (-(K * b v) - -(K * b w)) = - (K * ∑ w, (G.adj v w : Int) * (b v - b w)) := by
      rw [Finset.mul_sum, ← Finset.sum_neg_distrib]
      apply Finset.sum_congr rfl; intro w _; ring
    rw [h2]
    have := hK v
    nlinarith
  have hΦ0 : 0 ≤ ∑ v, b v * D1 v := by
    apply Finset.sum_nonneg; intro v _
    by_cases hv : v = q
    · subst hv; simp [hbq]
    · exact mul_nonneg (hb0 v) (hnn v hv)
  obtain ⟨D', hle, hqr⟩ := exists_qreduced_of_nonneg G hG.symm q b hb0 hbq hb (∑ v, b v * D1 v).toNat D1 hnn
    (by rw [Int.toNat_of_nonneg hΦ0])
  exact ⟨D', LinEq.trans G ⟨_, rfl⟩ hle, hqr⟩

/-- T10: on a connected graph a divisor of degree at least the genus is winnable -/
theorem winnable_of_deg_ge_genus (hG : G.WF) (hc : G.Connected) (hn : 0 < n) (D : Fin n → Int)
    (h : G.genus ≤ deg D) : Winnable G D := by
  let q : Fin n := ⟨0, hn⟩
  obtain ⟨D', hle, hqr⟩ := exists_qreduced G hG hc q D
  rw [winnable_congr G hle, qreduced_verdict G q D' hqr]
  by_contra hneg
  have hall := (burn_all_iff G q D').mpr hqr.2
  have h1 := deg_le_genus_sub_one hG q D' hall (by omega)
  have h2 := deg_linEq G hG.symm hle
  omega

end CF
