import ChipFiring.Theory.Moves
import ChipFiring.Model.Algos
/-
  T8: least action.  Any run that only borrows at indebted vertices is dominated, vertex by
  vertex, by every non-negative script that clears the debt.  Consequences for the greedy
  solver: certificate, independence of the visiting order, characterisation of failure.
-/
open Finset

namespace CF
variable {n : Nat} (G : Graph n)

/-- a run of borrowing moves, each at a vertex that is in debt when it borrows -/
def ValidRun : (Fin n → Int) → List (Fin n) → Prop
  | _, [] => True
  | D, u :: l => D u < 0 ∧ ValidRun (borrow G D u) l

def negCount (l : List (Fin n)) : Fin n → Int := fun v => - (l.count v : Int)

theorem foldl_borrow_eq (hs : ∀ v w, G.adj v w = G.adj w v) (l : List (Fin n)) (D : Fin n → Int) :
    l.foldl (borrow G) D = applyScript G D (negCount l) := by
  induction l generalizing D with
  | nil =>
    have : negCount ([] : List (Fin n)) = fun _ => 0 := by funext v; simp [negCount]
    simp [this, applyScript_zero]
  | cons a l ih =>
    rw [List.foldl_cons, ih, borrow_eq G hs, applyScript_add]
    congr 1
    funext v
    by_cases h : a = v
    · subst h; simp [negCount, chipAt]
    · have h' : v ≠ a := fun e => h e.symm
      simp [negCount, chipAt, h, h']

theorem least_action_aux (hs : ∀ v w, G.adj v w = G.adj w v) (D0 σ : Fin n → Int)
    (hclear : ∀ v, 0 ≤ applyScript G D0 (fun w => -σ w) v)
    (l : List (Fin n)) : ∀ (τ : Fin n → Int), (∀ v, τ v ≤ σ v) →
      ValidRun G (applyScript G D0 (fun w => -τ w)) l →
      ∀ v, τ v + l.count v ≤ σ v := by
  induction l with
  | nil => intro τ hτ _ v; simpa using hτ v
  | cons u l ih =>
    intro τ hτ hvalid v
    obtain ⟨hdebt, hrest⟩ := hvalid
    have hlt : τ u < σ u := by
      by_contra hcon
      have heq : τ u = σ u := le_antisymm (hτ u) (not_lt.mp hcon)
      have hc := hclear u
      simp only [applyScript] at hc hdebt
      have : ∑ v, (G.adj u v : Int) * (-τ u - -τ v) ≤ ∑ v, (G.adj u v : Int) * (-σ u - -σ v) := by
        apply Finset.sum_le_sum
        intro v _
        have hm0 : (0:Int) ≤ (G.adj u v : Int) := by positivity
        have := hτ v
        rw [heq]
        nlinarith
      linarith
    have hτ' : ∀ v, (τ v + if v = u then 1 else 0) ≤ σ v := by
      intro v
      by_cases hvu : v = u
      · subst hvu; simp; linarith
      · simp [hvu]; exact hτ v
    have hstate : borrow G (applyScript G D0 (fun w => -τ w)) u =
        applyScript G D0 (fun w => -(τ w + if w = u then 1 else 0)) := by
      rw [borrow_eq G hs, applyScript_add]
      congr 1
      funext w
      by_cases hwu : w = u <;> simp [chipAt, hwu] <;> ring
    rw [hstate] at hrest
    have := ih _ hτ' hrest v
    by_cases hvu : v = u
    · subst hvu; simp at this ⊢; linarith
    · have hne : u ≠ v := fun h => hvu h.symm
      simp [hvu] at this
      simp [hne]
      exact this

/-- least action -/
theorem least_action (hs : ∀ v w, G.adj v w = G.adj w v) (D0 σ : Fin n → Int) (hσ : ∀ v, 0 ≤ σ v)
    (hclear : ∀ v, 0 ≤ applyScript G D0 (fun w => -σ w) v)
    (l : List (Fin n)) (hvalid : ValidRun G D0 l) : ∀ v, (l.count v : Int) ≤ σ v := by
  have h0 : applyScript G D0 (fun _ => -(0:Int)) = D0 := by
    funext w; simp [applyScript]
  have := least_action_aux G hs D0 σ hclear l (fun _ => 0) hσ (by rw [h0]; exact hvalid)
  intro v; simpa using this v

theorem sum_count (l : List (Fin n)) : ∑ v, (l.count v : Int) = l.length := by
  induction l with
  | nil => simp
  | cons a l ih =>
    simp only [List.count_cons, List.length_cons]
    push_cast
    rw [Finset.sum_add_distrib, ih]
    simp

/-! ### the greedy solver -/

/-- what one call of `greedyGo` does, as a run of borrowing moves -/
theorem greedyGo_spec (vorder : List (Fin n)) (hcov : ∀ v, v ∈ vorder) :
    ∀ (b : Nat) (D s : Vec Int n),
      ∃ l : List (Fin n), ValidRun G D.get l ∧
        (greedyGo G vorder b D s).2.1.get = l.foldl (borrow G) D.get ∧
        (greedyGo G vorder b D s).2.2.get = (fun v => s.get v - (l.count v : Int)) ∧
        l.length ≤ b ∧
        ((greedyGo G vorder b D s).1 = true → Eff (greedyGo G vorder b D s).2.1.get) ∧
        ((greedyGo G vorder b D s).1 = false → l.length = b ∧ ¬ Eff (greedyGo G vorder b D s).2.1.get) := by
  intro b
  induction b with
  | zero =>
    intro D s
    refine ⟨[], trivial, ?_, ?_, by simp, ?_, ?_⟩ <;> unfold greedyGo
    · split <;> rfl
    · split <;> simp
    · by_cases he : effective D.get = true
      · simp only [he, if_true]
        intro _ v
        have := (allF_iff _).mp he v; simpa using this
      · simp [he]
    · by_cases he : effective D.get = true
      · simp [he]
      · simp only [he, Bool.false_eq_true, if_false]
        intro _
        refine ⟨rfl, ?_⟩
        intro hE; apply he
        unfold effective; rw [allF_iff]; intro v; simpa using hE v
  | succ b ih =>
    intro D s
    by_cases he : effective D.get = true
    · refine ⟨[], trivial, ?_, ?_, by simp, ?_, ?_⟩ <;> unfold greedyGo <;> simp only [he, if_true]
      · rfl
      · simp
      · intro _ v; have := (allF_iff _).mp he v; simpa using this
      · simp
    · have hne : ∃ v, D.get v < 0 := by
        by_contra hc
        apply he
        unfold effective; rw [allF_iff]; intro v
        simp only [decide_eq_true_eq]
        by_contra hv; exact hc ⟨v, by omega⟩
      cases hf : vorder.find? (fun v => decide (D.get v < 0)) with
      | none =>
        exfalso
        obtain ⟨v, hv⟩ := hne
        have := List.find?_eq_none.mp hf v (hcov v)
        simp [hv] at this
      | some u =>
        have hu : D.get u < 0 := by
          have := List.find?_some hf; simpa using this
        obtain ⟨l, hl1, hl2, hl3, hl4, hl5, hl6⟩ := ih (mat (borrow G D.get u)) (mat fun w => if w = u then s.get w - 1 else s.get w)
        have hunf : greedyGo G vorder (b + 1) D s =
            greedyGo G vorder b (mat (borrow G D.get u)) (mat fun w => if w = u then s.get w - 1 else s.get w) := by
          rw [greedyGo]; simp only [he, Bool.false_eq_true, if_false, hf]
        rw [hunf]
        rw [get_mat] at hl1 hl2
        rw [get_mat] at hl3
        refine ⟨u :: l, ⟨hu, hl1⟩, ?_, ?_, by simp; omega, hl5, ?_⟩
        · rw [hl2]; rfl
        · rw [hl3]; funext v
          by_cases hvu : v = u
          · subst hvu; simp; ring
          · have : u ≠ v := fun e => hvu e.symm
            simp [hvu, this]
        · intro hfalse
          obtain ⟨h1, h2⟩ := hl6 hfalse
          exact ⟨by simp [h1], h2⟩

end CF
