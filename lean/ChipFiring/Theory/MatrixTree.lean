import ChipFiring.Theory.Potential
import ChipFiring.Theory.Reduced
import Mathlib.LinearAlgebra.FreeModule.Finite.CardQuotient
import Mathlib.LinearAlgebra.Matrix.ToLin
import Mathlib.LinearAlgebra.Determinant
/-
  Matrix-tree theorem, chip-firing form: on a connected multigraph the number of superstable
  configurations (q-reduced divisors up to the value at q) is |det| of the reduced Laplacian.
  Existence (T7) and uniqueness (T3) of q-reduced representatives make "superstables → cokernel
  of the reduced Laplacian" a bijection; Mathlib's Smith-normal-form theorem
  (`Submodule.natAbs_det_equiv`) identifies the size of the cokernel with |det|.
-/
open Finset

namespace CF
variable {n : Nat} (G : Graph n)

/-- `L·s` (so that `applyScript G D s = D − lap G s`) -/
def lap (s : Fin n → Int) : Fin n → Int := fun w => ∑ v, (G.adj w v : Int) * (s w - s v)

theorem applyScript_eq_sub_lap (D s : Fin n → Int) : applyScript G D s = fun w => D w - lap G s w := rfl

theorem lap_sum_zero (hs : ∀ v w, G.adj v w = G.adj w v) (s : Fin n → Int) : ∑ w, lap G s w = 0 := by
  unfold lap
  have h1 : ∑ w, ∑ v, (G.adj w v : Int) * (s w - s v) = ∑ w, ∑ v, (G.adj v w : Int) * (s v - s w) := Finset.sum_comm
  have h2 : ∑ w, ∑ v, (G.adj v w : Int) * (s v - s w) = - ∑ w, ∑ v, (G.adj w v : Int) * (s w - s v) := by
    rw [← Finset.sum_neg_distrib]
    apply Finset.sum_congr rfl; intro w _
    rw [← Finset.sum_neg_distrib]
    apply Finset.sum_congr rfl; intro v _
    rw [hs v w]; ring
  linarith

/-- the kernel of the Laplacian of a connected graph: constants -/
theorem lap_eq_zero_const (hs : ∀ v w, G.adj v w = G.adj w v) (hc : G.Connected) (hn : 0 < n)
    (s : Fin n → Int) (h : ∀ w, lap G s w = 0) : ∀ v w, s v = s w := by
  obtain ⟨vm, -, hmax⟩ := Finset.exists_max_image (Finset.univ : Finset (Fin n)) s ⟨⟨0, hn⟩, mem_univ _⟩
  have hmax' : ∀ w, s w ≤ s vm := fun w => hmax w (mem_univ w)
  obtain ⟨rk, -, hrk⟩ := hc vm
  -- a vertex at the maximum has all its neighbours at the maximum
  have hnb : ∀ w, s w = s vm → ∀ x, 0 < G.adj w x → s x = s vm := by
    intro w hw x hx
    have h0 := h w
    unfold lap at h0
    have hterm : ∀ v ∈ (Finset.univ : Finset (Fin n)), 0 ≤ (G.adj w v : Int) * (s w - s v) := by
      intro v _
      have := hmax' v
      have h2 : (0:Int) ≤ (G.adj w v : Int) := by positivity
      apply mul_nonneg h2; rw [hw]; linarith
    have := (Finset.sum_eq_zero_iff_of_nonneg hterm).mp h0 x (mem_univ x)
    have hx' : (0:Int) < (G.adj w x : Int) := by exact_mod_cast hx
    have : s w - s x = 0 := by
      rcases mul_eq_zero.mp this with h3 | h3
      · omega
      · exact h3
    rw [← hw]; linarith
  have hall : ∀ k v, rk v = k → s v = s vm := by
    intro k
    induction k using Nat.strong_induction_on with
    | _ k ih =>
      intro v hv
      by_cases hvm : v = vm
      · rw [hvm]
      · obtain ⟨w, hw, hlt⟩ := hrk v hvm
        have hsw := ih (rk w) (by omega) w rfl
        exact hnb w hsw v (by rw [hs w v]; exact hw)
  intro v w
  rw [hall _ v rfl, hall _ w rfl]

variable (q : Fin n)

/-- vertices other than the sink -/
abbrev Off (q : Fin n) := {v : Fin n // v ≠ q}

/-- extend a configuration by the value `x` at the sink -/
def ext (c : Off q → Int) (x : Int) : Fin n → Int := fun v => if h : v = q then x else c ⟨v, h⟩
/-- restrict to the vertices other than the sink -/
def res (D : Fin n → Int) : Off q → Int := fun v => D v.1

theorem ext_off (c : Off q → Int) (x : Int) (v : Off q) : ext q c x v.1 = c v := by
  unfold ext; rw [dif_neg v.2]
theorem ext_q (c : Off q → Int) (x : Int) : ext q c x q = x := by unfold ext; rw [dif_pos rfl]
theorem res_ext (c : Off q → Int) (x : Int) : res q (ext q c x) = c := by funext v; exact ext_off q c x v
theorem ext_res (D : Fin n → Int) : ext q (res q D) (D q) = D := by
  funext v; unfold ext res; by_cases h : v = q
  · rw [dif_pos h, h]
  · rw [dif_neg h]

/-- the reduced Laplacian as a matrix over the vertices other than q -/
def redLap : Matrix (Off q) (Off q) Int := fun v w =>
  if v = w then ∑ u, (G.adj v.1 u : Int) else - (G.adj v.1 w.1 : Int)

/-- being q-reduced does not depend on the value at q -/
theorem qreduced_congr_off (D D' : Fin n → Int) (h : ∀ v, v ≠ q → D v = D' v) (hq : QReduced G q D) :
    QReduced G q D' := by
  refine ⟨fun v hv => by rw [← h v hv]; exact hq.1 v hv, ?_⟩
  rintro S ⟨hne, hSq, hleg⟩
  apply hq.2 S
  refine ⟨hne, hSq, fun v hv => ?_⟩
  have hvq : v ≠ q := by rintro rfl; rw [hSq] at hv; exact Bool.noConfusion hv
  rw [h v hvq]; exact hleg v hv

/-- superstable configurations -/
def Superstable (c : Off q → Int) : Prop := QReduced G q (ext q c 0)

/-- `redLap · t` is `L · (t extended by 0)` off q -/
theorem redLap_mulVec (hl : ∀ v, G.adj v v = 0) (t : Off q → Int) :
    (redLap G q).mulVec t = res q (lap G (ext q t 0)) := by
  funext v
  simp only [Matrix.mulVec, dotProduct, res, lap]
  -- split the full sum into the sink and the rest
  have hsplit : ∀ f : Fin n → Int, ∑ u, f u = f q + ∑ w : Off q, f w.1 := by
    intro f
    rw [← Finset.sum_erase_add _ _ (mem_univ q), add_comm]
    congr 1
    refine Finset.sum_bij' (fun u hu => ⟨u, (Finset.mem_erase.mp hu).1⟩) (fun w _ => w.1) ?_ ?_ ?_ ?_ ?_ <;> simp
  rw [hsplit (fun u => (G.adj v.1 u : Int) * (ext q t 0 v.1 - ext q t 0 u))]
  simp only [ext_q, ext_off, sub_zero]
  have hrow : ∑ w : Off q, redLap G q v w * t w
      = (∑ u, (G.adj v.1 u : Int)) * t v - ∑ w : Off q, (G.adj v.1 w.1 : Int) * t w := by
    have : ∀ w : Off q, redLap G q v w * t w
        = (if w = v then (∑ u, (G.adj v.1 u : Int)) * t v else 0) - (G.adj v.1 w.1 : Int) * t w
          + (if w = v then (G.adj v.1 v.1 : Int) * t v else 0) := by
      intro w
      unfold redLap
      by_cases h : v = w
      · subst h; simp
      · have h' : ¬ w = v := fun e => h e.symm
        simp [h, h']
    simp only [this, Finset.sum_add_distrib, Finset.sum_sub_distrib, Finset.sum_ite_eq', mem_univ, if_true, hl v.1]
    simp
  rw [hrow, hsplit (fun u => (G.adj v.1 u : Int))]
  have h3 : ∑ w : Off q, (G.adj v.1 w.1 : Int) * (t v - t w)
      = (∑ w : Off q, (G.adj v.1 w.1 : Int)) * t v - ∑ w : Off q, (G.adj v.1 w.1 : Int) * t w := by
    simp only [mul_sub, Finset.sum_sub_distrib, Finset.sum_mul]
  rw [h3]; ring

/-- the reduced Laplacian of a connected graph is injective -/
theorem redLap_injective (hG : G.WF) (hc : G.Connected) (hn : 0 < n) :
    Function.Injective (Matrix.toLin' (redLap G q)) := by
  rw [← LinearMap.ker_eq_bot, LinearMap.ker_eq_bot']
  intro t ht
  rw [Matrix.toLin'_apply, redLap_mulVec G q hG.loopless] at ht
  -- L s vanishes off q, hence everywhere (column sums), hence s is constant, hence 0
  set s := ext q t 0 with hs
  have hoff : ∀ v, v ≠ q → lap G s v = 0 := fun v hv => congrFun ht ⟨v, hv⟩
  have hq : lap G s q = 0 := by
    have hsum := lap_sum_zero G hG.symm s
    rw [← Finset.sum_erase_add _ _ (mem_univ q)] at hsum
    have : ∑ v ∈ univ.erase q, lap G s v = 0 :=
      Finset.sum_eq_zero fun v hv => hoff v (Finset.mem_erase.mp hv).1
    linarith
  have hall : ∀ w, lap G s w = 0 := fun w => by
    by_cases hw : w = q
    · rw [hw]; exact hq
    · exact hoff w hw
  have hconst := lap_eq_zero_const G hG.symm hc hn s hall
  funext v
  have := hconst v.1 q
  rw [hs, ext_off, ext_q] at this
  exact this

/-- shifting a script by a constant does not change its effect -/
theorem lap_shift (s : Fin n → Int) (c : Int) : lap G (fun v => s v - c) = lap G s := by
  funext w; unfold lap; apply Finset.sum_congr rfl; intro v _; ring

open Submodule in
/-- **matrix-tree theorem, chip-firing form**: the superstable configurations of a connected
    multigraph are as many as |det| of its reduced Laplacian -/
theorem card_superstable_eq_det (hG : G.WF) (hc : G.Connected) (hn : 0 < n) :
    Nat.card {c : Off q → Int // Superstable G q c} = ((redLap G q).det).natAbs := by
  classical
  set Lr : (Off q → Int) →ₗ[ℤ] (Off q → Int) := Matrix.toLin' (redLap G q) with hLr
  have hinj : Function.Injective Lr := redLap_injective G q hG hc hn
  let N : Submodule ℤ (Off q → Int) := LinearMap.range Lr
  let e : (Off q → Int) ≃ₗ[ℤ] N := LinearEquiv.ofInjective Lr hinj
  have hdet : ((redLap G q).det).natAbs = Nat.card ((Off q → Int) ⧸ N) := by
    have h1 := Submodule.natAbs_det_equiv N e
    have h2 : N.subtype ∘ₗ AddMonoidHom.toIntLinearMap ((e : (Off q → Int) ≃ₗ[ℤ] N) : (Off q → Int) →+ N) = Lr := by
      apply LinearMap.ext; intro x; rfl
    rw [h2, hLr, LinearMap.det_toLin'] at h1
    exact h1
  rw [hdet]
  -- the bijection superstables → cokernel
  let φ : {c : Off q → Int // Superstable G q c} → (Off q → Int) ⧸ N := fun c => Submodule.Quotient.mk c.1
  apply Nat.card_congr
  refine Equiv.ofBijective φ ⟨?_, ?_⟩
  · rintro ⟨c1, h1⟩ ⟨c2, h2⟩ hφ
    have hmem : c1 - c2 ∈ N := (Submodule.Quotient.eq N).mp hφ
    obtain ⟨t, ht⟩ := hmem
    rw [hLr, Matrix.toLin'_apply, redLap_mulVec G q hG.loopless] at ht
    -- D2 := D1 − L (ext t 0) agrees with c2 off q
    let D1 := ext q c1 0
    let D2 := applyScript G D1 (ext q t 0)
    have hoff : ∀ v, v ≠ q → D2 v = ext q c2 0 v := by
      intro v hv
      have h3 := congrFun ht ⟨v, hv⟩
      simp only [res, Pi.sub_apply] at h3
      show D1 v - lap G (ext q t 0) v = _
      rw [h3]
      have e1 : D1 v = c1 ⟨v, hv⟩ := ext_off q c1 0 ⟨v, hv⟩
      have e2 : ext q c2 0 v = c2 ⟨v, hv⟩ := ext_off q c2 0 ⟨v, hv⟩
      rw [e1, e2]; ring
    have hq2 : QReduced G q D2 := qreduced_congr_off G q _ _ (fun v hv => (hoff v hv).symm) h2
    have heq := qreduced_unique G q D1 D2 h1 hq2 ⟨_, rfl⟩
    apply Subtype.ext
    funext v
    have := hoff v.1 v.2
    rw [← heq] at this
    have e1 : D1 v.1 = c1 v := ext_off q c1 0 v
    have e2 : ext q c2 0 v.1 = c2 v := ext_off q c2 0 v
    rw [e1, e2] at this; exact this
  · intro x
    obtain ⟨c, rfl⟩ := Submodule.Quotient.mk_surjective N x
    obtain ⟨D', ⟨s, hs⟩, hqr⟩ := exists_qreduced G hG hc q (ext q c 0)
    -- normalise the script to vanish at q
    let s' : Fin n → Int := fun v => s v - s q
    have hD' : D' = fun w => ext q c 0 w - lap G s' w := by
      rw [hs, lap_shift G s (s q)]; rfl
    have hs'q : s' q = 0 := by simp [s']
    have hs' : ext q (res q s') 0 = s' := by
      have := ext_res q s'; rw [hs'q] at this; exact this
    let c' : Off q → Int := res q D'
    have hss : Superstable G q c' := by
      apply qreduced_congr_off G q D' _ _ hqr
      intro v hv
      exact (ext_off q c' 0 ⟨v, hv⟩).symm
    refine ⟨⟨c', hss⟩, ?_⟩
    show Submodule.Quotient.mk c' = Submodule.Quotient.mk c
    rw [Submodule.Quotient.eq]
    refine ⟨fun v => - res q s' v, ?_⟩
    rw [hLr, Matrix.toLin'_apply]
    have hneg : (redLap G q).mulVec (fun v => - res q s' v) = - (redLap G q).mulVec (res q s') := by
      have : (fun v => - res q s' v) = - res q s' := rfl
      rw [this, Matrix.mulVec_neg]
    rw [hneg, redLap_mulVec G q hG.loopless, hs']
    funext v
    simp only [Pi.neg_apply, Pi.sub_apply, res, c']
    rw [hD']
    have := ext_off q c 0 v
    simp only [this]; ring

end CF
