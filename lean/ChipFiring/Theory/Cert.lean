import ChipFiring.Theory.RankTheory
/-
  Decidable certificates for the standing hypotheses (`Good`), so that theorems about concrete
  (regenerated) graphs can be discharged by kernel evaluation.
-/
namespace CF
variable {n : Nat}

/-- BFS distances from `q` by `n` rounds of relaxation (unreached = n) -/
def relax (G : Graph n) (d : Fin n → Nat) : Fin n → Nat := fun v =>
  (List.finRange n).foldl (fun m w => if 0 < G.adj v w then min m (d w + 1) else m) (d v)

def distFrom (G : Graph n) (q : Fin n) : Fin n → Nat :=
  (List.range n).foldl (fun d _ => (mat (relax G d)).get) (fun v => if v = q then 0 else n)

/-- a rank function towards `q`: q has rank 0 and every other vertex has a neighbour of smaller rank -/
def rankCert (G : Graph n) (q : Fin n) (rk : Fin n → Nat) : Bool :=
  decide (rk q = 0) && allF fun v => decide (v = q) || anyF fun w => decide (0 < G.adj v w) && decide (rk w < rk v)

def connectedCert (G : Graph n) : Bool := allF fun q => rankCert G q (distFrom G q)

theorem connected_of_cert (G : Graph n) (h : connectedCert G = true) : G.Connected := by
  intro q
  have hq := (allF_iff _).mp h q
  unfold rankCert at hq
  simp only [Bool.and_eq_true, decide_eq_true_eq, allF_iff, Bool.or_eq_true, anyF_iff] at hq
  refine ⟨distFrom G q, hq.1, ?_⟩
  intro v hv
  rcases hq.2 v with h1 | ⟨w, hw⟩
  · exact absurd h1 hv
  · exact ⟨w, hw.1, hw.2⟩

def coverCert (G : Graph n) : Bool :=
  allF fun q => allF fun v => decide (v = q) || (debtOrder G (fun _ => []) q).contains v

def wfCert (G : Graph n) : Bool :=
  (allF fun v => allF fun w => decide (G.adj v w = G.adj w v)) &&
  (allF fun v => decide (G.adj v v = 0)) &&
  (allF fun v => decide (G.val v = sumN (G.adj v))) &&
  decide (2 * G.total = sumN G.val)

theorem wf_of_cert (G : Graph n) (h : wfCert G = true) : G.WF := by
  unfold wfCert at h
  simp only [Bool.and_eq_true, allF_iff, decide_eq_true_eq] at h
  obtain ⟨⟨⟨h1, h2⟩, h3⟩, h4⟩ := h
  refine ⟨h1, h2, fun v => ?_, ?_⟩
  · rw [h3 v]; simp
  · rw [h4]; simp

def goodCert (G : Graph n) : Bool := decide (0 < n) && wfCert G && connectedCert G && coverCert G

theorem good_of_cert (G : Graph n) (h : goodCert G = true) : Good G := by
  unfold goodCert at h
  simp only [Bool.and_eq_true, decide_eq_true_eq] at h
  obtain ⟨⟨⟨h1, h2⟩, h3⟩, h4⟩ := h
  refine ⟨wf_of_cert G h2, connected_of_cert G h3, h1, ?_⟩
  intro q v hv
  have := (allF_iff _).mp ((allF_iff _).mp h4 q) v
  simp only [Bool.or_eq_true, decide_eq_true_eq] at this
  rcases this with h5 | h5
  · exact absurd h5 hv
  · simpa using h5

end CF
