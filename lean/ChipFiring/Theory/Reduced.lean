import ChipFiring.Theory.LinEq
/-
  T2/T3: for a q-reduced divisor the verdict is the sign at q, and the q-reduced representative
  of a class is unique.
-/
open Finset

namespace CF
variable {n : Nat} (G : Graph n)

/-- if `D − L s` has no debt off `q` and `D` admits no legal set, then `s` is maximal at `q` -/
theorem script_max_at_q (q : Fin n) (D s : Fin n → Int)
    (hE : ∀ v, v ≠ q → 0 ≤ applyScript G D s v) (hno : ∀ S, ¬ Legal G q D S) :
    ∀ w, s w ≤ s q := by
  obtain ⟨vmax, -, hmax⟩ := Finset.exists_max_image (Finset.univ : Finset (Fin n)) s ⟨q, mem_univ q⟩
  have hmax' : ∀ w, s w ≤ s vmax := fun w => hmax w (mem_univ w)
  by_cases hq : s q = s vmax
  · intro w; rw [hq]; exact hmax' w
  · exfalso
    let S : Fin n → Bool := fun v => decide (s v = s vmax)
    apply hno S
    refine ⟨⟨vmax, by simp [S]⟩, by simp [S, hq], ?_⟩
    intro v hv
    have hv' : s v = s vmax := by simpa [S] using hv
    have hvq : v ≠ q := by rintro rfl; exact hq hv'
    have hEv := hE v hvq
    simp only [applyScript] at hEv
    have : outdeg G S v ≤ ∑ w, (G.adj v w : Int) * (s v - s w) := by
      unfold outdeg
      apply Finset.sum_le_sum
      intro w _
      by_cases hw : s w = s vmax
      · simp [S, hw, hv']
      · have hlt : s w < s vmax := lt_of_le_of_ne (hmax' w) hw
        simp only [S, hw, decide_false]
        have : (1:Int) ≤ s v - s w := by rw [hv']; linarith
        have hm : (0:Int) ≤ (G.adj v w : Int) := by positivity
        simp
        nlinarith
    linarith

theorem qreduced_verdict (q : Fin n) (D : Fin n → Int) (h : QReduced G q D) :
    Winnable G D ↔ 0 ≤ D q := by
  constructor
  · rintro ⟨E, ⟨s, rfl⟩, hE⟩
    have hmax := script_max_at_q G q D s (fun v _ => hE v) h.2
    have := hE q
    simp only [applyScript] at this
    have hsum : 0 ≤ ∑ v, (G.adj q v : Int) * (s q - s v) := by
      apply Finset.sum_nonneg
      intro v _
      have := hmax v
      have h2 : 0 ≤ s q - s v := by linarith
      positivity
    linarith
  · intro hq
    refine ⟨D, LinEq.refl G D, ?_⟩
    intro v
    by_cases hv : v = q
    · subst hv; exact hq
    · exact h.1 v hv

theorem applyScript_const (D s : Fin n → Int) (c : Int) (h : ∀ v, s v = c) : applyScript G D s = D := by
  funext w; simp [applyScript, h]

theorem qreduced_unique (q : Fin n) (D D' : Fin n → Int) (h : QReduced G q D) (h' : QReduced G q D')
    (he : LinEq G D D') : D = D' := by
  obtain ⟨s, rfl⟩ := he
  have h1 := script_max_at_q G q D s h'.1 h.2
  have h2 := script_max_at_q G q (applyScript G D s) (fun v => - s v)
    (by rw [applyScript_neg_cancel]; exact h.1) h'.2
  have hc : ∀ v, s v = s q := fun v => le_antisymm (h1 v) (by have := h2 v; linarith)
  exact (applyScript_const G D s (s q) hc).symm

end CF
