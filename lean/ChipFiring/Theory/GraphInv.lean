import ChipFiring.Spec.Basic
import ChipFiring.Model.Machines
import Mathlib.Tactic
/-
  The graph machine keeps the well-formedness invariant (symmetric, loopless, caches exact).
-/
open Finset

namespace CF
variable {n : Nat}

theorem ref?_some {i : Nat} {v : Fin n} (h : ref? n i = some v) : v.1 = i := by
  unfold ref? at h
  split at h
  · injection h with h; rw [← h]
  · exact absurd h (by simp)

theorem empty_wf : (Graph.empty : Graph n).WF := by
  refine ⟨?_, ?_, ?_, ?_⟩ <;> simp [Graph.empty]

theorem sum_ite_eq_single (a : Fin n) (m : Nat) : ∑ x : Fin n, (if x = a then m else 0) = m := by
  simp

/-- what an accepted `add_edge` does -/
theorem addEdge_ok {G G' : Graph n} {a b : Nat} {k : Int} (h : G.addEdge a b k = .ok G') :
    ∃ (a' b' : Fin n) (m : Nat), a'.1 = a ∧ b'.1 = b ∧ a' ≠ b' ∧ 0 < m ∧ (m : Int) = k ∧
      G' = Graph.ofFns (fun x y => if (x = a' ∧ y = b') ∨ (x = b' ∧ y = a') then G.adj x y + m else G.adj x y)
        (fun x => if x = a' ∨ x = b' then G.val x + m else G.val x) (G.total + m) := by
  unfold Graph.addEdge at h
  split at h
  · exact absurd h (by simp)
  · rename_i hab
    split at h
    · exact absurd h (by simp)
    · rename_i hk
      split at h
      · rename_i a' b' ha hb
        injection h with h
        refine ⟨a', b', k.toNat, ref?_some ha, ref?_some hb, ?_, by omega, by omega, h.symm⟩
        intro hc; apply hab; rw [← ref?_some ha, ← ref?_some hb, hc]
      · exact absurd h (by simp)

theorem addEdge_wf {G G' : Graph n} {a b : Nat} {k : Int} (hG : G.WF) (h : G.addEdge a b k = .ok G') :
    G'.WF := by
  obtain ⟨a', b', m, -, -, hab, -, -, rfl⟩ := addEdge_ok h
  refine ⟨?_, ?_, ?_, ?_⟩
  · intro v w
    simp only [Graph.adj_ofFns]
    rw [hG.symm v w]
    by_cases h1 : (v = a' ∧ w = b') ∨ (v = b' ∧ w = a')
    · have h2 : (w = a' ∧ v = b') ∨ (w = b' ∧ v = a') := by tauto
      simp [h1, h2]
    · have h2 : ¬ ((w = a' ∧ v = b') ∨ (w = b' ∧ v = a')) := by tauto
      simp [h1, h2]
  · intro v
    simp only [Graph.adj_ofFns]
    have : ¬ ((v = a' ∧ v = b') ∨ (v = b' ∧ v = a')) := by
      rintro (⟨h1, h2⟩ | ⟨h1, h2⟩) <;> exact hab (by rw [← h1, ← h2]) 
    simp [this, hG.loopless v]
  · intro v
    simp only [Graph.adj_ofFns, Graph.val_ofFns]
    have key : ∀ w, (if (v = a' ∧ w = b') ∨ (v = b' ∧ w = a') then G.adj v w + m else G.adj v w)
        = G.adj v w + (if v = a' then (if w = b' then m else 0) else 0) + (if v = b' then (if w = a' then m else 0) else 0) := by
      intro w
      by_cases h1 : v = a' <;> by_cases h2 : v = b' <;> by_cases h3 : w = b' <;> by_cases h4 : w = a' <;>
        simp_all
    simp only [key, Finset.sum_add_distrib]
    rw [← hG.val_eq v]
    by_cases h1 : v = a' <;> by_cases h2 : v = b'
    · exact absurd (h1.symm.trans h2) hab
    · subst h1; simp [hab]
    · subst h2; simp [Ne.symm hab]
    · simp [h1, h2]
  · simp only [Graph.val_ofFns, Graph.total_ofFns]
    have key : ∀ x, (if x = a' ∨ x = b' then G.val x + m else G.val x)
        = G.val x + (if x = a' then m else 0) + (if x = b' then m else 0) := by
      intro x
      by_cases h1 : x = a' <;> by_cases h2 : x = b' <;> simp_all
    simp only [key, Finset.sum_add_distrib, sum_ite_eq_single]
    have := hG.total_eq
    omega

theorem addEdges_wf {G : Graph n} (hG : G.WF) (es : List (Nat × Nat × Int)) : (G.addEdges es).1.WF := by
  induction es generalizing G with
  | nil => simpa [Graph.addEdges]
  | cons e es ih =>
    obtain ⟨a, b, k⟩ := e
    unfold Graph.addEdges
    split
    · rename_i G' h; exact ih (addEdge_wf hG h)
    · exact hG

theorem new_wf {dup : Bool} {es : List (Nat × Nat × Int)} {G : Graph n} (h : Graph.new n dup es = .ok G) :
    G.WF := by
  unfold Graph.new at h
  split at h
  · exact absurd h (by simp)
  · split at h
    · rename_i G' hG'
      injection h with h; subst h
      have := addEdges_wf (empty_wf (n := n)) es
      rw [hG'] at this; exact this
    · exact absurd h (by simp)

theorem gapply_wf {G : Graph n} (hG : G.WF) (o : GOp) : (gapply G o).WF := by
  cases o with
  | add a b k =>
    simp only [gapply]
    cases h : G.addEdge a b k with
    | ok G' => exact addEdge_wf hG h
    | error e => exact hG
  | adds es => exact addEdges_wf hG es
  | valence v => exact hG
  | remove v => exact hG

theorem removeVertex_wf (G : Graph n) (v : Fin n) : (removeVertex G v).WF :=
  addEdges_wf empty_wf _

/-- genus = |E| − |V| + 1 with |E| = half the sum of the adjacency -/
theorem genus_formula {G : Graph n} (hG : G.WF) :
    G.genus = (∑ v, ∑ w, (G.adj v w : Int)) / 2 - n + 1 := by
  unfold Graph.genus
  have h1 : (∑ v, ∑ w, (G.adj v w : Int)) = 2 * (G.total : Int) := by
    have := hG.total_eq
    have h2 : ∑ v, ∑ w, (G.adj v w : Int) = ((∑ v, G.val v : Nat) : Int) := by
      push_cast
      apply Finset.sum_congr rfl; intro v _
      rw [hG.val_eq v]; push_cast; rfl
    rw [h2, ← this]; push_cast; ring
  rw [h1]; omega

end CF
