import ChipFiring.Theory.KDet
import ChipFiring.Theory.SSCount
import ChipFiring.Theory.Parking
open Finset
namespace CF

/-! ### the enumeration `allSeqs` -/

theorem mem_allSeqs (N : Nat) : ∀ (k : Nat) (s : List Int),
    s ∈ allSeqs N k ↔ s.length = k ∧ ∀ x ∈ s, 1 ≤ x ∧ x ≤ (N : Int) := by
  intro k
  induction k with
  | zero => intro s; simp [allSeqs]; intro h; subst h; simp
  | succ k ih =>
    intro s
    simp only [allSeqs, List.mem_flatMap, List.mem_range, List.mem_map]
    constructor
    · rintro ⟨i, hi, t, ht, rfl⟩
      obtain ⟨h1, h2⟩ := (ih t).mp ht
      refine ⟨by simp [h1], ?_⟩
      intro x hx
      rcases List.mem_cons.mp hx with rfl | hx
      · constructor <;> omega
      · exact h2 x hx
    · rintro ⟨hl, hr⟩
      cases s with
      | nil => simp at hl
      | cons a t =>
        have ha := hr a List.mem_cons_self
        refine ⟨(a - 1).toNat, by omega, t, (ih t).mpr ⟨by simpa using hl, fun x hx => hr x (List.mem_cons_of_mem _ hx)⟩, ?_⟩
        congr 1; omega

theorem allSeqs_nodup (N : Nat) : ∀ k, (allSeqs N k).Nodup := by
  intro k
  induction k with
  | zero => simp [allSeqs]
  | succ k ih =>
    simp only [allSeqs]
    rw [List.nodup_flatMap]
    constructor
    · intro i _
      exact ih.map (fun a b h => by injection h)
    · have : (List.range N).Pairwise (· ≠ ·) := List.nodup_range
      refine this.imp ?_
      intro i j hij
      rw [Function.onFun, List.disjoint_left]
      intro s hs hs'
      obtain ⟨t, -, rfl⟩ := List.mem_map.mp hs
      obtain ⟨t', -, h⟩ := List.mem_map.mp hs'
      injection h with h1 _
      apply hij; omega

theorem isParking_some_eq_none (s : List Int) (m : Int) (h : (s.length : Int) = m) :
    isParkingFunction s (some m) = isParkingFunction s none := by
  unfold isParkingFunction
  simp [h]

/-- entries of a parking function are at most its length -/
theorem parking_le_length (s : List Int) (h : isParkingFunction s none = true) : ∀ x ∈ s, 1 ≤ x ∧ x ≤ (s.length : Int) := by
  obtain ⟨h1, hc⟩ := (isParkingFunction_iff s).mp h
  intro x hx
  refine ⟨h1 x hx, ?_⟩
  have hlen : 1 ≤ s.length := List.length_pos_iff.mpr (List.ne_nil_of_mem hx)
  have := hc s.length (by omega) (by omega)
  have hle : (s.filter fun x => decide (x ≤ (s.length : Int))).length ≤ s.length := List.length_filter_le _ _
  have heq : (s.filter fun x => decide (x ≤ (s.length : Int))).length = s.length := by omega
  have hall := List.length_filter_eq_length_iff.mp heq
  simpa using hall x hx

/-! ### Pollak's count through the matrix-tree theorem -/

/-- the complete graph on N vertices as a model graph -/
def completeGraph (N : Nat) : Graph N :=
  Graph.ofFns (fun u v => if u = v then 0 else 1) (fun _ => N - 1) (N * (N - 1) / 2)

theorem completeGraph_isComplete (N : Nat) : IsComplete (completeGraph N) := by
  intro u v; simp [completeGraph]

theorem completeGraph_wf (N : Nat) : (completeGraph N).WF := by
  refine ⟨?_, ?_, ?_, ?_⟩
  · intro v w; simp only [completeGraph, Graph.adj_ofFns]; by_cases h : v = w
    · simp [h]
    · have : ¬ w = v := fun e => h e.symm
      simp [h, this]
  · intro v; simp [completeGraph]
  · intro v
    simp only [completeGraph, Graph.val_ofFns, Graph.adj_ofFns]
    have h2 : ∀ u : Fin N, (if v = u then 0 else 1 : Nat) = 1 - (if u = v then 1 else 0) := by
      intro u; by_cases hu : u = v
      · simp [hu]
      · have : ¬ v = u := fun e => hu e.symm
        simp [hu, this]
    simp only [h2]
    rw [Finset.sum_tsub_distrib _ (fun u _ => by split <;> omega)]
    simp
  · simp only [completeGraph, Graph.total_ofFns, Graph.val_ofFns, Finset.sum_const, Finset.card_univ, Fintype.card_fin,
      smul_eq_mul]
    have : 2 ∣ N * (N - 1) := by
      rcases Nat.even_or_odd N with h | h
      · exact Dvd.dvd.mul_right h.two_dvd _
      · have : Even (N - 1) := by
          rcases h with ⟨k, rfl⟩; exact ⟨k, by omega⟩
        exact Dvd.dvd.mul_left this.two_dvd _
    omega

theorem completeGraph_connected (N : Nat) : (completeGraph N).Connected := by
  intro q
  refine ⟨fun v => if v = q then 0 else 1, by simp, ?_⟩
  intro v hv
  refine ⟨q, ?_, by simp [hv]⟩
  simp [completeGraph, hv]

/-- **Pollak**: the library generates exactly (m+1)^(m−1) parking functions of length m.
    Route: parking functions of length m ↔ superstables of K_(m+1) (`complete_superstable_iff_parking`),
    whose number is det of the reduced Laplacian (`card_superstable_eq_det`) = (m+1)^(m−1)
    (`det_complete`). -/
theorem generateParking_length (m : Nat) (hm : 1 ≤ m) :
    (generateParking (m : Int)).length = (m + 1) ^ (m - 1) := by
  classical
  let G := completeGraph (m + 1)
  have hK := completeGraph_isComplete (m + 1)
  have hG := completeGraph_wf (m + 1)
  have hc := completeGraph_connected (m + 1)
  let q : Fin (m + 1) := Fin.last m
  have hcard := card_superstable_eq_det G q hG hc (by omega)
  rw [det_complete G q hK (by omega)] at hcard
  have hpow : (((m + 1 : Nat) : Int) ^ (m + 1 - 2)).natAbs = (m + 1) ^ (m - 1) := by
    rw [Int.natAbs_pow, Int.natAbs_natCast]; congr 1
  rw [hpow] at hcard
  rw [← hcard]
  have hvl : (vtilde q).length = m := by have := vtilde_length q; omega
  -- the generated list
  have hgen : generateParking (m : Int) = (allSeqs m m).filter fun s => isParkingFunction s (some (m : Int)) := by
    unfold generateParking
    rw [if_neg (by omega)]; simp
  set L := generateParking (m : Int) with hL
  have hLnd : L.Nodup := by rw [hgen]; exact (allSeqs_nodup m m).filter _
  have hmemL : ∀ s, s ∈ L ↔ s.length = m ∧ isParkingFunction s none = true := by
    intro s
    rw [hgen, List.mem_filter, mem_allSeqs]
    constructor
    · rintro ⟨⟨h1, -⟩, h2⟩
      exact ⟨h1, by rw [← isParking_some_eq_none s m (by omega)]; exact h2⟩
    · rintro ⟨h1, h2⟩
      refine ⟨⟨h1, ?_⟩, by rw [isParking_some_eq_none s m (by omega)]; exact h2⟩
      intro x hx
      have := parking_le_length s h2 x hx
      rw [h1] at this; exact this
  have h1 : Nat.card {s // s ∈ L} = L.length := by
    rw [Nat.card_congr (hLnd.getEquiv L).symm]; simp
  rw [← h1]
  symm
  apply Nat.card_congr
  let toSeq : (Off q → Int) → List Int := fun c => (vtilde q).map fun v => ext q c 0 v + 1
  have hss : ∀ c : Off q → Int, Superstable G q c ↔ isParkingFunction (toSeq c) none = true := by
    intro c
    rw [← complete_superstable_iff_parking G hK q (ext q c 0), C10.superstable_iff]
    rfl
  refine Equiv.ofBijective (fun c => ⟨toSeq c.1, (hmemL _).mpr ⟨by simp [toSeq, hvl], (hss c.1).mp c.2⟩⟩) ⟨?_, ?_⟩
  · rintro ⟨c1, h1⟩ ⟨c2, h2⟩ he
    have he' : toSeq c1 = toSeq c2 := congrArg Subtype.val he
    apply Subtype.ext
    funext v
    have hv : v.1 ∈ vtilde q := (mem_vtilde' q v.1).mpr v.2
    have := List.map_inj_left.mp he' v.1 hv
    simp only [ext_off, add_left_inj] at this
    exact this
  · rintro ⟨s, hs⟩
    obtain ⟨hlen, hpark⟩ := (hmemL s).mp hs
    have hlen' : s.length = (vtilde q).length := by rw [hlen, hvl]
    let c : Off q → Int := fun v => s[((offEquiv q).symm v).1]'(by rw [hlen']; exact ((offEquiv q).symm v).2) - 1
    have hseq : toSeq c = s := by
      apply List.ext_getElem
      · simp [toSeq, hlen']
      · intro i h1 h2
        have hi : i < (vtilde q).length := by simpa [toSeq] using h1
        simp only [toSeq, List.getElem_map]
        have hv : (vtilde q)[i] ≠ q := (mem_vtilde' q _).mp (List.getElem_mem _)
        have e1 : ext q c 0 (vtilde q)[i] = c ⟨(vtilde q)[i], hv⟩ := ext_off q c 0 ⟨_, hv⟩
        rw [e1]
        have e2 : (offEquiv q).symm ⟨(vtilde q)[i], hv⟩ = ⟨i, hi⟩ := by
          rw [Equiv.symm_apply_eq]; rfl
        simp only [c, e2]; ring
    refine ⟨⟨c, (hss c).mpr (by rw [hseq]; exact hpark)⟩, ?_⟩
    apply Subtype.ext
    exact hseq

/-- the closed form the library publishes -/
theorem generateParking_count (m : Nat) (hm : 1 ≤ m) :
    ((generateParking (m : Int)).length : Int) = parkingCount (m : Int) := by
  rw [generateParking_length m hm]
  unfold parkingCount
  rw [if_neg (by omega)]
  simp

end CF
