import ChipFiring.Spec.Basic
import ChipFiring.Model.Machines
import Mathlib.Tactic
/-
  The orientation machine keeps its counters exact: after any history of `set_orientation`
  calls (all three states, both endpoint orders, refused calls included) each vertex's stored
  in/out-degree is the total multiplicity of the edges currently pointing into/out of it, both
  endpoints agree on every edge, and a cached fullness flag that claims to be up to date is right.
-/
open Finset

namespace CF
variable {n : Nat}

namespace Orient

def I1 (s : Nat) : Int := if s = 1 then 1 else 0
def I2 (s : Nat) : Int := if s = 2 then 1 else 0

/-- total multiplicity of edges pointing into `v` / out of `v` according to the edge states -/
def inSpec (G : Graph n) (o : Orient n) (v : Fin n) : Int := ∑ u, I1 (o.st u v) * (G.adj u v : Int)
def outSpec (G : Graph n) (o : Orient n) (v : Fin n) : Int := ∑ u, I1 (o.st v u) * (G.adj v u : Int)

structure Inv (G : Graph n) (o : Orient n) : Prop where
  range : ∀ u v, o.st u v ≤ 2
  zero : ∀ u v, G.adj u v = 0 → o.st u v = 0
  agree : ∀ u v, o.st v u = flip (o.st u v)
  inOk : ∀ v, o.inD v = inSpec G o v
  outOk : ∀ v, o.outD v = outSpec G o v
  flag : o.isFullChecked = true → (o.isFull = true ↔ fullNow G o = true)

theorem flip_le (s : Nat) : flip s ≤ 2 := by unfold flip; split <;> [omega; (split <;> omega)]
theorem flip_flip (s : Nat) (h : s ≤ 2) : flip (flip s) = s := by
  interval_cases s <;> simp [flip]
theorem I1_flip (s : Nat) (h : s ≤ 2) : I1 (flip s) = I2 s := by interval_cases s <;> simp [I1, I2, flip]

theorem blank_inv (G : Graph n) : Inv G (blank : Orient n) := by
  refine ⟨?_, ?_, ?_, ?_, ?_, ?_⟩ <;> simp [blank, st, inD, outD, inSpec, outSpec, I1, flip]

/-- explicit description of an accepted `set_orientation` -/
theorem setO_ok {G : Graph n} {o o' : Orient n} {src snk : Fin n} {state : Nat}
    (h : setO G o src snk state = .ok o') :
    G.adj src snk ≠ 0 ∧ src ≠ snk ∧
    (∀ a b, o'.st a b = if a = src ∧ b = snk then state else if a = snk ∧ b = src then flip state else o.st a b) ∧
    (∀ w, o'.inD w = (if state = 1 then (if w = snk then
          (if o.st src snk = 1 then (if w = snk then o.inD w - G.adj src snk else o.inD w)
           else if o.st src snk = 2 then (if w = src then o.inD w - G.adj src snk else o.inD w) else o.inD w) + G.adj src snk
        else (if o.st src snk = 1 then (if w = snk then o.inD w - G.adj src snk else o.inD w)
           else if o.st src snk = 2 then (if w = src then o.inD w - G.adj src snk else o.inD w) else o.inD w))
      else if state = 2 then (if w = src then
          (if o.st src snk = 1 then (if w = snk then o.inD w - G.adj src snk else o.inD w)
           else if o.st src snk = 2 then (if w = src then o.inD w - G.adj src snk else o.inD w) else o.inD w) + G.adj src snk
        else (if o.st src snk = 1 then (if w = snk then o.inD w - G.adj src snk else o.inD w)
           else if o.st src snk = 2 then (if w = src then o.inD w - G.adj src snk else o.inD w) else o.inD w))
      else (if o.st src snk = 1 then (if w = snk then o.inD w - G.adj src snk else o.inD w)
           else if o.st src snk = 2 then (if w = src then o.inD w - G.adj src snk else o.inD w) else o.inD w))) ∧
    (∀ w, o'.outD w = (if state = 1 then (if w = src then
          (if o.st src snk = 1 then (if w = src then o.outD w - G.adj src snk else o.outD w)
           else if o.st src snk = 2 then (if w = snk then o.outD w - G.adj src snk else o.outD w) else o.outD w) + G.adj src snk
        else (if o.st src snk = 1 then (if w = src then o.outD w - G.adj src snk else o.outD w)
           else if o.st src snk = 2 then (if w = snk then o.outD w - G.adj src snk else o.outD w) else o.outD w))
      else if state = 2 then (if w = snk then
          (if o.st src snk = 1 then (if w = src then o.outD w - G.adj src snk else o.outD w)
           else if o.st src snk = 2 then (if w = snk then o.outD w - G.adj src snk else o.outD w) else o.outD w) + G.adj src snk
        else (if o.st src snk = 1 then (if w = src then o.outD w - G.adj src snk else o.outD w)
           else if o.st src snk = 2 then (if w = snk then o.outD w - G.adj src snk else o.outD w) else o.outD w))
      else (if o.st src snk = 1 then (if w = src then o.outD w - G.adj src snk else o.outD w)
           else if o.st src snk = 2 then (if w = snk then o.outD w - G.adj src snk else o.outD w) else o.outD w))) ∧
    o'.isFull = (if state = 0 then false else o.isFull) ∧
    o'.isFullChecked = (if state = 0 then true else if o.st src snk = 0 then false else o.isFullChecked) := by
  unfold setO at h
  split at h
  · exact absurd h (by simp)
  · rename_i hc
    injection h with h
    subst h
    push_neg at hc
    refine ⟨hc.1, hc.2, ?_, ?_, ?_, rfl, rfl⟩
    · intro a b; simp [st]
    · intro w; simp [inD]
    · intro w; simp [outD]

/-- the counters after an accepted call, in closed form -/
theorem setO_counters {G : Graph n} {o o' : Orient n} {src snk : Fin n} {state : Nat}
    (hr : o.st src snk ≤ 2) (hs : state ≤ 2) (h : setO G o src snk state = .ok o') :
    (∀ w, o'.inD w = o.inD w + (if w = snk then (I1 state - I1 (o.st src snk)) * (G.adj src snk : Int) else 0)
                          + (if w = src then (I2 state - I2 (o.st src snk)) * (G.adj src snk : Int) else 0)) ∧
    (∀ w, o'.outD w = o.outD w + (if w = src then (I1 state - I1 (o.st src snk)) * (G.adj src snk : Int) else 0)
                          + (if w = snk then (I2 state - I2 (o.st src snk)) * (G.adj src snk : Int) else 0)) := by
  obtain ⟨-, hne, -, hin, hout, -, -⟩ := setO_ok h
  have hne' : ¬ snk = src := fun e => hne e.symm
  constructor
  · intro w
    rw [hin w]
    generalize o.st src snk = old at hr ⊢
    by_cases h1 : w = snk <;> by_cases h2 : w = src
    · exact absurd (h2.symm.trans h1) hne
    · subst h1; interval_cases old <;> interval_cases state <;> simp [I1, I2, hne'] <;> ring
    · subst h2; interval_cases old <;> interval_cases state <;> simp [I1, I2, hne] <;> ring
    · interval_cases old <;> interval_cases state <;> simp [I1, I2, h1, h2]
  · intro w
    rw [hout w]
    generalize o.st src snk = old at hr ⊢
    by_cases h1 : w = snk <;> by_cases h2 : w = src
    · exact absurd (h2.symm.trans h1) hne
    · subst h1; interval_cases old <;> interval_cases state <;> simp [I1, I2, hne'] <;> ring
    · subst h2; interval_cases old <;> interval_cases state <;> simp [I1, I2, hne] <;> ring
    · interval_cases old <;> interval_cases state <;> simp [I1, I2, h1, h2]


theorem I1_st_setO {G : Graph n} {o o' : Orient n} {src snk : Fin n} {state : Nat}
    (h : setO G o src snk state = .ok o') (a b : Fin n) :
    I1 (o'.st a b) = I1 (o.st a b) + (if a = src then (if b = snk then I1 state - I1 (o.st src snk) else 0) else 0)
                      + (if a = snk then (if b = src then I1 (flip state) - I1 (o.st snk src) else 0) else 0) := by
  obtain ⟨-, hne, hst, -, -, -, -⟩ := setO_ok h
  have hne' : ¬ snk = src := fun e => hne e.symm
  rw [hst a b]
  by_cases h1 : a = src ∧ b = snk
  · obtain ⟨rfl, rfl⟩ := h1
    simp [hne]
  · by_cases h2 : a = snk ∧ b = src
    · obtain ⟨rfl, rfl⟩ := h2
      simp [hne']
    · rw [if_neg h1, if_neg h2]
      have e1 : (if a = src then (if b = snk then I1 state - I1 (o.st src snk) else 0) else 0) = 0 := by
        by_cases ha : a = src
        · by_cases hb : b = snk
          · exact absurd ⟨ha, hb⟩ h1
          · simp [hb]
        · simp [ha]
      have e2 : (if a = snk then (if b = src then I1 (flip state) - I1 (o.st snk src) else 0) else 0) = 0 := by
        by_cases ha : a = snk
        · by_cases hb : b = src
          · exact absurd ⟨ha, hb⟩ h2
          · simp [hb]
        · simp [ha]
      rw [e1, e2]; ring

theorem inSpec_setO {G : Graph n} (hsym : ∀ v w, G.adj v w = G.adj w v) {o o' : Orient n} {src snk : Fin n} {state : Nat}
    (hinv : Inv G o) (hs : state ≤ 2) (h : setO G o src snk state = .ok o') (v : Fin n) :
    inSpec G o' v = inSpec G o v + (if v = snk then (I1 state - I1 (o.st src snk)) * (G.adj src snk : Int) else 0)
                          + (if v = src then (I2 state - I2 (o.st src snk)) * (G.adj src snk : Int) else 0) := by
  have hold := hinv.range src snk
  unfold inSpec
  simp only [I1_st_setO h, add_mul, Finset.sum_add_distrib, ite_mul, zero_mul, Finset.sum_ite_eq', Finset.mem_univ, if_true]
  rw [hinv.agree src snk, I1_flip _ hs, I1_flip _ hold]
  have e1 : (if v = snk then (I1 state - I1 (o.st src snk)) * (G.adj src v : Int) else 0)
      = if v = snk then (I1 state - I1 (o.st src snk)) * (G.adj src snk : Int) else 0 := by
    by_cases hv : v = snk
    · rw [hv]
    · simp [hv]
  have e2 : (if v = src then (I2 state - I2 (o.st src snk)) * (G.adj snk v : Int) else 0)
      = if v = src then (I2 state - I2 (o.st src snk)) * (G.adj src snk : Int) else 0 := by
    by_cases hv : v = src
    · rw [hv, hsym snk src]
    · simp [hv]
  rw [e1, e2]

theorem outSpec_setO {G : Graph n} (hsym : ∀ v w, G.adj v w = G.adj w v) {o o' : Orient n} {src snk : Fin n} {state : Nat}
    (hinv : Inv G o) (hs : state ≤ 2) (h : setO G o src snk state = .ok o') (v : Fin n) :
    outSpec G o' v = outSpec G o v + (if v = src then (I1 state - I1 (o.st src snk)) * (G.adj src snk : Int) else 0)
                          + (if v = snk then (I2 state - I2 (o.st src snk)) * (G.adj src snk : Int) else 0) := by
  have hold := hinv.range src snk
  unfold outSpec
  simp only [I1_st_setO h, add_mul, Finset.sum_add_distrib]
  have e1 : ∑ u, (if v = src then (if u = snk then I1 state - I1 (o.st src snk) else 0) else 0) * (G.adj v u : Int)
      = if v = src then (I1 state - I1 (o.st src snk)) * (G.adj src snk : Int) else 0 := by
    by_cases hv : v = src
    · subst hv; simp [ite_mul]
    · simp [hv]
  have e2 : ∑ u, (if v = snk then (if u = src then I1 (flip state) - I1 (o.st snk src) else 0) else 0) * (G.adj v u : Int)
      = if v = snk then (I2 state - I2 (o.st src snk)) * (G.adj src snk : Int) else 0 := by
    by_cases hv : v = snk
    · subst hv; simp [ite_mul]
      rw [hinv.agree src v, I1_flip _ hs, I1_flip _ hold, hsym v src]
    · simp [hv]
  rw [e1, e2]

/-- an accepted `set_orientation` keeps the invariant -/
theorem setO_inv {G : Graph n} (hsym : ∀ v w, G.adj v w = G.adj w v) {o o' : Orient n} {src snk : Fin n} {state : Nat}
    (hinv : Inv G o) (hs : state ≤ 2) (h : setO G o src snk state = .ok o') : Inv G o' := by
  obtain ⟨hadj, hne, hst, -, -, hfull, hchk⟩ := setO_ok h
  have hne' : ¬ snk = src := fun e => hne e.symm
  obtain ⟨hin, hout⟩ := setO_counters (hinv.range src snk) hs h
  refine ⟨?_, ?_, ?_, ?_, ?_, ?_⟩
  · intro u v; rw [hst]; split
    · exact hs
    · split
      · exact flip_le _
      · exact hinv.range u v
  · intro u v huv; rw [hst]
    have h1 : ¬ (u = src ∧ v = snk) := by rintro ⟨rfl, rfl⟩; exact hadj huv
    have h2 : ¬ (u = snk ∧ v = src) := by rintro ⟨rfl, rfl⟩; rw [hsym] at huv; exact hadj huv
    rw [if_neg h1, if_neg h2]; exact hinv.zero u v huv
  · intro u v
    rw [hst v u, hst u v]
    by_cases h1 : u = src ∧ v = snk
    · obtain ⟨rfl, rfl⟩ := h1; simp [hne, hne']
    · by_cases h2 : u = snk ∧ v = src
      · obtain ⟨rfl, rfl⟩ := h2; simp [hne, hne', flip_flip _ hs]
      · have h3 : ¬ (v = src ∧ u = snk) := fun hc => h2 ⟨hc.2, hc.1⟩
        have h4 : ¬ (v = snk ∧ u = src) := fun hc => h1 ⟨hc.2, hc.1⟩
        rw [if_neg h1, if_neg h2, if_neg h3, if_neg h4]; exact hinv.agree u v
  · intro v; rw [hin v, inSpec_setO hsym hinv hs h v, hinv.inOk v]
  · intro v; rw [hout v, outSpec_setO hsym hinv hs h v, hinv.outOk v]
  · intro hc
    rw [hchk] at hc
    rw [hfull]
    by_cases h0 : state = 0
    · subst h0
      simp only [if_true, Bool.false_eq_true, false_iff]
      intro hf
      have := (allF_iff _).mp hf
      -- the edge src–snk (in index order) is unoriented now
      rcases Nat.lt_or_gt_of_ne (fun e : src.1 = snk.1 => hne (Fin.ext e)) with hlt | hgt
      · have h5 := (allF_iff _).mp (this src) snk
        have : o'.st src snk = 0 := by rw [hst]; simp
        simp [hlt, Nat.pos_of_ne_zero hadj, this] at h5
      · have h5 := (allF_iff _).mp (this snk) src
        have : o'.st snk src = 0 := by rw [hst]; simp [hne', flip]
        have hadj' : 0 < G.adj snk src := by rw [hsym]; exact Nat.pos_of_ne_zero hadj
        simp [hgt, hadj', this] at h5
    · simp only [h0, if_false] at hc ⊢
      by_cases hold0 : o.st src snk = 0
      · simp [hold0] at hc
      · simp only [hold0, if_false] at hc
        rw [hinv.flag hc]
        -- an oriented edge was re-oriented: "no edge unoriented" is unchanged
        have key : ∀ u v, (o'.st u v ≠ 0) ↔ (o.st u v ≠ 0) := by
          intro u v; rw [hst u v]
          by_cases h1 : u = src ∧ v = snk
          · obtain ⟨rfl, rfl⟩ := h1; simp [h0, hold0]
          · by_cases h2 : u = snk ∧ v = src
            · obtain ⟨rfl, rfl⟩ := h2
              rw [if_neg (fun hc : u = v ∧ v = u => hne' hc.1), if_pos ⟨rfl, rfl⟩]
              have hs0 : flip state ≠ 0 := by
                have := hs; interval_cases state <;> simp_all [flip]
              have : o.st u v ≠ 0 := by
                rw [hinv.agree v u]
                have := hinv.range v u
                generalize o.st v u = x at *
                interval_cases x <;> simp_all [flip]
              simp [hs0, this]
            · rw [if_neg h1, if_neg h2]
        unfold fullNow
        simp only [allF_iff, Bool.or_eq_true, Bool.not_eq_eq_eq_not, Bool.not_true, Bool.and_eq_false_imp,
          decide_eq_true_eq, key]

/-- the constructor's `check_fullness` leaves a correct flag -/
theorem checkFullness_inv {G : Graph n} {o : Orient n} (hinv : Inv G o) : Inv G (checkFullness G o).1 := by
  refine ⟨hinv.range, hinv.zero, hinv.agree, hinv.inOk, hinv.outOk, ?_⟩
  intro _
  simp only [checkFullness]
  exact Iff.rfl

end Orient
end CF
