import ChipFiring.Theory.EwdFull
import ChipFiring.Theory.Potential
import ChipFiring.Theory.Enum
import ChipFiring.Theory.Moves
/-
  Exactness of the winnability oracles used by rank and gonality, monotonicity and functionality
  of the rank relation, correctness of the rank loop (T11, first half).
-/
open Finset

namespace CF
variable {n : Nat} (G : Graph n)

/-- standing hypotheses under which the model's winnability tests are exact -/
structure Good (G : Graph n) : Prop where
  wf : G.WF
  conn : G.Connected
  pos : 0 < n
  cover : ∀ q v, v ≠ q → v ∈ debtOrder G (fun _ => []) q

theorem winnablePlain_exact (hg : Good G) (fuel : Nat) (D : Fin n → Int) (b : Bool)
    (h : winnablePlain G fuel D = some b) : b = true ↔ Winnable G D := by
  unfold winnablePlain at h
  cases he : ewd G (fun _ => []) fuel (Divisor.ofFn D) false with
  | none => simp [he] at h
  | some x =>
    cases x with
    | error e =>
      exfalso
      unfold ewd at he
      simp only [Bool.false_and, Bool.false_eq_true, if_false] at he
      have := sink_isSome (Divisor.ofFn D).deg hg.pos
      split at he
      · rename_i hnone; rw [hnone] at this; simp at this
      · split at he <;> simp at he
    | ok r =>
      simp only [he] at h
      injection h with h; subst h
      obtain ⟨q, red, -, -, -, hred, hv⟩ := ewd_plain_ok G he
      obtain ⟨hle, hqr⟩ := reduceLoop_qreduced G hg.wf.symm q _ (hg.cover q) fuel fuel _ _ _ red hred
      rw [Divisor.deg_ofFn] at hle
      rw [hv, decide_eq_true_eq, winnable_congr G hle]
      exact (qreduced_verdict G q red.D hqr).symm

theorem winnableOpt_exact (hg : Good G) (fuel : Nat) (D : Fin n → Int) (b : Bool)
    (h : winnableOpt G fuel D = some b) : b = true ↔ Winnable G D := by
  unfold winnableOpt at h
  cases he : ewd G (fun _ => []) fuel (Divisor.ofFn D) true with
  | none => simp [he] at h
  | some x =>
    cases x with
    | error e =>
      exfalso
      unfold ewd at he
      simp only [Bool.true_and] at he
      split at he; · simp at he
      split at he; · simp at he
      have := sink_isSome (Divisor.ofFn D).deg hg.pos
      split at he
      · rename_i hnone; rw [hnone] at this; simp at this
      · split at he <;> simp at he
    | ok r =>
      simp only [he] at h
      injection h with h; subst h
      have htot : (Divisor.ofFn D).total = deg (Divisor.ofFn D).deg := ofFn_total D
      rcases ewd_opt_ok G he with ⟨hneg, hv, -⟩ | ⟨-, hge, hv, -⟩ | ⟨-, -, q, red, -, -, -, hred, hv⟩
      · rw [hv]
        have := not_winnable_of_deg_neg G hg.wf.symm (D := D) (by
          have := htot; rw [Divisor.deg_ofFn] at this; rw [← this]; exact hneg)
        simp [this]
      · rw [hv]; simp only [true_iff]
        apply winnable_of_deg_ge_genus G hg.wf hg.conn hg.pos D
        have := htot; rw [Divisor.deg_ofFn] at this; rw [← this]; exact hge
      · obtain ⟨hle, hqr⟩ := reduceLoop_qreduced G hg.wf.symm q _ (hg.cover q) fuel fuel _ _ _ red hred
        rw [Divisor.deg_ofFn] at hle
        rw [hv, decide_eq_true_eq, winnable_congr G hle]
        exact (qreduced_verdict G q red.D hqr).symm

/-! ### algebra of winnability -/

theorem applyScript_add_right (D F s : Fin n → Int) :
    applyScript G (fun v => D v + F v) s = fun v => applyScript G D s v + F v := by
  funext v; simp only [applyScript]; ring

/-- adding chips preserves winnability -/
theorem Winnable.add_eff {D F : Fin n → Int} (h : Winnable G D) (hF : Eff F) :
    Winnable G (fun v => D v + F v) := by
  obtain ⟨E, ⟨s, rfl⟩, hE⟩ := h
  refine ⟨_, ⟨s, rfl⟩, ?_⟩
  rw [applyScript_add_right]
  intro v; have := hE v; have := hF v; simp only; omega

/-- linearly equivalent divisors stay equivalent after subtracting the same divisor -/
theorem LinEq.sub_right {D D' : Fin n → Int} (h : LinEq G D D') (E : Fin n → Int) :
    LinEq G (fun v => D v - E v) (fun v => D' v - E v) := by
  obtain ⟨s, rfl⟩ := h
  refine ⟨s, ?_⟩
  funext v; simp only [applyScript]; ring

/-- "every effective E of degree k keeps D − E winnable" -/
def AllWin (D : Fin n → Int) (k : Nat) : Prop :=
  ∀ E : Fin n → Int, Eff E → deg E = (k : Int) → Winnable G (fun v => D v - E v)

/-- T11 (monotonicity): the good k are downward closed -/
theorem allWin_mono (hn : 0 < n) (D : Fin n → Int) {j k : Nat} (hjk : j ≤ k) (h : AllWin G D k) : AllWin G D j := by
  intro E' hE' hdeg
  let v0 : Fin n := ⟨0, hn⟩
  let F : Fin n → Int := fun v => if v = v0 then ((k - j : Nat) : Int) else 0
  have hF : Eff F := fun v => by simp only [F]; split <;> simp
  have hdegF : deg F = ((k - j : Nat) : Int) := by simp [deg, F]
  let E : Fin n → Int := fun v => E' v + F v
  have hE : Eff E := fun v => by have := hE' v; have := hF v; simp only [E]; omega
  have hdegE : deg E = (k : Int) := by
    simp only [deg, E, Finset.sum_add_distrib]
    have h1 : ∑ v, E' v = (j : Int) := hdeg
    have h2 : ∑ v, F v = ((k - j : Nat) : Int) := hdegF
    rw [h1, h2]; push_cast [Nat.cast_sub hjk]; ring
  have := Winnable.add_eff G (h E hE hdegE) hF
  have heq : (fun v => (D v - E v) + F v) = fun v => D v - E' v := by
    funext v; simp only [E]; ring
  rw [heq] at this; exact this

theorem allWin_congr {D D' : Fin n → Int} (h : LinEq G D D') (k : Nat) : AllWin G D k ↔ AllWin G D' k := by
  constructor
  · intro hA E hE hd; exact (winnable_congr G (LinEq.sub_right G h E)).mp (hA E hE hd)
  · intro hA E hE hd; exact (winnable_congr G (LinEq.sub_right G h E)).mpr (hA E hE hd)

theorem isRank_iff (D : Fin n → Int) (r : Int) :
    IsRank G D r ↔ (r = -1 ∧ ¬ Winnable G D) ∨ (∃ k : Nat, r = k ∧ AllWin G D k ∧ ¬ AllWin G D (k + 1)) := by
  unfold IsRank AllWin
  constructor
  · rintro (h | ⟨h0, h1, E, hE, hd, hu⟩)
    · exact Or.inl h
    · right
      refine ⟨r.toNat, (Int.toNat_of_nonneg h0).symm, ?_, ?_⟩
      · intro E hE hd; exact h1 E hE (by rw [hd, Int.toNat_of_nonneg h0])
      · intro hall
        exact hu (hall E hE (by rw [hd]; push_cast [Int.toNat_of_nonneg h0]; ring))
  · rintro (h | ⟨k, rfl, h1, h2⟩)
    · exact Or.inl h
    · right
      refine ⟨by positivity, h1, ?_⟩
      by_contra hc
      apply h2
      intro E hE hd
      by_contra hu
      exact hc ⟨E, hE, by rw [hd]; push_cast; ring, hu⟩

/-- the rank relation is functional -/
theorem isRank_functional (hn : 0 < n) (D : Fin n → Int) (r r' : Int) (h : IsRank G D r) (h' : IsRank G D r') :
    r = r' := by
  rw [isRank_iff] at h h'
  have zeroWin : ∀ k, AllWin G D k → Winnable G D := by
    intro k hk
    have := allWin_mono G hn D (Nat.zero_le k) hk (fun _ => 0) (fun _ => le_refl 0) (by simp [deg])
    simpa using this
  rcases h with ⟨rfl, hu⟩ | ⟨k, rfl, h1, h2⟩ <;> rcases h' with ⟨rfl, hu'⟩ | ⟨k', rfl, h1', h2'⟩
  · rfl
  · exact absurd (zeroWin k' h1') hu
  · exact absurd (zeroWin k h1) hu'
  · rcases Nat.lt_trichotomy k k' with hlt | heq | hgt
    · exact absurd (allWin_mono G hn D hlt h1') h2
    · rw [heq]
    · exact absurd (allWin_mono G hn D hgt h1) h2'

theorem isRank_congr (hn : 0 < n) {D D' : Fin n → Int} (h : LinEq G D D') (r : Int) : IsRank G D r ↔ IsRank G D' r := by
  rw [isRank_iff, isRank_iff, winnable_congr G h]
  constructor
  · rintro (h1 | ⟨k, hk, h1, h2⟩)
    · exact Or.inl h1
    · exact Or.inr ⟨k, hk, (allWin_congr G h k).mp h1, fun hc => h2 ((allWin_congr G h (k + 1)).mpr hc)⟩
  · rintro (h1 | ⟨k, hk, h1, h2⟩)
    · exact Or.inl h1
    · exact Or.inr ⟨k, hk, (allWin_congr G h k).mpr h1, fun hc => h2 ((allWin_congr G h (k + 1)).mp hc)⟩

/-! ### the enumeration loop -/

theorem allWinnable_fold (fuel : Nat) (D : Fin n → Int) (l : List (Fin n → Int)) :
    ∀ acc b, l.foldl (fun acc E =>
        match acc with
        | none => none
        | some false => some false
        | some true => winnablePlain G fuel (fun v => D v - E v)) acc = some b →
      (b = true → acc = some true ∧ ∀ E ∈ l, winnablePlain G fuel (fun v => D v - E v) = some true) ∧
      (b = false → acc = some false ∨ ∃ E ∈ l, winnablePlain G fuel (fun v => D v - E v) = some false) := by
  induction l with
  | nil => intro acc b h; simp at h; subst h; cases b <;> simp
  | cons E l ih =>
    intro acc b h
    rw [List.foldl_cons] at h
    have := ih _ b h
    cases acc with
    | none =>
      simp only at this
      cases b
      · rcases this.2 rfl with h1 | ⟨E', hE', h2⟩
        · simp at h1
        · exact ⟨by simp, fun _ => Or.inr ⟨E', List.mem_cons_of_mem _ hE', h2⟩⟩
      · have := (this.1 rfl).1; simp at this
    | some a =>
      cases a
      · simp only at this
        cases b
        · exact ⟨by simp, fun _ => Or.inl rfl⟩
        · have := (this.1 rfl).1; simp at this
      · simp only at this
        cases b
        · refine ⟨by simp, fun _ => Or.inr ?_⟩
          rcases this.2 rfl with h1 | ⟨E', hE', h2⟩
          · exact ⟨E, List.mem_cons_self, h1⟩
          · exact ⟨E', List.mem_cons_of_mem _ hE', h2⟩
        · refine ⟨fun _ => ⟨rfl, ?_⟩, by simp⟩
          obtain ⟨h1, h2⟩ := this.1 rfl
          intro E' hE'
          rcases List.mem_cons.mp hE' with rfl | hE'
          · exact h1
          · exact h2 E' hE'

theorem allWinnable_exact (hg : Good G) (fuel : Nat) (D : Fin n → Int) (k : Nat) (b : Bool)
    (h : allWinnable G fuel D k = some b) : b = true ↔ AllWin G D k := by
  unfold allWinnable at h
  obtain ⟨h1, h2⟩ := allWinnable_fold G fuel D (effDivs n k) (some true) b h
  cases b
  · simp only [Bool.false_eq_true, false_iff]
    rcases h2 rfl with h3 | ⟨E, hE, h3⟩
    · simp at h3
    · intro hall
      obtain ⟨hEff, hdeg⟩ := effDivs_sound k E hE
      have := (winnablePlain_exact G hg fuel _ false h3).mpr (hall E hEff hdeg)
      simp at this
  · simp only [true_iff]
    obtain ⟨-, h3⟩ := h1 rfl
    intro E hE hd
    exact (winnablePlain_exact G hg fuel _ true (h3 E (effDivs_complete k E hE hd))).mp rfl

/-- the `while True` loop: started at k with everything below k known to be fine, it returns the rank -/
theorem rankLoop_spec (hg : Good G) (fuel : Nat) (D : Fin n → Int) :
    ∀ (f k : Nat) (r : Int), 1 ≤ k → AllWin G D (k - 1) → rankLoop G fuel D f k = some r → IsRank G D r := by
  intro f
  induction f with
  | zero => intro k r _ _ h; simp [rankLoop] at h
  | succ f ih =>
    intro k r hk hprev h
    rw [rankLoop] at h
    cases ha : allWinnable G fuel D k with
    | none => simp [ha] at h
    | some b =>
      have hex := allWinnable_exact G hg fuel D k b ha
      cases b
      · simp only [ha] at h
        injection h with h; subst h
        rw [isRank_iff]
        right
        refine ⟨k - 1, by push_cast [Nat.cast_sub hk]; ring, hprev, ?_⟩
        have : k - 1 + 1 = k := by omega
        rw [this]; intro hc; have := hex.mpr hc; simp at this
      · simp only [ha] at h
        exact ih (k + 1) r (by omega) (by simpa using hex.mp rfl) h

end CF
