import ChipFiring.Properties.C11
open Finset
namespace CF
open Orient
variable {n : Nat}

theorem ref?_val (a : Fin n) : ref? n a.1 = some a := by simp [ref?, a.2]

theorem setO_accepts (G : Graph n) (o : Orient n) (a b : Fin n) (s : Nat) (h : G.adj a b ≠ 0) (hab : a ≠ b) :
    ∃ o', setO G o a b s = .ok o' := by
  unfold setO
  rw [if_neg (by push Not; exact ⟨h, hab⟩)]
  exact ⟨_, rfl⟩

theorem checkFullness_st (G : Graph n) (o : Orient n) :
    (checkFullness G o).1.st = o.st ∧ (checkFullness G o).1.inD = o.inD ∧ (checkFullness G o).1.outD = o.outD :=
  ⟨rfl, rfl, rfl⟩

/-- the constructor run on a list of pairwise different edges, none of them oriented yet -/
theorem new_go_spec (G : Graph n) (hG : G.WF) :
    ∀ (ps : List (Fin n × Fin n)) (o : Orient n), Inv G o →
      (∀ p ∈ ps, 0 < G.adj p.1 p.2) →
      ps.Pairwise (fun p p' => ¬ (p = p' ∨ p = (p'.2, p'.1))) →
      (∀ p ∈ ps, o.st p.1 p.2 = 0) →
      ∃ o', Orient.new.go G (ps.map fun p => (p.1.1, p.2.1)) o = .ok o' ∧
        ∀ x y, o'.st x y = if (x, y) ∈ ps then 1 else if (y, x) ∈ ps then 2 else o.st x y := by
  intro ps
  induction ps with
  | nil =>
    intro o _ _ _ _
    refine ⟨(checkFullness G o).1, by simp [Orient.new.go], fun x y => by simp; rfl⟩
  | cons p ps ih =>
    intro o hinv hadj hpw hzero
    obtain ⟨a, b⟩ := p
    have hab0 : 0 < G.adj a b := hadj (a, b) List.mem_cons_self
    have hne : a ≠ b := by rintro rfl; rw [hG.loopless a] at hab0; omega
    have hst : o.st a b = 0 := hzero (a, b) List.mem_cons_self
    have hst' : o.st b a = 0 := by rw [hinv.agree a b, hst]; rfl
    obtain ⟨o1, ho1⟩ := setO_accepts G o a b 1 (by omega) hne
    have hinv1 := setO_inv hG.symm hinv (by omega) ho1
    obtain ⟨-, -, hst1, -, -⟩ := setO_ok ho1
    rw [List.pairwise_cons] at hpw
    have hz1 : ∀ p ∈ ps, o1.st p.1 p.2 = 0 := by
      intro p hp
      have hd := hpw.1 p hp
      rw [hst1]
      have h1 : ¬ (p.1 = a ∧ p.2 = b) := by
        rintro ⟨h1, h2⟩; apply hd; left; ext <;> simp [h1, h2]
      have h2 : ¬ (p.1 = b ∧ p.2 = a) := by
        rintro ⟨h1, h2⟩; apply hd; right; ext <;> simp [h1, h2]
      rw [if_neg h1, if_neg h2]
      exact hzero p (List.mem_cons_of_mem _ hp)
    obtain ⟨o', ho', hst'⟩ := ih o1 hinv1 (fun p hp => hadj p (List.mem_cons_of_mem _ hp)) hpw.2 hz1
    refine ⟨o', ?_, ?_⟩
    · simp only [List.map_cons, Orient.new.go, ref?_val]
      have hc1 : ¬ (G.adj a b = 0 ∨ a = b) := by push Not; exact ⟨by omega, hne⟩
      have hc2 : ¬ (o.st a b ≠ 0 ∨ o.st b a ≠ 0) := by push Not; exact ⟨hst, by assumption⟩
      rw [if_neg hc1, if_neg hc2, ho1]
      exact ho'
    · intro x y
      rw [hst' x y, hst1 x y]
      by_cases h1 : x = a ∧ y = b
      · obtain ⟨rfl, rfl⟩ := h1
        have hn1 : (x, y) ∉ ps := fun h => hpw.1 _ h (Or.inl rfl)
        have hn2 : (y, x) ∉ ps := fun h => hpw.1 _ h (Or.inr rfl)
        simp [hn1, hn2]
      · by_cases h2 : x = b ∧ y = a
        · obtain ⟨rfl, rfl⟩ := h2
          have hn1 : (x, y) ∉ ps := fun h => hpw.1 _ h (Or.inr rfl)
          have hn2 : (y, x) ∉ ps := fun h => hpw.1 _ h (Or.inl rfl)
          have : ¬ (x = y) := fun e => hne e.symm
          simp [hn1, hn2, this, Orient.flip]
        · have e1 : ((x, y) = (a, b)) ↔ False := by
            constructor
            · intro e; injection e with e1 e2; exact h1 ⟨e1, e2⟩
            · exact False.elim
          have e2 : ((y, x) = (a, b)) ↔ False := by
            constructor
            · intro e; injection e with e1 e2; exact h2 ⟨e2, e1⟩
            · exact False.elim
          simp only [List.mem_cons, e1, e2, false_or, if_neg h1, if_neg h2]

/-- **orientation dict round trip**: rebuilding an orientation from the list of its oriented edges
    (source first), in any order, gives the same edge states and the same in/out counters -/
theorem orientation_dict_roundtrip (G : Graph n) (hG : G.WF) (o : Orient n) (hinv : Inv G o)
    (ps : List (Fin n × Fin n)) (hnd : ps.Nodup)
    (hps : ∀ a b, (a, b) ∈ ps ↔ 0 < G.adj a b ∧ o.st a b = 1) :
    ∃ o', Orient.new G (ps.map fun p => (p.1.1, p.2.1)) = .ok o' ∧
      (∀ x y, o'.st x y = o.st x y) ∧ (∀ v, o'.inD v = o.inD v) ∧ (∀ v, o'.outD v = o.outD v) := by
  have hpw : ps.Pairwise (fun p p' => ¬ (p = p' ∨ p = (p'.2, p'.1))) := by
    apply hnd.imp_of_mem
    intro p p' hp hp' hne
    rintro (h | h)
    · exact hne h
    · obtain ⟨a, b⟩ := p
      obtain ⟨c, d⟩ := p'
      simp only [Prod.mk.injEq] at h
      obtain ⟨rfl, rfl⟩ := h
      have h1 := ((hps _ _).mp hp).2
      have h2 := ((hps _ _).mp hp').2
      rw [hinv.agree, h2] at h1
      simp [Orient.flip] at h1
  obtain ⟨o', ho', hst⟩ := new_go_spec G hG ps blank (blank_inv G)
    (fun p hp => ((hps p.1 p.2).mp hp).1) hpw (fun p _ => by simp [blank, st])
  have hinv' : Inv G o' := C11.new_go_inv G hG _ _ o' (blank_inv G) ho'
  have hsteq : ∀ x y, o'.st x y = o.st x y := by
    intro x y
    rw [hst x y]
    by_cases h1 : (x, y) ∈ ps
    · rw [if_pos h1, ((hps x y).mp h1).2]
    · rw [if_neg h1]
      by_cases h2 : (y, x) ∈ ps
      · rw [if_pos h2, hinv.agree y x, ((hps y x).mp h2).2]; rfl
      · rw [if_neg h2]
        have hb : (blank : Orient n).st x y = 0 := by simp [blank, st]
        rw [hb]
        by_cases hadj : G.adj x y = 0
        · exact (hinv.zero x y hadj).symm
        · have hr := hinv.range x y
          have hn1 : o.st x y ≠ 1 := fun h => h1 ((hps x y).mpr ⟨by omega, h⟩)
          have hn2 : o.st x y ≠ 2 := by
            intro h
            apply h2
            refine (hps y x).mpr ⟨by rw [hG.symm y x]; omega, ?_⟩
            rw [hinv.agree x y, h]; rfl
          omega
  refine ⟨o', ho', hsteq, ?_, ?_⟩
  · intro v
    rw [hinv'.inOk v, hinv.inOk v]
    unfold inSpec
    exact Finset.sum_congr rfl fun u _ => by rw [hsteq u v]
  · intro v
    rw [hinv'.outOk v, hinv.outOk v]
    unfold outSpec
    exact Finset.sum_congr rfl fun u _ => by rw [hsteq v u]

end CF
