import ChipFiring.Properties.C10Base
import ChipFiring.Theory.Complete
import Mathlib.Data.List.Sort
open Finset
namespace CF
variable {n : Nat}

/-! ### list side: the sorted test is a counting condition -/

theorem insertSorted_eq (x : Int) (l : List Int) : insertSorted x l = l.orderedInsert (· ≤ ·) x := by
  induction l with
  | nil => rfl
  | cons y ys ih => simp [insertSorted, List.orderedInsert_cons, ih]

theorem sortInts_eq (l : List Int) : sortInts l = l.insertionSort (· ≤ ·) := by
  induction l with
  | nil => rfl
  | cons x xs ih => simp [sortInts, insertSorted_eq, ih]

/-- counting condition with offset j: for every i in j+1 .. j+len, at least i − j entries are ≤ i -/
def CountCond (l : List Int) (j : Nat) : Prop :=
  ∀ i : Nat, j + 1 ≤ i → i ≤ j + l.length → i - j ≤ (l.filter fun x => decide (x ≤ (i : Int))).length

theorem parkCheck_iff (l : List Int) (hs : l.Pairwise (· ≤ ·)) (j : Nat) :
    parkCheck l j = true ↔ CountCond l j := by
  induction l generalizing j with
  | nil => simp [parkCheck, CountCond]; intro i h1 h2; omega
  | cons x xs ih =>
    rw [List.pairwise_cons] at hs
    simp only [parkCheck, Bool.and_eq_true, decide_eq_true_eq, ih hs.2 (j + 1)]
    constructor
    · rintro ⟨hx, hcc⟩ i h1 h2
      have hxi : x ≤ (i : Int) := by have : ((j:Int) + 1) ≤ i := by exact_mod_cast h1
                                     omega
      simp only [List.filter_cons, hxi, decide_true, if_true, List.length_cons]
      by_cases hi : i = j + 1
      · omega
      · have := hcc i (by omega) (by simp at h2; omega)
        omega
    · intro hcc
      have hx : x ≤ (j : Int) + 1 := by
        have h1 := hcc (j + 1) (le_refl _) (by simp)
        by_contra hlt
        have hall : ∀ y ∈ x :: xs, ¬ (y ≤ ((j + 1 : Nat) : Int)) := by
          intro y hy
          rcases List.mem_cons.mp hy with rfl | hy
          · push_cast; exact hlt
          · have := hs.1 y hy; push_cast; omega
        have : ((x :: xs).filter fun y => decide (y ≤ ((j + 1 : Nat) : Int))) = [] := by
          apply List.filter_eq_nil_iff.mpr
          intro y hy; simpa using hall y hy
        rw [this] at h1; simp at h1
      refine ⟨hx, ?_⟩
      intro i h1 h2
      have hxi : x ≤ (i : Int) := by have : ((j:Int) + 1 + 1) ≤ i := by exact_mod_cast h1
                                     omega
      have := hcc i (by omega) (by simp; omega)
      simp only [List.filter_cons, hxi, decide_true, if_true, List.length_cons] at this
      omega

theorem countCond_perm {l l' : List Int} (h : l.Perm l') (j : Nat) : CountCond l j ↔ CountCond l' j := by
  unfold CountCond
  constructor
  · intro hc i h1 h2
    have := hc i h1 (by rw [h.length_eq]; exact h2)
    rwa [(h.filter _).length_eq] at this
  · intro hc i h1 h2
    have := hc i h1 (by rw [← h.length_eq]; exact h2)
    rwa [← (h.filter _).length_eq] at this

/-- `is_parking_function(seq)` (length taken from the sequence) as a counting statement -/
theorem isParkingFunction_iff (seq : List Int) :
    isParkingFunction seq none = true ↔ (∀ x ∈ seq, 1 ≤ x) ∧ CountCond seq 0 := by
  unfold isParkingFunction
  simp only [Option.getD_none, ne_eq, not_true_eq_false, if_false]
  by_cases he : seq.isEmpty = true
  · have : seq = [] := List.isEmpty_iff.mp he
    subst this
    simp [CountCond]
  · simp only [he, if_false]
    have hsorted : (sortInts seq).Pairwise (· ≤ ·) := by rw [sortInts_eq]; exact List.pairwise_insertionSort _ _
    have hperm : (sortInts seq).Perm seq := by rw [sortInts_eq]; exact List.perm_insertionSort _ _
    have hcc : parkCheck (sortInts seq) 0 = true ↔ CountCond seq 0 := by
      rw [parkCheck_iff _ hsorted 0, countCond_perm hperm 0]
    by_cases hr : (seq.all fun x => decide (1 ≤ x) && decide (x ≤ (seq.length : Int))) = true
    · simp only [hr, Bool.not_true, Bool.false_eq_true, if_false, hcc]
      rw [List.all_eq_true] at hr
      constructor
      · intro h; exact ⟨fun x hx => by have := hr x hx; simp at this; exact this.1, h⟩
      · intro h; exact h.2
    · simp only [hr, Bool.not_false, if_true]
      constructor
      · intro h; exact absurd h (by simp)
      · rintro ⟨h1, hc⟩
        exfalso; apply hr
        rw [List.all_eq_true]
        intro x hx
        have hlen : 1 ≤ seq.length := by
          cases seq with
          | nil => simp at hx
          | cons _ _ => simp
        have := hc seq.length (by omega) (by omega)
        have hle : (seq.filter fun x => decide (x ≤ (seq.length : Int))).length ≤ seq.length := List.length_filter_le _ _
        have heq : (seq.filter fun x => decide (x ≤ (seq.length : Int))).length = seq.length := by omega
        have hall := List.length_filter_eq_length_iff.mp heq
        have := hall x hx
        simp at this
        simp [h1 x hx, this]

/-! ### graph side: superstables of the complete graph -/

/-- on the complete graph, with D ≥ 0 off q: q-reduced iff for every i in 1..n−1 at least i of
    the other vertices hold fewer than i chips -/
theorem complete_qreduced_iff (G : Graph n) (hK : IsComplete G) (q : Fin n) (D : Fin n → Int) :
    QReduced G q D ↔ (∀ v, v ≠ q → 0 ≤ D v) ∧
      ∀ i : Nat, 1 ≤ i → i + 1 ≤ n → i ≤ (univ.filter fun v => v ≠ q ∧ D v < (i : Int)).card := by
  have hK' : ∀ u v, G.adj u v = if u = v then 0 else 1 := hK
  unfold QReduced
  constructor
  · rintro ⟨hnn, hno⟩
    refine ⟨hnn, fun i h1 h2 => ?_⟩
    by_contra hlt
    let S : Fin n → Bool := fun v => decide (v ≠ q ∧ (i : Int) ≤ D v)
    let A : Finset (Fin n) := univ.filter fun v => v ≠ q ∧ D v < (i : Int)
    let T : Finset (Fin n) := univ.filter fun v => S v = true
    let U : Finset (Fin n) := univ.filter fun v => ¬ S v = true
    have hTU : T.card + U.card = n := by
      have := Finset.card_filter_add_card_filter_not (s := (univ : Finset (Fin n))) (fun v => S v = true)
      simpa [T, U] using this
    have hU : U = insert q A := by
      ext v
      simp only [U, A, S, mem_filter, mem_univ, true_and, mem_insert, decide_eq_true_eq]
      constructor
      · intro h
        by_cases hv : v = q
        · exact Or.inl hv
        · right; refine ⟨hv, ?_⟩; by_contra hc; exact h ⟨hv, by omega⟩
      · rintro (rfl | ⟨hv, hlt'⟩)
        · intro h; exact h.1 rfl
        · intro h; omega
    have hqA : q ∉ A := by simp [A]
    have hUc : U.card = A.card + 1 := by rw [hU, Finset.card_insert_of_notMem hqA]
    have hAc : A.card < i := by simpa [A] using hlt
    apply hno S
    refine ⟨?_, by simp [S], ?_⟩
    · have : 0 < T.card := by omega
      obtain ⟨v, hv⟩ := Finset.card_pos.mp this
      exact ⟨v, by simpa [T] using hv⟩
    · intro v hv
      have hvS : v ≠ q ∧ (i : Int) ≤ D v := by simpa [S] using hv
      have hout : outdeg G S v = (U.card : Int) := by
        unfold outdeg
        have : ∀ x : Fin n, (if S x = true then (0:Int) else (G.adj v x : Int)) = if ¬ S x = true then 1 else 0 := by
          intro x
          by_cases hx : S x = true
          · simp [hx]
          · have hne : v ≠ x := by rintro rfl; exact hx hv
            simp [hx, hK', hne]
        simp only [this]
        rw [Finset.sum_boole]
      rw [hout, hUc]
      have : ((A.card + 1 : Nat) : Int) ≤ i := by exact_mod_cast hAc
      omega
  · rintro ⟨hnn, hcnt⟩
    refine ⟨hnn, ?_⟩
    rintro S ⟨⟨v0, hv0⟩, hSq, hleg⟩
    let T : Finset (Fin n) := univ.filter fun v => S v = true
    let U : Finset (Fin n) := univ.filter fun v => ¬ S v = true
    have hTU : T.card + U.card = n := by
      have := Finset.card_filter_add_card_filter_not (s := (univ : Finset (Fin n))) (fun v => S v = true)
      simpa [T, U] using this
    have hT1 : 1 ≤ T.card := Finset.card_pos.mpr ⟨v0, by simp [T, hv0]⟩
    have hU1 : 1 ≤ U.card := Finset.card_pos.mpr ⟨q, by simp [U, hSq]⟩
    have hout : ∀ v, S v = true → outdeg G S v = (U.card : Int) := by
      intro v hv
      unfold outdeg
      have : ∀ x : Fin n, (if S x = true then (0:Int) else (G.adj v x : Int)) = if ¬ S x = true then 1 else 0 := by
        intro x
        by_cases hx : S x = true
        · simp [hx]
        · have hne : v ≠ x := by rintro rfl; exact hx hv
          simp [hx, hK', hne]
      simp only [this]
      rw [Finset.sum_boole]
    -- i = |U| = n − |T|
    let A : Finset (Fin n) := univ.filter fun v => v ≠ q ∧ D v < (U.card : Int)
    have hA := hcnt U.card hU1 (by omega)
    -- A avoids T, and q ∉ A, so A ⊆ U \ {q}
    have hsub : A ⊆ U.erase q := by
      intro v hv
      have hv' : v ≠ q ∧ D v < (U.card : Int) := by simpa [A] using hv
      rw [Finset.mem_erase]
      refine ⟨hv'.1, ?_⟩
      simp only [U, mem_filter, mem_univ, true_and]
      intro hS
      have := hleg v hS
      rw [hout v hS] at this
      omega
    have hqU : q ∈ U := by simp [U, hSq]
    have := Finset.card_le_card hsub
    rw [Finset.card_erase_of_mem hqU] at this
    have hA' : U.card ≤ A.card := hA
    omega

theorem vtilde_nodup (q : Fin n) : (vtilde q).Nodup := (List.nodup_finRange n).filter _

theorem vtilde_length (q : Fin n) : (vtilde q).length + 1 = n := by
  have h1 : (vtilde q).toFinset = univ.erase q := by
    ext v; simp [vtilde]
  have h2 := List.toFinset_card_of_nodup (vtilde_nodup q)
  rw [h1, Finset.card_erase_of_mem (mem_univ q)] at h2
  simp at h2
  have : 0 < n := Nat.pos_of_ne_zero (fun h => by subst h; exact q.elim0)
  omega

theorem card_filter_vtilde (q : Fin n) (p : Fin n → Prop) [DecidablePred p] :
    (univ.filter fun v => v ≠ q ∧ p v).card = ((vtilde q).filter fun v => decide (p v)).length := by
  have hnd : ((vtilde q).filter fun v => decide (p v)).Nodup := (vtilde_nodup q).filter _
  rw [← List.toFinset_card_of_nodup hnd]
  congr 1
  ext v; simp [vtilde, and_comm]

/-- **superstables of the complete graph are the parking functions shifted down by one**: on
    K_(m+1) with sink q, a configuration is reported superstable exactly when the sequence of its
    chip counts plus one, over the vertices other than q, is a parking function -/
theorem complete_superstable_iff_parking (G : Graph n) (hK : IsComplete G) (q : Fin n) (D : Fin n → Int) :
    isSuperstable G q D = true ↔ isParkingFunction ((vtilde q).map fun v => D v + 1) none = true := by
  rw [C10.superstable_iff, complete_qreduced_iff G hK, isParkingFunction_iff]
  have hlen := vtilde_length q
  constructor
  · rintro ⟨hnn, hc⟩
    refine ⟨?_, ?_⟩
    · intro x hx
      obtain ⟨v, hv, rfl⟩ := List.mem_map.mp hx
      have := hnn v ((C10.mem_vtilde q v).mp hv); omega
    · intro i h1 h2
      simp only [List.length_map] at h2
      have := hc i (by omega) (by omega)
      rw [card_filter_vtilde q (fun v => D v < (i : Int))] at this
      rw [List.filter_map, List.length_map]
      have heq : ((vtilde q).filter ((fun x => decide (x ≤ (i : Int))) ∘ fun v => D v + 1))
          = (vtilde q).filter fun v => decide (D v < (i : Int)) := by
        apply List.filter_congr; intro v _; simp [Function.comp]
      rw [heq]; omega
  · rintro ⟨h1, hc⟩
    refine ⟨?_, ?_⟩
    · intro v hv
      have := h1 (D v + 1) (List.mem_map.mpr ⟨v, (C10.mem_vtilde q v).mpr hv, rfl⟩); omega
    · intro i hi1 hi2
      have := hc i (by omega) (by simp only [List.length_map]; omega)
      rw [List.filter_map, List.length_map] at this
      have heq : ((vtilde q).filter ((fun x => decide (x ≤ (i : Int))) ∘ fun v => D v + 1))
          = (vtilde q).filter fun v => decide (D v < (i : Int)) := by
        apply List.filter_congr; intro v _; simp [Function.comp]
      rw [heq] at this
      rw [card_filter_vtilde q (fun v => D v < (i : Int))]; omega

end CF
