import ChipFiring.Model.Txt
import Mathlib.Data.List.Basic
import Mathlib.Data.List.TakeWhile
import Mathlib.Tactic.Linarith
import Mathlib.Tactic.IntervalCases
import Std.Data.String.ToInt
namespace CF.Txt

theorem splitOn_ne_nil (sep : Char) (s : List Char) : splitOn sep s ≠ [] := by
  induction s with
  | nil => simp [splitOn]
  | cons c cs ih =>
    unfold splitOn
    split
    · simp
    · split <;> simp

/-- a field without the separator, followed by the separator and more text -/
theorem splitOn_append (sep : Char) (f rest : List Char) (hf : ∀ c ∈ f, c ≠ sep) :
    splitOn sep (f ++ sep :: rest) = f :: splitOn sep rest := by
  induction f with
  | nil => simp [splitOn]
  | cons c cs ih =>
    have hc : c ≠ sep := hf c List.mem_cons_self
    have := ih (fun x hx => hf x (List.mem_cons_of_mem _ hx))
    simp only [List.cons_append, splitOn, hc, if_false, this]

theorem splitOn_single (sep : Char) (f : List Char) (hf : ∀ c ∈ f, c ≠ sep) : splitOn sep f = [f] := by
  induction f with
  | nil => simp [splitOn]
  | cons c cs ih =>
    have hc : c ≠ sep := hf c List.mem_cons_self
    have := ih (fun x hx => hf x (List.mem_cons_of_mem _ hx))
    simp only [splitOn, hc, if_false, this]

/-- a stripped string has no removable character at its front -/
theorem dropWhile_of_strip_fixed (f : List Char) (h : stripPy f = f) : f.dropWhile isSpacePy = f := by
  cases f with
  | nil => rfl
  | cons c cs =>
    by_cases hc : isSpacePy c = true
    · -- then strip would be strictly shorter
      exfalso
      have hlen : (stripPy (c :: cs)).length < (c :: cs).length := by
        unfold stripPy
        rw [List.length_reverse]
        calc _ ≤ ((c :: cs).dropWhile isSpacePy).reverse.length := List.length_dropWhile_le _ _
          _ = ((c :: cs).dropWhile isSpacePy).length := List.length_reverse
          _ = (cs.dropWhile isSpacePy).length := by simp [List.dropWhile_cons, hc]
          _ ≤ cs.length := List.length_dropWhile_le _ _
          _ < (c :: cs).length := by simp
      rw [h] at hlen; omega
    · simp [List.dropWhile_cons, hc]

/-- a separator blank in front of a stripped field is removed by `strip()` -/
theorem strip_space_cons (f : List Char) (h : stripPy f = f) : stripPy (' ' :: f) = f := by
  have hsp : isSpacePy ' ' = true := by decide
  unfold stripPy
  rw [List.dropWhile_cons, if_pos hsp, dropWhile_of_strip_fixed f h]
  have := h
  unfold stripPy at this
  rw [dropWhile_of_strip_fixed f h] at this
  exact this

/-- **the field layer round-trips**: fields without commas that `strip()` leaves alone come back
    exactly, for any number of fields ≥ 1 (the first one as written after `PREFIX:` carries the
    blank the writer puts there) -/
theorem parse_join (fs : List (List Char)) (hne : fs ≠ [])
    (hclean : ∀ f ∈ fs, (∀ c ∈ f, c ≠ ',') ∧ stripPy f = f) :
    parseFields (' ' :: joinFields fs) = fs := by
  induction fs with
  | nil => exact absurd rfl hne
  | cons f rest ih =>
    obtain ⟨hf1, hf2⟩ := hclean f List.mem_cons_self
    have hsp : ∀ c ∈ (' ' :: f), c ≠ ',' := by
      intro c hc
      rcases List.mem_cons.mp hc with rfl | hc
      · decide
      · exact hf1 c hc
    cases rest with
    | nil =>
      simp only [joinFields, parseFields]
      rw [splitOn_single ',' (' ' :: f) hsp]
      simp [strip_space_cons f hf2]
    | cons g gs =>
      have ih' := ih (by simp) (fun x hx => hclean x (List.mem_cons_of_mem _ hx))
      simp only [joinFields, parseFields] at ih' ⊢
      have : ' ' :: (f ++ [',', ' '] ++ joinFields (g :: gs)) = (' ' :: f) ++ ',' :: (' ' :: joinFields (g :: gs)) := by
        simp
      rw [this, splitOn_append ',' (' ' :: f) _ hsp, List.map_cons, strip_space_cons f hf2, ih']

theorem chars_of_repr (k : Int) : ∀ c ∈ k.repr.toList, c.isDigit = true ∨ c = '-' := by
  intro c hc
  cases k with
  | ofNat n =>
    left
    have : (Int.ofNat n).repr = Nat.repr n := rfl
    rw [this, Nat.repr] at hc
    simp at hc
    exact Nat.isDigit_of_mem_toDigits (by omega) (by omega) hc
  | negSucc n =>
    have : (Int.negSucc n).repr = "-" ++ Nat.repr (n + 1) := rfl
    rw [this] at hc
    simp [Nat.repr] at hc
    rcases hc with rfl | hc
    · right; rfl
    · left; exact Nat.isDigit_of_mem_toDigits (by omega) (by omega) hc

def isSpaceNat (v : Nat) : Bool :=
  (0x09 ≤ v && v ≤ 0x0d) || (0x1c ≤ v && v ≤ 0x20) || v == 0x85 || v == 0xa0 || v == 0x1680 ||
  (0x2000 ≤ v && v ≤ 0x200a) || v == 0x2028 || v == 0x2029 || v == 0x202f || v == 0x205f || v == 0x3000

theorem isSpacePy_eq (c : Char) : isSpacePy c = isSpaceNat c.val.toNat := rfl

theorem not_space_of_digit_or_minus (c : Char) (h : c.isDigit = true ∨ c = '-') : isSpacePy c = false := by
  rcases h with h | rfl
  · simp only [Char.isDigit, Bool.and_eq_true, decide_eq_true_eq] at h
    obtain ⟨h1, h2⟩ := h
    have h1' : 48 ≤ c.val.toNat := UInt32.le_iff_toNat_le.mp h1
    have h2' : c.val.toNat ≤ 57 := UInt32.le_iff_toNat_le.mp h2
    rw [isSpacePy_eq]
    generalize c.val.toNat = v at h1' h2'
    interval_cases v <;> rfl
  · decide

/-- no character of a list is removable ⇒ `strip()` leaves it alone -/
theorem strip_fixed_of_no_space (f : List Char) (h : ∀ c ∈ f, isSpacePy c = false) : stripPy f = f := by
  have dw : ∀ l : List Char, (∀ c ∈ l, isSpacePy c = false) → l.dropWhile isSpacePy = l := by
    intro l hl
    cases l with
    | nil => rfl
    | cons a as => simp [List.dropWhile_cons, hl a List.mem_cons_self]
  unfold stripPy
  rw [dw f h, dw f.reverse (fun c hc => h c (List.mem_reverse.mp hc)), List.reverse_reverse]

/-- the decimal text of an integer is a field the TXT format represents exactly -/
theorem int_field_clean (k : Int) : cleanField k.repr.toList = true := by
  have hch := chars_of_repr k
  unfold cleanField
  simp only [Bool.and_eq_true, Bool.not_eq_true', beq_iff_eq]
  constructor
  · by_contra hc
    have hmem : ',' ∈ k.repr.toList := List.contains_iff_mem.mp (by simpa using hc)
    rcases hch ',' hmem with h | h
    · exact absurd h (by decide)
    · exact absurd h (by decide)
  · exact strip_fixed_of_no_space _ (fun c hc => not_space_of_digit_or_minus c (hch c hc))



/-- **a whole record line** `PREFIX: name₁, …, nameₘ, k` (EDGE / GRAPH_EDGE: two names and the
    multiplicity; DEGREE / FIRING: one name and the chip count / net firings; ORIENTED: two names):
    the reader gets back exactly the names and the decimal text of the integer, which parses back
    to the integer -/
theorem record_roundtrip (names : List (List Char)) (k : Int)
    (hclean : ∀ f ∈ names, cleanField f = true) :
    parseFields (' ' :: joinFields (names ++ [k.repr.toList])) = names ++ [k.repr.toList] ∧
    k.repr.toInt? = some k := by
  refine ⟨?_, Int.toInt?_repr k⟩
  apply parse_join _ (by simp)
  intro f hf
  have hc : cleanField f = true := by
    rcases List.mem_append.mp hf with h | h
    · exact hclean f h
    · have : f = k.repr.toList := by simpa using h
      rw [this]; exact int_field_clean k
  simp only [cleanField, Bool.and_eq_true, Bool.not_eq_true', beq_iff_eq] at hc
  refine ⟨fun c hcm he => ?_, hc.2⟩
  subst he
  have : f.contains ',' = true := List.contains_iff_mem.mpr hcm
  simp_all

/-- a pattern containing a character that the text lacks never matches -/
theorem removeAll_of_not_mem (p s : List Char) (x : Char) (hx : x ∈ p) (hs : x ∉ s) : removeAll p s = s := by
  induction s with
  | nil => simp [removeAll]
  | cons c cs ih =>
    rw [removeAll]
    have hnp : ¬ (p ≠ [] ∧ p.isPrefixOf (c :: cs) = true) := by
      rintro ⟨-, hpre⟩
      have hpre' : p <+: (c :: cs) := List.isPrefixOf_iff_prefix.mp hpre
      exact hs (hpre'.subset hx)
    rw [if_neg hnp, ih (fun h => hs (List.mem_cons_of_mem _ h))]

/-- the reader's `line.replace(PREFIX, "")` on a line that starts with the prefix and whose
    remainder lacks some character of the prefix (the colon) returns the remainder -/
theorem removeAll_prefix (p rest : List Char) (hp : p ≠ []) (x : Char) (hx : x ∈ p) (hr : x ∉ rest) :
    removeAll p (p ++ rest) = rest := by
  cases hpc : p ++ rest with
  | nil => simp at hpc; exact absurd hpc.1 hp
  | cons c cs =>
    rw [removeAll]
    have hpre : p.isPrefixOf (c :: cs) = true := by
      rw [← hpc]; exact List.isPrefixOf_iff_prefix.mpr (List.prefix_append p rest)
    rw [if_pos ⟨hp, hpre⟩, ← hpc, List.drop_left]
    exact removeAll_of_not_mem p rest x hx hr



theorem not_mem_joinFields (x : Char) (hx1 : x ≠ ',') (hx2 : x ≠ ' ') (fs : List (List Char))
    (h : ∀ f ∈ fs, x ∉ f) : x ∉ joinFields fs := by
  induction fs with
  | nil => simp [joinFields]
  | cons f rest ih =>
    cases rest with
    | nil => simpa [joinFields] using h f List.mem_cons_self
    | cons g gs =>
      have ih' := ih (fun y hy => h y (List.mem_cons_of_mem _ hy))
      simp only [joinFields, List.mem_append, List.mem_cons, List.not_mem_nil, or_false, not_or]
      exact ⟨⟨h f List.mem_cons_self, hx1, hx2⟩, ih'⟩

/-- **a record line of the TXT format**: `PREFIX` (containing a colon) followed by a blank and the
    comma-separated fields; the reader strips the prefix with `str.replace`, splits at commas and
    strips each part.  For ≥ 1 clean fields without colons it recovers the fields exactly. -/
theorem line_roundtrip (P : List Char) (hP : ':' ∈ P) (fs : List (List Char)) (hne : fs ≠ [])
    (hclean : ∀ f ∈ fs, cleanField f = true) (hcolon : ∀ f ∈ fs, ':' ∉ f) :
    parseFields (removeAll P (P ++ ' ' :: joinFields fs)) = fs := by
  have hPne : P ≠ [] := List.ne_nil_of_mem hP
  have hrest : ':' ∉ (' ' :: joinFields fs) := by
    intro h
    rcases List.mem_cons.mp h with h | h
    · exact absurd h (by decide)
    · exact not_mem_joinFields ':' (by decide) (by decide) fs hcolon h
  rw [removeAll_prefix P _ hPne ':' hP hrest]
  apply parse_join fs hne
  intro f hf
  have hc := hclean f hf
  simp only [cleanField, Bool.and_eq_true, Bool.not_eq_true', beq_iff_eq] at hc
  refine ⟨fun c hcm he => ?_, hc.2⟩
  subst he
  have : f.contains ',' = true := List.contains_iff_mem.mpr hcm
  simp_all

end CF.Txt
