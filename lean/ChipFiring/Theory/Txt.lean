import ChipFiring.Model.Txt
import Mathlib.Data.List.Basic
import Mathlib.Data.List.TakeWhile
import Mathlib.Tactic.Linarith
namespace CF.Txt

theorem splitOn_ne_nil (sep : Char) (s : List Char) : splitOn sep s ≠ [] := by
  induction s with
  | nil => simp [splitOn]
  | cons c cs ih =>
    unfold splitOn
    split
    · simp
    · split <;> simp

/-- a field without the separator, followed by the separator and more text -/
theorem splitOn_append (sep : Char) (f rest : List Char) (hf : ∀ c ∈ f, c ≠ sep) :
    splitOn sep (f ++ sep :: rest) = f :: splitOn sep rest := by
  induction f with
  | nil => simp [splitOn]
  | cons c cs ih =>
    have hc : c ≠ sep := hf c List.mem_cons_self
    have := ih (fun x hx => hf x (List.mem_cons_of_mem _ hx))
    simp only [List.cons_append, splitOn, hc, if_false, this]

theorem splitOn_single (sep : Char) (f : List Char) (hf : ∀ c ∈ f, c ≠ sep) : splitOn sep f = [f] := by
  induction f with
  | nil => simp [splitOn]
  | cons c cs ih =>
    have hc : c ≠ sep := hf c List.mem_cons_self
    have := ih (fun x hx => hf x (List.mem_cons_of_mem _ hx))
    simp only [splitOn, hc, if_false, this]

/-- a stripped string has no removable character at its front -/
theorem dropWhile_of_strip_fixed (f : List Char) (h : stripPy f = f) : f.dropWhile isSpacePy = f := by
  cases f with
  | nil => rfl
  | cons c cs =>
    by_cases hc : isSpacePy c = true
    · -- then strip would be strictly shorter
      exfalso
      have hlen : (stripPy (c :: cs)).length < (c :: cs).length := by
        unfold stripPy
        rw [List.length_reverse]
        calc _ ≤ ((c :: cs).dropWhile isSpacePy).reverse.length := List.length_dropWhile_le _ _
          _ = ((c :: cs).dropWhile isSpacePy).length := List.length_reverse
          _ = (cs.dropWhile isSpacePy).length := by simp [List.dropWhile_cons, hc]
          _ ≤ cs.length := List.length_dropWhile_le _ _
          _ < (c :: cs).length := by simp
      rw [h] at hlen; omega
    · simp [List.dropWhile_cons, hc]

/-- a separator blank in front of a stripped field is removed by `strip()` -/
theorem strip_space_cons (f : List Char) (h : stripPy f = f) : stripPy (' ' :: f) = f := by
  have hsp : isSpacePy ' ' = true := by decide
  unfold stripPy
  rw [List.dropWhile_cons, if_pos hsp, dropWhile_of_strip_fixed f h]
  have := h
  unfold stripPy at this
  rw [dropWhile_of_strip_fixed f h] at this
  exact this

/-- **the field layer round-trips**: fields without commas that `strip()` leaves alone come back
    exactly, for any number of fields ≥ 1 (the first one as written after `PREFIX:` carries the
    blank the writer puts there) -/
theorem parse_join (fs : List (List Char)) (hne : fs ≠ [])
    (hclean : ∀ f ∈ fs, (∀ c ∈ f, c ≠ ',') ∧ stripPy f = f) :
    parseFields (' ' :: joinFields fs) = fs := by
  induction fs with
  | nil => exact absurd rfl hne
  | cons f rest ih =>
    obtain ⟨hf1, hf2⟩ := hclean f List.mem_cons_self
    have hsp : ∀ c ∈ (' ' :: f), c ≠ ',' := by
      intro c hc
      rcases List.mem_cons.mp hc with rfl | hc
      · decide
      · exact hf1 c hc
    cases rest with
    | nil =>
      simp only [joinFields, parseFields]
      rw [splitOn_single ',' (' ' :: f) hsp]
      simp [strip_space_cons f hf2]
    | cons g gs =>
      have ih' := ih (by simp) (fun x hx => hclean x (List.mem_cons_of_mem _ hx))
      simp only [joinFields, parseFields] at ih' ⊢
      have : ' ' :: (f ++ [',', ' '] ++ joinFields (g :: gs)) = (' ' :: f) ++ ',' :: (' ' :: joinFields (g :: gs)) := by
        simp
      rw [this, splitOn_append ',' (' ' :: f) _ hsp, List.map_cons, strip_space_cons f hf2, ih']

end CF.Txt
