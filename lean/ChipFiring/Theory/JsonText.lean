import ChipFiring.Model.JsonText
import ChipFiring.Theory.Txt
/-
  Every proper, non-empty prefix of the JSON text written for a dict is still inside a bracket:
  the truncation clause of C15 for the text `json.dump(…, indent=4)` produces.
-/
namespace CF.JsonText

def st (d : Nat) : Sc := ⟨d, false, false, false⟩

theorem scan_append (s : Sc) (a b : Str) : scan s (a ++ b) = scan (scan s a) b := by
  simp [scan, List.foldl_append]

theorem scan_cons (s : Sc) (c : Char) (t : Str) : scan s (c :: t) = scan (scStep s c) t := rfl
theorem scan_nil (s : Sc) : scan s [] = s := rfl

theorem prefix_append_cases {p a b : Str} (h : p <+: a ++ b) : p <+: a ∨ ∃ q, p = a ++ q ∧ q <+: b := by
  induction a generalizing p with
  | nil => exact Or.inr ⟨p, rfl, h⟩
  | cons x a ih =>
    cases p with
    | nil => exact Or.inl (List.nil_prefix)
    | cons y p =>
      rw [List.cons_append, List.cons_prefix_cons] at h
      obtain ⟨rfl, h⟩ := h
      rcases ih h with h1 | ⟨q, rfl, hq⟩
      · exact Or.inl (List.cons_prefix_cons.mpr ⟨rfl, h1⟩)
      · exact Or.inr ⟨q, rfl, hq⟩

/-- the text returns to the state it started in and never drops below its starting depth -/
def Bal (d : Nat) (t : Str) : Prop :=
  scan (st d) t = st d ∧ ∀ p, p <+: t → d ≤ (scan (st d) p).depth ∧ (scan (st d) p).under = false

/-- … and strictly inside a bracket at every proper non-empty prefix -/
def BalC (d : Nat) (t : Str) : Prop :=
  Bal d t ∧ ∀ p, p <+: t → p ≠ [] → p ≠ t → d + 1 ≤ (scan (st d) p).depth

theorem Bal.nil (d : Nat) : Bal d [] := by
  refine ⟨rfl, ?_⟩
  intro p hp
  have : p = [] := List.prefix_nil.mp hp
  subst this
  exact ⟨Nat.le_refl _, rfl⟩

theorem Bal.append {d : Nat} {a b : Str} (ha : Bal d a) (hb : Bal d b) : Bal d (a ++ b) := by
  refine ⟨by rw [scan_append, ha.1, hb.1], ?_⟩
  intro p hp
  rcases prefix_append_cases hp with h | ⟨q, rfl, hq⟩
  · exact ha.2 p h
  · rw [scan_append, ha.1]; exact hb.2 q hq

/-- characters that the scanner ignores outside strings -/
def plainC (c : Char) : Prop := c ≠ '"' ∧ c ≠ '{' ∧ c ≠ '[' ∧ c ≠ '}' ∧ c ≠ ']'

theorem scStep_plain (d : Nat) (c : Char) (h : plainC c) : scStep (st d) c = st d := by
  obtain ⟨h1, h2, h3, h4, h5⟩ := h
  simp [scStep, st, h1, h2, h3, h4, h5]

theorem scan_plain (d : Nat) (t : Str) (h : ∀ c ∈ t, plainC c) : scan (st d) t = st d := by
  induction t with
  | nil => rfl
  | cons c cs ih =>
    rw [scan_cons, scStep_plain d c (h c List.mem_cons_self)]
    exact ih (fun x hx => h x (List.mem_cons_of_mem _ hx))

theorem Bal.plain (d : Nat) (t : Str) (h : ∀ c ∈ t, plainC c) : Bal d t := by
  refine ⟨scan_plain d t h, ?_⟩
  intro p hp
  rw [scan_plain d p (fun c hc => h c (hp.subset hc))]
  exact ⟨Nat.le_refl _, rfl⟩

theorem plain_nl (ind lvl : Nat) : ∀ c ∈ nl ind lvl, plainC c := by
  intro c hc
  simp only [nl, List.mem_cons, List.mem_replicate] at hc
  rcases hc with rfl | ⟨-, rfl⟩ <;> (unfold plainC; decide)

theorem plain_repr (k : Int) : ∀ c ∈ k.repr.toList, plainC c := by
  intro c hc
  rcases CF.Txt.chars_of_repr k c hc with h | rfl
  · unfold plainC
    refine ⟨?_, ?_, ?_, ?_, ?_⟩ <;> (rintro rfl; exact absurd h (by decide))
  · unfold plainC; decide

-- ---------------------------------------------------------------- strings

def stS (d : Nat) (e : Bool) : Sc := ⟨d, true, e, false⟩

theorem hexDigit_plain : ∀ k, k < 16 → hexDigit k ≠ '"' ∧ hexDigit k ≠ '\\' := by decide

theorem scStep_inStr (d : Nat) (c : Char) (h1 : c ≠ '"') (h2 : c ≠ '\\') : scStep (stS d false) c = stS d false := by
  simp [scStep, stS, h1, h2]

theorem scStep_esc (d : Nat) (c : Char) : scStep (stS d true) c = stS d false := by
  simp [scStep, stS]

theorem scStep_bs (d : Nat) : scStep (stS d false) '\\' = stS d true := by
  simp [scStep, stS]

/-- in-string states -/
def InS (d : Nat) (s : Sc) : Prop := ∃ e, s = stS d e

/-- an escape unit: scanning it inside a string stays inside the string, at every prefix -/
def Unit (u : Str) : Prop := ∀ d, scan (stS d false) u = stS d false ∧ ∀ p, p <+: u → InS d (scan (stS d false) p)

theorem unit_single (c : Char) (h1 : c ≠ '"') (h2 : c ≠ '\\') : Unit [c] := by
  intro d
  refine ⟨by rw [scan_cons, scStep_inStr d c h1 h2]; rfl, ?_⟩
  intro p hp
  rcases List.prefix_cons_iff.mp hp with rfl | ⟨q, rfl, hq⟩
  · exact ⟨false, rfl⟩
  · have : q = [] := List.prefix_nil.mp hq
    subst this
    rw [scan_cons, scStep_inStr d c h1 h2]; exact ⟨false, rfl⟩

/-- a backslash, any character, then characters that are neither quote nor backslash -/
theorem unit_escape (x : Char) (rest : Str) (h : ∀ c ∈ rest, c ≠ '"' ∧ c ≠ '\\') : Unit ('\\' :: x :: rest) := by
  intro d
  have hrest : ∀ (r : Str), (∀ c ∈ r, c ≠ '"' ∧ c ≠ '\\') → scan (stS d false) r = stS d false := by
    intro r hr
    induction r with
    | nil => rfl
    | cons c cs ih =>
      rw [scan_cons, scStep_inStr d c (hr c List.mem_cons_self).1 (hr c List.mem_cons_self).2]
      exact ih (fun y hy => hr y (List.mem_cons_of_mem _ hy))
  refine ⟨by rw [scan_cons, scStep_bs, scan_cons, scStep_esc]; exact hrest rest h, ?_⟩
  intro p hp
  rcases List.prefix_cons_iff.mp hp with rfl | ⟨q, rfl, hq⟩
  · exact ⟨false, rfl⟩
  · rw [scan_cons, scStep_bs]
    rcases List.prefix_cons_iff.mp hq with rfl | ⟨r, rfl, hr⟩
    · exact ⟨true, rfl⟩
    · rw [scan_cons, scStep_esc, hrest r (fun c hc => h c (hr.subset hc))]
      exact ⟨false, rfl⟩

theorem hex4_plain (n : Nat) : ∀ c ∈ hex4 n, c ≠ '"' ∧ c ≠ '\\' := by
  intro c hc
  simp only [hex4, List.mem_cons, List.not_mem_nil, or_false] at hc
  rcases hc with rfl | rfl | rfl | rfl <;> exact hexDigit_plain _ (Nat.mod_lt _ (by decide))

theorem unit_uEsc (n : Nat) : Unit (uEsc n) := unit_escape 'u' (hex4 n) (hex4_plain n)

theorem Unit.append {a b : Str} (ha : Unit a) (hb : Unit b) : Unit (a ++ b) := by
  intro d
  refine ⟨by rw [scan_append, (ha d).1, (hb d).1], ?_⟩
  intro p hp
  rcases prefix_append_cases hp with h | ⟨q, rfl, hq⟩
  · exact (ha d).2 p h
  · rw [scan_append, (ha d).1]; exact (hb d).2 q hq

theorem unit_nil : Unit [] := by
  intro d
  refine ⟨rfl, ?_⟩
  intro p hp
  have : p = [] := List.prefix_nil.mp hp
  subst this
  exact ⟨false, rfl⟩

theorem unit_escChar (c : Char) : Unit (escChar c) := by
  unfold escChar
  split
  · exact unit_escape '\\' [] (by simp)
  split
  · exact unit_escape '"' [] (by simp)
  split
  · exact unit_escape 'b' [] (by simp)
  split
  · exact unit_escape 'f' [] (by simp)
  split
  · exact unit_escape 'n' [] (by simp)
  split
  · exact unit_escape 'r' [] (by simp)
  split
  · exact unit_escape 't' [] (by simp)
  rename_i h1 h2 _ _ _ _ _
  simp only
  split
  · exact unit_single c h2 h1
  split
  · exact unit_uEsc _
  · exact Unit.append (unit_uEsc _) (unit_uEsc _)

theorem unit_body (s : Str) : Unit (s.flatMap escChar) := by
  induction s with
  | nil => exact unit_nil
  | cons c cs ih => rw [List.flatMap_cons]; exact Unit.append (unit_escChar c) ih

/-- a quoted string is balanced: the scanner is back outside the string at its end, and at the same
    depth throughout -/
theorem Bal.quote (d : Nat) (s : Str) : Bal d (quote s) := by
  have hb := unit_body s d
  have hopen : scStep (st d) '"' = stS d false := by simp [scStep, st, stS]
  have hclose : scStep (stS d false) '"' = st d := by simp [scStep, st, stS]
  refine ⟨?_, ?_⟩
  · rw [JsonText.quote, List.cons_append, scan_cons, hopen, scan_append, hb.1, scan_cons, hclose]; rfl
  · intro p hp
    rw [JsonText.quote, List.cons_append] at hp
    rcases List.prefix_cons_iff.mp hp with rfl | ⟨q, rfl, hq⟩
    · exact ⟨Nat.le_refl _, rfl⟩
    · rw [scan_cons, hopen]
      rcases prefix_append_cases hq with h | ⟨r, rfl, hr⟩
      · obtain ⟨e, he⟩ := hb.2 q h
        rw [he]; exact ⟨Nat.le_refl _, rfl⟩
      · rw [scan_append, hb.1]
        rcases List.prefix_cons_iff.mp hr with rfl | ⟨r', rfl, hr'⟩
        · exact ⟨Nat.le_refl _, rfl⟩
        · have : r' = [] := List.prefix_nil.mp hr'
          subst this
          rw [scan_cons, hclose]; exact ⟨Nat.le_refl _, rfl⟩

-- ---------------------------------------------------------------- brackets

theorem scStep_open (d : Nat) (c : Char) (h : c = '{' ∨ c = '[') : scStep (st d) c = st (d + 1) := by
  rcases h with rfl | rfl <;> simp [scStep, st]

theorem scStep_close (d : Nat) (c : Char) (h : c = '}' ∨ c = ']') : scStep (st (d + 1)) c = st d := by
  rcases h with rfl | rfl <;> simp [scStep, st]

/-- a balanced text between an opening and a closing bracket -/
theorem BalC.wrap (d : Nat) (o c : Char) (ho : o = '{' ∨ o = '[') (hc : c = '}' ∨ c = ']') (t : Str)
    (ht : Bal (d + 1) t) : BalC d (o :: t ++ [c]) := by
  have hfull : scan (st d) (o :: t ++ [c]) = st d := by
    rw [List.cons_append, scan_cons, scStep_open d o ho, scan_append, ht.1, scan_cons, scStep_close d c hc]; rfl
  have hpre : ∀ p, p <+: (o :: t ++ [c]) → p ≠ [] → p ≠ (o :: t ++ [c]) →
      d + 1 ≤ (scan (st d) p).depth ∧ (scan (st d) p).under = false := by
    intro p hp hne hnf
    rw [List.cons_append] at hp hnf
    rcases List.prefix_cons_iff.mp hp with rfl | ⟨q, rfl, hq⟩
    · exact absurd rfl hne
    · rw [scan_cons, scStep_open d o ho]
      rcases prefix_append_cases hq with h | ⟨r, rfl, hr⟩
      · exact ht.2 q h
      · rcases List.prefix_cons_iff.mp hr with rfl | ⟨r', rfl, hr'⟩
        · rw [scan_append, ht.1]; exact ⟨Nat.le_refl _, rfl⟩
        · exfalso
          have : r' = [] := List.prefix_nil.mp hr'
          subst this
          exact hnf rfl
  refine ⟨⟨hfull, ?_⟩, fun p hp hne hnf => (hpre p hp hne hnf).1⟩
  intro p hp
  by_cases hne : p = []
  · subst hne; exact ⟨Nat.le_refl _, rfl⟩
  by_cases hnf : p = (o :: t ++ [c])
  · subst hnf; rw [hfull]; exact ⟨Nat.le_refl _, rfl⟩
  · have := hpre p hp hne hnf
    exact ⟨by omega, this.2⟩

-- ---------------------------------------------------------------- values

theorem ser_arr_cons (ind lvl : Nat) (x : JV) (xs : List JV) :
    ser ind lvl (.arr (x :: xs)) = '[' :: (nl ind (lvl + 1) ++ ser ind (lvl + 1) x ++ serItems ind (lvl + 1) xs ++ nl ind lvl) ++ [']'] := by
  simp [ser]

theorem ser_obj_cons (ind lvl : Nat) (k : Str) (v : JV) (kvs : List (Str × JV)) :
    ser ind lvl (.obj ((k, v) :: kvs)) =
      '{' :: (nl ind (lvl + 1) ++ quote k ++ [':', ' '] ++ ser ind (lvl + 1) v ++ serMembers ind (lvl + 1) kvs ++ nl ind lvl) ++ ['}'] := by
  simp [ser]

theorem bal_sep : ∀ d, Bal d [':', ' '] := fun d => Bal.plain d _ (by intro c hc; simp at hc; rcases hc with rfl | rfl <;> (unfold plainC; decide))
theorem bal_comma : ∀ d, Bal d [','] := fun d => Bal.plain d _ (by intro c hc; simp at hc; subst hc; unfold plainC; decide)

mutual
  theorem ser_bal (ind lvl d : Nat) : (v : JV) → Bal d (ser ind lvl v)
    | .str s => by rw [ser]; exact Bal.quote d s
    | .int k => by rw [ser]; exact Bal.plain d _ (plain_repr k)
    | .arr [] => by
      have := (BalC.wrap d '[' ']' (Or.inr rfl) (Or.inr rfl) [] (Bal.nil _)).1
      simpa [ser] using this
    | .arr (x :: xs) => by
      rw [ser_arr_cons]
      exact (BalC.wrap d '[' ']' (Or.inr rfl) (Or.inr rfl) _
        (((Bal.plain _ _ (plain_nl _ _)).append (ser_bal ind (lvl + 1) (d + 1) x)).append (serItems_bal ind (lvl + 1) (d + 1) xs) |>.append
          (Bal.plain _ _ (plain_nl _ _)))).1
    | .obj [] => by
      have := (BalC.wrap d '{' '}' (Or.inl rfl) (Or.inl rfl) [] (Bal.nil _)).1
      simpa [ser] using this
    | .obj ((k, v) :: kvs) => by
      rw [ser_obj_cons]
      exact (BalC.wrap d '{' '}' (Or.inl rfl) (Or.inl rfl) _
        (((((Bal.plain _ _ (plain_nl _ _)).append (Bal.quote _ k)).append (bal_sep _)).append (ser_bal ind (lvl + 1) (d + 1) v)).append
          (serMembers_bal ind (lvl + 1) (d + 1) kvs) |>.append (Bal.plain _ _ (plain_nl _ _)))).1
  theorem serItems_bal (ind lvl d : Nat) : (l : List JV) → Bal d (serItems ind lvl l)
    | [] => by rw [serItems]; exact Bal.nil d
    | x :: xs => by
      have h := (((bal_comma d).append (Bal.plain d _ (plain_nl ind lvl))).append (ser_bal ind lvl d x)).append (serItems_bal ind lvl d xs)
      simpa [serItems] using h
  theorem serMembers_bal (ind lvl d : Nat) : (l : List (Str × JV)) → Bal d (serMembers ind lvl l)
    | [] => by rw [serMembers]; exact Bal.nil d
    | (k, v) :: kvs => by
      have h := (((((bal_comma d).append (Bal.plain d _ (plain_nl ind lvl))).append (Bal.quote d k)).append (bal_sep d)).append
        (ser_bal ind lvl d v)).append (serMembers_bal ind lvl d kvs)
      simpa [serMembers] using h
end

/-- the text of a dict is strictly inside its outer braces at every proper non-empty prefix -/
theorem dumps_obj_balC (ind : Nat) (l : List (Str × JV)) : BalC 0 (dumps ind (.obj l)) := by
  unfold dumps
  cases l with
  | nil =>
    have := BalC.wrap 0 '{' '}' (Or.inl rfl) (Or.inl rfl) [] (Bal.nil _)
    simpa [ser] using this
  | cons kv kvs =>
    obtain ⟨k, v⟩ := kv
    rw [ser_obj_cons]
    exact BalC.wrap 0 '{' '}' (Or.inl rfl) (Or.inl rfl) _
      (((((Bal.plain _ _ (plain_nl _ _)).append (Bal.quote _ k)).append (bal_sep _)).append (ser_bal ind 1 1 v)).append
        (serMembers_bal ind 1 1 kvs) |>.append (Bal.plain _ _ (plain_nl _ _)))

/-- **truncation**: every proper non-empty prefix of the JSON text of a dict ends inside a bracket
    (or inside a string inside a bracket) — it is not a complete JSON document -/
theorem truncated_dict_open (ind : Nat) (l : List (Str × JV)) (p : Str) (hp : p <+: dumps ind (.obj l)) (hne : p ≠ [])
    (hproper : p ≠ dumps ind (.obj l)) : openAtEnd p = true := by
  have h := (dumps_obj_balC ind l).2 p hp hne hproper
  unfold openAtEnd
  have : scan sc0 p = scan (st 0) p := rfl
  simp only [this, Bool.or_eq_true, decide_eq_true_eq]
  exact Or.inl (by omega)

/-- … while the complete text is closed -/
theorem complete_dict_closed (ind : Nat) (l : List (Str × JV)) : openAtEnd (dumps ind (.obj l)) = false := by
  have h := (dumps_obj_balC ind l).1.1
  unfold openAtEnd
  have : scan sc0 (dumps ind (.obj l)) = scan (st 0) (dumps ind (.obj l)) := rfl
  rw [this, h]
  rfl

-- ---------------------------------------------------------------- the written text is ASCII

/-- with `ensure_ascii` every character of the written text is below 128: a byte prefix of the
    file is a character prefix of the text -/
def Ascii (t : Str) : Prop := ∀ c ∈ t, c.toNat < 128

theorem Ascii.append {a b : Str} (ha : Ascii a) (hb : Ascii b) : Ascii (a ++ b) := by
  intro c hc
  rcases List.mem_append.mp hc with h | h
  · exact ha c h
  · exact hb c h

theorem Ascii.cons {c : Char} {t : Str} (hc : c.toNat < 128) (ht : Ascii t) : Ascii (c :: t) := by
  intro x hx
  rcases List.mem_cons.mp hx with rfl | h
  · exact hc
  · exact ht x h

theorem ascii_nil : Ascii [] := by intro c hc; simp at hc
theorem ascii_sep : Ascii [':', ' '] := by intro c hc; simp at hc; rcases hc with rfl | rfl <;> decide

theorem hexDigit_ascii : ∀ k, k < 16 → (hexDigit k).toNat < 128 := by decide

theorem ascii_uEsc (n : Nat) : Ascii (uEsc n) := by
  intro c hc
  simp only [uEsc, hex4, List.mem_cons, List.not_mem_nil, or_false] at hc
  rcases hc with rfl | rfl | rfl | rfl | rfl | rfl
  · decide
  · decide
  all_goals exact hexDigit_ascii _ (Nat.mod_lt _ (by decide))

theorem ascii_escChar (c : Char) : Ascii (escChar c) := by
  unfold escChar
  split
  · intro x hx; simp at hx; rcases hx with rfl | rfl <;> decide
  split
  · intro x hx; simp at hx; rcases hx with rfl | rfl <;> decide
  split
  · intro x hx; simp at hx; rcases hx with rfl | rfl <;> decide
  split
  · intro x hx; simp at hx; rcases hx with rfl | rfl <;> decide
  split
  · intro x hx; simp at hx; rcases hx with rfl | rfl <;> decide
  split
  · intro x hx; simp at hx; rcases hx with rfl | rfl <;> decide
  split
  · intro x hx; simp at hx; rcases hx with rfl | rfl <;> decide
  simp only
  split
  · rename_i h
    intro x hx
    simp at hx
    subst hx
    omega
  split
  · exact ascii_uEsc _
  · exact (ascii_uEsc _).append (ascii_uEsc _)

theorem ascii_quote (s : Str) : Ascii (quote s) := by
  unfold quote
  refine Ascii.append (Ascii.cons (by decide) ?_) (Ascii.cons (by decide) ascii_nil)
  induction s with
  | nil => exact ascii_nil
  | cons c cs ih => rw [List.flatMap_cons]; exact (ascii_escChar c).append ih

theorem ascii_nl (ind lvl : Nat) : Ascii (nl ind lvl) := by
  intro c hc
  simp only [nl, List.mem_cons, List.mem_replicate] at hc
  rcases hc with rfl | ⟨-, rfl⟩ <;> decide

theorem ascii_repr (k : Int) : Ascii k.repr.toList := by
  intro c hc
  rcases CF.Txt.chars_of_repr k c hc with h | rfl
  · have : c.toNat ≤ 57 := by
      have := h
      simp only [Char.isDigit, Bool.and_eq_true, decide_eq_true_eq] at this
      have h2 := this.2
      exact Nat.le_of_lt_succ (by
        have : c.val ≤ 57 := h2
        exact Nat.lt_succ_of_le this)
    omega
  · decide

mutual
  theorem ser_ascii (ind lvl : Nat) : (v : JV) → Ascii (ser ind lvl v)
    | .str s => by rw [ser]; exact ascii_quote s
    | .int k => by rw [ser]; exact ascii_repr k
    | .arr [] => by rw [ser]; intro c hc; simp at hc; rcases hc with rfl | rfl <;> decide
    | .arr (x :: xs) => by
      rw [ser_arr_cons]
      exact Ascii.append (Ascii.cons (by decide)
        ((((ascii_nl _ _).append (ser_ascii ind (lvl + 1) x)).append (serItems_ascii ind (lvl + 1) xs)).append (ascii_nl _ _)))
        (Ascii.cons (by decide) ascii_nil)
    | .obj [] => by rw [ser]; intro c hc; simp at hc; rcases hc with rfl | rfl <;> decide
    | .obj ((k, v) :: kvs) => by
      rw [ser_obj_cons]
      exact Ascii.append (Ascii.cons (by decide)
        ((((((ascii_nl _ _).append (ascii_quote k)).append ascii_sep).append
          (ser_ascii ind (lvl + 1) v)).append (serMembers_ascii ind (lvl + 1) kvs)).append (ascii_nl _ _)))
        (Ascii.cons (by decide) ascii_nil)
  theorem serItems_ascii (ind lvl : Nat) : (l : List JV) → Ascii (serItems ind lvl l)
    | [] => by rw [serItems]; exact ascii_nil
    | x :: xs => by
      have h := Ascii.cons (c := ',') (by decide) (((ascii_nl ind lvl).append (ser_ascii ind lvl x)).append (serItems_ascii ind lvl xs))
      simpa [serItems] using h
  theorem serMembers_ascii (ind lvl : Nat) : (l : List (Str × JV)) → Ascii (serMembers ind lvl l)
    | [] => by rw [serMembers]; exact ascii_nil
    | (k, v) :: kvs => by
      have h := Ascii.cons (c := ',') (by decide) (((((ascii_nl ind lvl).append (ascii_quote k)).append
        ascii_sep).append (ser_ascii ind lvl v)).append (serMembers_ascii ind lvl kvs))
      simpa [serMembers] using h
end

/-- the whole written text is ASCII, whatever the vertex names -/
theorem dumps_ascii (ind : Nat) (v : JV) : Ascii (dumps ind v) := ser_ascii ind 0 v

end CF.JsonText
