import ChipFiring.Spec.Basic
import ChipFiring.Model.Dhar
import Mathlib.Tactic
/-
  The BFS behind `send_debt_to_q` reaches every vertex of a connected graph: `hcover`.
-/
namespace CF
variable {n : Nat}

theorem mem_nbrs (G : Graph n) (hint : Fin n → List (Fin n)) (v w : Fin n) :
    w ∈ nbrs G hint v ↔ 0 < G.adj v w := by
  unfold nbrs
  simp only [List.mem_append, List.mem_filter, List.mem_finRange, true_and, Bool.and_eq_true,
    decide_eq_true_eq, Bool.not_eq_eq_eq_not, Bool.not_true, List.mem_eraseDups]
  constructor
  · rintro (⟨-, h⟩ | ⟨h, -⟩) <;> exact h
  · intro h
    by_cases hm : w ∈ (hint v).filter fun w => decide (0 < G.adj v w)
    · left; simpa using hm
    · right
      refine ⟨h, ?_⟩
      simp only [List.contains_eq_mem, List.mem_eraseDups, decide_eq_false_iff_not]
      simpa using hm

/-- what one BFS expansion adds: exactly the not-yet-visited neighbours, each once -/
theorem expand_spec (nbl vis : List (Fin n)) :
    ∀ acc : List (Fin n), (∀ x ∈ acc, x ∉ vis) → acc.Nodup →
      let new := nbl.foldl (fun acc w => if vis.contains w || acc.contains w then acc else acc ++ [w]) acc
      (∀ x, x ∈ new ↔ x ∈ acc ∨ (x ∈ nbl ∧ x ∉ vis)) ∧ new.Nodup := by
  induction nbl with
  | nil => intro acc _ hnd; simp [hnd]
  | cons w ws ih =>
    intro acc hacc hnd
    simp only [List.foldl_cons]
    by_cases hc : (vis.contains w || acc.contains w) = true
    · simp only [hc, if_true]
      obtain ⟨h1, h2⟩ := ih acc hacc hnd
      refine ⟨fun x => ?_, h2⟩
      rw [h1 x]
      constructor
      · rintro (h | ⟨h, h'⟩)
        · exact Or.inl h
        · exact Or.inr ⟨List.mem_cons_of_mem _ h, h'⟩
      · rintro (h | ⟨h, h'⟩)
        · exact Or.inl h
        · rcases List.mem_cons.mp h with rfl | h
          · simp only [Bool.or_eq_true, List.contains_eq_mem, decide_eq_true_eq] at hc
            rcases hc with hc | hc
            · exact absurd hc h'
            · exact Or.inl hc
          · exact Or.inr ⟨h, h'⟩
    · have hc' : (vis.contains w || acc.contains w) = false := by simpa using hc
      simp only [hc', Bool.false_eq_true, if_false]
      simp only [Bool.or_eq_false_iff, List.contains_eq_mem, decide_eq_false_iff_not] at hc'
      obtain ⟨h1, h2⟩ := ih (acc ++ [w])
        (by intro x hx; rcases List.mem_append.mp hx with hx | hx
            · exact hacc x hx
            · simp at hx; subst hx; exact hc'.1)
        (by rw [List.nodup_append]; exact ⟨hnd, by simp, by intro a ha b hb; simp at hb; subst hb; intro e; subst e; exact hc'.2 ha⟩)
      refine ⟨fun x => ?_, h2⟩
      rw [h1 x]
      constructor
      · rintro (h | ⟨h, h'⟩)
        · rcases List.mem_append.mp h with h | h
          · exact Or.inl h
          · simp at h; subst h; exact Or.inr ⟨List.mem_cons_self, hc'.1⟩
        · exact Or.inr ⟨List.mem_cons_of_mem _ h, h'⟩
      · rintro (h | ⟨h, h'⟩)
        · exact Or.inl (List.mem_append.mpr (Or.inl h))
        · rcases List.mem_cons.mp h with rfl | h
          · exact Or.inl (List.mem_append.mpr (Or.inr (by simp)))
          · exact Or.inr ⟨h, h'⟩

/-- BFS invariant: visited is duplicate-free, pending ⊆ visited, and every visited vertex that is
    no longer pending has all its neighbours visited -/
structure BfsInv (nb : Fin n → List (Fin n)) (pending vis : List (Fin n)) : Prop where
  nodup : vis.Nodup
  pnodup : pending.Nodup
  sub : ∀ x ∈ pending, x ∈ vis
  closed : ∀ x ∈ vis, x ∉ pending → ∀ w ∈ nb x, w ∈ vis

theorem bfsGo_spec (nb : Fin n → List (Fin n)) :
    ∀ (fuel : Nat) (pending vis : List (Fin n)), BfsInv nb pending vis →
      (n - vis.length) + pending.length < fuel →
      (∀ x ∈ vis, x ∈ bfsGo nb fuel pending vis) ∧
      (∀ x ∈ bfsGo nb fuel pending vis, ∀ w ∈ nb x, w ∈ bfsGo nb fuel pending vis) := by
  intro fuel
  induction fuel with
  | zero => intro p v _ h; omega
  | succ f ih =>
    intro pending vis inv hfuel
    cases pending with
    | nil =>
      simp only [bfsGo]
      exact ⟨fun x hx => hx, fun x hx w hw => inv.closed x hx (by simp) w hw⟩
    | cons c rest =>
      simp only [bfsGo]
      obtain ⟨hnew, hnd⟩ := expand_spec (nb c) vis [] (by simp) (by simp)
      set new := (nb c).foldl (fun acc w => if vis.contains w || acc.contains w then acc else acc ++ [w]) [] with hnewdef
      have hnew' : ∀ x, x ∈ new ↔ x ∈ nb c ∧ x ∉ vis := by intro x; rw [hnew x]; simp
      have hcvis : c ∈ vis := inv.sub c List.mem_cons_self
      have hlen : (vis ++ new).length ≤ n := by
        have hnd2 : (vis ++ new).Nodup := by
          rw [List.nodup_append]
          exact ⟨inv.nodup, hnd, fun a ha b hb e => by subst e; exact ((hnew' a).mp hb).2 ha⟩
        have := List.Nodup.length_le_card hnd2
        simpa using this
      have inv' : BfsInv nb (rest ++ new) (vis ++ new) := by
        refine ⟨?_, ?_, ?_, ?_⟩
        · rw [List.nodup_append]
          exact ⟨inv.nodup, hnd, fun a ha b hb e => by subst e; exact ((hnew' a).mp hb).2 ha⟩
        · rw [List.nodup_append]
          refine ⟨(List.nodup_cons.mp inv.pnodup).2, hnd, ?_⟩
          intro a ha b hb e; subst e
          exact ((hnew' a).mp hb).2 (inv.sub a (List.mem_cons_of_mem _ ha))
        · intro x hx
          rcases List.mem_append.mp hx with hx | hx
          · exact List.mem_append.mpr (Or.inl (inv.sub x (List.mem_cons_of_mem _ hx)))
          · exact List.mem_append.mpr (Or.inr hx)
        · intro x hx hnp w hw
          have hxr : x ∉ rest := fun h => hnp (List.mem_append.mpr (Or.inl h))
          have hxn : x ∉ new := fun h => hnp (List.mem_append.mpr (Or.inr h))
          have hxv : x ∈ vis := by
            rcases List.mem_append.mp hx with h | h
            · exact h
            · exact absurd h hxn
          by_cases hxc : x = c
          · subst hxc
            by_cases hwv : w ∈ vis
            · exact List.mem_append.mpr (Or.inl hwv)
            · exact List.mem_append.mpr (Or.inr ((hnew' w).mpr ⟨hw, hwv⟩))
          · have : x ∉ c :: rest := by
              intro h; rcases List.mem_cons.mp h with h | h
              · exact hxc h
              · exact hxr h
            exact List.mem_append.mpr (Or.inl (inv.closed x hxv this w hw))
      have hfuel' : (n - (vis ++ new).length) + (rest ++ new).length < f := by
        simp only [List.length_append, List.length_cons] at hfuel hlen ⊢
        omega
      obtain ⟨h1, h2⟩ := ih (rest ++ new) (vis ++ new) inv' hfuel'
      exact ⟨fun x hx => h1 x (List.mem_append.mpr (Or.inl hx)), h2⟩

/-- on a connected graph with symmetric adjacency the debt order contains every vertex but q -/
theorem debtOrder_cover (G : Graph n) (hs : ∀ v w, G.adj v w = G.adj w v) (hc : G.Connected)
    (hint : Fin n → List (Fin n)) (q v : Fin n) (hv : v ≠ q) : v ∈ debtOrder G hint q := by
  unfold debtOrder
  simp only [List.mem_filter, List.mem_reverse, decide_eq_true_eq]
  refine ⟨?_, hv⟩
  have inv0 : BfsInv (nbrs G hint) [q] [q] := ⟨by simp, by simp, by simp, by simp⟩
  obtain ⟨h1, h2⟩ := bfsGo_spec (nbrs G hint) (n + 1) [q] [q] inv0 (by simp; omega)
  obtain ⟨rk, hq, hdesc⟩ := hc q
  -- induction on the rank
  have key : ∀ k : Nat, ∀ u : Fin n, rk u ≤ k → u ∈ bfsGo (nbrs G hint) (n + 1) [q] [q] := by
    intro k
    induction k with
    | zero =>
      intro u hu
      by_cases huq : u = q
      · subst huq; exact h1 u (by simp)
      · obtain ⟨w, -, hlt⟩ := hdesc u huq; omega
    | succ k ih =>
      intro u hu
      by_cases huq : u = q
      · subst huq; exact h1 u (by simp)
      · obtain ⟨w, hadj, hlt⟩ := hdesc u huq
        have hw := ih w (by omega)
        exact h2 w hw u ((mem_nbrs G hint w u).mpr (by rw [hs w u]; exact hadj))
  exact key (rk v) v (le_refl _)

end CF
