import ChipFiring.Theory.Reduced
import ChipFiring.Model.Machines
/-
  Algebra of the chip moves: inverses, commutation, set-firing as iterated lending,
  conservation along histories, and the constructor's cached total.
-/
open Finset

namespace CF
variable {n : Nat} (G : Graph n)

theorem borrow_lend (D : Fin n → Int) (v : Fin n) : borrow G (lend G D v) v = D := by
  funext w; simp only [borrow, lend]; ring

theorem lend_borrow (D : Fin n → Int) (v : Fin n) : lend G (borrow G D v) v = D := by
  funext w; simp only [borrow, lend]; ring

theorem lend_comm (D : Fin n → Int) (v w : Fin n) : lend G (lend G D v) w = lend G (lend G D w) v := by
  funext x; simp only [lend]; ring

theorem lend_borrow_comm (D : Fin n → Int) (v w : Fin n) :
    lend G (borrow G D v) w = borrow G (lend G D w) v := by
  funext x; simp only [lend, borrow]; ring

theorem foldl_lend_eq (hs : ∀ v w, G.adj v w = G.adj w v) (l : List (Fin n)) (D : Fin n → Int) :
    l.foldl (lend G) D = applyScript G D (fun v => (l.count v : Int)) := by
  induction l generalizing D with
  | nil => simp [applyScript_zero]
  | cons a l ih =>
    rw [List.foldl_cons, ih, lend_eq G hs, applyScript_add]
    congr 1
    funext v
    by_cases h : a = v
    · subst h; simp [chipAt]; ring
    · have h' : v ≠ a := fun e => h e.symm
      simp [chipAt, h, h']

theorem indicator_setOf (l : List (Fin n)) (hl : l.Nodup) :
    indicator (setOf l) = fun v => (l.count v : Int) := by
  funext v
  unfold indicator setOf
  by_cases hv : v ∈ l
  · have : l.count v = 1 := List.count_eq_one_of_mem hl hv
    simp [hv, this]
  · have : l.count v = 0 := List.count_eq_zero_of_not_mem hv
    simp [hv, this]

/-- firing a set = lending at its members one by one, in any order -/
theorem fireSet_eq_foldl_lend (hs : ∀ v w, G.adj v w = G.adj w v) (l : List (Fin n)) (hl : l.Nodup)
    (D : Fin n → Int) : fireSet G (setOf l) D = l.foldl (lend G) D := by
  rw [fireSet_eq G hs, foldl_lend_eq G hs, indicator_setOf l hl]

theorem fireSet_congr (S S' : Fin n → Bool) (h : ∀ v, S v = S' v) (D : Fin n → Int) :
    fireSet G S D = fireSet G S' D := by
  have : S = S' := funext h
  rw [this]

/-- firing every vertex is the identity -/
theorem fireSet_univ (hs : ∀ v w, G.adj v w = G.adj w v) (D : Fin n → Int) :
    fireSet G (fun _ => true) D = D := by
  rw [fireSet_eq G hs]
  exact applyScript_const G D _ 1 (by intro v; simp [indicator])

theorem deg_lend (hs : ∀ v w, G.adj v w = G.adj w v) (D : Fin n → Int) (v : Fin n) :
    deg (lend G D v) = deg D := by rw [lend_eq G hs]; exact deg_applyScript G hs D _
theorem deg_borrow (hs : ∀ v w, G.adj v w = G.adj w v) (D : Fin n → Int) (v : Fin n) :
    deg (borrow G D v) = deg D := by rw [borrow_eq G hs]; exact deg_applyScript G hs D _
theorem deg_fireSet (hs : ∀ v w, G.adj v w = G.adj w v) (S : Fin n → Bool) (D : Fin n → Int) :
    deg (fireSet G S D) = deg D := by rw [fireSet_eq G hs]; exact deg_applyScript G hs D _
theorem deg_transfer (D : Fin n → Int) (a b : Fin n) (k : Int) : deg (transfer D a b k) = deg D := by
  unfold deg transfer
  simp only [Finset.sum_add_distrib, Finset.sum_sub_distrib]
  simp

/-- one accepted operation conserves the total degree -/
theorem dstep_deg (hs : ∀ v w, G.adj v w = G.adj w v) (q : Option (Fin n)) (D D' : Vec Int n)
    (o : DOp) (r : Option Int) (h : dstep G q D o = .ok (D', r)) : deg D'.get = deg D.get := by
  cases o <;> simp only [dstep] at h
  all_goals (repeat' split at h)
  all_goals (first | (injection h; done) | skip)
  all_goals (injection h with h; injection h with h1 h2; subst h1)
  all_goals first
    | rfl
    | (rw [get_mat]; first
        | exact deg_lend G hs _ _
        | exact deg_borrow G hs _ _
        | exact deg_fireSet G hs _ _
        | exact deg_transfer _ _ _ _)

/-- conservation over any history (refused operations included) -/
theorem drun_deg (hs : ∀ v w, G.adj v w = G.adj w v) (q : Option (Fin n)) (ops : List DOp) (D : Vec Int n) :
    ∀ x ∈ drun G q D ops, deg x.2.1.get = deg D.get := by
  induction ops generalizing D with
  | nil => intro x hx; simp [drun] at hx
  | cons o os ih =>
    intro x hx
    unfold drun at hx
    split at hx
    · rename_i D' r hstep
      have hd := dstep_deg G hs q D D' o r hstep
      rcases List.mem_cons.mp hx with rfl | hx'
      · exact hd
      · rw [← hd]; exact ih D' x hx'
    · rcases List.mem_cons.mp hx with rfl | hx'
      · rfl
      · exact ih D x hx'

/-! the constructor caches the right total -/

theorem hasDup_false_iff (l : List Nat) : Divisor.hasDup l = false ↔ l.Nodup := by
  induction l with
  | nil => simp [Divisor.hasDup]
  | cons a l ih =>
    simp only [Divisor.hasDup, Bool.or_eq_false_iff, List.nodup_cons, ih]
    constructor
    · rintro ⟨h1, h2⟩; exact ⟨by simpa using h1, h2⟩
    · rintro ⟨h1, h2⟩; exact ⟨by simpa using h1, h2⟩

theorem ref?_inj {i j : Nat} {v : Fin n} (hi : ref? n i = some v) (hj : ref? n j = some v) : i = j := by
  unfold ref? at hi hj
  split at hi <;> split at hj <;> simp_all
  rw [← hi] at hj; exact (Fin.mk.inj_iff.mp hj).symm

theorem new_go_total (es : List (Nat × Int)) (d d' : Divisor n)
    (hfresh : ∀ e ∈ es, ∀ v, ref? n e.1 = some v → d.deg v = 0)
    (hnd : (es.map (·.1)).Nodup) (htot : d.total = deg d.deg)
    (h : Divisor.new.go es d = .ok d') : d'.total = deg d'.deg := by
  induction es generalizing d with
  | nil => simp [Divisor.new.go] at h; rw [← h]; exact htot
  | cons e es ih =>
    obtain ⟨i, k⟩ := e
    unfold Divisor.new.go at h
    split at h
    · rename_i v hv
      simp only [List.map_cons, List.nodup_cons] at hnd
      apply ih _ _ hnd.2 _ h
      · intro e he w hw
        have hne : w ≠ v := by
          rintro rfl
          have := ref?_inj hw hv
          exact hnd.1 (this ▸ List.mem_map_of_mem (f := (·.1)) he)
        simp only [Divisor.deg, get_mat, hne, if_false]
        exact hfresh e (List.mem_cons_of_mem _ he) w hw
      · simp only [Divisor.deg, get_mat]
        have h0 := hfresh (i, k) (List.mem_cons_self) v hv
        unfold deg
        have : ∑ w, (if w = v then k else d.degV.get w) = ∑ w, d.degV.get w + k := by
          have e1 : ∀ w, (if w = v then k else d.degV.get w) = d.degV.get w + (if w = v then k - d.degV.get v else 0) := by
            intro w; by_cases hw : w = v
            · subst hw; simp
            · simp [hw]
          simp only [e1, Finset.sum_add_distrib]
          simp only [Divisor.deg] at h0
          simp [h0]
        rw [this, htot]; rfl
    · exact absurd h (by simp)

theorem new_total (entries : List (Nat × Int)) (d : Divisor n) (h : Divisor.new entries = .ok d) :
    d.total = deg d.deg := by
  unfold Divisor.new at h
  split at h
  · exact absurd h (by simp)
  · rename_i hd
    have hnd := (hasDup_false_iff _).mp (by simpa using hd)
    apply new_go_total entries _ d _ hnd _ h
    · intro e _ v _; simp [Divisor.deg]
    · simp [Divisor.deg, deg]

theorem ofFn_total (f : Fin n → Int) : (Divisor.ofFn f).total = deg (Divisor.ofFn f).deg := by
  simp [Divisor.ofFn, Divisor.deg, deg]

end CF
