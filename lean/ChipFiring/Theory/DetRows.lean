import ChipFiring.Model.Comb
import Mathlib.LinearAlgebra.Matrix.Determinant.Basic
import Mathlib.Data.List.OfFn
open Finset
namespace CF

/-- dropping the j-th entry, as `detRows` spells it -/
theorem filterMap_range_eq_eraseIdx (row : List Int) (j : Nat) :
    (List.range row.length).filterMap (fun k => if k = j then none else row[k]?) = row.eraseIdx j := by
  induction row generalizing j with
  | nil => simp
  | cons a as ih =>
    rw [List.length_cons, List.range_succ_eq_map, List.filterMap_cons]
    cases j with
    | zero =>
      simp only [if_true, List.eraseIdx_cons_zero, List.filterMap_map]
      have h := ih as.length
      rw [List.eraseIdx_of_length_le (le_refl _)] at h
      refine Eq.trans ?_ h
      apply List.filterMap_congr
      intro k hk
      have hk' := List.mem_range.mp hk
      simp only [Function.comp, Nat.succ_eq_add_one, Nat.add_eq_zero_iff, one_ne_zero, and_false, if_false,
        List.getElem?_cons_succ]
      rw [if_neg (by omega)]
    | succ j =>
      have h0 : ¬ (0 = j + 1) := by omega
      simp only [h0, if_false, List.getElem?_cons_zero, List.eraseIdx_cons_succ, List.filterMap_map]
      congr 1
      rw [← ih j]
      apply List.filterMap_congr
      intro k _
      simp [Function.comp]

theorem eraseIdx_ofFn {m : Nat} (g : Fin (m + 1) → Int) (j : Fin (m + 1)) :
    (List.ofFn g).eraseIdx j.1 = List.ofFn (fun k : Fin m => g (j.succAbove k)) := by
  apply List.ext_getElem
  · simp [List.length_eraseIdx, j.2]
  · intro k h1 h2
    have hk : k < m := by simpa using h2
    simp only [List.getElem_eraseIdx, List.getElem_ofFn]
    split
    · rename_i hlt
      congr 1
      apply Fin.ext
      rw [Fin.succAbove_of_castSucc_lt]
      · rfl
      · exact hlt
    · rename_i hge
      congr 1
      apply Fin.ext
      rw [Fin.succAbove_of_le_castSucc]
      · rfl
      · simp only [Fin.le_def, Fin.coe_castSucc]; omega

/-- `detRows` is the determinant (Laplace expansion along the first row) -/
theorem detRows_eq_det : ∀ (m f : Nat) (A : Matrix (Fin m) (Fin m) Int), m ≤ f →
    detRows f (List.ofFn fun i => List.ofFn fun j => A i j) = A.det := by
  intro m
  induction m with
  | zero =>
    intro f A _
    have : (List.ofFn fun i : Fin 0 => List.ofFn fun j => A i j) = [] := by simp
    rw [this, Matrix.det_fin_zero]
    cases f <;> rfl
  | succ m ih =>
    intro f A hf
    obtain ⟨f', rfl⟩ : ∃ f', f = f' + 1 := ⟨f - 1, by omega⟩
    rw [List.ofFn_succ, Matrix.det_succ_row_zero]
    simp only [detRows]
    rw [List.length_ofFn]
    -- turn the list sum into a Fin sum
    have hsum : ∀ g : Nat → Int, ((List.range (m + 1)).map g).sum = ∑ j : Fin (m + 1), g j.1 := by
      intro g
      rw [Fin.sum_univ_def, List.finRange_eq_pmap_range] 
      simp [List.map_pmap]
    rw [hsum]
    apply Finset.sum_congr rfl
    intro j _
    have hsign : (if j.1 % 2 = 0 then (1:Int) else -1) = (-1) ^ (j : ℕ) := by
      rcases Nat.even_or_odd j.1 with h | h
      · rw [if_pos (Nat.even_iff.mp h), h.neg_one_pow]
      · rw [if_neg (by have := Nat.odd_iff.mp h; omega), h.neg_one_pow]
    have hget : (List.ofFn fun j => A 0 j).getD j.1 0 = A 0 j := by
      rw [List.getD_eq_getElem?_getD, List.getElem?_ofFn]
      simp [j.2]
    have hminor : ((List.ofFn fun i : Fin m => List.ofFn fun j => A i.succ j).map fun row =>
          (List.range row.length).filterMap fun k => if k = j.1 then none else row[k]?)
        = List.ofFn fun i : Fin m => List.ofFn fun k : Fin m => (A.submatrix Fin.succ j.succAbove) i k := by
      rw [List.map_ofFn]
      congr 1
      funext i
      simp only [Function.comp]
      rw [filterMap_range_eq_eraseIdx, eraseIdx_ofFn]
      rfl
    rw [hsign, hget, hminor, ih f' _ (by omega)]

end CF
