import ChipFiring.Spec.Basic
import Mathlib.Tactic
/-
  T1: linear equivalence is an equivalence relation, degree is invariant, and the model's chip
  moves (`lend`, `borrow`, `fireSet`) are applications of firing scripts.
-/
open Finset

namespace CF
variable {n : Nat} (G : Graph n)

theorem applyScript_zero (D : Fin n → Int) : applyScript G D (fun _ => 0) = D := by
  funext w; simp [applyScript]

theorem applyScript_add (D s t : Fin n → Int) :
    applyScript G (applyScript G D s) t = applyScript G D (fun v => s v + t v) := by
  funext w
  simp only [applyScript]
  rw [sub_sub, ← Finset.sum_add_distrib]
  congr 1
  apply Finset.sum_congr rfl; intro v _; ring

theorem applyScript_neg_cancel (D s : Fin n → Int) :
    applyScript G (applyScript G D s) (fun v => - s v) = D := by
  rw [applyScript_add]
  have : (fun v => s v + - s v) = fun _ => (0:Int) := by funext v; ring
  rw [this, applyScript_zero]

theorem LinEq.refl (D : Fin n → Int) : LinEq G D D := ⟨fun _ => 0, (applyScript_zero G D).symm⟩

theorem LinEq.symm {D D' : Fin n → Int} (h : LinEq G D D') : LinEq G D' D := by
  obtain ⟨s, rfl⟩ := h
  exact ⟨fun v => - s v, (applyScript_neg_cancel G D s).symm⟩

theorem LinEq.trans {D D' D'' : Fin n → Int} (h : LinEq G D D') (h' : LinEq G D' D'') :
    LinEq G D D'' := by
  obtain ⟨s, rfl⟩ := h
  obtain ⟨t, rfl⟩ := h'
  exact ⟨_, applyScript_add G D s t⟩

/-- the Laplacian has zero column sums (symmetry): degree is invariant -/
theorem deg_applyScript (hs : ∀ v w, G.adj v w = G.adj w v) (D s : Fin n → Int) :
    deg (applyScript G D s) = deg D := by
  unfold deg applyScript
  rw [Finset.sum_sub_distrib]
  have : ∑ w, ∑ v, (G.adj w v : Int) * (s w - s v) = 0 := by
    have h1 : ∑ w, ∑ v, (G.adj w v : Int) * (s w - s v)
        = ∑ w, ∑ v, (G.adj w v : Int) * s w - ∑ w, ∑ v, (G.adj w v : Int) * s v := by
      rw [← Finset.sum_sub_distrib]
      apply Finset.sum_congr rfl; intro w _
      rw [← Finset.sum_sub_distrib]
      apply Finset.sum_congr rfl; intro v _; ring
    have h2 : ∑ w, ∑ v, (G.adj w v : Int) * s v = ∑ w, ∑ v, (G.adj w v : Int) * s w := by
      rw [Finset.sum_comm]
      apply Finset.sum_congr rfl; intro v _
      apply Finset.sum_congr rfl; intro w _
      rw [hs w v]
    rw [h1, h2]; ring
  rw [this]; ring

theorem deg_linEq (hs : ∀ v w, G.adj v w = G.adj w v) {D D' : Fin n → Int} (h : LinEq G D D') :
    deg D' = deg D := by
  obtain ⟨s, rfl⟩ := h; exact deg_applyScript G hs D s

theorem Winnable.of_linEq {D D' : Fin n → Int} (h : LinEq G D D') (hw : Winnable G D') :
    Winnable G D := by
  obtain ⟨E, hE, he⟩ := hw
  exact ⟨E, LinEq.trans G h hE, he⟩

theorem winnable_congr {D D' : Fin n → Int} (h : LinEq G D D') : Winnable G D ↔ Winnable G D' :=
  ⟨Winnable.of_linEq G (LinEq.symm G h), Winnable.of_linEq G h⟩

theorem Eff.winnable {D : Fin n → Int} (h : Eff D) : Winnable G D := ⟨D, LinEq.refl G D, h⟩

/-- negative degree is never winnable -/
theorem not_winnable_of_deg_neg (hs : ∀ v w, G.adj v w = G.adj w v) {D : Fin n → Int}
    (h : deg D < 0) : ¬ Winnable G D := by
  rintro ⟨E, hE, he⟩
  have := deg_linEq G hs hE
  have h0 : 0 ≤ deg E := Finset.sum_nonneg fun v _ => he v
  omega

/-! the model's moves as scripts -/

theorem rowSum_cast (v : Fin n) : ((G.rowSum v : Nat) : Int) = ∑ u, (G.adj v u : Int) := by
  unfold Graph.rowSum; simp

theorem lend_eq (hs : ∀ v w, G.adj v w = G.adj w v) (D : Fin n → Int) (v : Fin n) :
    lend G D v = applyScript G D (chipAt v) := by
  funext w
  simp only [lend, applyScript, chipAt, rowSum_cast]
  by_cases hwv : w = v
  · subst hwv
    simp only [if_true]
    have : ∑ x, (G.adj w x : Int) * (1 - if x = w then 1 else 0)
        = ∑ x, (G.adj w x : Int) - (G.adj w w : Int) := by
      rw [← Finset.sum_erase_add _ _ (mem_univ w)]
      rw [← Finset.sum_erase_add (f := fun x => (G.adj w x : Int)) _ (mem_univ w)]
      simp only [if_true, sub_self, mul_zero, add_zero]
      have : ∑ x ∈ univ.erase w, (G.adj w x : Int) * (1 - if x = w then 1 else 0)
          = ∑ x ∈ univ.erase w, (G.adj w x : Int) := by
        apply Finset.sum_congr rfl; intro x hx
        have : x ≠ w := (Finset.mem_erase.mp hx).1
        simp [this]
      rw [this]; ring
    rw [this]; ring
  · simp only [hwv, if_false, sub_zero]
    have : ∑ x, (G.adj w x : Int) * (0 - if x = v then 1 else 0) = - (G.adj w v : Int) := by
      rw [Finset.sum_eq_single v]
      · simp
      · intro b _ hb; simp [hb]
      · intro h; exact absurd (mem_univ v) h
    rw [this, hs v w]; ring

theorem borrow_eq (hs : ∀ v w, G.adj v w = G.adj w v) (D : Fin n → Int) (v : Fin n) :
    borrow G D v = applyScript G D (fun w => - chipAt v w) := by
  have h := lend_eq G hs (applyScript G D (fun w => - chipAt v w)) v
  rw [applyScript_add] at h
  have hz : (fun w => - chipAt v w + chipAt v w) = fun _ => (0:Int) := by funext w; ring
  rw [hz, applyScript_zero] at h
  -- lend (X) v = D  ⇒  X = borrow D v
  funext w
  have hw := congrFun h w
  simp only [lend] at hw
  simp only [borrow]
  linarith

def indicator (S : Fin n → Bool) : Fin n → Int := fun v => if S v then 1 else 0

theorem fireSet_eq (hs : ∀ v w, G.adj v w = G.adj w v) (S : Fin n → Bool) (D : Fin n → Int) :
    fireSet G S D = applyScript G D (indicator S) := by
  funext w
  simp only [fireSet, applyScript, indicator, sumZ_eq]
  by_cases hw : S w = true
  · simp only [hw, if_true]
    congr 1
    apply Finset.sum_congr rfl; intro u _
    by_cases hu : S u = true <;> simp [hu]
  · have hw' : S w = false := by simpa using hw
    simp only [hw', Bool.false_eq_true, if_false]
    have : ∑ x, (G.adj w x : Int) * (0 - if S x = true then 1 else 0)
        = - ∑ x, if S x = true then (G.adj x w : Int) else 0 := by
      rw [← Finset.sum_neg_distrib]
      apply Finset.sum_congr rfl; intro u _
      by_cases hu : S u = true <;> simp [hu, hs w u]
    rw [this]; ring

theorem lend_linEq (hs : ∀ v w, G.adj v w = G.adj w v) (D : Fin n → Int) (v : Fin n) :
    LinEq G D (lend G D v) := ⟨_, lend_eq G hs D v⟩
theorem borrow_linEq (hs : ∀ v w, G.adj v w = G.adj w v) (D : Fin n → Int) (v : Fin n) :
    LinEq G D (borrow G D v) := ⟨_, borrow_eq G hs D v⟩
theorem fireSet_linEq (hs : ∀ v w, G.adj v w = G.adj w v) (S : Fin n → Bool) (D : Fin n → Int) :
    LinEq G D (fireSet G S D) := ⟨_, fireSet_eq G hs S D⟩

end CF
