import ChipFiring.Theory.Potential
import ChipFiring.Theory.BurnOrient
import ChipFiring.Theory.RankTheory
import ChipFiring.Theory.Acyclic
/-
  T12: the Riemann–Roch theorem for graphs (Baker–Norine 2007), proved from the pieces already
  established: existence of q-reduced representatives (T7), Dhar's certificate (T5), unwinnability
  of acyclic-orientation divisors (T9).

  N = { ν_O = indeg_O − 1 : O a full acyclic orientation }.
  RR1: for every D exactly one of "D winnable", "ν − D winnable for some ν ∈ N" holds.
  RR2: ν ∈ N → K − ν ∈ N.
  Then r(D) + 1 = min over D' ~ D, ν ∈ N of deg⁺(D' − ν), and the formula follows.
-/
open Finset

namespace CF
variable {n : Nat} (G : Graph n)

/-- the set N of maximal unwinnable divisors coming from full acyclic orientations -/
def NuSet (ν : Fin n → Int) : Prop :=
  ∃ dir, OFull G dir ∧ OAcyclic G dir ∧ ∀ v, ν v = indeg G dir v - 1

/-- Σ max(D v, 0) -/
def degPlus (D : Fin n → Int) : Int := ∑ v, max (D v) 0

theorem degPlus_nonneg (D : Fin n → Int) : 0 ≤ degPlus D :=
  Finset.sum_nonneg fun _ _ => le_max_right _ _

theorem degPlus_neg (D : Fin n → Int) : degPlus (fun v => - D v) = degPlus D - deg D := by
  unfold degPlus deg
  rw [← Finset.sum_sub_distrib]
  apply Finset.sum_congr rfl; intro v _
  rcases le_total (D v) 0 with h | h
  · rw [max_eq_left (by omega : (0:Int) ≤ - D v), max_eq_right h]; ring
  · rw [max_eq_right (by omega : - D v ≤ (0:Int)), max_eq_left h]; ring

theorem deg_sub (D E : Fin n → Int) : deg (fun v => D v - E v) = deg D - deg E := by
  unfold deg; rw [Finset.sum_sub_distrib]

theorem deg_nonneg_of_winnable (hs : ∀ v w, G.adj v w = G.adj w v) {D : Fin n → Int} (h : Winnable G D) :
    0 ≤ deg D := by
  obtain ⟨E, hle, hE⟩ := h
  rw [← deg_linEq G hs hle]
  exact Finset.sum_nonneg fun v _ => hE v

/-- `F − D ~ F − D'` when `D ~ D'` -/
theorem LinEq.rsub {D D' : Fin n → Int} (h : LinEq G D D') (F : Fin n → Int) :
    LinEq G (fun v => F v - D v) (fun v => F v - D' v) := by
  obtain ⟨s, rfl⟩ := h
  refine ⟨fun v => - s v, ?_⟩
  funext w
  simp only [applyScript]
  have : ∑ v, (G.adj w v : Int) * (- s w - - s v) = - ∑ v, (G.adj w v : Int) * (s w - s v) := by
    rw [← Finset.sum_neg_distrib]
    apply Finset.sum_congr rfl; intro v _; ring
  rw [this]; ring

theorem nu_deg (hG : G.WF) {ν : Fin n → Int} (h : NuSet G ν) : deg ν = G.genus - 1 := by
  obtain ⟨dir, hf, -, hν⟩ := h
  have : deg ν = ∑ v, (indeg G dir v - 1) := Finset.sum_congr rfl fun v _ => hν v
  rw [this, Finset.sum_sub_distrib, sum_indeg_full G hG dir hf]
  simp [Graph.genus]

theorem canonical_deg (hG : G.WF) : deg (canonical G) = 2 * G.genus - 2 := by
  unfold deg canonical
  rw [Finset.sum_sub_distrib]
  have h3 : ∑ v, ∑ w, (G.adj v w : Int) = 2 * (G.total : Int) := by
    have := hG.total_eq
    have h4 : ∑ v, ∑ w, (G.adj v w : Int) = ((∑ v, G.val v : Nat) : Int) := by
      push_cast
      apply Finset.sum_congr rfl; intro v _
      rw [hG.val_eq v]; push_cast; rfl
    rw [h4, ← this]; push_cast; ring
  rw [h3]; simp [Graph.genus]; ring

/-- RR2: the reverse orientation -/
theorem nu_reverse (hG : G.WF) {ν : Fin n → Int} (h : NuSet G ν) :
    NuSet G (fun v => canonical G v - ν v) := by
  obtain ⟨dir, hf, ha, hν⟩ := h
  refine ⟨revDir dir, revDir_full G dir hf, revDir_acyclic G hG.symm dir ha, ?_⟩
  intro v
  have := indeg_add_rev G hG.symm dir hf v
  simp only [canonical, hν v]
  omega

/-- RR1, first half: an unwinnable divisor is dominated (up to equivalence) by some ν ∈ N -/
theorem exists_nu_of_unwinnable (hG : G.WF) (hc : G.Connected) (hn : 0 < n) (D : Fin n → Int)
    (hu : ¬ Winnable G D) : ∃ ν, NuSet G ν ∧ Winnable G (fun v => ν v - D v) := by
  let q : Fin n := ⟨0, hn⟩
  obtain ⟨D', hle, hqr⟩ := exists_qreduced G hG hc q D
  have hq : D' q < 0 := by
    by_contra hq
    exact hu ((winnable_congr G hle).mpr ((qreduced_verdict G q D' hqr).mpr (by omega)))
  have hall := (burn_all_iff G q D').mpr hqr.2
  obtain ⟨hf, ha, h0, hb, -⟩ := burn_certificate hG q D' hall
  have hind : ∀ v, (burn G q D').indeg G v = indeg G ((burn G q D').dir G) v := by
    intro v; simp [BState.indeg, indeg]
  refine ⟨fun v => indeg G ((burn G q D').dir G) v - 1, ⟨_, hf, ha, fun _ => rfl⟩, ?_⟩
  apply (winnable_congr G (LinEq.rsub G hle _)).mpr
  apply Eff.winnable
  intro v
  show 0 ≤ indeg G ((burn G q D').dir G) v - 1 - D' v
  by_cases hv : v = q
  · rw [hv, ← hind, h0]; omega
  · have := hb v hv; rw [hind] at this; omega

/-- RR1, second half: `D` and `ν − D` are never both winnable -/
theorem not_both_winnable (hG : G.WF) (hn : 0 < n) {ν : Fin n → Int} (hν : NuSet G ν) (D : Fin n → Int)
    (h1 : Winnable G D) (h2 : Winnable G (fun v => ν v - D v)) : False := by
  obtain ⟨dir, -, ha, hνv⟩ := hν
  obtain ⟨E, hle, hE⟩ := h1
  have h3 : Winnable G (fun v => ν v - E v) := (winnable_congr G (LinEq.rsub G hle ν)).mp h2
  have h4 := Winnable.add_eff G h3 hE
  have : (fun v => ν v - E v + E v) = fun v => indeg G dir v - 1 := by
    funext v; rw [hνv v]; ring
  rw [this] at h4
  exact acyclic_unwinnable G hG.symm hn dir ha h4

/-- `P D k`: some representative of the class of `D` exceeds some ν ∈ N by at most `k` chips -/
def NearNu (D : Fin n → Int) (k : Int) : Prop :=
  ∃ D' ν, LinEq G D D' ∧ NuSet G ν ∧ degPlus (fun v => D' v - ν v) ≤ k

theorem NearNu.mono {D : Fin n → Int} {j k : Int} (h : NearNu G D j) (hjk : j ≤ k) : NearNu G D k := by
  obtain ⟨D', ν, h1, h2, h3⟩ := h
  exact ⟨D', ν, h1, h2, le_trans h3 hjk⟩

theorem NearNu.nonneg {D : Fin n → Int} {k : Int} (h : NearNu G D k) : 0 ≤ k := by
  obtain ⟨D', ν, -, -, h3⟩ := h
  exact le_trans (degPlus_nonneg _) h3

/-- Baker–Norine Lemma 2.7: r(D) < k  ⟺  deg⁺(D' − ν) ≤ k for some D' ~ D, ν ∈ N -/
theorem not_allWin_iff (hG : G.WF) (hc : G.Connected) (hn : 0 < n) (D : Fin n → Int) (k : Nat) :
    ¬ AllWin G D k ↔ NearNu G D k := by
  constructor
  · intro h
    unfold AllWin at h
    push Not at h
    obtain ⟨E, hE, hd, hu⟩ := h
    obtain ⟨ν, hν, E', ⟨s, rfl⟩, hE'⟩ := exists_nu_of_unwinnable G hG hc hn _ hu
    refine ⟨applyScript G D (fun v => - s v), ν, ⟨_, rfl⟩, hν, ?_⟩
    have hpt : ∀ w, applyScript G D (fun v => - s v) w - ν w
        = E w - applyScript G (fun v => ν v - (D v - E v)) s w := by
      intro w
      simp only [applyScript]
      have : ∑ v, (G.adj w v : Int) * (- s w - - s v) = - ∑ v, (G.adj w v : Int) * (s w - s v) := by
        rw [← Finset.sum_neg_distrib]
        apply Finset.sum_congr rfl; intro v _; ring
      rw [this]; ring
    calc degPlus (fun w => applyScript G D (fun v => - s v) w - ν w)
        ≤ ∑ w, E w := by
          unfold degPlus
          apply Finset.sum_le_sum; intro w _
          show max (applyScript G D (fun v => - s v) w - ν w) 0 ≤ E w
          rw [hpt w]
          have := hE' w; have := hE w
          exact max_le (by omega) (hE w)
      _ = k := hd
  · rintro ⟨D', ν, hle, hν, hk⟩ hall
    let X : Fin n → Int := fun v => D' v - ν v
    let v0 : Fin n := ⟨0, hn⟩
    let c : Int := k - degPlus X
    have hc0 : 0 ≤ c := by
      have : degPlus X ≤ k := hk
      simp only [c]; omega
    let E : Fin n → Int := fun v => max (X v) 0 + if v = v0 then c else 0
    let E' : Fin n → Int := fun v => max (- X v) 0 + if v = v0 then c else 0
    have hE : Eff E := by
      intro v; simp only [E]
      have := le_max_right (X v) 0
      split <;> omega
    have hE' : Eff E' := by
      intro v; simp only [E']
      have := le_max_right (- X v) 0
      split <;> omega
    have hdeg : deg E = k := by
      simp only [deg, E, Finset.sum_add_distrib]
      have : ∑ v, max (X v) 0 = degPlus X := rfl
      rw [this]; simp [c]
    have hXE : ∀ v, X v = E v - E' v := by
      intro v; simp only [E, E']
      rcases le_total (X v) 0 with h | h
      · rw [max_eq_right h, max_eq_left (by omega : (0:Int) ≤ - X v)]; ring
      · rw [max_eq_left h, max_eq_right (by omega : - X v ≤ (0:Int))]; ring
    have hw : Winnable G (fun v => D' v - E v) := (winnable_congr G (LinEq.sub_right G hle E)).mp (hall E hE hdeg)
    apply not_both_winnable G hG hn hν _ hw
    apply Eff.winnable
    intro v
    have := hXE v; have := hE' v
    simp only [X] at *
    omega

/-- the symmetry behind Riemann–Roch -/
theorem nearNu_dual (hG : G.WF) (D : Fin n → Int) (k : Int) (h : NearNu G D k) :
    NearNu G (fun v => canonical G v - D v) (k - deg D + G.genus - 1) := by
  obtain ⟨D', ν, hle, hν, hk⟩ := h
  refine ⟨fun v => canonical G v - D' v, fun v => canonical G v - ν v, LinEq.rsub G hle _, nu_reverse G hG hν, ?_⟩
  have heq : (fun v => (canonical G v - D' v) - (canonical G v - ν v)) = fun v => - (D' v - ν v) := by
    funext v; ring
  rw [heq, degPlus_neg, deg_sub, nu_deg G hG hν, deg_linEq G hG.symm hle]
  omega

/-- what the rank relation says in terms of `NearNu` -/
theorem isRank_nearNu (hG : G.WF) (hc : G.Connected) (hn : 0 < n) (D : Fin n → Int) (r : Int) (h : IsRank G D r) :
    NearNu G D (r + 1) ∧ ∀ j, j ≤ r → ¬ NearNu G D j := by
  rw [isRank_iff] at h
  rcases h with ⟨rfl, hu⟩ | ⟨k, rfl, h1, h2⟩
  · constructor
    · have : ¬ AllWin G D 0 := by
        intro hall
        apply hu
        have := hall (fun _ => 0) (fun _ => le_refl 0) (by simp [deg])
        simpa using this
      have := (not_allWin_iff G hG hc hn D 0).mp this
      simpa using this
    · intro j hj hN
      have := NearNu.nonneg G hN; omega
  · constructor
    · have := (not_allWin_iff G hG hc hn D (k + 1)).mp h2
      simpa using this
    · intro j hj hN
      have h0 := NearNu.nonneg G hN
      have hN' : NearNu G D (k : Int) := NearNu.mono G hN hj
      exact (not_allWin_iff G hG hc hn D k).mpr hN' h1

/-- **Riemann–Roch for graphs**: r(D) − r(K − D) = deg D + 1 − g -/
theorem riemann_roch (hG : G.WF) (hc : G.Connected) (hn : 0 < n) (D : Fin n → Int) (r r' : Int)
    (h : IsRank G D r) (h' : IsRank G (fun v => canonical G v - D v) r') :
    r - r' = deg D + 1 - G.genus := by
  obtain ⟨hP, hnP⟩ := isRank_nearNu G hG hc hn D r h
  obtain ⟨hP', hnP'⟩ := isRank_nearNu G hG hc hn _ r' h'
  have h1 := nearNu_dual G hG D _ hP
  have h2 := nearNu_dual G hG _ _ hP'
  have hKK : (fun v => canonical G v - (canonical G v - D v)) = D := by funext v; ring
  rw [hKK, deg_sub, canonical_deg G hG] at h2
  have a1 : ¬ (r + 1 - deg D + G.genus - 1 ≤ r') := fun hle => hnP' _ hle h1
  have a2 : ¬ (r' + 1 - (2 * G.genus - 2 - deg D) + G.genus - 1 ≤ r) := fun hle => hnP _ hle h2
  omega

/-- every divisor has a rank -/
theorem exists_isRank (hG : G.WF) (hn : 0 < n) (D : Fin n → Int) : ∃ r, IsRank G D r := by
  classical
  by_cases hw : Winnable G D
  · have hex : ∃ k, ¬ AllWin G D k := by
      refine ⟨(deg D + 1).toNat, fun hall => ?_⟩
      let v0 : Fin n := ⟨0, hn⟩
      let E : Fin n → Int := fun v => if v = v0 then ((deg D + 1).toNat : Int) else 0
      have hE : Eff E := fun v => by simp only [E]; split <;> simp
      have hd : deg E = ((deg D + 1).toNat : Int) := by simp [deg, E]
      have h1 := deg_nonneg_of_winnable G hG.symm (hall E hE hd)
      rw [deg_sub, hd] at h1
      have h0 := deg_nonneg_of_winnable G hG.symm hw
      rw [Int.toNat_of_nonneg (by omega)] at h1
      omega
    have hk0 : Nat.find hex ≠ 0 := by
      intro h0
      have := Nat.find_spec hex
      rw [h0] at this
      apply this
      intro E hE hd
      have : E = fun _ => 0 := by
        funext v
        have hd0 : ∑ v, E v = 0 := by simpa [deg] using hd
        exact (Finset.sum_eq_zero_iff_of_nonneg (fun v _ => hE v)).mp hd0 v (mem_univ v)
      subst this; simpa using hw
    obtain ⟨k, hk⟩ := Nat.exists_eq_succ_of_ne_zero hk0
    refine ⟨k, (isRank_iff G D k).mpr (Or.inr ⟨k, rfl, ?_, ?_⟩)⟩
    · by_contra hc
      exact Nat.find_min hex (by omega : k < Nat.find hex) hc
    · have := Nat.find_spec hex
      rw [hk] at this; exact this
  · exact ⟨-1, Or.inl ⟨rfl, hw⟩⟩

/-- above the canonical degree the rank is deg D − g -/
theorem rank_high_degree (hG : G.WF) (hc : G.Connected) (hn : 0 < n) (D : Fin n → Int)
    (h : 2 * G.genus - 2 < deg D) : IsRank G D (deg D - G.genus) := by
  obtain ⟨r, hr⟩ := exists_isRank G hG hn D
  have hK : IsRank G (fun v => canonical G v - D v) (-1) := by
    refine Or.inl ⟨rfl, fun hw => ?_⟩
    have := deg_nonneg_of_winnable G hG.symm hw
    rw [deg_sub, canonical_deg G hG] at this
    omega
  have := riemann_roch G hG hc hn D r (-1) hr hK
  have : r = deg D - G.genus := by omega
  rw [← this]; exact hr

end CF
