import ChipFiring.Theory.Reduced
import Mathlib.Tactic.Linarith
/-
  T14: the gonality of the complete graph K_n is n − 1 (n ≥ 2), for all n.
-/
open Finset

namespace CF
variable {n : Nat} (G : Graph n)

/-- simple complete graph on the n vertices -/
def IsComplete : Prop := ∀ u v, G.adj u v = if u = v then 0 else 1

theorem sum_ne_one (u : Fin n) : ∑ v : Fin n, (if v = u then (0:Int) else 1) = (n : Int) - 1 := by
  have h : ∀ v : Fin n, (if v = u then (0:Int) else 1) = 1 - (if v = u then 1 else 0) := by
    intro v; split <;> simp
  simp only [h, Finset.sum_sub_distrib, Finset.sum_ite_eq', mem_univ, if_true]
  simp

/-- the placement "one chip everywhere except at u" has rank ≥ 1 on K_n -/
theorem complete_upper (hK : IsComplete G) (hn : 2 ≤ n) (u : Fin n) :
    RankGeOne G (fun v => if v = u then 0 else 1) := by
  have hK : ∀ u v, G.adj u v = if u = v then 0 else 1 := hK
  intro w
  by_cases hw : w = u
  · subst hw
    refine ⟨_, ⟨fun v => if v = w then 0 else 1, rfl⟩, ?_⟩
    intro x
    simp only [applyScript, chipAt, hK]
    by_cases hx : x = w
    · subst hx
      have : ∑ v : Fin n, ((if x = v then 0 else 1 : Nat) : Int) * ((if x = x then (0:Int) else 1) - (if v = x then 0 else 1))
          = - ∑ v : Fin n, (if v = x then (0:Int) else 1) := by
        rw [← Finset.sum_neg_distrib]
        apply Finset.sum_congr rfl; intro v _
        by_cases hv : v = x
        · subst hv; simp
        · have : ¬ x = v := fun h => hv h.symm
          simp [hv, this]
      rw [this, sum_ne_one]
      simp; omega
    · have : ∑ v : Fin n, ((if x = v then 0 else 1 : Nat) : Int) * ((if x = w then (0:Int) else 1) - (if v = w then 0 else 1))
          = ∑ v : Fin n, (if v = w then (1:Int) else 0) := by
        apply Finset.sum_congr rfl; intro v _
        by_cases hv : v = w
        · subst hv; simp [hx]
        · simp [hv, hx]
      rw [this]; simp [hx]
  · apply Eff.winnable
    intro x
    simp only [chipAt]
    by_cases hx : x = u
    · subst hx
      have : ¬ x = w := fun h => hw h.symm
      simp [this]
    · simp only [hx, if_false]; split <;> omega

/-- on K_n no non-empty set avoiding w can fire legally from an effective divisor with fewer than
    n − 1 chips off w -/
theorem complete_no_legal (hK : IsComplete G) (w : Fin n) (D : Fin n → Int)
    (h0 : ∀ v, v ≠ w → 0 ≤ D v) (hd : (∑ v, if v = w then 0 else D v) < (n : Int) - 1) (S : Fin n → Bool) :
    ¬ Legal G w D S := by
  have hK : ∀ u v, G.adj u v = if u = v then 0 else 1 := hK
  rintro ⟨⟨v0, hv0⟩, hSw, hleg⟩
  let T : Finset (Fin n) := univ.filter (fun v => S v = true)
  let U : Finset (Fin n) := univ.filter (fun v => ¬ S v = true)
  have hTU : T.card + U.card = n := by
    have := Finset.card_filter_add_card_filter_not (s := (univ : Finset (Fin n))) (fun v => S v = true)
    simpa [T, U] using this
  have hT1 : 1 ≤ T.card := Finset.card_pos.mpr ⟨v0, by simp [T, hv0]⟩
  have hU1 : 1 ≤ U.card := Finset.card_pos.mpr ⟨w, by simp [U, hSw]⟩
  have hout : ∀ v, S v = true → outdeg G S v = (U.card : Int) := by
    intro v hv
    unfold outdeg
    have : ∀ x : Fin n, (if S x = true then (0:Int) else (G.adj v x : Int)) = if ¬ S x = true then 1 else 0 := by
      intro x
      by_cases hx : S x = true
      · simp [hx]
      · have hne : v ≠ x := by rintro rfl; exact hx hv
        simp [hx, hK, hne]
    simp only [this]
    rw [Finset.sum_boole]
  have h1 : (T.card : Int) * (U.card : Int) ≤ ∑ v ∈ T, D v := by
    have : ∑ v ∈ T, (U.card : Int) ≤ ∑ v ∈ T, D v := by
      apply Finset.sum_le_sum; intro v hv
      have hv' : S v = true := by simpa [T] using hv
      rw [← hout v hv']; exact hleg v hv'
    simpa using this
  have h2 : ∑ v ∈ T, D v ≤ ∑ v, if v = w then 0 else D v := by
    have h3 : ∑ v ∈ T, D v = ∑ v ∈ T, (if v = w then 0 else D v) := by
      apply Finset.sum_congr rfl; intro v hv
      have hv' : S v = true := by simpa [T] using hv
      have : v ≠ w := by rintro rfl; rw [hSw] at hv'; exact Bool.noConfusion hv'
      simp [this]
    rw [h3]
    apply Finset.sum_le_sum_of_subset_of_nonneg (Finset.subset_univ T)
    intro v _ _
    by_cases hv : v = w
    · simp [hv]
    · simp [hv, h0 v hv]
  have h4 : (n : Int) = T.card + U.card := by exact_mod_cast hTU.symm
  have hT1' : (1:Int) ≤ T.card := by exact_mod_cast hT1
  have hU1' : (1:Int) ≤ U.card := by exact_mod_cast hU1
  nlinarith

/-- **gon(K_n) = n − 1** for every n ≥ 2 -/
theorem complete_gonality (hK : IsComplete G) (hn : 2 ≤ n) : IsGonality G (n - 1) := by
  constructor
  · let u : Fin n := ⟨0, by omega⟩
    refine ⟨fun v => if v = u then 0 else 1, fun v => by simp only; split <;> omega, ?_, complete_upper G hK hn u⟩
    unfold deg; rw [sum_ne_one]; push_cast [Nat.cast_sub (by omega : 1 ≤ n)]; ring
  · intro D hE hd hr
    have hdn : deg D < (n : Int) - 1 := by
      have : ((n - 1 : Nat) : Int) = (n : Int) - 1 := by push_cast [Nat.cast_sub (by omega : 1 ≤ n)]; ring
      rw [← this]; exact hd
    -- a vertex without chips
    have hex : ∃ w, D w = 0 := by
      by_contra hne
      push Not at hne
      have : ∑ _v : Fin n, (1:Int) ≤ ∑ v, D v := by
        apply Finset.sum_le_sum; intro v _
        have := hE v; have := hne v; omega
      simp at this
      unfold deg at hdn; omega
    obtain ⟨w, hw⟩ := hex
    have hq : QReduced G w (fun v => D v - chipAt w v) := by
      refine ⟨fun v hv => by simp [chipAt, hv, hE v], fun S => ?_⟩
      apply complete_no_legal G hK w _ (fun v hv => by simp [chipAt, hv, hE v])
      have : (∑ v, if v = w then (0:Int) else D v - chipAt w v) ≤ deg D := by
        unfold deg
        apply Finset.sum_le_sum; intro v _
        by_cases hv : v = w
        · simp [hv, hE w]
        · simp [hv, chipAt]
      omega
    have := (qreduced_verdict G w _ hq).mp (hr w)
    simp [chipAt, hw] at this

end CF
