import ChipFiring.Spec.Basic
import ChipFiring.Model.Algos
import Mathlib.Tactic
/-
  T13: the enumeration `effDivs n k` (combinations with replacement → chip counts) lists exactly
  the effective divisors of degree k.
-/
open Finset

namespace CF
variable {n : Nat}

theorem countVec_nil : countVec ([] : List (Fin n)) = fun _ => 0 := by
  funext v; simp [countVec]

theorem countVec_cons (a : Fin n) (c : List (Fin n)) :
    countVec (a :: c) = fun v => countVec c v + if v = a then 1 else 0 := by
  funext v
  simp only [countVec, List.count_cons]
  by_cases h : a = v
  · subst h; simp
  · have h' : ¬ v = a := fun e => h e.symm
    simp [h, h']

/-- members of `cwr vs k` have length k and only use elements of `vs` -/
theorem cwr_sound {α : Type} (vs : List α) (k : Nat) : ∀ c ∈ cwr vs k, c.length = k ∧ ∀ x ∈ c, x ∈ vs := by
  induction vs generalizing k with
  | nil =>
    cases k with
    | zero => intro c hc; simp [cwr_zero] at hc; subst hc; simp
    | succ k => intro c hc; simp [cwr_nil_succ] at hc
  | cons v vs ihv =>
    induction k with
    | zero => intro c hc; simp [cwr_zero] at hc; subst hc; simp
    | succ k ihk =>
      intro c hc
      simp only [cwr_cons_succ, List.mem_append, List.mem_map] at hc
      rcases hc with ⟨c', hc', rfl⟩ | hc
      · obtain ⟨h1, h2⟩ := ihk c' hc'
        refine ⟨by simp [h1], ?_⟩
        intro x hx
        rcases List.mem_cons.mp hx with rfl | hx
        · exact List.mem_cons_self
        · exact h2 x hx
      · obtain ⟨h1, h2⟩ := ihv (k + 1) c hc
        exact ⟨h1, fun x hx => List.mem_cons_of_mem _ (h2 x hx)⟩

/-- completeness, stated for an arbitrary duplicate-free vertex list -/
theorem cwr_complete (vs : List (Fin n)) (hnd : vs.Nodup) :
    ∀ (k : Nat) (E : Fin n → Int), (∀ v, 0 ≤ E v) → (∀ v, v ∉ vs → E v = 0) →
      (vs.map E).sum = (k : Int) → ∃ c ∈ cwr vs k, countVec c = E := by
  induction vs with
  | nil =>
    intro k E _ hsupp hsum
    simp at hsum
    have hk : k = 0 := by omega
    subst hk
    refine ⟨[], by simp [cwr_zero], ?_⟩
    rw [countVec_nil]; funext v; exact (hsupp v (by simp)).symm
  | cons a vs ihv =>
    have hnd' := (List.nodup_cons.mp hnd)
    intro k
    induction k with
    | zero =>
      intro E hE hsupp hsum
      refine ⟨[], by simp [cwr_zero], ?_⟩
      rw [countVec_nil]; funext v
      by_cases hv : v ∈ a :: vs
      · have hnn : ∀ x ∈ ((a :: vs).map E), 0 ≤ x := by
          intro x hx; obtain ⟨w, -, rfl⟩ := List.mem_map.mp hx; exact hE w
        have hle : E v ≤ ((a :: vs).map E).sum := List.single_le_sum hnn _ (List.mem_map_of_mem hv)
        have := hE v
        simp only [Nat.cast_zero] at hsum
        omega
      · exact (hsupp v hv).symm
    | succ k ihk =>
      intro E hE hsupp hsum
      by_cases ha : 0 < E a
      · -- take one chip off `a`
        let E' : Fin n → Int := fun v => E v - if v = a then 1 else 0
        have hE' : ∀ v, 0 ≤ E' v := by
          intro v; simp only [E']; by_cases h : v = a
          · subst h; simp; omega
          · simp [h]; exact hE v
        have hsupp' : ∀ v, v ∉ a :: vs → E' v = 0 := by
          intro v hv
          have : v ≠ a := fun e => hv (e ▸ List.mem_cons_self)
          simp [E', this, hsupp v hv]
        have hsum' : ((a :: vs).map E').sum = (k : Int) := by
          simp only [List.map_cons, List.sum_cons] at hsum ⊢
          have hrest : (vs.map E').sum = (vs.map E).sum := by
            congr 1
            apply List.map_congr_left
            intro v hv
            have : v ≠ a := fun e => hnd'.1 (e ▸ hv)
            simp [E', this]
          rw [hrest]
          simp only [E', if_true]
          push_cast at hsum; omega
        obtain ⟨c, hc, hcE⟩ := ihk E' hE' hsupp' hsum'
        refine ⟨a :: c, ?_, ?_⟩
        · simp only [cwr_cons_succ, List.mem_append, List.mem_map]
          left; exact ⟨c, hc, rfl⟩
        · rw [countVec_cons, hcE]; funext v; simp [E']
      · -- no chip at `a`: the support lies in `vs`
        have ha0 : E a = 0 := by have := hE a; omega
        have hsupp' : ∀ v, v ∉ vs → E v = 0 := by
          intro v hv
          by_cases h : v = a
          · subst h; exact ha0
          · exact hsupp v (by simp [h, hv])
        have hsum' : (vs.map E).sum = ((k + 1 : Nat) : Int) := by
          simp only [List.map_cons, List.sum_cons, ha0, zero_add] at hsum; exact hsum
        obtain ⟨c, hc, hcE⟩ := ihv hnd'.2 (k + 1) E hE hsupp' hsum'
        refine ⟨c, ?_, hcE⟩
        simp only [cwr_cons_succ, List.mem_append]
        right; exact hc

theorem sum_map_finRange (E : Fin n → Int) : ((List.finRange n).map E).sum = ∑ v, E v := by
  rw [Fin.sum_univ_def]

/-- every effective divisor of degree k is enumerated -/
theorem effDivs_complete (k : Nat) (E : Fin n → Int) (hE : Eff E) (hk : deg E = (k : Int)) :
    E ∈ effDivs n k := by
  obtain ⟨c, hc, hcE⟩ := cwr_complete (List.finRange n) (List.nodup_finRange n) k E hE
    (fun v hv => absurd (List.mem_finRange v) hv) (by rw [sum_map_finRange]; exact hk)
  unfold effDivs
  exact List.mem_map.mpr ⟨c, hc, hcE⟩

theorem sum_countVec (c : List (Fin n)) : ∑ v, countVec c v = c.length := by
  induction c with
  | nil => simp [countVec]
  | cons a c ih =>
    rw [countVec_cons, Finset.sum_add_distrib, ih]
    simp

/-- and everything enumerated is an effective divisor of degree k -/
theorem effDivs_sound (k : Nat) (E : Fin n → Int) (h : E ∈ effDivs n k) : Eff E ∧ deg E = (k : Int) := by
  unfold effDivs at h
  obtain ⟨c, hc, rfl⟩ := List.mem_map.mp h
  refine ⟨fun v => by simp [countVec], ?_⟩
  unfold deg
  rw [sum_countVec, (cwr_sound _ k c hc).1]

end CF
