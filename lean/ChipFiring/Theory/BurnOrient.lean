import ChipFiring.Theory.Burn
import Mathlib.Tactic
/-
  T5: the time-stamped burn.  Burn positions are injective, every burnt vertex other than q
  holds fewer chips than it has edges to vertices burnt strictly earlier; when everything burns
  the burn order is a topological order of a full orientation with q as the only source.
-/
open Finset

namespace CF
variable {n : Nat} (G : Graph n)

/-- edges from `v` to vertices burnt strictly earlier than `v` -/
def earlier (st : BState n) (v : Fin n) : Int :=
  ∑ w, if st.B w && decide (st.pos w < st.pos v) then (G.adj v w : Int) else 0

structure BInv (q : Fin n) (D : Fin n → Int) (st : BState n) : Prop where
  bq : st.B q = true
  posq : st.pos q = 0
  pos1 : ∀ w, st.B w = true → w ≠ q → 1 ≤ st.pos w
  lt : ∀ w, st.B w = true → st.pos w < st.t
  inj : ∀ v w, st.B v = true → st.B w = true → st.pos v = st.pos w → v = w
  bound : ∀ v, st.B v = true → v ≠ q → D v < earlier G st v

theorem binv_init (q : Fin n) (D : Fin n → Int) : BInv G q D (burnInit q) := by
  refine ⟨by simp [burnInit], by simp [burnInit], ?_, ?_, ?_, ?_⟩
  · intro w hw hne; simp [burnInit, hne] at hw
  · intro w _; simp [burnInit]
  · intro v w hv hw _
    simp [burnInit] at hv hw; rw [hv, hw]
  · intro v hv hne; simp [burnInit, hne] at hv

theorem burnStep_binv (q : Fin n) (D : Fin n → Int) (st : BState n) (h : BInv G q D st) (v : Fin n) :
    BInv G q D (burnStep G D st v) := by
  by_cases hb : burns G D st v
  · rw [burnStep_of_burns G D st v hb]
    obtain ⟨hvB, hburn⟩ := hb
    have hvq : v ≠ q := by rintro rfl; rw [h.bq] at hvB; exact Bool.noConfusion hvB
    have ht1 : 1 ≤ st.t := by have := h.lt q h.bq; omega
    refine ⟨?_, ?_, ?_, ?_, ?_, ?_⟩
    · simp [h.bq]
    · simp [Ne.symm hvq, h.posq]
    · intro w hw hwq
      simp only [BState.B_mk', Bool.or_eq_true, decide_eq_true_eq] at hw
      simp only [BState.pos_mk']
      by_cases hwv : w = v
      · simp [hwv]; exact ht1
      · simp only [hwv, if_false]; exact h.pos1 w (by tauto) hwq
    · intro w hw
      simp only [BState.B_mk', Bool.or_eq_true, decide_eq_true_eq] at hw
      simp only [BState.pos_mk', BState.t_mk']
      by_cases hwv : w = v
      · simp [hwv]
      · have := h.lt w (by tauto)
        simp [hwv]; omega
    · intro a b ha hb hab
      simp only [BState.B_mk', Bool.or_eq_true, decide_eq_true_eq] at ha hb
      simp only [BState.pos_mk'] at hab
      by_cases hav : a = v <;> by_cases hbv : b = v
      · rw [hav, hbv]
      · have := h.lt b (by tauto); simp [hav, hbv] at hab; omega
      · have := h.lt a (by tauto); simp [hav, hbv] at hab; omega
      · simp [hav, hbv] at hab; exact h.inj a b (by tauto) (by tauto) hab
    · intro a ha haq
      simp only [BState.B_mk', Bool.or_eq_true, decide_eq_true_eq] at ha
      by_cases hav : a = v
      · subst hav
        have : earlier G (BState.mk' (fun w => decide (w = a) || st.B w)
                           (fun w => if w = a then st.t else st.pos w) (st.t + 1)) a
             = edgesTo G st.B a := by
          rw [edgesTo_eq]
          unfold earlier
          apply Finset.sum_congr rfl
          intro w _
          simp only [BState.B_mk', BState.pos_mk']
          by_cases hwa : w = a
          · subst hwa; simp [hvB]
          · by_cases hw : st.B w = true
            · have := h.lt w hw
              simp [hwa, hw, this]
            · have hw' : st.B w = false := by simpa using hw
              simp [hwa, hw']
        rw [this]; exact hburn
      · have haB : st.B a = true := by tauto
        have hold := h.bound a haB haq
        have : earlier G (BState.mk' (fun w => decide (w = v) || st.B w)
                           (fun w => if w = v then st.t else st.pos w) (st.t + 1)) a
             = earlier G st a := by
          unfold earlier
          apply Finset.sum_congr rfl
          intro w _
          simp only [BState.B_mk', BState.pos_mk']
          by_cases hwv : w = v
          · subst hwv
            have := h.lt a haB
            have h2 : ¬ st.t < st.pos a := by omega
            simp [hav, hvB, h2]
          · simp [hwv, hav]
        rw [this]; exact hold
  · rw [burnStep_of_not_burns G D st v hb]; exact h

theorem foldl_binv (q : Fin n) (D : Fin n → Int) (l : List (Fin n)) (st : BState n)
    (h : BInv G q D st) : BInv G q D (l.foldl (burnStep G D) st) := by
  induction l generalizing st with
  | nil => simpa
  | cons v l ih => exact ih _ (burnStep_binv G q D st h v)

theorem burnIter_binv (q : Fin n) (D : Fin n → Int) (k : Nat) (st : BState n)
    (h : BInv G q D st) : BInv G q D (burnIter G D k st) := by
  induction k generalizing st with
  | zero => simpa [burnIter]
  | succ k ih => exact ih _ (foldl_binv G q D _ st h)

theorem burn_binv (q : Fin n) (D : Fin n → Int) : BInv G q D (burn G q D) :=
  burnIter_binv G q D n _ (binv_init G q D)

/-! consequences when everything burns -/

variable {G}

theorem dir_iff (st : BState n) (hall : ∀ v, st.B v = true) (u v : Fin n) :
    st.dir G u v = true ↔ st.pos u < st.pos v ∧ 0 < G.adj u v := by
  simp [BState.dir, hall u, hall v]

/-- in-degree of the burn orientation = edges to earlier-burnt vertices -/
theorem indeg_eq_earlier (hs : ∀ v w, G.adj v w = G.adj w v) (st : BState n) (hall : ∀ v, st.B v = true)
    (v : Fin n) : st.indeg G v = earlier G st v := by
  unfold BState.indeg earlier
  rw [sumZ_eq]
  apply Finset.sum_congr rfl
  intro u _
  by_cases hd : st.dir G u v = true
  · have := (dir_iff st hall u v).mp hd
    simp [hd, hall u, this.1, hs u v]
  · have hd' : st.dir G u v = false := by simpa using hd
    rw [hd']
    by_cases hp : st.pos u < st.pos v
    · have : G.adj u v = 0 := by
        by_contra hne
        exact hd ((dir_iff st hall u v).mpr ⟨hp, Nat.pos_of_ne_zero hne⟩)
      simp [hall u, hp, ← hs u v, this]
    · simp [hall u, hp]

/-- each edge is counted once: twice the sum of the `earlier` counts is the sum of the valences -/
theorem earlier_total (hs : ∀ v w, G.adj v w = G.adj w v) (hl : ∀ v, G.adj v v = 0)
    (st : BState n) (hall : ∀ v, st.B v = true)
    (hinj : ∀ v w, st.pos v = st.pos w → v = w) :
    2 * ∑ v, earlier G st v = ∑ v, ∑ w, (G.adj v w : Int) := by
  have h1 : ∑ v, earlier G st v = ∑ v, ∑ w, (if st.pos w < st.pos v then (G.adj v w : Int) else 0) := by
    apply Finset.sum_congr rfl; intro v _
    unfold earlier
    apply Finset.sum_congr rfl; intro w _
    simp [hall w]
  have h2 : ∑ v, ∑ w, (if st.pos w < st.pos v then (G.adj v w : Int) else 0)
      = ∑ v, ∑ w, (if st.pos v < st.pos w then (G.adj v w : Int) else 0) := by
    rw [Finset.sum_comm]
    apply Finset.sum_congr rfl; intro v _
    apply Finset.sum_congr rfl; intro w _
    rw [hs w v]
  have h3 : ∑ v, ∑ w, (G.adj v w : Int) =
      ∑ v, ∑ w, ((if st.pos w < st.pos v then (G.adj v w : Int) else 0) +
                 (if st.pos v < st.pos w then (G.adj v w : Int) else 0)) := by
    apply Finset.sum_congr rfl; intro v _
    apply Finset.sum_congr rfl; intro w _
    rcases lt_trichotomy (st.pos w) (st.pos v) with h | h | h
    · have : ¬ st.pos v < st.pos w := by omega
      simp [h, this]
    · have : w = v := hinj w v h
      subst this; simp [hl]
    · have : ¬ st.pos w < st.pos v := by omega
      simp [h, this]
  rw [h3]
  simp only [Finset.sum_add_distrib]
  rw [h1, ← h2]; ring

/-- the certificate: full, acyclic, unique source q, strict in-degree bound off q -/
theorem burn_certificate (hG : G.WF) (q : Fin n) (D : Fin n → Int)
    (hall : ∀ v, (burn G q D).B v = true) :
    OFull G ((burn G q D).dir G) ∧ OAcyclic G ((burn G q D).dir G) ∧
    (burn G q D).indeg G q = 0 ∧
    (∀ v, v ≠ q → D v < (burn G q D).indeg G v) ∧
    (∑ v, (burn G q D).indeg G v = (G.total : Int)) := by
  have inv := burn_binv G q D
  set st := burn G q D with hst
  have hinj : ∀ v w, st.pos v = st.pos w → v = w := fun v w h => inv.inj v w (hall v) (hall w) h
  refine ⟨?_, ?_, ?_, ?_, ?_⟩
  · intro u v huv
    have hne : u ≠ v := by rintro rfl; rw [hG.loopless u] at huv; exact absurd huv (by omega)
    have hpos : st.pos u ≠ st.pos v := fun h => hne (hinj u v h)
    have huv' : 0 < G.adj v u := by rw [hG.symm v u]; exact huv
    rcases Nat.lt_or_gt_of_ne hpos with h | h
    · have h1 : st.dir G u v = true := (dir_iff st hall u v).mpr ⟨h, huv⟩
      have h2 : st.dir G v u = false := by
        by_contra hc
        have := (dir_iff st hall v u).mp (by simpa using hc)
        omega
      rw [h1, h2]; rfl
    · have h1 : st.dir G v u = true := (dir_iff st hall v u).mpr ⟨h, huv'⟩
      have h2 : st.dir G u v = false := by
        by_contra hc
        have := (dir_iff st hall u v).mp (by simpa using hc)
        omega
      rw [h1, h2]; rfl
  · exact ⟨st.pos, fun u v hd _ => ((dir_iff st hall u v).mp hd).1⟩
  · rw [indeg_eq_earlier hG.symm st hall q]
    unfold earlier
    apply Finset.sum_eq_zero
    intro w _
    rw [inv.posq]; simp
  · intro v hv
    rw [indeg_eq_earlier hG.symm st hall v]
    exact inv.bound v (hall v) hv
  · have h1 : ∑ v, st.indeg G v = ∑ v, earlier G st v :=
      Finset.sum_congr rfl fun v _ => indeg_eq_earlier hG.symm st hall v
    have h2 := earlier_total hG.symm hG.loopless st hall hinj
    have h3 : ∑ v, ∑ w, (G.adj v w : Int) = 2 * (G.total : Int) := by
      have := hG.total_eq
      have h4 : ∑ v, ∑ w, (G.adj v w : Int) = ((∑ v, G.val v : Nat) : Int) := by
        push_cast
        apply Finset.sum_congr rfl; intro v _
        rw [hG.val_eq v]; push_cast; rfl
      rw [h4, ← this]; push_cast; ring
    rw [h1]; omega

/-- a q-reduced divisor whose burn consumes everything and that is in debt at q has degree ≤ g − 1 -/
theorem deg_le_genus_sub_one (hG : G.WF) (q : Fin n) (D : Fin n → Int)
    (hall : ∀ v, (burn G q D).B v = true) (hq : D q < 0) : deg D ≤ G.genus - 1 := by
  obtain ⟨-, -, h0, hb, htot⟩ := burn_certificate hG q D hall
  have hle : ∀ v, D v ≤ (burn G q D).indeg G v - 1 := by
    intro v
    by_cases hv : v = q
    · subst hv; rw [h0]; omega
    · have := hb v hv; omega
  have : deg D ≤ ∑ v, ((burn G q D).indeg G v - 1) := Finset.sum_le_sum fun v _ => hle v
  rw [Finset.sum_sub_distrib, htot] at this
  simp at this
  unfold Graph.genus
  omega

end CF
