import ChipFiring.Theory.LinEq
import ChipFiring.Model.Comb
import Mathlib.Tactic.Linarith
/-
  Upper bounds on the gonality of a simple connected graph: n − |I| for every independent set I
  (in particular n − 1 and n − α).
-/
open Finset
namespace CF
variable {n : Nat} (G : Graph n)

/-- one chip on every vertex outside an independent set has rank ≥ 1 (simple graph, no isolated
    vertex) -/
theorem independent_complement_wins (hG : G.WF) (hsimple : ∀ u v, G.adj u v ≤ 1)
    (hnbr : ∀ v, ∃ w, 0 < G.adj v w)
    (I : Fin n → Bool) (hI : ∀ u v, I u = true → I v = true → G.adj u v = 0) :
    RankGeOne G (fun v => if I v then 0 else 1) := by
  intro w
  by_cases hw : I w = true
  · refine ⟨_, ⟨fun v => if v = w then 0 else 1, rfl⟩, ?_⟩
    intro x
    simp only [applyScript, chipAt]
    by_cases hx : x = w
    · subst hx
      have h1 : ∑ v, (G.adj x v : Int) * ((if x = x then (0:Int) else 1) - (if v = x then 0 else 1))
          = - ∑ v, (G.adj x v : Int) := by
        rw [← Finset.sum_neg_distrib]
        apply Finset.sum_congr rfl; intro v _
        by_cases hv : v = x
        · subst hv; simp [hG.loopless v]
        · simp [hv]
      rw [h1]
      obtain ⟨u, hu⟩ := hnbr x
      have h2 : (1:Int) ≤ ∑ v, (G.adj x v : Int) := by
        have : (G.adj x u : Int) ≤ ∑ v, (G.adj x v : Int) :=
          Finset.single_le_sum (f := fun v => (G.adj x v : Int)) (fun v _ => by positivity) (mem_univ u)
        have : (1:Int) ≤ (G.adj x u : Int) := by exact_mod_cast hu
        omega
      simp [hw]; omega
    · have h1 : ∑ v, (G.adj x v : Int) * ((if x = w then (0:Int) else 1) - (if v = w then 0 else 1))
          = (G.adj x w : Int) := by
        rw [Finset.sum_eq_single w]
        · simp [hx]
        · intro v _ hv; simp [hx, hv]
        · intro h; exact absurd (mem_univ w) h
      rw [h1]
      simp only [hx, if_false]
      by_cases hxI : I x = true
      · have := hI x w hxI hw
        simp [hxI, this]
      · have := hsimple x w
        have h3 : ((G.adj x w : Nat) : Int) ≤ 1 := by exact_mod_cast this
        simp [hxI]; omega
  · apply Eff.winnable
    intro x
    simp only [chipAt]
    by_cases hx : x = w
    · subst hx; simp [hw]
    · simp only [hx, if_false]; split <;> omega

/-- hence the gonality is at most the number of vertices outside any independent set -/
theorem gonality_le_of_independent (hG : G.WF) (hsimple : ∀ u v, G.adj u v ≤ 1)
    (hnbr : ∀ v, ∃ w, 0 < G.adj v w)
    (I : Fin n → Bool) (hI : ∀ u v, I u = true → I v = true → G.adj u v = 0)
    (k : Nat) (hk : IsGonality G k) :
    (k : Int) ≤ ∑ v, (if I v then (0:Int) else 1) := by
  by_contra hlt
  have hlt' : (∑ v, (if I v then (0:Int) else 1)) < k := by omega
  exact hk.2 (fun v => if I v then 0 else 1) (fun v => by simp only; split <;> omega) hlt'
    (independent_complement_wins G hG hsimple hnbr I hI)

theorem connected_has_neighbour (hc : G.Connected) (hn : 2 ≤ n) (v : Fin n) : ∃ w, 0 < G.adj v w := by
  -- a root different from v
  let q : Fin n := if v.1 = 0 then ⟨1, by omega⟩ else ⟨0, by omega⟩
  have hq : v ≠ q := by
    intro e
    have : v.1 = q.1 := by rw [← e]
    simp only [q] at this
    split at this <;> simp at this <;> omega
  obtain ⟨rk, -, h⟩ := hc q
  obtain ⟨w, hw, -⟩ := h v hq
  exact ⟨w, hw⟩

/-! the list-based independence number of the model -/

theorem subsetsOf_go_sublist (l : List (Fin n)) : ∀ S ∈ subsetsOf.go n l, S.Sublist l := by
  induction l with
  | nil => intro S hS; simp [subsetsOf.go] at hS; subst hS; exact List.Sublist.refl _
  | cons x xs ih =>
    intro S hS
    simp only [subsetsOf.go, List.mem_append, List.mem_map] at hS
    rcases hS with hS | ⟨S', hS', rfl⟩
    · exact List.Sublist.cons _ (ih S hS)
    · exact List.Sublist.cons₂ _ (ih S' hS')

theorem subsetsOf_nodup (S : List (Fin n)) (hS : S ∈ subsetsOf n) : S.Nodup :=
  (subsetsOf_go_sublist _ S hS).nodup (List.nodup_finRange n)

theorem nil_mem_subsetsOf_go (l : List (Fin n)) : [] ∈ subsetsOf.go n l := by
  induction l with
  | nil => simp [subsetsOf.go]
  | cons x xs ih => simp only [subsetsOf.go, List.mem_append]; exact Or.inl ih

theorem foldl_max_attained (l : List (List (Fin n))) (m0 : Nat) :
    l.foldl (fun m S => max m S.length) m0 = m0 ∨ ∃ S ∈ l, l.foldl (fun m S => max m S.length) m0 = S.length := by
  induction l generalizing m0 with
  | nil => left; rfl
  | cons a l ih =>
    rw [List.foldl_cons]
    rcases ih (max m0 a.length) with h | ⟨S, hS, h⟩
    · rcases max_choice m0 a.length with hm | hm
      · left; rw [h, hm]
      · right; exact ⟨a, List.mem_cons_self, by rw [h, hm]⟩
    · right; exact ⟨S, List.mem_cons_of_mem _ hS, h⟩

/-- the independence number is attained by an independent duplicate-free vertex list -/
theorem independenceNumber_attained : ∃ S : List (Fin n), S.Nodup ∧ isIndependent G S = true ∧
    S.length = independenceNumber G := by
  unfold independenceNumber
  rcases foldl_max_attained ((subsetsOf n).filter (isIndependent G)) 0 with h | ⟨S, hS, h⟩
  · exact ⟨[], List.nodup_nil, by simp [isIndependent], by rw [h]; rfl⟩
  · obtain ⟨h1, h2⟩ := List.mem_filter.mp hS
    exact ⟨S, subsetsOf_nodup S h1, h2, h.symm⟩

theorem sum_not_mem (S : List (Fin n)) (hnd : S.Nodup) :
    ∑ v : Fin n, (if decide (v ∈ S) then (0:Int) else 1) = (n : Int) - S.length := by
  have h : ∀ v : Fin n, (if decide (v ∈ S) = true then (0:Int) else 1) = 1 - (if v ∈ S then 1 else 0) := by
    intro v; by_cases hv : v ∈ S <;> simp [hv]
  simp only [h, Finset.sum_sub_distrib]
  have : ∑ v : Fin n, (if v ∈ S then (1:Int) else 0) = S.length := by
    rw [Finset.sum_boole]
    have : (univ.filter fun v : Fin n => v ∈ S) = S.toFinset := by ext v; simp
    rw [this, List.toFinset_card_of_nodup hnd]
  rw [this]; simp

/-- both upper entries of the bounds report, and their minimum, bound the gonality of a simple
    connected graph from above -/
theorem bounds_upper_valid (hG : G.WF) (hc : G.Connected) (hn : 2 ≤ n) (hsimple : ∀ u v, G.adj u v ≤ 1)
    (k : Nat) (hk : IsGonality G k) :
    (k : Int) ≤ (boundsReport G).trivialUpper ∧ (k : Int) ≤ (boundsReport G).independenceUpper ∧
    (k : Int) ≤ (boundsReport G).upper := by
  have hnbr := connected_has_neighbour G hc hn
  have h2 : (k : Int) ≤ (n : Int) - independenceNumber G := by
    obtain ⟨S, hnd, hind, hlen⟩ := independenceNumber_attained G
    have hI : ∀ u v, decide (u ∈ S) = true → decide (v ∈ S) = true → G.adj u v = 0 := by
      intro u v hu hv
      unfold isIndependent at hind
      rw [List.all_eq_true] at hind
      have := hind u (by simpa using hu)
      rw [List.all_eq_true] at this
      simpa using this v (by simpa using hv)
    have := gonality_le_of_independent G hG hsimple hnbr (fun v => decide (v ∈ S)) hI k hk
    rw [sum_not_mem S hnd, hlen] at this
    exact this
  have h1 : (k : Int) ≤ (n : Int) - 1 := by
    let v0 : Fin n := ⟨0, by omega⟩
    have hI : ∀ u v, decide (u ∈ [v0]) = true → decide (v ∈ [v0]) = true → G.adj u v = 0 := by
      intro u v hu hv
      have hu' : u = v0 := by simpa using hu
      have hv' : v = v0 := by simpa using hv
      rw [hu', hv']; exact hG.loopless v0
    have := gonality_le_of_independent G hG hsimple hnbr (fun v => decide (v ∈ [v0])) hI k hk
    rw [sum_not_mem [v0] (by simp)] at this
    simpa using this
  refine ⟨h1, h2, ?_⟩
  simp only [boundsReport]
  exact le_min h1 h2

end CF
