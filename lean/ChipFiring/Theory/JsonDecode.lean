import ChipFiring.Model.JsonDecode
import ChipFiring.Theory.JsonText
/-
  CPython's string scanner applied to the text the encoder writes for a string returns the string:
  vertex names of any content survive the JSON text (the "JSON accepts any string" clause of C15 at
  the level of one string).
-/
namespace CF.JsonText

theorem hexVal_hexDigit : ∀ k, k < 16 → hexVal (hexDigit k) = some k := by decide

theorem hex4Val_hex4 (n : Nat) (hn : n < 65536) (rest : Str) : hex4Val (hex4 n ++ rest) = some (n, rest) := by
  have h1 := hexVal_hexDigit (n / 4096 % 16) (Nat.mod_lt _ (by decide))
  have h2 := hexVal_hexDigit (n / 256 % 16) (Nat.mod_lt _ (by decide))
  have h3 := hexVal_hexDigit (n / 16 % 16) (Nat.mod_lt _ (by decide))
  have h4 := hexVal_hexDigit (n % 16) (Nat.mod_lt _ (by decide))
  simp only [hex4, List.cons_append, List.nil_append, hex4Val, h1, h2, h3, h4]
  congr 2
  omega

theorem char_ofNat_toNat (c : Char) : Char.ofNat c.toNat = c := Char.ofNat_toNat c

theorem char_range (c : Char) : c.toNat < 0xD800 ∨ (0xDFFF < c.toNat ∧ c.toNat < 0x110000) := by
  have := c.valid
  simp only [UInt32.isValidChar, Nat.isValidChar] at this
  exact this

/-- one character: scanning its escape unit yields the character and continues with the rest -/
theorem scanStr_unit (f : Nat) (c : Char) (rest : Str) (r : Str × Str) (h : scanStr f rest = some r) :
    scanStr (f + 1) (escChar c ++ rest) = some (c :: r.1, r.2) := by
  unfold escChar
  split
  · rename_i hc; subst hc; simp [scanStr, shortEsc, h]
  split
  · rename_i hc; subst hc; simp [scanStr, shortEsc, h]
  split
  · rename_i hc; subst hc; simp [scanStr, shortEsc, h]
  split
  · rename_i hc; subst hc; simp [scanStr, shortEsc, h]
  split
  · rename_i hc; subst hc; simp [scanStr, shortEsc, h]
  split
  · rename_i hc; subst hc; simp [scanStr, shortEsc, h]
  split
  · rename_i hc; subst hc; simp [scanStr, shortEsc, h]
  rename_i h1 h2 _ _ _ _ _
  simp only
  split
  · rename_i hp
    have : ¬ c.toNat < 32 := by omega
    simp [scanStr, h1, h2, this, h]
  split
  · rename_i hnp hlt
    have hr := char_range c
    have hns : ¬ (0xD800 ≤ c.toNat ∧ c.toNat ≤ 0xDBFF) := by omega
    simp only [uEsc, List.cons_append, scanStr]
    simp only [show ('\\' : Char) ≠ '"' by decide, if_false, if_true, ↓reduceIte, hex4Val_hex4 c.toNat hlt rest, hns, h,
      Option.map_some, char_ofNat_toNat]
  · rename_i hnp hge
    have hr := char_range c
    have hm : c.toNat - 65536 < 1048576 := by omega
    set m := c.toNat - 65536 with hmdef
    have hhi : 55296 + m / 1024 % 1024 < 65536 := by omega
    have hlo : 56320 + m % 1024 < 65536 := by omega
    have hhis : 0xD800 ≤ 55296 + m / 1024 % 1024 ∧ 55296 + m / 1024 % 1024 ≤ 0xDBFF := by omega
    have hlos : 0xDC00 ≤ 56320 + m % 1024 ∧ 56320 + m % 1024 ≤ 0xDFFF := by omega
    have hval : 0x10000 + (55296 + m / 1024 % 1024 - 0xD800) * 1024 + (56320 + m % 1024 - 0xDC00) = c.toNat := by omega
    simp only [uEsc, List.cons_append, List.append_assoc, scanStr]
    simp only [show ('\\' : Char) ≠ '"' by decide, if_false, if_true, ↓reduceIte, hex4Val_hex4 _ hhi, hhis, and_self, List.cons_append,
      hex4Val_hex4 _ hlo, hlos, h, Option.map_some, hval, char_ofNat_toNat]

theorem scanStr_body (s : Str) (k : Nat) (rest : Str) :
    scanStr (s.length + 1 + k) (s.flatMap escChar ++ '"' :: rest) = some (s, rest) := by
  induction s with
  | nil =>
    rw [show ([] : Str).length + 1 + k = k + 1 by simp; omega]
    simp [scanStr]
  | cons c cs ih =>
    have : (c :: cs).length + 1 + k = (cs.length + 1 + k) + 1 := by simp; omega
    rw [this, List.flatMap_cons, List.append_assoc]
    exact scanStr_unit _ c _ (cs, rest) ih

theorem length_flatMap_escChar (s : Str) : s.length ≤ (s.flatMap escChar).length := by
  induction s with
  | nil => simp
  | cons c cs ih =>
    have : 1 ≤ (escChar c).length := by
      unfold escChar
      simp only
      split_ifs <;> simp [uEsc, hex4]
    simp only [List.flatMap_cons, List.length_append, List.length_cons]
    omega

/-- **strings survive the JSON text**: decoding the quoted, escaped text of any string gives the
    string back -/
theorem decodeStr_quote (s : Str) : decodeStr (quote s) = some s := by
  unfold decodeStr quote
  simp only [List.cons_append, if_true]
  have hlen := length_flatMap_escChar s
  obtain ⟨k, hk⟩ : ∃ k, (s.flatMap escChar ++ ['"']).length + 1 = s.length + 1 + k := by
    refine ⟨(s.flatMap escChar).length + 1 - s.length, ?_⟩
    simp only [List.length_append, List.length_cons, List.length_nil]
    omega
  rw [hk, scanStr_body s k []]

end CF.JsonText
