import ChipFiring.Theory.Bfs
import ChipFiring.Theory.RankTheory
/-
  The standing hypotheses follow from: well-formed (what every constructed graph is), connected,
  non-empty.
-/
namespace CF
variable {n : Nat}

theorem good_of_connected (G : Graph n) (hG : G.WF) (hc : G.Connected) (hn : 0 < n) : Good G :=
  ⟨hG, hc, hn, fun q v hv => debtOrder_cover G hG.symm hc (fun _ => []) q v hv⟩

theorem cover_of_connected (G : Graph n) (hG : G.WF) (hc : G.Connected) (hint : Fin n → List (Fin n)) :
    ∀ q v, v ≠ q → v ∈ debtOrder G hint q := fun q v hv => debtOrder_cover G hG.symm hc hint q v hv

end CF
