import ChipFiring.Theory.MatrixTree
import ChipFiring.Theory.Complete
import Mathlib.LinearAlgebra.Matrix.SchurComplement
import Mathlib.Data.Rat.Cast.Defs
open Finset Matrix
namespace CF
variable {n : Nat} (G : Graph n) (q : Fin n)

theorem card_off : Fintype.card (Off q) = n - 1 := by
  rw [Fintype.card_subtype_compl, Fintype.card_fin]; simp

/-- the reduced Laplacian of the complete graph: `n` on ... i.e. n·1 − J -/
theorem redLap_complete (hK : IsComplete G) :
    redLap G q = (n : Int) • (1 : Matrix (Off q) (Off q) Int) - Matrix.of fun _ _ => (1 : Int) := by
  have hK' : ∀ u v, G.adj u v = if u = v then 0 else 1 := hK
  ext v w
  simp only [redLap, Matrix.sub_apply, Matrix.smul_apply, Matrix.one_apply, Matrix.of_apply, smul_eq_mul]
  by_cases h : v = w
  · subst h
    simp only [if_true, mul_one]
    have : ∑ u, ((G.adj v.1 u : Nat) : Int) = (n : Int) - 1 := by
      simp only [hK']
      have h2 : ∀ u : Fin n, (((if v.1 = u then 0 else 1 : Nat)) : Int) = 1 - (if u = v.1 then 1 else 0) := by
        intro u; by_cases hu : u = v.1
        · simp [hu]
        · have : ¬ v.1 = u := fun e => hu e.symm
          simp [hu, this]
      simp only [h2, Finset.sum_sub_distrib, Finset.sum_ite_eq', mem_univ, if_true]
      simp
    rw [this]
  · have hne : ¬ v.1 = w.1 := fun e => h (Subtype.ext e)
    simp [h, hK', hne]

/-- Cayley's count, determinant form: det (n·1 − J) of size n − 1 is n^(n−2) -/
theorem det_complete (hK : IsComplete G) (hn : 2 ≤ n) : (redLap G q).det = (n : Int) ^ (n - 2) := by
  rw [redLap_complete G q hK]
  have hinj : Function.Injective (Int.cast : Int → ℚ) := Int.cast_injective
  apply hinj
  rw [Int.cast_det]
  have hn0 : (n : ℚ) ≠ 0 := by positivity
  -- over ℚ: n·1 − J = n • (1 + col(−1/n) · row 1)
  have hmat : ((n : Int) • (1 : Matrix (Off q) (Off q) Int) - Matrix.of fun _ _ => (1 : Int)).map (Int.cast : Int → ℚ)
      = (n : ℚ) • (1 + replicateCol Unit (fun _ : Off q => (-1 / (n : ℚ))) * replicateRow Unit (fun _ : Off q => (1 : ℚ))) := by
    ext v w
    simp only [Matrix.map_apply, Matrix.sub_apply, Matrix.smul_apply, Matrix.one_apply, Matrix.of_apply,
      Matrix.add_apply, Matrix.mul_apply, replicateCol_apply, replicateRow_apply, Finset.univ_unique,
      Finset.sum_singleton, smul_eq_mul]
    by_cases h : v = w
    · simp [h]; field_simp; ring
    · simp [h]; field_simp
  rw [hmat, Matrix.det_smul, det_one_add_replicateCol_mul_replicateRow, card_off]
  simp only [dotProduct, Finset.sum_const, Finset.card_univ, card_off, nsmul_eq_mul, mul_one]
  push_cast
  have h1 : ((n - 1 : Nat) : ℚ) = (n : ℚ) - 1 := by rw [Nat.cast_sub (by omega)]; simp
  have h2 : n - 1 = (n - 2) + 1 := by omega
  rw [h1, h2, pow_succ]
  field_simp
  ring

end CF
