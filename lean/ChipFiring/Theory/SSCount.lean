import ChipFiring.Theory.MatrixTree
import ChipFiring.Theory.DetRows
import ChipFiring.Theory.Box
import ChipFiring.Properties.C10Base
open Finset
namespace CF
variable {n : Nat} (G : Graph n) (q : Fin n)

theorem mem_vtilde' (v : Fin n) : v ∈ vtilde q ↔ v ≠ q := by simp [vtilde]
theorem vtilde_nodup' : (vtilde q).Nodup := (List.nodup_finRange n).filter _

/-- the vertices other than q, in the order the code lists them -/
noncomputable def offEquiv : Fin (vtilde q).length ≃ Off q :=
  Equiv.ofBijective (fun i => ⟨(vtilde q)[i.1], (mem_vtilde' q _).mp (List.getElem_mem _)⟩) (by
    constructor
    · intro i j h
      have h' : (vtilde q)[i.1] = (vtilde q)[j.1] := congrArg Subtype.val h
      exact Fin.ext ((vtilde_nodup' q).getElem_inj_iff.mp h')
    · intro v
      obtain ⟨i, hi, hv⟩ := List.getElem_of_mem ((mem_vtilde' q v.1).mpr v.2)
      exact ⟨⟨i, hi⟩, Subtype.ext hv⟩)

theorem lapEntry_eq_redLap (hG : G.WF) (v w : Off q) : lapEntry G v.1 w.1 = redLap G q v w := by
  unfold lapEntry redLap
  by_cases h : v = w
  · subst h; simp [hG.val_eq v.1]
  · have : ¬ v.1 = w.1 := fun e => h (Subtype.ext e)
    simp [h, this]

/-- the rows handed to `detRows` are the reduced Laplacian -/
theorem redRows_eq (hG : G.WF) :
    ((vtilde q).map fun v => (vtilde q).map fun w => lapEntry G v w)
      = List.ofFn fun i => List.ofFn fun j => ((redLap G q).submatrix (offEquiv q) (offEquiv q)) i j := by
  have hmap : ∀ {β : Type} (f : Fin n → β), (vtilde q).map f = List.ofFn fun i : Fin (vtilde q).length => f (vtilde q)[i.1] := by
    intro β f
    conv_lhs => rw [← List.ofFn_getElem (xs := vtilde q)]
    rw [List.map_ofFn]; rfl
  rw [hmap]
  congr 1; funext i
  rw [hmap]
  congr 1; funext j
  exact lapEntry_eq_redLap G q hG (offEquiv q i) (offEquiv q j)

theorem detRows_red (hG : G.WF) :
    detRows (n + 1) ((vtilde q).map fun v => (vtilde q).map fun w => lapEntry G v w) = (redLap G q).det := by
  rw [redRows_eq G q hG, detRows_eq_det _ _ _ ?_, Matrix.det_submatrix_equiv_self]
  have : (vtilde q).length ≤ (List.finRange n).length := List.length_filter_le _ _
  simp at this; omega

theorem outdeg_single (hG : G.WF) (v : Fin n) :
    outdeg G (fun w => decide (w = v)) v = (G.rowSum v : Int) := by
  unfold outdeg Graph.rowSum
  rw [sumN_eq]; push_cast
  apply Finset.sum_congr rfl; intro w _
  by_cases h : w = v
  · subst h; simp [hG.loopless w]
  · simp [h]

/-- a superstable configuration holds fewer chips at v than v has edges -/
theorem qreduced_lt_rowSum (hG : G.WF) (D : Fin n → Int) (h : QReduced G q D) (v : Fin n) (hv : v ≠ q) :
    D v < (G.rowSum v : Int) := by
  by_contra hge
  apply h.2 (fun w => decide (w = v))
  refine ⟨⟨v, by simp⟩, by simp [hv.symm], ?_⟩
  intro u hu
  have : u = v := by simpa using hu
  subst this
  rw [outdeg_single G hG u]; omega

/-- **number of superstables = |det| of the reduced Laplacian**, for the two quantities exactly as
    the library computes them (enumeration of the box Π_v [0, val v) filtered by `is_superstable`;
    Laplace expansion of the reduced matrix) -/
theorem superstable_count_eq_det (hG : G.WF) (hc : G.Connected) (hn : 0 < n) :
    ((boxConfigs (vtilde q) (fun v => G.rowSum v)).filter fun c => isSuperstable G q c).length
      = (detRows (n + 1) ((vtilde q).map fun v => (vtilde q).map fun w => lapEntry G v w)).natAbs := by
  classical
  rw [detRows_red G q hG, ← card_superstable_eq_det G q hG hc hn]
  set L := (boxConfigs (vtilde q) (fun v => G.rowSum v)).filter fun c => isSuperstable G q c with hL
  have hLnd : L.Nodup := (boxConfigs_nodup _ _ (vtilde_nodup' q)).filter _
  have hmemL : ∀ D, D ∈ L ↔ QReduced G q D ∧ D q = 0 := by
    intro D
    rw [hL, List.mem_filter, C10.superstable_iff, mem_boxConfigs _ _ (vtilde_nodup' q)]
    constructor
    · rintro ⟨⟨-, h0⟩, hq⟩
      exact ⟨hq, h0 q (by simp [vtilde])⟩
    · rintro ⟨hq, h0⟩
      refine ⟨⟨fun v hv => ?_, fun w hw => ?_⟩, hq⟩
      · have hvq := (mem_vtilde' q v).mp hv
        exact ⟨hq.1 v hvq, qreduced_lt_rowSum G q hG D hq v hvq⟩
      · have : w = q := by by_contra h; exact hw ((mem_vtilde' q w).mpr h)
        rw [this]; exact h0
  have h1 : Nat.card {D // D ∈ L} = L.length := by
    rw [Nat.card_congr (hLnd.getEquiv L).symm]; simp
  rw [← h1]
  apply Nat.card_congr
  refine Equiv.ofBijective (fun D => ⟨res q D.1, ?_⟩) ⟨?_, ?_⟩
  · have h := (hmemL D.1).mp D.2
    show QReduced G q (ext q (res q D.1) 0)
    have : ext q (res q D.1) 0 = D.1 := by have := ext_res q D.1; rw [h.2] at this; exact this
    rw [this]; exact h.1
  · rintro ⟨D1, h1⟩ ⟨D2, h2⟩ he
    have he' : res q D1 = res q D2 := congrArg Subtype.val he
    apply Subtype.ext
    have e1 := ext_res q D1
    have e2 := ext_res q D2
    rw [((hmemL D1).mp h1).2] at e1
    rw [((hmemL D2).mp h2).2] at e2
    show D1 = D2
    rw [← e1, ← e2, he']
  · rintro ⟨c, hc'⟩
    refine ⟨⟨ext q c 0, (hmemL _).mpr ⟨hc', ext_q q c 0⟩⟩, ?_⟩
    apply Subtype.ext
    exact res_ext q c 0

end CF
