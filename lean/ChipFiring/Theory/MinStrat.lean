import ChipFiring.Theory.RankTheory
import ChipFiring.Theory.Enum
/-
  The per-sink search `find_minimal_winning_strategies` / `enhanced_dhar_gonality_test`
  (CFGonalityDhar.py): invariant of the double loop and the exactness theorem.
  `anySmallerWins`, `msStep` name the two inner loops of the model's `minimalStrategies`
  (definitionally: `minimalStrategies_eq`).
-/
open Finset
namespace CF
variable {n : Nat}

def smStep (G : Graph n) (fuel : Nat) (q : Fin n) (base : Fin n → Int) (a : Option Bool) (t : List (Fin n)) : Option Bool :=
  match a with
  | none => none
  | some true => some true
  | some false => if t.isEmpty then some false else dharTestStrategy G fuel q base t

def anySmallerWins (G : Graph n) (fuel : Nat) (q : Fin n) (base : Fin n → Int) (s : List (Fin n)) : Option Bool :=
  ((List.range s.length).map fun j => s.eraseIdx j).foldl (smStep G fuel q base) (some false)

def msStep (G : Graph n) (fuel : Nat) (q : Fin n) (base : Fin n → Int)
    (acc : Option (List (List (Fin n)))) (s : List (Fin n)) : Option (List (List (Fin n))) :=
  match acc with
  | none => none
  | some found =>
    if found.any (fun m => isSubMultiset m s) then some found else
    match dharTestStrategy G fuel q base s with
    | none => none
    | some false => some found
    | some true =>
      match anySmallerWins G fuel q base s with
      | none => none
      | some true => some found
      | some false => some (found ++ [s])

def minimalStrategies' (G : Graph n) (fuel : Nat) (q : Fin n) (base : Fin n → Int) (vt : List (Fin n)) (maxChips : Nat) :
    Option (List (List (Fin n))) :=
  (List.range maxChips).foldl (fun acc i => (cwr vt (i + 1)).foldl (msStep G fuel q base) acc) (some [])

theorem minimalStrategies_eq (G : Graph n) (fuel : Nat) (q : Fin n) (base : Fin n → Int) (vt : List (Fin n)) (maxChips : Nat) :
   minimalStrategies G fuel q base vt maxChips = minimalStrategies' G fuel q base vt maxChips := rfl

variable (G : Graph n) (q : Fin n) (base : Fin n → Int)

/-- the strategy `s` (a multiset of vertices) survives a chip removed at q -/
def Wins (s : List (Fin n)) : Prop := Winnable G (fun w => base w + countVec s w - chipAt q w)

/-- wins, and no non-empty placement obtained by removing one chip still wins -/
def MinWin (s : List (Fin n)) : Prop :=
  Wins G q base s ∧ ∀ j, j < s.length → s.eraseIdx j ≠ [] → ¬ Wins G q base (s.eraseIdx j)

theorem isSubMultiset_iff (a b : List (Fin n)) : isSubMultiset a b = true ↔ ∀ v, a.count v ≤ b.count v := by
  unfold isSubMultiset; simp [List.all_eq_true]

theorem wins_mono {a b : List (Fin n)} (hab : ∀ v, a.count v ≤ b.count v) (h : Wins G q base a) : Wins G q base b := by
  unfold Wins at *
  have hF : Eff (fun w => countVec b w - countVec a w) := by
    intro w; simp only [countVec]; have := hab w; omega
  have := Winnable.add_eff G h hF
  have heq : (fun v => base v + countVec a v - chipAt q v + (countVec b v - countVec a v))
      = fun w => base w + countVec b w - chipAt q w := by funext v; ring
  rw [heq] at this; exact this

theorem wins_congr {a b : List (Fin n)} (hab : ∀ v, a.count v = b.count v) : Wins G q base a ↔ Wins G q base b :=
  ⟨wins_mono G q base (fun v => le_of_eq (hab v)), wins_mono G q base (fun v => le_of_eq (hab v).symm)⟩

theorem count_eraseIdx (s : List (Fin n)) (j : Nat) (hj : j < s.length) (w : Fin n) :
    (s.eraseIdx j).count w = s.count w - (if s[j] = w then 1 else 0) := by
  induction s generalizing j with
  | nil => simp at hj
  | cons a s ih =>
    cases j with
    | zero =>
      simp only [List.eraseIdx_cons_zero, List.getElem_cons_zero, List.count_cons]
      by_cases h : a = w <;> simp [h]
    | succ j =>
      simp only [List.eraseIdx_cons_succ, List.getElem_cons_succ, List.count_cons]
      rw [ih j (by simpa using hj)]
      have hpos : (if s[j]'(by simpa using hj) = w then 1 else 0) ≤ s.count w := by
        split
        · rename_i h; rw [← h]; exact List.count_pos_iff.mpr (List.getElem_mem _)
        · omega
      by_cases h : a = w <;> simp [h] <;> omega

/-- a strictly smaller sub-multiset sits inside some single removal -/
theorem sub_of_strict {m s : List (Fin n)} (hms : ∀ v, m.count v ≤ s.count v) (v : Fin n) (hv : m.count v < s.count v) :
    ∃ j, ∃ hj : j < s.length, ∀ w, m.count w ≤ (s.eraseIdx j).count w := by
  have hmem : v ∈ s := List.count_pos_iff.mp (by omega)
  obtain ⟨j, hj, hjv⟩ := List.getElem_of_mem hmem
  refine ⟨j, hj, fun w => ?_⟩
  rw [count_eraseIdx s j hj w]
  by_cases hw : s[j] = w
  · rw [hjv] at hw; subst hw; simp [hjv]; omega
  · simp [hw]; exact hms w

theorem length_eq_of_count_eq {a b : List (Fin n)} (h : ∀ v, a.count v = b.count v) : a.length = b.length := by
  have ha := sum_countVec a
  have hb := sum_countVec b
  have : ∑ v, countVec a v = ∑ v, countVec b v := Finset.sum_congr rfl fun v _ => by simp [countVec, h v]
  rw [ha, hb] at this; exact_mod_cast this

variable (fuel : Nat)

theorem foldl_none {α : Type} (f : Option Bool → α → Option Bool) (hf : ∀ t, f none t = none) (l : List α) :
    l.foldl f none = none := by
  induction l with
  | nil => rfl
  | cons t l ih => simp [List.foldl_cons, hf, ih]

theorem anySmaller_fold (hg : Good G) (l : List (List (Fin n))) (a0 b : Bool)
    (h : l.foldl (smStep G fuel q base) (some a0) = some b) :
    b = true ↔ a0 = true ∨ ∃ t ∈ l, t ≠ [] ∧ Wins G q base t := by
  induction l generalizing a0 with
  | nil => simp at h; subst h; simp
  | cons t l ih =>
    rw [List.foldl_cons] at h
    cases a0 with
    | true =>
      simp only [smStep] at h
      have := ih true h
      simp at this ⊢; exact this
    | false =>
      simp only [smStep] at h
      by_cases ht : t.isEmpty = true
      · simp only [ht, if_true] at h
        have := ih false h
        rw [this]
        have ht' : t = [] := List.isEmpty_iff.mp ht
        constructor
        · rintro (h1 | ⟨u, hu, hne, hw⟩)
          · exact absurd h1 (by simp)
          · exact Or.inr ⟨u, List.mem_cons_of_mem _ hu, hne, hw⟩
        · rintro (h1 | ⟨u, hu, hne, hw⟩)
          · exact absurd h1 (by simp)
          · rcases List.mem_cons.mp hu with rfl | hu
            · exact absurd ht' hne
            · exact Or.inr ⟨u, hu, hne, hw⟩
      · rw [if_neg ht] at h
        cases hd : dharTestStrategy G fuel q base t with
        | none =>
          rw [hd] at h
          rw [foldl_none (smStep G fuel q base) (fun _ => rfl)] at h
          exact absurd h (by simp)
        | some b' =>
          rw [hd] at h
          have hb' : b' = true ↔ Wins G q base t := by
            have := winnableOpt_exact G hg fuel _ b' hd
            simpa [Wins, chipAt] using this
          have hne : t ≠ [] := fun e => ht (by simp [e])
          have := ih b' h
          rw [this]
          constructor
          · rintro (h1 | ⟨u, hu, hne', hw⟩)
            · exact Or.inr ⟨t, List.mem_cons_self, hne, hb'.mp h1⟩
            · exact Or.inr ⟨u, List.mem_cons_of_mem _ hu, hne', hw⟩
          · rintro (h1 | ⟨u, hu, hne', hw⟩)
            · exact absurd h1 (by simp)
            · rcases List.mem_cons.mp hu with rfl | hu
              · exact Or.inl (hb'.mpr hw)
              · exact Or.inr ⟨u, hu, hne', hw⟩

theorem anySmallerWins_spec (hg : Good G) (s : List (Fin n)) (b : Bool)
    (h : anySmallerWins G fuel q base s = some b) :
    b = true ↔ ∃ j, j < s.length ∧ s.eraseIdx j ≠ [] ∧ Wins G q base (s.eraseIdx j) := by
  unfold anySmallerWins at h
  rw [anySmaller_fold G q base fuel hg _ false b h]
  simp only [Bool.false_eq_true, false_or, List.mem_map, List.mem_range]
  constructor
  · rintro ⟨t, ⟨j, hj, rfl⟩, hne, hw⟩; exact ⟨j, hj, hne, hw⟩
  · rintro ⟨j, hj, hne, hw⟩; exact ⟨_, ⟨j, hj, rfl⟩, hne, hw⟩

/-- invariant of the search: everything found is a processed, non-empty, minimal winner; every
    processed non-empty minimal winner is represented (up to the order of its chips) -/
def MSInv (found P : List (List (Fin n))) : Prop :=
  (∀ t ∈ found, t ∈ P ∧ t ≠ [] ∧ MinWin G q base t) ∧
  (∀ s ∈ P, s ≠ [] → MinWin G q base s → ∃ t ∈ found, ∀ v, t.count v = s.count v)

theorem msStep_spec (hg : Good G) (found P : List (List (Fin n))) (s : List (Fin n)) (hs : s ≠ [])
    (hinv : MSInv G q base found P) (found' : List (List (Fin n)))
    (h : msStep G fuel q base (some found) s = some found') : MSInv G q base found' (P ++ [s]) := by
  obtain ⟨h1, h2⟩ := hinv
  have keep : (¬ MinWin G q base s ∨ ∃ t ∈ found, ∀ v, t.count v = s.count v) → MSInv G q base found (P ++ [s]) := by
    intro hcase
    refine ⟨fun t ht => ⟨List.mem_append_left _ (h1 t ht).1, (h1 t ht).2⟩, ?_⟩
    intro s' hs' hne hmw
    rcases List.mem_append.mp hs' with hs' | hs'
    · exact h2 s' hs' hne hmw
    · have : s' = s := by simpa using hs'
      subst this
      rcases hcase with hc | hc
      · exact absurd hmw hc
      · exact hc
  unfold msStep at h
  simp only at h
  by_cases hany : found.any (fun m => isSubMultiset m s) = true
  · simp only [hany, if_true] at h
    injection h with h; subst h
    apply keep
    obtain ⟨m, hm, hsub⟩ := List.any_eq_true.mp hany
    rw [isSubMultiset_iff] at hsub
    by_cases heq : ∀ v, m.count v = s.count v
    · exact Or.inr ⟨m, hm, heq⟩
    · left
      push Not at heq
      obtain ⟨v, hv⟩ := heq
      have hlt : m.count v < s.count v := lt_of_le_of_ne (hsub v) hv
      obtain ⟨j, hj, hle⟩ := sub_of_strict hsub v hlt
      obtain ⟨-, hmne, hmw⟩ := h1 m hm
      intro hmin
      have hw : Wins G q base (s.eraseIdx j) := wins_mono G q base hle hmw.1
      have hne : s.eraseIdx j ≠ [] := by
        intro he
        have hm0 : ∀ w, m.count w = 0 := fun w => by have := hle w; rw [he] at this; simpa using this
        apply hmne
        apply List.eq_nil_iff_forall_not_mem.mpr
        intro w hw'
        have := List.count_pos_iff.mpr hw'
        rw [hm0 w] at this; omega
      exact hmin.2 j hj hne hw
  · simp only [hany] at h
    cases hd : dharTestStrategy G fuel q base s with
    | none => rw [hd] at h; simp at h
    | some b =>
      have hb : b = true ↔ Wins G q base s := by
        have := winnableOpt_exact G hg fuel _ b hd
        simpa [Wins, chipAt] using this
      rw [hd] at h
      cases b with
      | false =>
        simp only [Bool.false_eq_true, if_false] at h
        injection h with h; subst h
        exact keep (Or.inl fun hm => by have := hb.mpr hm.1; simp at this)
      | true =>
        simp only [Bool.false_eq_true, if_false] at h
        cases ha : anySmallerWins G fuel q base s with
        | none => rw [ha] at h; simp at h
        | some b2 =>
          have hb2 := anySmallerWins_spec G q base fuel hg s b2 ha
          rw [ha] at h
          cases b2 with
          | true =>
            simp only at h
            injection h with h; subst h
            apply keep; left
            intro hm
            obtain ⟨j, hj, hne, hw⟩ := hb2.mp rfl
            exact hm.2 j hj hne hw
          | false =>
            simp only at h
            injection h with h; subst h
            have hmw : MinWin G q base s := by
              refine ⟨hb.mp rfl, fun j hj hne hw => ?_⟩
              have := hb2.mpr ⟨j, hj, hne, hw⟩
              simp at this
            refine ⟨?_, ?_⟩
            · intro t ht
              rcases List.mem_append.mp ht with ht | ht
              · exact ⟨List.mem_append_left _ (h1 t ht).1, (h1 t ht).2⟩
              · have : t = s := by simpa using ht
                subst this
                exact ⟨by simp, hs, hmw⟩
            · intro s' hs' hne hm'
              rcases List.mem_append.mp hs' with hs' | hs'
              · obtain ⟨t, ht, hc⟩ := h2 s' hs' hne hm'
                exact ⟨t, List.mem_append_left _ ht, hc⟩
              · have : s' = s := by simpa using hs'
                subst this
                exact ⟨s', by simp, fun _ => rfl⟩

theorem msStep_none (s : List (Fin n)) : msStep G fuel q base none s = none := rfl

theorem msFold_none (l : List (List (Fin n))) : l.foldl (msStep G fuel q base) none = none := by
  induction l with
  | nil => rfl
  | cons t l ih => simp [List.foldl_cons, msStep_none, ih]

theorem msFold_spec (hg : Good G) (l : List (List (Fin n))) (hl : ∀ s ∈ l, s ≠ []) (found P : List (List (Fin n)))
    (hinv : MSInv G q base found P) (found' : List (List (Fin n)))
    (h : l.foldl (msStep G fuel q base) (some found) = some found') : MSInv G q base found' (P ++ l) := by
  induction l generalizing found P with
  | nil => simp at h; subst h; simpa using hinv
  | cons s l ih =>
    rw [List.foldl_cons] at h
    cases hs : msStep G fuel q base (some found) s with
    | none => rw [hs, msFold_none] at h; exact absurd h (by simp)
    | some f1 =>
      rw [hs] at h
      have := ih (fun t ht => hl t (List.mem_cons_of_mem _ ht)) f1 (P ++ [s])
        (msStep_spec G q base fuel hg found P s (hl s List.mem_cons_self) hinv f1 hs) h
      simpa using this

/-- everything processed up to (not including) round I -/
def processed (vt : List (Fin n)) (I : Nat) : List (List (Fin n)) :=
  (List.range I).flatMap fun i => cwr vt (i + 1)

theorem outer_none (vt : List (Fin n)) (l : List Nat) :
    l.foldl (fun acc i => (cwr vt (i + 1)).foldl (msStep G fuel q base) acc) none = none := by
  induction l with
  | nil => rfl
  | cons i l ih => simp [List.foldl_cons, msFold_none, ih]

theorem outer_spec (hg : Good G) (vt : List (Fin n)) (I : Nat) (found : List (List (Fin n)))
    (h : (List.range I).foldl (fun acc i => (cwr vt (i + 1)).foldl (msStep G fuel q base) acc) (some []) = some found) :
    MSInv G q base found (processed vt I) := by
  induction I generalizing found with
  | zero =>
    simp at h; subst h
    exact ⟨fun t ht => absurd ht (by simp), fun s hs => absurd hs (by simp [processed])⟩
  | succ I ih =>
    rw [List.range_succ, List.foldl_append] at h
    simp only [List.foldl_cons, List.foldl_nil] at h
    cases hprev : (List.range I).foldl (fun acc i => (cwr vt (i + 1)).foldl (msStep G fuel q base) acc) (some []) with
    | none => rw [hprev, msFold_none] at h; exact absurd h (by simp)
    | some f0 =>
      rw [hprev] at h
      have hne : ∀ s ∈ cwr vt (I + 1), s ≠ [] := by
        intro s hs he
        have := (cwr_sound vt (I + 1) s hs).1
        rw [he] at this; simp at this
      have := msFold_spec G q base fuel hg _ hne f0 _ (ih f0 hprev) found h
      unfold processed
      rw [List.range_succ, List.flatMap_append]
      simpa [processed] using this

theorem minimalStrategies_spec (hg : Good G) (vt : List (Fin n)) (maxChips : Nat) (found : List (List (Fin n)))
    (h : minimalStrategies G fuel q base vt maxChips = some found) :
    MSInv G q base found (processed vt maxChips) :=
  outer_spec G q base fuel hg vt maxChips found h

/-! ### from the invariant to the statement about `enhanced_dhar_gonality_test` -/

theorem sum_map_indicator (vt : List (Fin n)) (a : Fin n) :
    (vt.map fun v => if v = a then (1:Int) else 0).sum = (vt.count a : Int) := by
  induction vt with
  | nil => simp
  | cons b vt ih =>
    simp only [List.map_cons, List.sum_cons, ih, List.count_cons]
    by_cases h : b = a <;> simp [h] <;> ring

theorem sum_count_cover (vt : List (Fin n)) (hnd : vt.Nodup) (s : List (Fin n)) (hs : ∀ x ∈ s, x ∈ vt) :
    (vt.map (countVec s)).sum = (s.length : Int) := by
  induction s with
  | nil => rw [countVec_nil]; simp
  | cons a s ih =>
    have h1 : ∀ v, countVec (a :: s) v = countVec s v + (if v = a then 1 else 0) := by
      intro v; simp only [countVec, List.count_cons]
      by_cases h : a = v
      · subst h; simp
      · have : ¬ v = a := fun e => h e.symm
        simp [h, this]
    have : (vt.map (countVec (a :: s))) = vt.map (fun v => countVec s v + (if v = a then 1 else 0)) :=
      List.map_congr_left fun v _ => h1 v
    rw [this, List.sum_map_add, ih (fun x hx => hs x (List.mem_cons_of_mem _ hx)), sum_map_indicator,
      List.count_eq_one_of_mem hnd (hs a List.mem_cons_self)]
    simp

/-- the representative of a multiset in the enumeration order -/
theorem exists_rep (vt : List (Fin n)) (hnd : vt.Nodup) (s : List (Fin n)) (hs : ∀ x ∈ s, x ∈ vt) :
    ∃ c ∈ cwr vt s.length, ∀ v, c.count v = s.count v := by
  obtain ⟨c, hc, hcE⟩ := cwr_complete vt hnd s.length (countVec s) (fun v => by simp [countVec])
    (fun v hv => by
      simp only [countVec]
      have : s.count v = 0 := List.count_eq_zero.mpr fun h => hv (hs v h)
      simp [this])
    (sum_count_cover vt hnd s hs)
  refine ⟨c, hc, fun v => ?_⟩
  have := congrFun hcE v
  simpa [countVec] using this

theorem mem_processed (vt : List (Fin n)) (M : Nat) (c : List (Fin n)) (k : Nat) (hk1 : 1 ≤ k) (hkM : k ≤ M)
    (hc : c ∈ cwr vt k) : c ∈ processed vt M := by
  unfold processed
  rw [List.mem_flatMap]
  refine ⟨k - 1, List.mem_range.mpr (by omega), ?_⟩
  have : k - 1 + 1 = k := by omega
  rw [this]; exact hc

theorem processed_sound (vt : List (Fin n)) (M : Nat) (c : List (Fin n)) (hc : c ∈ processed vt M) :
    1 ≤ c.length ∧ c.length ≤ M ∧ ∀ x ∈ c, x ∈ vt := by
  unfold processed at hc
  rw [List.mem_flatMap] at hc
  obtain ⟨i, hi, hc⟩ := hc
  obtain ⟨h1, h2⟩ := cwr_sound vt (i + 1) c hc
  have := List.mem_range.mp hi
  exact ⟨by omega, by omega, h2⟩

theorem eraseIdx_mem_of (s : List (Fin n)) (j : Nat) (vt : List (Fin n)) (hs : ∀ x ∈ s, x ∈ vt) :
    ∀ x ∈ s.eraseIdx j, x ∈ vt := fun x hx => hs x (List.mem_of_mem_eraseIdx hx)

/-- a minimal winner over `vt` of admissible size is represented among the found ones -/
theorem minwin_found (vt : List (Fin n)) (hnd : vt.Nodup) (M : Nat) (found : List (List (Fin n)))
    (hinv : MSInv G q base found (processed vt M))
    (s : List (Fin n)) (hs : ∀ x ∈ s, x ∈ vt) (hne : s ≠ []) (hM : s.length ≤ M) (hmw : MinWin G q base s) :
    ∃ t ∈ found, ∀ v, t.count v = s.count v := by
  obtain ⟨c, hc, hcs⟩ := exists_rep vt hnd s hs
  have hlen : 1 ≤ s.length := List.length_pos_iff.mpr hne
  have hcP : c ∈ processed vt M := mem_processed vt M c s.length hlen hM hc
  have hcne : c ≠ [] := by
    intro e; have := (cwr_sound vt _ c hc).1; rw [e] at this; simp at this; omega
  have hcm : MinWin G q base c := by
    refine ⟨(wins_congr G q base hcs).mpr hmw.1, ?_⟩
    intro j hj hne' hw
    have hle : ∀ v, (c.eraseIdx j).count v ≤ s.count v := by
      intro v; rw [count_eraseIdx c j hj v, hcs v]; omega
    have hlt : (c.eraseIdx j).count c[j] < s.count c[j] := by
      rw [count_eraseIdx c j hj, hcs, if_pos rfl]
      have : 0 < c.count c[j] := List.count_pos_iff.mpr (List.getElem_mem _)
      rw [hcs] at this
      omega
    obtain ⟨j', hj', hsub⟩ := sub_of_strict hle _ hlt
    have hw' := wins_mono G q base hsub hw
    have hne'' : s.eraseIdx j' ≠ [] := by
      intro e
      apply hne'
      apply List.eq_nil_iff_forall_not_mem.mpr
      intro w hw2
      have h1 := List.count_pos_iff.mpr hw2
      have h2 := hsub w
      rw [e] at h2; simp at h2; omega
    exact hmw.2 j' hj' hne'' hw'
  obtain ⟨t, ht, htc⟩ := hinv.2 c hcP hcne hcm
  exact ⟨t, ht, fun v => by rw [htc v, hcs v]⟩

/-- any winner over `vt` of admissible size is matched by a found strategy that is no longer -/
theorem winner_found (vt : List (Fin n)) (hnd : vt.Nodup) (M : Nat) (found : List (List (Fin n)))
    (hinv : MSInv G q base found (processed vt M)) :
    ∀ (L : Nat) (s : List (Fin n)), s.length = L → (∀ x ∈ s, x ∈ vt) → s ≠ [] → s.length ≤ M → Wins G q base s →
      ∃ t ∈ found, t.length ≤ s.length := by
  intro L
  induction L using Nat.strong_induction_on with
  | _ L ih =>
    intro s hL hs hne hM hw
    by_cases hsm : ∃ j, j < s.length ∧ s.eraseIdx j ≠ [] ∧ Wins G q base (s.eraseIdx j)
    · obtain ⟨j, hj, hne', hw'⟩ := hsm
      have hlen : (s.eraseIdx j).length = s.length - 1 := List.length_eraseIdx_of_lt hj
      obtain ⟨t, ht, htl⟩ := ih (s.length - 1) (by omega) (s.eraseIdx j) hlen
        (eraseIdx_mem_of s j vt hs) hne' (by omega) hw'
      exact ⟨t, ht, by omega⟩
    · have hmw : MinWin G q base s := ⟨hw, fun j hj hne' hw' => hsm ⟨j, hj, hne', hw'⟩⟩
      obtain ⟨t, ht, htc⟩ := minwin_found G q base vt hnd M found hinv s hs hne hM hmw
      exact ⟨t, ht, le_of_eq (length_eq_of_count_eq htc)⟩

theorem foldl_min_spec (ms : List (List (Fin n))) (m0 : Nat) :
    (∀ s ∈ ms, ms.foldl (fun m s => min m s.length) m0 ≤ s.length) ∧
    ms.foldl (fun m s => min m s.length) m0 ≤ m0 ∧
    (ms.foldl (fun m s => min m s.length) m0 = m0 ∨ ∃ s ∈ ms, ms.foldl (fun m s => min m s.length) m0 = s.length) := by
  induction ms generalizing m0 with
  | nil => simp
  | cons a ms ih =>
    simp only [List.foldl_cons]
    obtain ⟨h1, h2, h3⟩ := ih (min m0 a.length)
    refine ⟨?_, ?_, ?_⟩
    · intro s hs
      rcases List.mem_cons.mp hs with rfl | hs
      · exact le_trans h2 (min_le_right _ _)
      · exact h1 s hs
    · exact le_trans h2 (min_le_left _ _)
    · rcases h3 with h3 | ⟨s, hs, h3⟩
      · rcases min_choice m0 a.length with hm | hm
        · left; rw [h3, hm]
        · right; exact ⟨a, List.mem_cons_self, by rw [h3, hm]⟩
      · right; exact ⟨s, List.mem_cons_of_mem _ hs, h3⟩

/-- **per-sink search** (`enhanced_dhar_gonality_test`): over the vertices `vt` other than q, with
    the cut-off `maxGon`: either nothing of at most `maxGon` chips survives a chip removed at q and
    the answer is `maxGon + 1` with no strategies; or the answer is the least number of chips of a
    surviving non-empty placement, and the strategies are exactly the surviving placements with
    that many chips (each listed up to the order of its chips) -/
theorem enhancedDhar_exact (hg : Good G) (vt : List (Fin n)) (hnd : vt.Nodup) (maxGon k : Nat) (ms : List (List (Fin n)))
    (h : enhancedDhar G fuel q vt maxGon = some (k, ms)) :
    (ms = [] ∧ k = maxGon + 1 ∧
      ∀ s, (∀ x ∈ s, x ∈ vt) → s ≠ [] → s.length ≤ maxGon → ¬ Wins G q (fun _ => 0) s) ∨
    (1 ≤ k ∧ k ≤ maxGon ∧ ms ≠ [] ∧
      (∀ t ∈ ms, t.length = k ∧ (∀ x ∈ t, x ∈ vt) ∧ Wins G q (fun _ => 0) t) ∧
      (∀ s, (∀ x ∈ s, x ∈ vt) → s ≠ [] → s.length < k → ¬ Wins G q (fun _ => 0) s) ∧
      (∀ s, (∀ x ∈ s, x ∈ vt) → s.length = k → Wins G q (fun _ => 0) s → ∃ t ∈ ms, ∀ v, t.count v = s.count v)) := by
  unfold enhancedDhar at h
  cases hm : minimalStrategies G fuel q (fun _ => 0) vt maxGon with
  | none => rw [hm] at h; simp at h
  | some found =>
    rw [hm] at h
    have hinv := minimalStrategies_spec G q (fun _ => 0) fuel hg vt maxGon found hm
    cases found with
    | nil =>
      simp only at h
      injection h with h; injection h with hk hms
      left
      refine ⟨hms.symm, hk.symm, ?_⟩
      intro s hs hne hM hw
      obtain ⟨t, ht, -⟩ := winner_found G q _ vt hnd maxGon [] hinv s.length s rfl hs hne hM hw
      simp at ht
    | cons f0 fs =>
      simp only at h
      injection h with h; injection h with hk hms
      right
      set found := f0 :: fs with hfound
      have hhead : found.head!.length = f0.length := rfl
      obtain ⟨hmin1, hmin2, hmin3⟩ := foldl_min_spec found (found.head!.length)
      rw [hk] at hmin1 hmin2 hmin3 hms
      have hex : ∃ t0 ∈ found, t0.length = k := by
        rcases hmin3 with h3 | ⟨s, hs, h3⟩
        · exact ⟨f0, List.mem_cons_self, by rw [h3]; rfl⟩
        · exact ⟨s, hs, h3.symm⟩
      obtain ⟨t0, ht0, ht0k⟩ := hex
      have hsound : ∀ t ∈ found, 1 ≤ t.length ∧ t.length ≤ maxGon ∧ (∀ x ∈ t, x ∈ vt) ∧ Wins G q (fun _ => 0) t := by
        intro t ht
        obtain ⟨hP, -, hmw⟩ := hinv.1 t ht
        obtain ⟨a, b, c⟩ := processed_sound vt maxGon t hP
        exact ⟨a, b, c, hmw.1⟩
      have hnosmall : ∀ s, (∀ x ∈ s, x ∈ vt) → s ≠ [] → s.length < k → ¬ Wins G q (fun _ => 0) s := by
        intro s hs hne hlt hw
        have hkM : k ≤ maxGon := by rw [← ht0k]; exact (hsound t0 ht0).2.1
        obtain ⟨t, ht, htl⟩ := winner_found G q _ vt hnd maxGon found hinv s.length s rfl hs hne (by omega) hw
        have := hmin1 t ht
        omega
      refine ⟨by rw [← ht0k]; exact (hsound t0 ht0).1, by rw [← ht0k]; exact (hsound t0 ht0).2.1, ?_, ?_, hnosmall, ?_⟩
      · rw [← hms]
        intro he
        have : t0 ∈ found.filter (fun s => s.length == k) := by simp [List.mem_filter, ht0, ht0k]
        rw [he] at this; simp at this
      · intro t ht
        rw [← hms] at ht
        obtain ⟨ht1, ht2⟩ := List.mem_filter.mp ht
        obtain ⟨-, -, c, d⟩ := hsound t ht1
        exact ⟨by simpa using ht2, c, d⟩
      · intro s hs hsk hw
        have hk1 : 1 ≤ k := by rw [← ht0k]; exact (hsound t0 ht0).1
        have hne : s ≠ [] := by intro e; rw [e] at hsk; simp at hsk; omega
        have hmw : MinWin G q (fun _ => 0) s := by
          refine ⟨hw, fun j hj hne' hw' => ?_⟩
          have hlen : (s.eraseIdx j).length = s.length - 1 := List.length_eraseIdx_of_lt hj
          exact hnosmall _ (eraseIdx_mem_of s j vt hs) hne' (by omega) hw'
        have hkM : k ≤ maxGon := by rw [← ht0k]; exact (hsound t0 ht0).2.1
        obtain ⟨t, ht, htc⟩ := minwin_found G q _ vt hnd maxGon found hinv s hs hne (by omega) hmw
        refine ⟨t, ?_, htc⟩
        rw [← hms]
        have : t.length = k := by rw [length_eq_of_count_eq htc, hsk]
        simp [List.mem_filter, ht, this]

end CF
