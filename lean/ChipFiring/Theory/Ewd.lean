import ChipFiring.Theory.Burn
/-
  Partial correctness of the model of `EWD`: whenever it returns, the returned divisor is the
  q-reduced representative of the input's class and the verdict is exact.
-/
open Finset

namespace CF
variable {n : Nat} (G : Graph n)

theorem debtLoop_spec (hs : ∀ v w, G.adj v w = G.adj w v) (order : List (Fin n)) :
    ∀ (f : Nat) (s s' : DebtSt n), debtLoop G order f s = some s' →
      LinEq G s.D s'.D ∧ ∀ v ∈ order, 0 ≤ s'.D v := by
  intro f
  induction f with
  | zero => intro s s' h; simp [debtLoop] at h
  | succ f ih =>
    intro s s' h
    rw [debtLoop] at h
    split at h
    · rename_i v rest hv
      split at h
      · have := ih _ _ h
        simp only [DebtSt.D, get_mat] at this
        exact ⟨LinEq.trans G (borrow_linEq G hs s.D v) this.1, this.2⟩
      · exact ih { DV := s.DV, todo := rest, tr := s.tr } _ h
    · split at h
      · exact ih { DV := s.DV, todo := order, tr := s.tr } _ h
      · rename_i hany
        injection h with h; subst h
        refine ⟨LinEq.refl G _, ?_⟩
        intro v hv
        by_contra hneg
        apply hany
        simp only [List.any_eq_true, decide_eq_true_eq]
        exact ⟨v, hv, by omega⟩

theorem sendDebt_spec (hs : ∀ v w, G.adj v w = G.adj w v) (order : List (Fin n)) (fuel : Nat)
    (D : Fin n → Int) (s : DebtSt n) (h : sendDebt G order fuel D = some s) :
    LinEq G D s.D ∧ ∀ v ∈ order, 0 ≤ s.D v := by
  have := debtLoop_spec G hs order fuel _ s h
  simpa only [DebtSt.D, get_mat] using this

/-- what `reduceLoop` guarantees when it returns -/
theorem reduceLoop_spec (hs : ∀ v w, G.adj v w = G.adj w v) (q : Fin n) (order : List (Fin n))
    (fuel : Nat) :
    ∀ (f : Nat) (D : Fin n → Int) (tr : List (Vec Int n)) (k : Nat) (r : Reduced n),
      reduceLoop G q order fuel f D tr k = some r →
      LinEq G D r.D ∧ (∀ v ∈ order, 0 ≤ r.D v) ∧ r.st = burn G q r.D ∧ (∀ v, r.st.B v = true) := by
  intro f
  induction f with
  | zero => intro D tr k r h; simp [reduceLoop] at h
  | succ f ih =>
    intro D tr k r h
    rw [reduceLoop] at h
    split at h
    · exact absurd h (by simp)
    · rename_i s hsd
      have hsend := sendDebt_spec G hs order fuel D s hsd
      simp only at h
      split at h
      · rename_i hall
        injection h with h; subst h
        exact ⟨hsend.1, hsend.2, rfl, (allF_iff _).mp hall⟩
      · have := ih _ _ _ _ h
        rw [get_mat] at this
        exact ⟨LinEq.trans G hsend.1 (LinEq.trans G (fireSet_linEq G hs _ _) this.1), this.2⟩

/-- the reduced divisor returned by the loop is q-reduced, provided the debt order covers V∖{q} -/
theorem reduceLoop_qreduced (hs : ∀ v w, G.adj v w = G.adj w v) (q : Fin n) (order : List (Fin n))
    (hcover : ∀ v, v ≠ q → v ∈ order) (fuel f : Nat) (D : Fin n → Int) (tr : List (Vec Int n))
    (k : Nat) (r : Reduced n) (h : reduceLoop G q order fuel f D tr k = some r) :
    LinEq G D r.D ∧ QReduced G q r.D := by
  obtain ⟨h1, h2, h3, h4⟩ := reduceLoop_spec G hs q order fuel f D tr k r h
  refine ⟨h1, fun v hv => h2 v (hcover v hv), ?_⟩
  rw [h3] at h4
  exact (burn_all_iff G q r.D).mp h4

end CF
