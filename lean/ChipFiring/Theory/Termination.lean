import ChipFiring.Theory.LeastAction
import ChipFiring.Theory.Potential
import ChipFiring.Theory.Ewd
/-
  Termination of the model loops on connected graphs: debt concentration (bounded by least
  action against the clearing script K·b) and the firing rounds of EWD (bounded by the potential
  Σ b·D).  Result: for every input there is a fuel from which on the model of `EWD` returns.
-/
open Finset

namespace CF
variable {n : Nat} (G : Graph n)

/-! ### least action relative to an active set -/

/-- a run of borrowing moves at active, indebted vertices -/
def ValidRunOn (A : Fin n → Prop) : (Fin n → Int) → List (Fin n) → Prop
  | _, [] => True
  | D, u :: l => A u ∧ D u < 0 ∧ ValidRunOn A (borrow G D u) l

theorem least_action_on_aux (hs : ∀ v w, G.adj v w = G.adj w v) (A : Fin n → Prop) (D0 σ : Fin n → Int)
    (hclear : ∀ v, A v → 0 ≤ applyScript G D0 (fun w => -σ w) v)
    (l : List (Fin n)) : ∀ (τ : Fin n → Int), (∀ v, τ v ≤ σ v) →
      ValidRunOn G A (applyScript G D0 (fun w => -τ w)) l →
      ∀ v, τ v + l.count v ≤ σ v := by
  induction l with
  | nil => intro τ hτ _ v; simpa using hτ v
  | cons u l ih =>
    intro τ hτ hvalid v
    obtain ⟨hA, hdebt, hrest⟩ := hvalid
    have hlt : τ u < σ u := by
      by_contra hcon
      have heq : τ u = σ u := le_antisymm (hτ u) (not_lt.mp hcon)
      have hc := hclear u hA
      simp only [applyScript] at hc hdebt
      have : ∑ v, (G.adj u v : Int) * (-τ u - -τ v) ≤ ∑ v, (G.adj u v : Int) * (-σ u - -σ v) := by
        apply Finset.sum_le_sum
        intro v _
        have hm0 : (0:Int) ≤ (G.adj u v : Int) := by positivity
        have := hτ v
        rw [heq]
        nlinarith
      linarith
    have hτ' : ∀ v, (τ v + if v = u then 1 else 0) ≤ σ v := by
      intro v
      by_cases hvu : v = u
      · subst hvu; simp; linarith
      · simp [hvu]; exact hτ v
    have hstate : borrow G (applyScript G D0 (fun w => -τ w)) u =
        applyScript G D0 (fun w => -(τ w + if w = u then 1 else 0)) := by
      rw [borrow_eq G hs, applyScript_add]
      congr 1
      funext w
      by_cases hwu : w = u <;> simp [chipAt, hwu] <;> ring
    rw [hstate] at hrest
    have := ih _ hτ' hrest v
    by_cases hvu : v = u
    · subst hvu; simp at this ⊢; linarith
    · have hne : u ≠ v := fun h => hvu h.symm
      simp [hvu] at this
      simp [hne]
      exact this

theorem least_action_on (hs : ∀ v w, G.adj v w = G.adj w v) (A : Fin n → Prop) (D0 σ : Fin n → Int)
    (hσ : ∀ v, 0 ≤ σ v) (hclear : ∀ v, A v → 0 ≤ applyScript G D0 (fun w => -σ w) v)
    (l : List (Fin n)) (hvalid : ValidRunOn G A D0 l) : ∀ v, (l.count v : Int) ≤ σ v := by
  have h0 : applyScript G D0 (fun _ => -(0:Int)) = D0 := by funext w; simp [applyScript]
  have := least_action_on_aux G hs A D0 σ hclear l (fun _ => 0) hσ (by rw [h0]; exact hvalid)
  intro v; simpa using this v

theorem validRunOn_append (A : Fin n → Prop) (D : Fin n → Int) (l : List (Fin n)) (u : Fin n)
    (h : ValidRunOn G A D l) (hA : A u) (hu : l.foldl (borrow G) D u < 0) : ValidRunOn G A D (l ++ [u]) := by
  induction l generalizing D with
  | nil => exact ⟨hA, by simpa using hu, trivial⟩
  | cons a l ih =>
    obtain ⟨h1, h2, h3⟩ := h
    exact ⟨h1, h2, ih _ h3 (by simpa using hu)⟩

/-- a non-negative script that clears all debt off q exists on a connected graph -/
theorem exists_clearing_script (hc : G.Connected) (q : Fin n) (D : Fin n → Int) :
    ∃ σ : Fin n → Int, (∀ v, 0 ≤ σ v) ∧ ∀ v, v ≠ q → 0 ≤ applyScript G D (fun w => -σ w) v := by
  obtain ⟨b, hb0, -, hb⟩ := exists_supersolution G hc q
  obtain ⟨vm, -, hvm⟩ := Finset.exists_max_image (Finset.univ : Finset (Fin n)) (fun v => - D v) ⟨q, mem_univ q⟩
  let K : Int := max 0 (- D vm)
  have hK0 : 0 ≤ K := le_max_left _ _
  have hK : ∀ v, - D v ≤ K := fun v => le_trans (hvm v (mem_univ v)) (le_max_right _ _)
  refine ⟨fun v => K * b v, fun v => mul_nonneg hK0 (hb0 v), ?_⟩
  intro v hv
  simp only [applyScript]
  have h1 := hb v hv
  have h2 : ∑ w, (G.adj v w : Int) * (-(K * b v) - -(K * b w)) = - (K * ∑ w, (G.adj v w : Int) * (b v - b w)) := by
    rw [Finset.mul_sum, ← Finset.sum_neg_distrib]
    apply Finset.sum_congr rfl; intro w _; ring
  rw [h2]
  have := hK v
  nlinarith

/-! ### fuel monotonicity -/

theorem debtLoop_mono (order : List (Fin n)) : ∀ (f : Nat) (s s' : DebtSt n),
    debtLoop G order f s = some s' → debtLoop G order (f + 1) s = some s' := by
  intro f
  induction f with
  | zero => intro s s' h; simp [debtLoop] at h
  | succ f ih =>
    intro s s' h
    rw [debtLoop] at h ⊢
    cases htodo : s.todo with
    | nil =>
      simp only [htodo] at h ⊢
      by_cases hd : (order.any fun v => decide (s.D v < 0)) = true
      · rw [if_pos hd] at h ⊢; exact ih _ _ h
      · rw [if_neg hd] at h ⊢; exact h
    | cons v rest =>
      simp only [htodo] at h ⊢
      by_cases hd : s.D v < 0
      · rw [if_pos hd] at h ⊢; exact ih _ _ h
      · rw [if_neg hd] at h ⊢; exact ih _ _ h

theorem debtLoop_mono_le (order : List (Fin n)) (f f' : Nat) (hle : f ≤ f') (s s' : DebtSt n)
    (h : debtLoop G order f s = some s') : debtLoop G order f' s = some s' := by
  induction hle with
  | refl => exact h
  | step _ ih => exact debtLoop_mono G order _ s s' ih

/-! ### the debt loop terminates -/

/-- popping debt-free heads: within `|todo|` steps the machine stands at an indebted head or at
    the end of the sweep, with the divisor unchanged -/
theorem debt_skip (order : List (Fin n)) (DV : Vec Int n) (tr : List (Vec Int n)) :
    ∀ (todo : List (Fin n)) (f : Nat),
      (∃ v rest, (v :: rest).length ≤ todo.length ∧ (∀ x ∈ v :: rest, x ∈ todo) ∧ DV.get v < 0 ∧
        debtLoop G order (f + todo.length) ⟨DV, todo, tr⟩ = debtLoop G order (f + (v :: rest).length) ⟨DV, v :: rest, tr⟩) ∨
      ((∀ x ∈ todo, ¬ DV.get x < 0) ∧
        debtLoop G order (f + todo.length) ⟨DV, todo, tr⟩ = debtLoop G order f ⟨DV, [], tr⟩) := by
  intro todo
  induction todo with
  | nil => intro f; right; exact ⟨by simp, rfl⟩
  | cons v rest ih =>
    intro f
    by_cases hv : DV.get v < 0
    · left; exact ⟨v, rest, le_refl _, fun x hx => hx, hv, rfl⟩
    · have hstep : debtLoop G order (f + (v :: rest).length) ⟨DV, v :: rest, tr⟩
          = debtLoop G order (f + rest.length) ⟨DV, rest, tr⟩ := by
        have : f + (v :: rest).length = (f + rest.length) + 1 := by simp; omega
        rw [this, debtLoop]
        simp only [DebtSt.D, hv, if_false]
      rcases ih f with ⟨w, r2, hlen, hsub, hw, heq⟩ | ⟨hall, heq⟩
      · left
        exact ⟨w, r2, by simp at hlen ⊢; omega, fun x hx => List.mem_cons_of_mem _ (hsub x hx), hw, by rw [hstep, heq]⟩
      · right
        refine ⟨?_, by rw [hstep, heq]⟩
        intro x hx
        rcases List.mem_cons.mp hx with rfl | hx
        · exact hv
        · exact hall x hx

/-- the debt loop terminates: `r` bounds the borrows still possible (least action against σ) -/
theorem debtLoop_terminates (hs : ∀ v w, G.adj v w = G.adj w v) (q : Fin n) (order : List (Fin n))
    (hq : q ∉ order) (D0 σ : Fin n → Int) (hσ : ∀ v, 0 ≤ σ v)
    (hclear : ∀ v, v ≠ q → 0 ≤ applyScript G D0 (fun w => -σ w) v) :
    ∀ (r : Nat) (l : List (Fin n)) (DV : Vec Int n) (todo : List (Fin n)) (tr : List (Vec Int n)),
      ValidRunOn G (· ≠ q) D0 l → DV.get = l.foldl (borrow G) D0 → (∑ v, σ v) - l.length ≤ r →
      todo.length ≤ order.length → (∀ x ∈ todo, x ∈ order) →
      ∃ s', debtLoop G order ((r + 1) * (2 * order.length + 3)) ⟨DV, todo, tr⟩ = some s' := by
  intro r
  induction r with
  | zero =>
    intro l DV todo tr hval hDV hr htl hsub
    -- no borrow is possible any more
    have noBorrow : ∀ v, v ∈ order → ¬ DV.get v < 0 := by
      intro v hv hneg
      have hvq : v ≠ q := fun e => hq (e ▸ hv)
      have hval' := validRunOn_append G (· ≠ q) D0 l v hval hvq (by rw [← hDV]; exact hneg)
      have hle := least_action_on G hs (· ≠ q) D0 σ hσ hclear _ hval'
      have hsum : ∑ w, ((l ++ [v]).count w : Int) ≤ ∑ w, σ w := Finset.sum_le_sum fun w _ => hle w
      rw [sum_count] at hsum
      simp at hsum; push_cast at hr; omega
    set L := order.length with hL
    have hfuel : (0 + 1) * (2 * L + 3) = (2 * L + 3 - todo.length) + todo.length := by omega
    rw [hfuel]
    rcases debt_skip G order DV tr todo (2 * L + 3 - todo.length) with ⟨v, rest, -, hsub2, hv, -⟩ | ⟨-, heq⟩
    · exact absurd hv (noBorrow v (hsub v (hsub2 v List.mem_cons_self)))
    · rw [heq]
      have : 2 * L + 3 - todo.length = (2 * L + 2 - todo.length) + 1 := by omega
      rw [this, debtLoop]
      have hany : ¬ (order.any (fun v => decide ((⟨DV, [], tr⟩ : DebtSt n).D v < 0)) = true) := by
        simp only [List.any_eq_true, decide_eq_true_eq, not_exists, not_and]
        intro v hv; exact noBorrow v hv
      simp only [hany, if_false]
      exact ⟨_, rfl⟩
  | succ r ih =>
    intro l DV todo tr hval hDV hr htl hsub
    set L := order.length with hL
    -- what happens at an indebted head
    have atHead : ∀ (v : Fin n) (rest : List (Fin n)) (f : Nat), (v :: rest).length ≤ L → (∀ x ∈ v :: rest, x ∈ order) →
        DV.get v < 0 → (r + 1) * (2 * L + 3) ≤ f →
        ∃ s', debtLoop G order (f + 1) ⟨DV, v :: rest, tr⟩ = some s' := by
      intro v rest f hlen hsubv hv hf
      have hvq : v ≠ q := fun e => hq (e ▸ hsubv v List.mem_cons_self)
      have hval' := validRunOn_append G (· ≠ q) D0 l v hval hvq (by rw [← hDV]; exact hv)
      have hle := least_action_on G hs (· ≠ q) D0 σ hσ hclear _ hval'
      have hsum : ∑ w, ((l ++ [v]).count w : Int) ≤ ∑ w, σ w := Finset.sum_le_sum fun w _ => hle w
      rw [sum_count] at hsum
      obtain ⟨s', hs'⟩ := ih (l ++ [v]) (mat (borrow G DV.get v)) (v :: rest) (mat (borrow G DV.get v) :: tr) hval'
        (by rw [get_mat, hDV]; simp) (by simp at hsum ⊢; push_cast at hr; omega) hlen hsubv
      refine ⟨s', ?_⟩
      rw [debtLoop]
      simp only [DebtSt.D, hv, if_true]
      exact debtLoop_mono_le G order _ _ hf _ _ hs'
    have hfuel : (r + 1 + 1) * (2 * L + 3) = ((r + 1 + 1) * (2 * L + 3) - todo.length) + todo.length := by
      have : todo.length ≤ (r + 1 + 1) * (2 * L + 3) := by nlinarith
      omega
    rw [hfuel]
    rcases debt_skip G order DV tr todo ((r + 1 + 1) * (2 * L + 3) - todo.length) with ⟨v, rest, hlen, hsub2, hv, heq⟩ | ⟨-, heq⟩
    · rw [heq]
      have h1 : (r + 1 + 1) * (2 * L + 3) - todo.length + (v :: rest).length
          = ((r + 1 + 1) * (2 * L + 3) - todo.length + (v :: rest).length - 1) + 1 := by simp; omega
      rw [h1]
      apply atHead v rest _ (le_trans hlen htl) (fun x hx => hsub x (hsub2 x hx)) hv
      simp only [List.length_cons] at hlen ⊢
      have : (r + 1 + 1) * (2 * L + 3) = (r + 1) * (2 * L + 3) + (2 * L + 3) := by ring
      omega
    · rw [heq]
      have hpos : 1 ≤ (r + 1 + 1) * (2 * L + 3) - todo.length := by
        have : (r + 1 + 1) * (2 * L + 3) = (r + 1) * (2 * L + 3) + (2 * L + 3) := by ring
        omega
      obtain ⟨f1, hf1⟩ : ∃ f1, (r + 1 + 1) * (2 * L + 3) - todo.length = f1 + 1 := ⟨_, (Nat.sub_add_cancel hpos).symm⟩
      rw [hf1, debtLoop]
      by_cases hany : (order.any (fun v => decide ((⟨DV, [], tr⟩ : DebtSt n).D v < 0))) = true
      · simp only [hany, if_true]
        -- a new sweep: it must reach an indebted head
        have hf1L : L ≤ f1 := by
          have : (r + 1 + 1) * (2 * L + 3) = (r + 1) * (2 * L + 3) + (2 * L + 3) := by ring
          omega
        have hsplit : f1 = (f1 - L) + order.length := by omega
        rw [hsplit]
        rcases debt_skip G order DV tr order (f1 - L) with ⟨v, rest, hlen, hsub2, hv, heq2⟩ | ⟨hall, -⟩
        · rw [heq2]
          have h1 : f1 - L + (v :: rest).length = (f1 - L + (v :: rest).length - 1) + 1 := by simp; omega
          rw [h1]
          apply atHead v rest _ hlen hsub2 hv
          simp only [List.length_cons] at hlen ⊢
          have : (r + 1 + 1) * (2 * L + 3) = (r + 1) * (2 * L + 3) + (2 * L + 3) := by ring
          omega
        · exfalso
          simp only [List.any_eq_true, decide_eq_true_eq, DebtSt.D] at hany
          obtain ⟨v, hv, hneg⟩ := hany
          exact hall v hv (of_decide_eq_true hneg)
      · simp only [hany, if_false]
        exact ⟨_, rfl⟩

/-- `send_debt_to_q` returns on every connected graph, for every fuel beyond an explicit bound -/
theorem sendDebt_terminates (hs : ∀ v w, G.adj v w = G.adj w v) (hc : G.Connected) (q : Fin n)
    (order : List (Fin n)) (hq : q ∉ order) (D : Fin n → Int) :
    ∃ F, ∀ fuel, F ≤ fuel → ∃ s, sendDebt G order fuel D = some s := by
  obtain ⟨σ, hσ, hclear⟩ := exists_clearing_script G hc q D
  have hS : 0 ≤ ∑ v, σ v := Finset.sum_nonneg fun v _ => hσ v
  obtain ⟨s, hsd⟩ := debtLoop_terminates G hs q order hq D σ hσ hclear (∑ v, σ v).toNat [] (mat D) [] []
    trivial (by simp) (by simp [Int.toNat_of_nonneg hS]) (by simp) (by simp)
  refine ⟨((∑ v, σ v).toNat + 1) * (2 * order.length + 3), fun fuel hf => ⟨s, ?_⟩⟩
  unfold sendDebt
  exact debtLoop_mono_le G order _ _ hf _ _ hsd

/-! ### the firing rounds terminate -/

theorem sendDebt_noop (order : List (Fin n)) (q : Fin n) (hq : q ∉ order) (D : Fin n → Int)
    (hnn : ∀ v, v ≠ q → 0 ≤ D v) (fuel : Nat) (hf : 1 ≤ fuel) :
    sendDebt G order fuel D = some ⟨mat D, [], []⟩ := by
  obtain ⟨f, rfl⟩ : ∃ f, fuel = f + 1 := ⟨fuel - 1, by omega⟩
  unfold sendDebt
  rw [debtLoop]
  have : ¬ (order.any (fun v => decide ((⟨mat D, [], []⟩ : DebtSt n).D v < 0)) = true) := by
    simp only [List.any_eq_true, decide_eq_true_eq, not_exists, not_and, DebtSt.D, get_mat]
    intro v hv
    have : v ≠ q := fun e => hq (e ▸ hv)
    have := hnn v this; omega
  rw [if_neg this]

/-- from a configuration without debt off q, at most Φ = Σ b·D firing rounds follow -/
theorem reduceLoop_rounds (hG : G.WF) (q : Fin n) (order : List (Fin n)) (hq : q ∉ order)
    (b : Fin n → Int) (hb0 : ∀ v, 0 ≤ b v) (hbq : b q = 0)
    (hb : ∀ v, v ≠ q → 1 ≤ ∑ w, (G.adj v w : Int) * (b v - b w)) (fuel : Nat) (hfuel : 1 ≤ fuel) :
    ∀ (m : Nat) (D : Fin n → Int), (∀ v, v ≠ q → 0 ≤ D v) → ∑ v, b v * D v ≤ m →
      ∀ (f : Nat), m + 1 ≤ f → ∀ tr k, ∃ r, reduceLoop G q order fuel f D tr k = some r := by
  intro m
  induction m with
  | zero =>
    intro D hnn hΦ f hf tr k
    obtain ⟨f', rfl⟩ : ∃ f', f = f' + 1 := ⟨f - 1, by omega⟩
    rw [reduceLoop, sendDebt_noop G order q hq D hnn fuel hfuel]
    simp only [DebtSt.D, get_mat]
    by_cases hall : allF (burn G q D).B = true
    · simp only [hall, if_true]; exact ⟨_, rfl⟩
    · exfalso
      have hne : ∃ v, (burn G q D).B v = false := by
        by_contra hc
        apply hall
        rw [allF_iff]; intro v
        by_contra hv; exact hc ⟨v, by simpa using hv⟩
      have hL := burn_unburnt_legal G q D hne
      have hdrop := potential_drop G hG.symm q b hb _ hL.2.1 D
      have hnn' := legal_fire_nonneg G q D _ hL hG.symm hnn
      have hpos : 0 ≤ ∑ v, b v * applyScript G D (indicator (unburnt (burn G q D))) v := by
        apply Finset.sum_nonneg; intro v _
        by_cases hv : v = q
        · subst hv; simp [hbq]
        · exact mul_nonneg (hb0 v) (hnn' v hv)
      have hcard : 1 ≤ ∑ v, indicator (unburnt (burn G q D)) v := by
        obtain ⟨v, hv⟩ := hL.1
        have : indicator (unburnt (burn G q D)) v ≤ ∑ w, indicator (unburnt (burn G q D)) w :=
          Finset.single_le_sum (f := indicator (unburnt (burn G q D))) (fun w _ => by unfold indicator; split <;> simp) (mem_univ v)
        simp only [indicator, hv, if_true] at this
        exact this
      simp at hΦ; linarith
  | succ m ih =>
    intro D hnn hΦ f hf tr k
    obtain ⟨f', rfl⟩ : ∃ f', f = f' + 1 := ⟨f - 1, by omega⟩
    rw [reduceLoop, sendDebt_noop G order q hq D hnn fuel hfuel]
    simp only [DebtSt.D, get_mat]
    by_cases hall : allF (burn G q D).B = true
    · simp only [hall, if_true]; exact ⟨_, rfl⟩
    · simp only [hall, Bool.false_eq_true, if_false]
      have hne : ∃ v, (burn G q D).B v = false := by
        by_contra hc
        apply hall
        rw [allF_iff]; intro v
        by_contra hv; exact hc ⟨v, by simpa using hv⟩
      have hL := burn_unburnt_legal G q D hne
      have hdrop := potential_drop G hG.symm q b hb _ hL.2.1 D
      have hnn' := legal_fire_nonneg G q D _ hL hG.symm hnn
      have hcard : 1 ≤ ∑ v, indicator (unburnt (burn G q D)) v := by
        obtain ⟨v, hv⟩ := hL.1
        have : indicator (unburnt (burn G q D)) v ≤ ∑ w, indicator (unburnt (burn G q D)) w :=
          Finset.single_le_sum (f := indicator (unburnt (burn G q D))) (fun w _ => by unfold indicator; split <;> simp) (mem_univ v)
        simp only [indicator, hv, if_true] at this
        exact this
      rw [← fireSet_eq G hG.symm] at hdrop hnn'
      exact ih _ hnn' (by push_cast at hΦ ⊢; linarith) f' (by omega) _ _

/-- the reduction loop of EWD returns on every connected graph, for every fuel beyond a bound -/
theorem reduceLoop_terminates (hG : G.WF) (hc : G.Connected) (q : Fin n) (order : List (Fin n))
    (hq : q ∉ order) (hcover : ∀ v, v ≠ q → v ∈ order) (D : Fin n → Int) :
    ∃ F, ∀ fuel, F ≤ fuel → ∀ tr k, ∃ r, reduceLoop G q order fuel fuel D tr k = some r := by
  obtain ⟨b, hb0, hbq, hb⟩ := exists_supersolution G hc q
  obtain ⟨F1, hF1⟩ := sendDebt_terminates G hG.symm hc q order hq D
  obtain ⟨s, hs⟩ := hF1 F1 (le_refl _)
  have hspec := sendDebt_spec G hG.symm order F1 D s hs
  have hnn : ∀ v, v ≠ q → 0 ≤ s.D v := fun v hv => hspec.2 v (hcover v hv)
  -- potential after the first firing (if any)
  let D2 := fireSet G (unburnt (burn G q s.D)) s.D
  let m : Nat := (∑ v, b v * D2 v).toNat
  refine ⟨max (F1 + 1) (m + 3), fun fuel hf tr k => ?_⟩
  have hsame : sendDebt G order fuel D = some s := by
    unfold sendDebt at hs ⊢
    exact debtLoop_mono_le G order _ _ (by omega) _ _ hs
  obtain ⟨f', hf'⟩ : ∃ f', fuel = f' + 1 := ⟨fuel - 1, by omega⟩
  rw [hf', reduceLoop, ← hf', hsame]
  simp only
  by_cases hall : allF (burn G q s.D).B = true
  · simp only [hall, if_true]; exact ⟨_, rfl⟩
  · simp only [hall, Bool.false_eq_true, if_false, get_mat]
    have hne : ∃ v, (burn G q s.D).B v = false := by
      by_contra hc'
      apply hall
      rw [allF_iff]; intro v
      by_contra hv; exact hc' ⟨v, by simpa using hv⟩
    have hL := burn_unburnt_legal G q s.D hne
    have hnn' := legal_fire_nonneg G q s.D _ hL hG.symm hnn
    rw [← fireSet_eq G hG.symm] at hnn'
    have hΦ0 : 0 ≤ ∑ v, b v * D2 v := by
      apply Finset.sum_nonneg; intro v _
      by_cases hv : v = q
      · subst hv; simp [hbq]
      · exact mul_nonneg (hb0 v) (hnn' v hv)
    exact reduceLoop_rounds G hG q order hq b hb0 hbq hb fuel (by omega) m D2 hnn'
      (by simp only [m]; rw [Int.toNat_of_nonneg hΦ0]) f' (by omega) _ _

end CF
