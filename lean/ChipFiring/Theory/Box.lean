import ChipFiring.Model.Comb
import Mathlib.Data.List.Basic
import Mathlib.Data.List.Nodup
import Mathlib.Tactic.Linarith
namespace CF
variable {n : Nat}

/-- one more coordinate -/
def boxStep (bound : Fin n → Nat) (acc : List (Fin n → Int)) (v : Fin n) : List (Fin n → Int) :=
  acc.flatMap fun c => (List.range (bound v)).map fun (k : Nat) => fun w => if w = v then (k : Int) else c w

theorem boxConfigs_eq (vs : List (Fin n)) (bound : Fin n → Nat) :
    boxConfigs vs bound = vs.foldl (boxStep bound) [fun _ => 0] := rfl

theorem mem_boxStep (bound : Fin n → Nat) (acc : List (Fin n → Int)) (v : Fin n) (c : Fin n → Int) :
    c ∈ boxStep bound acc v ↔ ∃ c0 ∈ acc, ∃ k : Nat, k < bound v ∧ c = fun w => if w = v then (k : Int) else c0 w := by
  unfold boxStep
  simp only [List.mem_flatMap, List.mem_map, List.mem_range]
  constructor
  · rintro ⟨c0, h0, k, hk, rfl⟩; exact ⟨c0, h0, k, hk, rfl⟩
  · rintro ⟨c0, h0, k, hk, rfl⟩; exact ⟨c0, h0, k, hk, rfl⟩

theorem mem_box_fold (bound : Fin n → Nat) (vs : List (Fin n)) (hnd : vs.Nodup) (acc : List (Fin n → Int))
    (c : Fin n → Int) :
    c ∈ vs.foldl (boxStep bound) acc ↔
      ∃ c0 ∈ acc, (∀ v ∈ vs, 0 ≤ c v ∧ c v < bound v) ∧ ∀ w, w ∉ vs → c w = c0 w := by
  induction vs generalizing acc with
  | nil =>
    simp only [List.foldl_nil, List.not_mem_nil, false_imp_iff, implies_true, true_and, not_false_eq_true, forall_true_left]
    constructor
    · intro h; exact ⟨c, h, fun _ => rfl⟩
    · rintro ⟨c0, h0, he⟩
      have : c = c0 := funext he
      rw [this]; exact h0
  | cons v vs ih =>
    rw [List.nodup_cons] at hnd
    rw [List.foldl_cons, ih hnd.2]
    constructor
    · rintro ⟨c1, h1, hr, ho⟩
      obtain ⟨c0, h0, k, hk, rfl⟩ := (mem_boxStep bound acc v c1).mp h1
      refine ⟨c0, h0, ?_, ?_⟩
      · intro u hu
        rcases List.mem_cons.mp hu with rfl | hu
        · have := ho u hnd.1; rw [this]; simp; exact_mod_cast hk
        · exact hr u hu
      · intro w hw
        have hw1 : w ≠ v := fun e => hw (e ▸ List.mem_cons_self)
        have hw2 : w ∉ vs := fun h => hw (List.mem_cons_of_mem _ h)
        rw [ho w hw2]; simp [hw1]
    · rintro ⟨c0, h0, hr, ho⟩
      have hv := hr v List.mem_cons_self
      refine ⟨fun w => if w = v then ((c v).toNat : Int) else c0 w, ?_, fun u hu => hr u (List.mem_cons_of_mem _ hu), ?_⟩
      · exact (mem_boxStep bound acc v _).mpr ⟨c0, h0, (c v).toNat, by omega, rfl⟩
      · intro w hw
        by_cases hwv : w = v
        · subst hwv; simp; omega
        · simp only [hwv, if_false]
          exact ho w (fun h => by rcases List.mem_cons.mp h with e | h; exact hwv e; exact hw h)

theorem mem_boxConfigs (bound : Fin n → Nat) (vs : List (Fin n)) (hnd : vs.Nodup) (c : Fin n → Int) :
    c ∈ boxConfigs vs bound ↔ (∀ v ∈ vs, 0 ≤ c v ∧ c v < bound v) ∧ ∀ w, w ∉ vs → c w = 0 := by
  rw [boxConfigs_eq, mem_box_fold bound vs hnd]
  simp

theorem pairwise_box_fold (bound : Fin n → Nat) (vs : List (Fin n)) (hnd : vs.Nodup) (acc : List (Fin n → Int))
    (hacc : acc.Pairwise fun c c' => ∃ w, w ∉ vs ∧ c w ≠ c' w) :
    (vs.foldl (boxStep bound) acc).Pairwise fun c c' => c ≠ c' := by
  induction vs generalizing acc with
  | nil =>
    simp only [List.foldl_nil]
    exact hacc.imp fun ⟨w, _, hw⟩ e => hw (by rw [e])
  | cons v vs ih =>
    rw [List.nodup_cons] at hnd
    rw [List.foldl_cons]
    apply ih hnd.2
    unfold boxStep
    rw [List.pairwise_flatMap]
    constructor
    · intro c0 _
      rw [List.pairwise_map]
      have : (List.range (bound v)).Pairwise (· ≠ ·) := List.nodup_range
      refine this.imp ?_
      intro a b hab
      refine ⟨v, hnd.1, ?_⟩
      simp; exact_mod_cast hab
    · refine hacc.imp ?_
      rintro c0 c0' ⟨w, hw, hne⟩ c hc c' hc'
      obtain ⟨k, -, rfl⟩ := List.mem_map.mp hc
      obtain ⟨k', -, rfl⟩ := List.mem_map.mp hc'
      have hw1 : w ≠ v := fun e => hw (e ▸ List.mem_cons_self)
      have hw2 : w ∉ vs := fun h => hw (List.mem_cons_of_mem _ h)
      exact ⟨w, hw2, by simpa [hw1] using hne⟩

theorem boxConfigs_nodup (bound : Fin n → Nat) (vs : List (Fin n)) (hnd : vs.Nodup) : (boxConfigs vs bound).Nodup := by
  rw [boxConfigs_eq]
  exact pairwise_box_fold bound vs hnd _ (List.pairwise_singleton _ _)

end CF
