import ChipFiring.Spec.Basic
import ChipFiring.Model.CertCheck
/-
  Soundness of the certificate checker: whatever orientation the implementation returns, if
  `certOK` accepts it (with any positions), it is the certificate C09 describes.
-/
open Finset
namespace CF
variable {n : Nat}

theorem indegL_eq (G : Graph n) (dir : Fin n → Fin n → Bool) (v : Fin n) : indegL G dir v = indeg G dir v := by
  unfold indegL indeg; rw [sumZ_eq]

theorem certOK_sound (G : Graph n) (q : Fin n) (D : Fin n → Int) (dir : Fin n → Fin n → Bool) (pos : Fin n → Nat)
    (h : certOK G q D dir pos = true) :
    OFull G dir ∧ OAcyclic G dir ∧ indeg G dir q = 0 ∧ ∀ v, v ≠ q → D v < indeg G dir v := by
  unfold certOK at h
  simp only [Bool.and_eq_true, allF_iff, Bool.or_eq_true, Bool.not_eq_true', decide_eq_false_iff_not,
    decide_eq_true_eq, beq_iff_eq] at h
  obtain ⟨⟨⟨h1, h2⟩, h3⟩, h4⟩ := h
  refine ⟨?_, ⟨pos, ?_⟩, ?_, ?_⟩
  · intro u v huv
    rcases h1 u v with h | h
    · exact absurd huv h
    · exact h
  · intro u v hd huv
    rcases h2 u v with h | h
    · simp [hd, huv] at h
    · exact h
  · rw [← indegL_eq]; exact h3
  · intro v hv
    rcases h4 v with h | h
    · exact absurd h hv
    · rw [← indegL_eq]; exact h

theorem certOK_dominated (G : Graph n) (q : Fin n) (D : Fin n → Int) (dir : Fin n → Fin n → Bool) (pos : Fin n → Nat)
    (h : certOK G q D dir pos = true) (hq : D q < 0) : ∀ v, D v ≤ indeg G dir v - 1 := by
  obtain ⟨-, -, h0, hb⟩ := certOK_sound G q D dir pos h
  intro v
  by_cases hv : v = q
  · subst hv; rw [h0]; omega
  · have := hb v hv; omega

end CF
