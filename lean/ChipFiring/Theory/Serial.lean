import ChipFiring.Theory.GraphInv
import ChipFiring.Theory.Moves
/-
  Dict-level save/load: rebuilding a graph from its canonical edge list, a divisor from its
  degree map, gives the object back.
-/
open Finset

namespace CF
variable {n : Nat}

/-- contribution of one inserted edge to the multiplicity of the pair x, y -/
def contrib (e : Nat × Nat × Int) (x y : Fin n) : Nat :=
  if (x.1 = e.1 ∧ y.1 = e.2.1) ∨ (x.1 = e.2.1 ∧ y.1 = e.1) then e.2.2.toNat else 0

/-- adjacency after a fully accepted batch = old adjacency + the contributions of its edges -/
theorem addEdges_adj (es : List (Nat × Nat × Int)) :
    ∀ (G G' : Graph n), G.addEdges es = (G', true) →
      ∀ x y, G'.adj x y = G.adj x y + (es.map fun e => contrib e x y).sum := by
  induction es with
  | nil => intro G G' h x y; simp [Graph.addEdges] at h; subst h; simp
  | cons e es ih =>
    intro G G' h x y
    obtain ⟨a, b, k⟩ := e
    unfold Graph.addEdges at h
    cases hadd : G.addEdge a b k with
    | error u => simp [hadd] at h
    | ok G1 =>
      simp only [hadd] at h
      have := ih G1 G' h x y
      obtain ⟨a', b', m, ha, hb, hab, hm, hk, rfl⟩ := addEdge_ok hadd
      rw [this]
      simp only [Graph.adj_ofFns, List.map_cons, List.sum_cons, contrib]
      have hkm : k.toNat = m := by omega
      have e1 : ((x.1 = a ∧ y.1 = b) ∨ (x.1 = b ∧ y.1 = a)) ↔ ((x = a' ∧ y = b') ∨ (x = b' ∧ y = a')) := by
        rw [← ha, ← hb]
        simp only [Fin.val_inj]
      by_cases hc : (x = a' ∧ y = b') ∨ (x = b' ∧ y = a')
      · rw [if_pos hc, if_pos (e1.mpr hc), hkm]; ring
      · rw [if_neg hc, if_neg (fun h => hc (e1.mp h))]; ring

/-- when is a batch fully accepted -/
theorem addEdges_all_ok (es : List (Nat × Nat × Int))
    (hv : ∀ e ∈ es, e.1 < n ∧ e.2.1 < n ∧ e.1 ≠ e.2.1 ∧ 0 < e.2.2) :
    ∀ G : Graph n, (G.addEdges es).2 = true := by
  induction es with
  | nil => intro G; rfl
  | cons e es ih =>
    intro G
    obtain ⟨a, b, k⟩ := e
    obtain ⟨h1, h2, h3, h4⟩ := hv (a, b, k) List.mem_cons_self
    unfold Graph.addEdges
    have : ∃ G1, G.addEdge a b k = .ok G1 := by
      unfold Graph.addEdge
      simp only [h3, if_false, not_le.mpr h4, ref?, h1, h2, dite_true]
      exact ⟨_, rfl⟩
    obtain ⟨G1, hG1⟩ := this
    simp only [hG1]
    exact ih (fun e he => hv e (List.mem_cons_of_mem _ he)) G1

/-- the edge list written by `to_dict`, as the constructor receives it back -/
def dictEdges (G : Graph n) : List (Nat × Nat × Int) :=
  G.edgeList.map fun (a, b, k) => (a.1, b.1, (k : Int))

theorem mem_edgeList (G : Graph n) (a b : Fin n) (k : Nat) :
    (a, b, k) ∈ G.edgeList ↔ a.1 < b.1 ∧ 0 < G.adj a b ∧ k = G.adj a b := by
  unfold Graph.edgeList
  simp only [List.mem_flatMap, List.mem_finRange, List.mem_filterMap, true_and]
  constructor
  · rintro ⟨a', b', h⟩
    split at h
    · rename_i hc
      simp only [Option.some.injEq, Prod.mk.injEq] at h
      obtain ⟨rfl, rfl, rfl⟩ := h
      exact ⟨hc.1, hc.2, rfl⟩
    · simp at h
  · rintro ⟨h1, h2, rfl⟩
    exact ⟨a, b, by simp [h1, h2]⟩

theorem sum_map_filterMap {α β : Type} (l : List α) (f : α → Option β) (g : β → Nat) :
    ((l.filterMap f).map g).sum = (l.map fun a => match f a with | some b => g b | none => 0).sum := by
  induction l with
  | nil => simp
  | cons a l ih =>
    simp only [List.filterMap_cons, List.map_cons, List.sum_cons]
    cases f a with
    | none => simp [ih]
    | some b => simp [ih]

theorem sum_map_flatMap {α β : Type} (l : List α) (F : α → List β) (g : β → Nat) :
    ((l.flatMap F).map g).sum = (l.map fun a => ((F a).map g).sum).sum := by
  induction l with
  | nil => simp
  | cons a l ih => simp [List.flatMap_cons, ih]

/-- sum of the contributions of the canonical edge list: exactly the multiplicity -/
theorem sum_contrib_edgeList' (G : Graph n) (hs : ∀ v w, G.adj v w = G.adj w v) (hl : ∀ v, G.adj v v = 0) (x y : Fin n) :
    ((dictEdges G).map fun e => contrib e x y).sum = G.adj x y := by
  have step : ((dictEdges G).map fun e => contrib e x y).sum
      = ∑ a : Fin n, ∑ b : Fin n, (if a.1 < b.1 then (if (x = a ∧ y = b) ∨ (x = b ∧ y = a) then G.adj a b else 0) else 0) := by
    unfold dictEdges Graph.edgeList
    rw [List.map_map, sum_map_flatMap, Fin.sum_univ_def]
    congr 1
    apply List.map_congr_left
    intro a _
    rw [sum_map_filterMap, Fin.sum_univ_def]
    congr 1
    apply List.map_congr_left
    intro b _
    by_cases h1 : a.1 < b.1
    · by_cases h2 : 0 < G.adj a b
      · simp only [h1, h2, and_self, if_true, Function.comp, contrib, Fin.val_inj, Int.toNat_natCast]
      · have h0 : G.adj a b = 0 := by omega
        simp [h1, h0]
    · simp [h1]
  rw [step]
  -- evaluate the double sum: only the pair (min, max) contributes
  rcases lt_trichotomy x.1 y.1 with hlt | heq | hgt
  · rw [Finset.sum_eq_single x, Finset.sum_eq_single y]
    · simp [hlt]
    · intro b _ hb
      by_cases h1 : x.1 < b.1
      · have : ¬ ((x = x ∧ y = b) ∨ (x = b ∧ y = x)) := by
          rintro (⟨-, h⟩ | ⟨h, -⟩)
          · exact hb h.symm
          · rw [← h] at h1; omega
        rw [if_pos h1, if_neg this]
      · simp [h1]
    · intro h; exact absurd (mem_univ y) h
    · intro a _ ha
      apply Finset.sum_eq_zero
      intro b _
      by_cases h1 : a.1 < b.1
      · have : ¬ ((x = a ∧ y = b) ∨ (x = b ∧ y = a)) := by
          rintro (⟨h, -⟩ | ⟨h, h'⟩)
          · exact ha h.symm
          · rw [← h, ← h'] at h1; omega
        simp [h1, this]
      · simp [h1]
    · intro h; exact absurd (mem_univ x) h
  · have hxy : x = y := Fin.ext heq
    subst hxy
    rw [hl x]
    apply Finset.sum_eq_zero; intro a _
    apply Finset.sum_eq_zero; intro b _
    by_cases h1 : a.1 < b.1
    · have : ¬ ((x = a ∧ x = b) ∨ (x = b ∧ x = a)) := by
        rintro (⟨h, h'⟩ | ⟨h, h'⟩) <;> (rw [← h, ← h'] at h1; omega)
      simp [h1, this]
    · simp [h1]
  · rw [Finset.sum_eq_single y, Finset.sum_eq_single x]
    · simp [hgt, hs y x]
    · intro b _ hb
      by_cases h1 : y.1 < b.1
      · have : ¬ ((x = y ∧ y = b) ∨ (x = b ∧ y = y)) := by
          rintro (⟨h, -⟩ | ⟨h, -⟩)
          · rw [h] at hgt; omega
          · exact hb h.symm
        rw [if_pos h1, if_neg this]
      · simp [h1]
    · intro h; exact absurd (mem_univ x) h
    · intro a _ ha
      apply Finset.sum_eq_zero
      intro b _
      by_cases h1 : a.1 < b.1
      · have : ¬ ((x = a ∧ y = b) ∨ (x = b ∧ y = a)) := by
          rintro (⟨h, h'⟩ | ⟨-, h⟩)
          · rw [← h, ← h'] at h1; omega
          · exact ha h.symm
        simp [h1, this]
      · simp [h1]
    · intro h; exact absurd (mem_univ y) h

theorem sum_contrib_edgeList (G : Graph n) (hG : G.WF) (x y : Fin n) :
    ((dictEdges G).map fun e => contrib e x y).sum = G.adj x y := sum_contrib_edgeList' G hG.symm hG.loopless x y

/-- `CFGraph.from_dict(G.to_dict())` is `G`: same multiplicities, same cached valences, same
    edge total -/
theorem graph_dict_roundtrip (G : Graph n) (hG : G.WF) :
    ∃ G', Graph.new n false (dictEdges G) = .ok G' ∧ G'.adj = G.adj ∧ G'.val = G.val ∧ G'.total = G.total := by
  have hv : ∀ e ∈ dictEdges G, e.1 < n ∧ e.2.1 < n ∧ e.1 ≠ e.2.1 ∧ 0 < e.2.2 := by
    intro e he
    unfold dictEdges at he
    obtain ⟨⟨a, b, k⟩, hmem, rfl⟩ := List.mem_map.mp he
    obtain ⟨h1, h2, rfl⟩ := (mem_edgeList G a b k).mp hmem
    exact ⟨a.2, b.2, by simp; omega, by simp; exact h2⟩
  have hok := addEdges_all_ok (dictEdges G) hv (Graph.empty : Graph n)
  obtain ⟨G', hG'⟩ : ∃ G', (Graph.empty : Graph n).addEdges (dictEdges G) = (G', true) := by
    refine ⟨((Graph.empty : Graph n).addEdges (dictEdges G)).1, ?_⟩
    rw [← hok]
  have hnew : Graph.new n false (dictEdges G) = .ok G' := by
    unfold Graph.new; simp [hG']
  have hadj : G'.adj = G.adj := by
    funext x y
    rw [addEdges_adj (dictEdges G) _ G' hG' x y, sum_contrib_edgeList G hG x y]
    simp [Graph.empty]
  have hwf := new_wf hnew
  refine ⟨G', hnew, hadj, ?_, ?_⟩
  · funext v; rw [hwf.val_eq v, hG.val_eq v, hadj]
  · have h1 := hwf.total_eq
    have h2 := hG.total_eq
    have : ∑ v, G'.val v = ∑ v, G.val v := by
      apply Finset.sum_congr rfl; intro v _; rw [hwf.val_eq v, hG.val_eq v, hadj]
    omega

end CF
