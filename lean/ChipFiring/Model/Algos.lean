import ChipFiring.Model.Dhar
import ChipFiring.Model.Machines
/-
  Models of `linear_equivalence`, `q_reduction`, `is_q_reduced`, `CFRank`, `CFGonality`,
  `GonalityDharAlgorithm`, `GreedyAlgorithm`.
  `Option` = the fuel ran out (the call does not return); `Except` = it raises.
-/
namespace CF
variable {n : Nat}

/-- plain-mode verdict of `EWD` on a degree vector -/
def winnablePlain (G : Graph n) (fuel : Nat) (D : Fin n → Int) : Option Bool :=
  match ewd G (fun _ => []) fuel (Divisor.ofFn D) false with
  | none => none
  | some (.error _) => some false        -- only for n = 0; never reached through the callers below
  | some (.ok r) => some r.verdict

/-- `is_winnable` (optimized mode) on a degree vector -/
def winnableOpt (G : Graph n) (fuel : Nat) (D : Fin n → Int) : Option Bool :=
  match ewd G (fun _ => []) fuel (Divisor.ofFn D) true with
  | none => none
  | some (.error _) => some false
  | some (.ok r) => some r.verdict

/-! ### linear equivalence -/

/-- `linear_equivalence(D1, D2)`; `sameGraph` = the structural graph gate -/
def linEquiv (G : Graph n) (fuel : Nat) (sameGraph : Bool) (D1 D2 : Divisor n) : Option Bool :=
  if !sameGraph then some false
  else if D1.total ≠ D2.total then some false
  else if allF (fun v => decide (D1.deg v = D2.deg v)) then some true
  else winnableOpt G fuel (fun v => D1.deg v - D2.deg v)

/-! ### enumeration of effective divisors -/

/-- `itertools.combinations_with_replacement(vs, k)` -/
def cwrStep {α : Type} (v : α) (r : Nat → List (List α)) : Nat → List (List α)
  | 0 => [[]]
  | k + 1 => (cwrStep v r k).map (v :: ·) ++ r (k + 1)

def cwr {α : Type} : List α → Nat → List (List α)
  | [] => fun k => match k with
    | 0 => [[]]
    | _ + 1 => []
  | v :: vs => cwrStep v (cwr vs)

theorem cwr_zero {α : Type} (vs : List α) : cwr vs 0 = [[]] := by
  cases vs <;> rfl
theorem cwr_nil_succ {α : Type} (k : Nat) : cwr ([] : List α) (k + 1) = [] := rfl
theorem cwr_cons_succ {α : Type} (v : α) (vs : List α) (k : Nat) :
    cwr (v :: vs) (k + 1) = (cwr (v :: vs) k).map (v :: ·) ++ cwr vs (k + 1) := rfl

/-- chip-count vector of a multiset of vertices -/
def countVec (c : List (Fin n)) : Fin n → Int := fun v => (c.count v : Int)

/-- all effective divisors of degree `k`, in the order the code enumerates them -/
def effDivs (n k : Nat) : List (Fin n → Int) := (cwr (List.finRange n) k).map countVec

/-! ### rank -/

/-- all of `D − E`, `E` effective of degree `k`, winnable?  (`none`: some test does not return) -/
def allWinnable (G : Graph n) (fuel : Nat) (D : Fin n → Int) (k : Nat) : Option Bool :=
  (effDivs n k).foldl (fun acc E =>
    match acc with
    | none => none
    | some false => some false
    | some true => winnablePlain G fuel (fun v => D v - E v)) (some true)

/-- the `while True` loop over k = 1, 2, … -/
def rankLoop (G : Graph n) (fuel : Nat) (D : Fin n → Int) : Nat → Nat → Option Int
  | 0, _ => none
  | f + 1, k =>
    match allWinnable G fuel D k with
    | none => none
    | some false => some ((k : Int) - 1)
    | some true => rankLoop G fuel D f (k + 1)

/-- `rank(D, optimized)` -/
def rank (G : Graph n) (fuel : Nat) (Dv : Divisor n) (optimized : Bool) : Option (Except Unit Int) :=
  match ewd G (fun _ => []) fuel Dv false with
  | none => none
  | some (.error _) => some (.error ())
  | some (.ok r) =>
    if !r.verdict then some (.ok (-1)) else
    match r.red with
    | none => some (.error ())
    | some red =>
      let Dstar := red.D          -- the caller's divisor, reduced in place
      if optimized then
        if Dv.total > 2 * G.genus - 2 then some (.ok (Dv.total - G.genus))
        else
          let KD := (mat fun v => canonicalOf G v - Dstar v).get
          if sumZ KD < Dv.total then
            let rr := Dv.total + 1 - G.genus
            match winnablePlain G fuel KD with
            | none => none
            | some false => some (.ok (-1 + rr))
            | some true => (rankLoop G fuel KD fuel 1).map fun x => .ok (x + rr)
          else (rankLoop G fuel Dstar fuel 1).map .ok
      else (rankLoop G fuel Dstar fuel 1).map .ok

/-! ### gonality -/

/-- `play_gonality_game` verdict for placement `P` and opponent vertex `v` -/
def playGame (G : Graph n) (fuel : Nat) (P : Fin n → Int) (v : Fin n) : Option Bool :=
  winnableOpt G fuel (fun w => P w - (if w = v then 1 else 0))

/-- `test_n_chip_strategy`: the vertices at which the opponent wins -/
def losingVertices (G : Graph n) (fuel : Nat) (P : Fin n → Int) : Option (List (Fin n)) :=
  (List.finRange n).foldl (fun acc v =>
    match acc, playGame G fuel P v with
    | some l, some true => some l
    | some l, some false => some (l ++ [v])
    | _, _ => none) (some [])

def strategyWorks (G : Graph n) (fuel : Nat) (P : Fin n → Int) : Option Bool :=
  (losingVertices G fuel P).map (·.isEmpty)

/-- the first (at most `cap`) winning placements among `cands`, in order -/
def firstWinning (G : Graph n) (fuel : Nat) (cap : Nat) :
    List (Fin n → Int) → List (Fin n → Int) → Option (List (Fin n → Int))
  | [], acc => some acc
  | P :: ps, acc =>
    if acc.length ≥ cap then some acc else
    match strategyWorks G fuel P with
    | none => none
    | some true => firstWinning G fuel cap ps (acc ++ [P])
    | some false => firstWinning G fuel cap ps acc

/-- `compute_gonality(max_gonality, find_strategies)`: N = 1 … max -/
def gonLoop (G : Graph n) (fuel : Nat) (cap : Nat) : Nat → Nat → Option (Int × List (Fin n → Int))
  | 0, _ => some (-1, [])
  | f + 1, N =>
    match firstWinning G fuel cap (effDivs n N) [] with
    | none => none
    | some [] => gonLoop G fuel cap f (N + 1)
    | some l => some (N, l)

def computeGonality (G : Graph n) (fuel : Nat) (maxGon : Int) (findStrategies : Bool) :
    Option (Int × List (Fin n → Int)) :=
  gonLoop G fuel (if findStrategies then 5 else 1) maxGon.toNat 1

/-! ### per-sink Dhar-based search -/

/-- `GonalityDharAlgorithm.test_strategy`: base + chips of the strategy − 1 at q -/
def dharTestStrategy (G : Graph n) (fuel : Nat) (q : Fin n) (base : Fin n → Int) (strategy : List (Fin n)) : Option Bool :=
  winnableOpt G fuel (fun w => base w + countVec strategy w - (if w = q then 1 else 0))

def isSubMultiset (a b : List (Fin n)) : Bool := (List.finRange n).all fun v => decide (a.count v ≤ b.count v)

/-- `find_minimal_winning_strategies(max_chips)` over the iteration order `vt` of V∖{q} -/
def minimalStrategies (G : Graph n) (fuel : Nat) (q : Fin n) (base : Fin n → Int) (vt : List (Fin n)) (maxChips : Nat) :
    Option (List (List (Fin n))) :=
  (List.range maxChips).foldl (fun acc i =>
    (cwr vt (i + 1)).foldl (fun acc s =>
      match acc with
      | none => none
      | some found =>
        if found.any (fun m => isSubMultiset m s) then some found else
        match dharTestStrategy G fuel q base s with
        | none => none
        | some false => some found
        | some true =>
          -- minimal iff no single removal still wins
          let subs := (List.range s.length).map fun j => s.eraseIdx j
          let anySmaller := subs.foldl (fun a t =>
            match a with
            | none => none
            | some true => some true
            | some false => if t.isEmpty then some false else dharTestStrategy G fuel q base t) (some false)
          match anySmaller with
          | none => none
          | some true => some found
          | some false => some (found ++ [s])) acc) (some [])

/-- `enhanced_dhar_gonality_test(graph, q, max_gonality)` -/
def enhancedDhar (G : Graph n) (fuel : Nat) (q : Fin n) (vt : List (Fin n)) (maxGon : Nat) :
    Option (Nat × List (List (Fin n))) :=
  match minimalStrategies G fuel q (fun _ => 0) vt maxGon with
  | none => none
  | some [] => some (maxGon + 1, [])
  | some ms =>
    let k := ms.foldl (fun m s => min m s.length) (ms.head!.length)
    some (k, ms.filter fun s => s.length == k)

/-! ### greedy solver -/

/-- `GreedyAlgorithm.play`: budget 10·|V| borrowing moves, first indebted vertex in the
    iteration order `vorder` of the vertex set -/
def greedyGo (G : Graph n) (vorder : List (Fin n)) : Nat → Vec Int n → Vec Int n → Bool × Vec Int n × Vec Int n
  | b, D, s =>
    if effective D.get then (true, D, s) else
    match b with
    | 0 => (false, D, s)
    | b + 1 =>
      match vorder.find? (fun v => decide (D.get v < 0)) with
      | none => (true, D, s)
      | some v => greedyGo G vorder b (mat (borrow G D.get v)) (mat fun w => if w = v then s.get w - 1 else s.get w)

def greedy (G : Graph n) (vorder : List (Fin n)) (D : Fin n → Int) : Bool × Vec Int n × Vec Int n :=
  greedyGo G vorder (10 * n) (mat D) (mat fun _ => 0)

end CF
