import ChipFiring.Model.Core
/-
  Models of the combinatorial helpers: parking-function predicates, independence number,
  closed forms and the bounds report.
-/
namespace CF

/-! ### parking functions -/

/-- insertion sort (the specification of `sorted`) -/
def insertSorted (x : Int) : List Int → List Int
  | [] => [x]
  | y :: ys => if x ≤ y then x :: y :: ys else y :: insertSorted x ys

def sortInts : List Int → List Int
  | [] => []
  | x :: xs => insertSorted x (sortInts xs)

/-- `all(sorted_seq[i] <= i + 1 for i in range(n))` -/
def parkCheck : List Int → Nat → Bool
  | [], _ => true
  | x :: xs, i => decide (x ≤ (i : Int) + 1) && parkCheck xs (i + 1)

/-- `is_parking_function(sequence, n)`; `nOpt = none` ⇒ n = len(sequence) -/
def isParkingFunction (seq : List Int) (nOpt : Option Int) : Bool :=
  let n : Int := nOpt.getD seq.length
  if (seq.length : Int) ≠ n then false
  else if seq.isEmpty then true
  else if !(seq.all fun x => decide (1 ≤ x) && decide (x ≤ n)) then false
  else parkCheck (sortInts seq) 0

/-- all sequences over `1..n` of length `k`, in the order the backtracking visits them -/
def allSeqs (n : Nat) : Nat → List (List Int)
  | 0 => [[]]
  | k + 1 => (List.range n).flatMap fun (i : Nat) => (allSeqs n k).map fun s => ((i : Int) + 1) :: s

/-- `generate_parking_functions(n)` -/
def generateParking (n : Int) : List (List Int) :=
  if n ≤ 0 then [] else (allSeqs n.toNat n.toNat).filter fun s => isParkingFunction s (some n)

/-- `parking_function_count(n)` -/
def parkingCount (n : Int) : Int := if n ≤ 0 then 0 else (n + 1) ^ (n.toNat - 1)

/-! ### closed forms -/

/-- `complete_graph_gonality(n)` (raises for n < 1) -/
def completeGraphGonality (n : Int) : Except Unit Int := if n < 1 then .error () else .ok (n - 1)

/-- `complete_multipartite_gonality(parts)` as coded: n minus the *smallest* part -/
def completeMultipartiteGonality (parts : List Int) : Int :=
  match parts with
  | [] => 0
  | [p] => p - 1
  | p :: ps => (p :: ps).sum - (ps.foldl min p)

/-! ### independence number and the bounds report (simple graph underlying the multigraph) -/

variable {n : Nat}

def subsetsOf (n : Nat) : List (List (Fin n)) :=
  let rec go : List (Fin n) → List (List (Fin n))
    | [] => [[]]
    | x :: xs => let r := go xs; r ++ r.map (x :: ·)
  go (List.finRange n)

def isIndependent (G : Graph n) (S : List (Fin n)) : Bool :=
  S.all fun u => S.all fun v => decide (G.adj u v = 0)

/-- size of a largest independent set -/
def independenceNumber (G : Graph n) : Nat :=
  ((subsetsOf n).filter (isIndependent G)).foldl (fun m S => max m S.length) 0

/-- `minimum_degree`: least cached valence (0 for the empty graph) -/
def minimumDegree (G : Graph n) : Nat :=
  match (List.finRange n).map G.val with
  | [] => 0
  | x :: xs => xs.foldl min x

end CF

namespace CF

/-- determinant of an integer matrix given as rows, by Laplace expansion along the first row
    (sizes are tiny; used to state "number of superstables = det of the reduced Laplacian") -/
def detRows : Nat → List (List Int) → Int
  | 0, _ => 1
  | _ + 1, [] => 1
  | f + 1, r :: rows =>
    let idx := List.range r.length
    (idx.map fun j =>
      let minor := rows.map fun row => (List.range row.length).filterMap fun k => if k = j then none else row[k]?
      (if j % 2 = 0 then 1 else -1) * (r.getD j 0) * detRows f minor).sum

/-- all vectors in the box Π_v [0, bound v) over the listed vertices (others 0) -/
def boxConfigs {n : Nat} (vs : List (Fin n)) (bound : Fin n → Nat) : List (Fin n → Int) :=
  vs.foldl (fun acc v => acc.flatMap fun c => (List.range (bound v)).map fun (k : Nat) => fun w => if w = v then (k : Int) else c w)
    [fun _ => 0]

end CF

namespace CF
variable {n : Nat}

/-- is the underlying simple graph complete? (`bramble_order_lower_bound` counts adjacent pairs) -/
def isCompleteSimple (G : Graph n) : Bool :=
  allF fun u => allF fun v => decide (u = v) || decide (0 < G.adj u v)

/-- `bramble_order_lower_bound` -/
def brambleOrderLowerBound (G : Graph n) : Nat :=
  if n ≤ 1 then 1 else if isCompleteSimple G then n else minimumDegree G + 1

/-- the entries of `gonality_theoretical_bounds` the property speaks about (after the repair F6:
    aggregate lower = max of the trivial, minimum-degree and bramble−1 bounds; aggregate upper =
    min of n−1 and n−α) -/
structure BoundsReport where
  trivialUpper : Int
  independenceUpper : Int
  minimumDegree : Int
  brambleOrder : Int
  lower : Int
  upper : Int

def boundsReport (G : Graph n) : BoundsReport :=
  let a : Int := independenceNumber G
  let md : Int := minimumDegree G
  let br : Int := brambleOrderLowerBound G
  { trivialUpper := (n : Int) - 1, independenceUpper := (n : Int) - a, minimumDegree := md, brambleOrder := br,
    lower := max (max 1 md) (br - 1), upper := min ((n : Int) - 1) ((n : Int) - a) }

end CF
