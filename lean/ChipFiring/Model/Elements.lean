import ChipFiring.Model.Machines
/-
  Model of the drawable element lists (`_graph_to_cytoscape_elements`, `_divisor_to_…`,
  `_orientation_to_…`, `EWDVisualizer._get_elements`), in canonical form: nodes by vertex index,
  edge elements by (smaller endpoint, larger endpoint, copy index).
-/
namespace CF
variable {n : Nat}

structure EdgeEl (n : Nat) where
  a : Fin n                 -- id = "a-b-i" with a < b by name
  b : Fin n
  i : Nat
  oriented : Bool
  src : Fin n               -- meaningful when oriented
  tgt : Fin n

/-- one edge element per unit of multiplicity; arrows exactly on the oriented edges, in the
    stored direction (`st a b = 1`: a → b, `2`: b → a) -/
def edgeElements (G : Graph n) (st : Fin n → Fin n → Nat) : List (EdgeEl n) :=
  (List.finRange n).flatMap fun a => (List.finRange n).flatMap fun b =>
    if a.1 < b.1 then
      (List.range (G.adj a b)).map fun i =>
        let s := st a b
        { a := a, b := b, i := i, oriented := decide (s = 1 ∨ s = 2),
          src := if s = 2 then b else a, tgt := if s = 2 then a else b }
    else []

/-- node labels: the chip count shown under the name; sign class -/
def nodeElements (D : Fin n → Int) : List (Fin n × Int × Bool) :=
  (List.finRange n).map fun v => (v, D v, decide (D v < 0))

end CF
