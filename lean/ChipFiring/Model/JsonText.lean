/-
  The JSON text `CFDataProcessor.to_json` writes: `json.dump(obj.to_dict(), f, indent=4)`
  (pure-Python encoder, `ensure_ascii=True`, separators `","` / `": "`), for the value shapes the
  four `to_dict` methods produce: strings, integers, lists, dicts with string keys.
  Also a bracket/quote scanner (`scan`): a *necessary* condition for a text to be a complete JSON
  document is that the scanner ends outside every bracket and outside a string.
-/
namespace CF.JsonText

abbrev Str := List Char

inductive JV where
  | str (s : Str)
  | int (k : Int)
  | arr (l : List JV)
  | obj (l : List (Str × JV))

def hexDigit (n : Nat) : Char :=
  if n < 10 then Char.ofNat (48 + n) else Char.ofNat (87 + n)

/-- `'%04x' % n` for `n < 65536` -/
def hex4 (n : Nat) : Str :=
  [hexDigit (n / 4096 % 16), hexDigit (n / 256 % 16), hexDigit (n / 16 % 16), hexDigit (n % 16)]

def uEsc (n : Nat) : Str := '\\' :: 'u' :: hex4 n

/-- `json.encoder.py_encode_basestring_ascii` on one character -/
def escChar (c : Char) : Str :=
  if c = '\\' then ['\\', '\\']
  else if c = '"' then ['\\', '"']
  else if c = '\x08' then ['\\', 'b']
  else if c = '\x0c' then ['\\', 'f']
  else if c = '\n' then ['\\', 'n']
  else if c = '\r' then ['\\', 'r']
  else if c = '\t' then ['\\', 't']
  else
    let n := c.toNat
    if 32 ≤ n ∧ n ≤ 126 then [c]
    else if n < 65536 then uEsc n
    else
      let m := n - 65536
      uEsc (55296 + m / 1024 % 1024) ++ uEsc (56320 + m % 1024)

def quote (s : Str) : Str := '"' :: s.flatMap escChar ++ ['"']

/-- `'\n' + ' ' * (indent * level)` -/
def nl (ind lvl : Nat) : Str := '\n' :: List.replicate (ind * lvl) ' '

mutual
  /-- the text of a value at nesting level `lvl` -/
  def ser (ind lvl : Nat) : JV → Str
    | .str s => quote s
    | .int k => k.repr.toList
    | .arr [] => ['[', ']']
    | .arr (x :: xs) => '[' :: nl ind (lvl + 1) ++ ser ind (lvl + 1) x ++ serItems ind (lvl + 1) xs ++ nl ind lvl ++ [']']
    | .obj [] => ['{', '}']
    | .obj ((k, v) :: kvs) =>
      '{' :: nl ind (lvl + 1) ++ quote k ++ [':', ' '] ++ ser ind (lvl + 1) v ++ serMembers ind (lvl + 1) kvs ++ nl ind lvl ++ ['}']
  def serItems (ind lvl : Nat) : List JV → Str
    | [] => []
    | x :: xs => ',' :: nl ind lvl ++ ser ind lvl x ++ serItems ind lvl xs
  def serMembers (ind lvl : Nat) : List (Str × JV) → Str
    | [] => []
    | (k, v) :: kvs => ',' :: nl ind lvl ++ quote k ++ [':', ' '] ++ ser ind lvl v ++ serMembers ind lvl kvs
end

/-- `json.dump(v, f, indent=ind)` (the library uses `indent=4`) -/
def dumps (ind : Nat) (v : JV) : Str := ser ind 0 v

-- ---------------------------------------------------------------- bracket / quote scanner

structure Sc where
  depth : Nat
  inStr : Bool
  esc : Bool
  under : Bool      -- a closing bracket was seen at depth 0
deriving DecidableEq, Repr

def scStep (s : Sc) (c : Char) : Sc :=
  if s.inStr then
    if s.esc then { s with esc := false }
    else if c = '\\' then { s with esc := true }
    else if c = '"' then { s with inStr := false }
    else s
  else if c = '"' then { s with inStr := true }
  else if c = '{' ∨ c = '[' then { s with depth := s.depth + 1 }
  else if c = '}' ∨ c = ']' then (if s.depth = 0 then { s with under := true } else { s with depth := s.depth - 1 })
  else s

def scan (s : Sc) (t : Str) : Sc := t.foldl scStep s

def sc0 : Sc := ⟨0, false, false, false⟩

/-- the text is still inside a bracket or a string at its end: it cannot be a complete document -/
def openAtEnd (t : Str) : Bool :=
  let s := scan sc0 t
  decide (1 ≤ s.depth) || s.inStr

-- ---------------------------------------------------------------- the four `to_dict` shapes

def kVertices : Str := ['v', 'e', 'r', 't', 'i', 'c', 'e', 's']
def kEdges : Str := ['e', 'd', 'g', 'e', 's']
def kGraph : Str := ['g', 'r', 'a', 'p', 'h']
def kDegrees : Str := ['d', 'e', 'g', 'r', 'e', 'e', 's']
def kOrientations : Str := ['o', 'r', 'i', 'e', 'n', 't', 'a', 't', 'i', 'o', 'n', 's']
def kScript : Str := ['s', 'c', 'r', 'i', 'p', 't']

/-- `CFGraph.to_dict()`: sorted names, canonical edge list -/
def graphJV (names : List Str) (edges : List (Str × Str × Int)) : JV :=
  .obj [(kVertices, .arr (names.map .str)),
        (kEdges, .arr (edges.map fun e => .arr [.str e.1, .str e.2.1, .int e.2.2]))]

/-- `CFDivisor.to_dict()`: the degrees in the order of the object's own dict -/
def divisorJV (names : List Str) (edges : List (Str × Str × Int)) (degs : List (Str × Int)) : JV :=
  .obj [(kGraph, graphJV names edges), (kDegrees, .obj (degs.map fun r => (r.1, .int r.2)))]

def orientationJV (names : List Str) (edges : List (Str × Str × Int)) (os : List (Str × Str)) : JV :=
  .obj [(kGraph, graphJV names edges), (kOrientations, .arr (os.map fun r => .arr [.str r.1, .str r.2]))]

def scriptJV (names : List Str) (edges : List (Str × Str × Int)) (fs : List (Str × Int)) : JV :=
  .obj [(kGraph, graphJV names edges), (kScript, .obj (fs.map fun r => (r.1, .int r.2)))]

/-- a written file is one of these -/
inductive IsFileJV : JV → Prop
  | graph (n e) : IsFileJV (graphJV n e)
  | divisor (n e d) : IsFileJV (divisorJV n e d)
  | orientation (n e o) : IsFileJV (orientationJV n e o)
  | script (n e f) : IsFileJV (scriptJV n e f)

end CF.JsonText
