import ChipFiring.Model.Core
/-
  State machines of the mutable objects: divisor / configuration moves with their refusals,
  firing scripts, the Laplacian, orientations with their incremental counters and cache flags,
  configuration queries, divisor arithmetic.  Each operation mirrors the *order* of the checks
  and writes in the code; `Except.error ()` = the call raises.
-/
namespace CF
variable {n : Nat}

/-! ### graph histories -/

inductive GOp where
  | add (a b : Nat) (k : Int) | adds (es : List (Nat × Nat × Int)) | valence (v : Nat) | remove (v : Nat)

/-- state after one graph operation (queries and refused insertions leave it as it was) -/
def gapply (G : Graph n) : GOp → Graph n
  | .add a b k => match G.addEdge a b k with
    | .ok G' => G'
    | .error _ => G
  | .adds es => (G.addEdges es).1
  | .valence _ => G
  | .remove _ => G

/-- was the operation accepted? -/
def gaccepts (G : Graph n) : GOp → Bool
  | .add a b k => match G.addEdge a b k with
    | .ok _ => true
    | .error _ => false
  | .adds es => (G.addEdges es).2
  | .valence v => (ref? n v).isSome
  | .remove v => (ref? n v).isSome

/-- `remove_vertex(v)`: the graph rebuilt by the constructor from the edges between the
    remaining vertices (kept on the old index space, `v` isolated) -/
def removeVertex (G : Graph n) (v : Fin n) : Graph n :=
  ((Graph.empty : Graph n).addEdges ((G.inducedEdges v).map fun (x, y, k) => (x.1, y.1, (k : Int)))).1

def setOf (l : List (Fin n)) : Fin n → Bool := fun v => l.contains v

/-- resolve every reference or fail -/
def refs? (n : Nat) : List Nat → Option (List (Fin n))
  | [] => some []
  | i :: is => match ref? n i, refs? n is with
    | some v, some vs => some (v :: vs)
    | _, _ => none

/-! ### configuration queries -/

/-- `get_out_degree_S(v, S)` -/
def outDegS (G : Graph n) (S : Fin n → Bool) (v : Fin n) : Int :=
  sumZ fun w => if S w then 0 else (G.adj v w : Int)

/-- `is_legal_set_firing(S)`: fire a copy, look at the members -/
def isLegalFiring (G : Graph n) (D : Fin n → Int) (S : List (Fin n)) : Bool :=
  if S.isEmpty then false else
  let D' := fireSet G (setOf S) D
  S.all fun v => decide (0 ≤ D' v)

/-- all sublists (subsets of `V∖{q}` in index order) -/
def sublists {α : Type} : List α → List (List α)
  | [] => [[]]
  | x :: xs => let r := sublists xs; r ++ r.map (x :: ·)

def vtilde (q : Fin n) : List (Fin n) := (List.finRange n).filter (· ≠ q)

def nonNegOffQ (q : Fin n) (D : Fin n → Int) : Bool := (vtilde q).all fun v => decide (0 ≤ D v)

/-- `is_superstable`: non-negative off q and no non-empty subset is a legal firing -/
def isSuperstable (G : Graph n) (q : Fin n) (D : Fin n → Int) : Bool :=
  nonNegOffQ q D && (sublists (vtilde q)).all fun S => !isLegalFiring G D S

/-! ### divisor / configuration moves -/

inductive DOp where
  | lend (v : Nat) | borrow (v : Nat) | fire (S : List Nat) | transfer (a b : Nat) (k : Int)
  | cfgLend (v : Nat) | cfgBorrow (v : Nat) | cfgFire (S : List Nat)
  | cfgDegreeAt (v : Nat)
  | cfgSuperstable | cfgLegal (S : List Nat) | cfgNonNeg
  | swap (a b : Nat)      -- harness macro: chip_transfer of |D a − D b| from the richer to the poorer

/-- one operation on a divisor (degrees only: no move touches the cached total).
    `q` = sink of the configuration wrapper, if the object is driven through one. -/
def dstep (G : Graph n) (q : Option (Fin n)) (D : Vec Int n) : DOp → Except Unit (Vec Int n × Option Int)
  | .lend v => match ref? n v with
    | some v => .ok (mat (lend G D.get v), none)
    | none => .error ()
  | .borrow v => match ref? n v with
    | some v => .ok (mat (borrow G D.get v), none)
    | none => .error ()
  | .fire S => match refs? n S with
    | some vs => .ok (mat (fireSet G (setOf vs) D.get), none)
    | none => .error ()
  | .transfer a b k =>
    if k ≤ 0 then .error () else
    match ref? n a, ref? n b with
    | some a, some b => .ok (mat (transfer D.get a b k), none)
    | _, _ => .error ()
  | .cfgLend v => match q, ref? n v with
    | some _, some v => .ok (mat (lend G D.get v), none)
    | _, _ => .error ()
  | .cfgBorrow v => match q, ref? n v with
    | some _, some v => .ok (mat (borrow G D.get v), none)
    | _, _ => .error ()
  | .cfgFire S => match q, refs? n S with
    | some q, some vs => if vs.contains q then .error () else .ok (mat (fireSet G (setOf vs) D.get), none)
    | _, _ => .error ()
  | .cfgDegreeAt v => match q, ref? n v with
    | some q, some v => if v = q then .error () else .ok (D, some (D.get v))
    | _, _ => .error ()
  | .swap a b => match ref? n a, ref? n b with
    | some a, some b =>
      if D.get b < D.get a then .ok (mat (transfer D.get a b (D.get a - D.get b)), none)
      else if D.get a < D.get b then .ok (mat (transfer D.get b a (D.get b - D.get a)), none)
      else .ok (D, none)
    | _, _ => .error ()
  | .cfgSuperstable => match q with
    | some q => .ok (D, some (if isSuperstable G q D.get then 1 else 0))
    | none => .error ()
  | .cfgNonNeg => match q with
    | some q => .ok (D, some (if nonNegOffQ q D.get then 1 else 0))
    | none => .error ()
  | .cfgLegal S => match q with
    | some q =>
      if S.isEmpty then .ok (D, some 0) else
      match refs? n S with
      | some vs => if vs.contains q then .error () else .ok (D, some (if isLegalFiring G D.get vs then 1 else 0))
      | none => .error ()
    | none => .error ()

/-- run a history; a refused operation leaves the state as it was -/
def drun (G : Graph n) (q : Option (Fin n)) : Vec Int n → List DOp → List (Bool × Vec Int n × Option Int)
  | _, [] => []
  | D, o :: os =>
    match dstep G q D o with
    | .ok (D', r) => (true, D', r) :: drun G q D' os
    | .error _ => (false, D, none) :: drun G q D os

/-! ### firing scripts -/

inductive SOp where
  | set (v : Nat) (k : Int) | update (v : Nat) (k : Int) | get (v : Nat)

def sstep (s : Vec Int n) : SOp → Except Unit (Vec Int n × Option Int)
  | .set v k => match ref? n v with
    | some v => .ok (mat fun w => if w = v then k else s.get w, none)
    | none => .error ()
  | .update v k => match ref? n v with
    | some v => .ok (mat fun w => if w = v then s.get w + k else s.get w, none)
    | none => .error ()
  | .get v => match ref? n v with
    | some v => .ok (s, some (s.get v))
    | none => .error ()

def srun : Vec Int n → List SOp → List (Bool × Vec Int n × Option Int)
  | _, [] => []
  | s, o :: os =>
    match sstep s o with
    | .ok (s', r) => (true, s', r) :: srun s' os
    | .error _ => (false, s, none) :: srun s os

/-- the constructor's script argument: unknown names are refused, later entries overwrite -/
def scriptNew (entries : List (Nat × Int)) : Except Unit (Vec Int n) :=
  let rec go : List (Nat × Int) → Vec Int n → Except Unit (Vec Int n)
    | [], s => .ok s
    | (i, k) :: es, s => match ref? n i with
      | some v => go es (mat fun w => if w = v then k else s.get w)
      | none => .error ()
  go entries (mat fun _ => 0)

/-! ### Laplacian -/

/-- `_construct_matrix`: cached valence on the diagonal, minus the multiplicity elsewhere
    (an entry exists off the diagonal only for neighbours; absent entries read as 0) -/
def lapEntry (G : Graph n) (v w : Fin n) : Int :=
  if v = w then (G.val v : Int) else - (G.adj v w : Int)

/-- `apply`: `D − L·s` in unbounded integers -/
def lapApply (G : Graph n) (D s : Fin n → Int) : Fin n → Int :=
  fun v => D v - sumZ fun w => lapEntry G v w * s w

/-! ### orientations -/

structure Orient (n : Nat) where
  stV : Vec (Vec Nat n) n      -- 0 none, 1 row→col, 2 col→row  (meaningful on adjacent pairs)
  inV : Vec Int n
  outV : Vec Int n
  isFull : Bool
  isFullChecked : Bool

namespace Orient

def st (o : Orient n) (u v : Fin n) : Nat := (o.stV.get u).get v
def inD (o : Orient n) (v : Fin n) : Int := o.inV.get v
def outD (o : Orient n) (v : Fin n) : Int := o.outV.get v

def blank : Orient n := ⟨mat fun _ => mat fun _ => 0, mat fun _ => 0, mat fun _ => 0, false, false⟩

def flip (s : Nat) : Nat := if s = 1 then 2 else if s = 2 then 1 else 0

/-- `set_orientation(source, sink, state)` on vertex objects; a non-edge is a `KeyError` -/
def setO (G : Graph n) (o : Orient n) (src snk : Fin n) (state : Nat) : Except Unit (Orient n) :=
  if G.adj src snk = 0 ∨ src = snk then .error () else
  let old := o.st src snk
  let m : Int := G.adj src snk
  -- remove the old orientation's effect
  let in1 : Fin n → Int := fun w =>
    if old = 1 then (if w = snk then o.inD w - m else o.inD w)
    else if old = 2 then (if w = src then o.inD w - m else o.inD w) else o.inD w
  let out1 : Fin n → Int := fun w =>
    if old = 1 then (if w = src then o.outD w - m else o.outD w)
    else if old = 2 then (if w = snk then o.outD w - m else o.outD w) else o.outD w
  let in2 : Fin n → Int := fun w =>
    if state = 1 then (if w = snk then in1 w + m else in1 w)
    else if state = 2 then (if w = src then in1 w + m else in1 w) else in1 w
  let out2 : Fin n → Int := fun w =>
    if state = 1 then (if w = src then out1 w + m else out1 w)
    else if state = 2 then (if w = snk then out1 w + m else out1 w) else out1 w
  let stN : Fin n → Fin n → Nat := fun a b =>
    if a = src ∧ b = snk then state else if a = snk ∧ b = src then flip state else o.st a b
  let full := if state = 0 then false else o.isFull
  let checked := if state = 0 then true else if old = 0 then false else o.isFullChecked
  .ok ⟨mat fun a => mat (stN a), mat in2, mat out2, full, checked⟩

/-- is every edge oriented? -/
def fullNow (G : Graph n) (o : Orient n) : Bool :=
  allF fun u => allF fun v => !(decide (u.1 < v.1) && decide (0 < G.adj u v)) || decide (o.st u v ≠ 0)

def checkFullness (G : Graph n) (o : Orient n) : Orient n × Bool :=
  let f := fullNow G o
  ({ o with isFull := f, isFullChecked := true }, f)

/-- the constructor -/
def new (G : Graph n) (pairs : List (Nat × Nat)) : Except Unit (Orient n) :=
  let rec go : List (Nat × Nat) → Orient n → Except Unit (Orient n)
    | [], o => .ok (checkFullness G o).1
    | (a, b) :: ps, o =>
      match ref? n a, ref? n b with
      | some a, some b =>
        if G.adj a b = 0 ∨ a = b then .error () else
        if o.st a b ≠ 0 ∨ o.st b a ≠ 0 then .error () else
        match setO G o a b 1 with
        | .ok o' => go ps o'
        | .error _ => .error ()
      | _, _ => .error ()
  go pairs blank

/-- refresh the flags if stale, then demand fullness (`reverse`, `divisor`) -/
def needFull (G : Graph n) (o : Orient n) : Orient n × Bool :=
  let o1 := if o.isFullChecked then o else (checkFullness G o).1
  (o1, o1.isFull)

/-- the pairs handed to the constructor by `reverse` -/
def reversedPairs (G : Graph n) (o : Orient n) : List (Nat × Nat) :=
  (List.finRange n).flatMap fun u => (List.finRange n).filterMap fun v =>
    if u.1 < v.1 ∧ 0 < G.adj u v then
      (if o.st u v = 1 then some (v.1, u.1) else if o.st u v = 2 then some (u.1, v.1) else none)
    else none

def divisorOf (o : Orient n) : Fin n → Int := fun v => o.inD v - 1

/-- state-changing part of the orientation operations (queries leave the state alone; `reverse`
    and `divisor` only refresh the fullness flags) -/
inductive OOp where
  | set (a b : Nat) (state : Nat) | full | needFull | query

def oapply (G : Graph n) (o : Orient n) : OOp → Orient n
  | .set a b s =>
    match ref? n a, ref? n b with
    | some u, some v =>
      if s ≤ 2 then (match setO G o u v s with
        | .ok o' => o'
        | .error _ => o) else o
    | _, _ => o
  | .full => (checkFullness G o).1
  | .needFull => (needFull G o).1
  | .query => o

/-- was a `set` request accepted? -/
def oaccepts (G : Graph n) (o : Orient n) (a b s : Nat) : Bool :=
  match ref? n a, ref? n b with
  | some u, some v => decide (s ≤ 2) && (match setO G o u v s with | .ok _ => true | .error _ => false)
  | _, _ => false

end Orient

/-- `canonical_divisor`: cached valence − 2 -/
def canonicalOf (G : Graph n) : Fin n → Int := fun v => (G.val v : Int) - 2

/-- comparison operators of `CFConfig` (0 eq, 1 ge, 2 le, 3 lt, 4 gt); `comparable` = same q and
    structurally equal graphs -/
def cfgCmp (q : Fin n) (comparable : Bool) (c d : Fin n → Int) (op : Nat) : Except Unit Bool :=
  let eq := comparable && (vtilde q).all fun v => decide (c v = d v)
  let ge := (vtilde q).all fun v => decide (d v ≤ c v)
  let le := (vtilde q).all fun v => decide (c v ≤ d v)
  match op with
  | 0 => .ok eq
  | 1 => if comparable then .ok ge else .error ()
  | 2 => if comparable then .ok le else .error ()
  | 3 => if comparable then .ok (le && !eq) else .error ()
  | _ => if comparable then .ok (ge && !eq) else .error ()

/-! ### divisor arithmetic (results are rebuilt through the constructor on the left operand's graph) -/

/-- do the names of the second operand's graph form the same vertex set? (`vs2`: its vertex
    names as references into the first graph's name space) -/
def sameVertexSet (n : Nat) (vs2 : List Nat) : Bool :=
  vs2.length == n && vs2.all (· < n) && !Divisor.hasDup vs2

def dAdd (same : Bool) (A B : Fin n → Int) : Except Unit (Divisor n) :=
  if same then .ok (Divisor.ofFn fun v => A v + B v) else .error ()
def dSub (same : Bool) (A B : Fin n → Int) : Except Unit (Divisor n) :=
  if same then .ok (Divisor.ofFn fun v => A v - B v) else .error ()
def dNeg (A : Fin n → Int) : Divisor n := Divisor.ofFn fun v => - A v
def dSmul (k : Int) (A : Fin n → Int) : Divisor n := Divisor.ofFn fun v => k * A v
def dChip (v : Nat) : Except Unit (Divisor n) := Divisor.new [(v, 1)]
def dZero : Divisor n := Divisor.ofFn fun _ => 0

def graphEqB (G H : Graph n) : Bool := allF fun u => allF fun v => decide (G.adj u v = H.adj u v)

/-- `==`: same vertex set, same chips, same multigraph -/
def dEq (same : Bool) (G H : Graph n) (A B : Fin n → Int) : Bool :=
  same && (allF fun v => decide (A v = B v)) && graphEqB G H

end CF
