import ChipFiring.Model.JsonText
/-
  The string scanner of CPython's JSON decoder (`json.decoder.py_scanstring`, strict mode), on the
  text after the opening quote: plain characters, the short escapes, `\uXXXX`, surrogate pairs.
  (Lone surrogates, which Python keeps as they are, have no counterpart in Lean's `Char`: `none`.)
-/
namespace CF.JsonText

def hexVal (c : Char) : Option Nat :=
  let n := c.toNat
  if 48 ≤ n ∧ n ≤ 57 then some (n - 48)
  else if 97 ≤ n ∧ n ≤ 102 then some (n - 87)
  else if 65 ≤ n ∧ n ≤ 70 then some (n - 55)
  else none

def hex4Val : Str → Option (Nat × Str)
  | a :: b :: c :: d :: rest =>
    match hexVal a, hexVal b, hexVal c, hexVal d with
    | some a, some b, some c, some d => some (4096 * a + 256 * b + 16 * c + d, rest)
    | _, _, _, _ => none
  | _ => none

def shortEsc (e : Char) : Option Char :=
  if e = '"' then some '"' else if e = '\\' then some '\\' else if e = '/' then some '/'
  else if e = 'b' then some '\x08' else if e = 'f' then some '\x0c' else if e = 'n' then some '\n'
  else if e = 'r' then some '\r' else if e = 't' then some '\t' else none

/-- returns the decoded string and the text after the closing quote -/
def scanStr : Nat → Str → Option (Str × Str)
  | 0, _ => none
  | _ + 1, [] => none
  | f + 1, c :: rest =>
    if c = '"' then some ([], rest)
    else if c = '\\' then
      match rest with
      | [] => none
      | e :: rest1 =>
        if e = 'u' then
          match hex4Val rest1 with
          | none => none
          | some (n, rest2) =>
            if 0xD800 ≤ n ∧ n ≤ 0xDBFF then
              match rest2 with
              | b :: u :: rest3 =>
                if b = '\\' ∧ u = 'u' then
                  match hex4Val rest3 with
                  | some (m, rest4) =>
                    if 0xDC00 ≤ m ∧ m ≤ 0xDFFF then
                      (scanStr f rest4).map fun r => (Char.ofNat (0x10000 + (n - 0xD800) * 1024 + (m - 0xDC00)) :: r.1, r.2)
                    else none
                  | none => none
                else none
              | _ => none
            else (scanStr f rest2).map fun r => (Char.ofNat n :: r.1, r.2)
        else
          match shortEsc e with
          | some ch => (scanStr f rest1).map fun r => (ch :: r.1, r.2)
          | none => none
    else if c.toNat < 32 then none
    else (scanStr f rest).map fun r => (c :: r.1, r.2)

/-- `json.loads` on the text of a JSON string -/
def decodeStr (t : Str) : Option Str :=
  match t with
  | q :: body => if q = '"' then (match scanStr (body.length + 1) body with
      | some (s, []) => some s
      | _ => none) else none
  | [] => none

end CF.JsonText
