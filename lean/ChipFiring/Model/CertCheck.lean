import ChipFiring.Model.Core
/-
  A checker for the burning certificate of C09, run by the driver on what the IMPLEMENTATION
  returned: orientation (direction predicate), topological positions computed by the (untrusted)
  harness, sink, reduced divisor.  Soundness: `Theory/CertCheck.lean`.
-/
namespace CF
variable {n : Nat}

/-- the in-degree of `v` under `dir` -/
def indegL (G : Graph n) (dir : Fin n → Fin n → Bool) (v : Fin n) : Int :=
  sumZ fun w => if dir w v then (G.adj w v : Int) else 0

/-- full; increasing along `pos`; nothing enters q; every other vertex holds fewer chips than its
    in-degree -/
def certOK (G : Graph n) (q : Fin n) (D : Fin n → Int) (dir : Fin n → Fin n → Bool) (pos : Fin n → Nat) : Bool :=
  (allF fun u => allF fun v => !(decide (0 < G.adj u v)) || (dir u v == !dir v u)) &&
  (allF fun u => allF fun v => !(dir u v && decide (0 < G.adj u v)) || decide (pos u < pos v)) &&
  decide (indegL G dir q = 0) &&
  (allF fun v => decide (v = q) || decide (D v < indegL G dir v))

end CF
