/-
  The field layer of the TXT format (`CFDataProcessor.to_txt` / `read_txt`): a record line is
  `PREFIX: f1, f2, …` — written with `', '.join`, read back with
  `[p.strip() for p in line.replace(PREFIX, "").split(',')]`.  Characters are `Char`, strings
  `List Char`; `isSpacePy` is the set of characters Python's `str.strip()` removes.
-/
namespace CF.Txt

/-- `str.isspace` for a single character (what `strip()` without arguments removes) -/
def isSpacePy (c : Char) : Bool :=
  let v := c.val.toNat
  (0x09 ≤ v && v ≤ 0x0d) || (0x1c ≤ v && v ≤ 0x20) || v == 0x85 || v == 0xa0 || v == 0x1680 ||
  (0x2000 ≤ v && v ≤ 0x200a) || v == 0x2028 || v == 0x2029 || v == 0x202f || v == 0x205f || v == 0x3000

/-- `s.strip()` -/
def stripPy (s : List Char) : List Char :=
  ((s.dropWhile isSpacePy).reverse.dropWhile isSpacePy).reverse

/-- `s.split(sep)` for a one-character separator (always at least one field) -/
def splitOn (sep : Char) : List Char → List (List Char)
  | [] => [[]]
  | c :: cs =>
    if c = sep then [] :: splitOn sep cs
    else match splitOn sep cs with
      | f :: fs => (c :: f) :: fs
      | [] => [[c]]

/-- `', '.join(fields)` -/
def joinFields : List (List Char) → List Char
  | [] => []
  | [f] => f
  | f :: g :: fs => f ++ [',', ' '] ++ joinFields (g :: fs)

/-- what the reader makes of the text after the record prefix -/
def parseFields (s : List Char) : List (List Char) := (splitOn ',' s).map stripPy

/-- a field the format can represent: no comma, nothing for `strip()` to remove -/
def cleanField (f : List Char) : Bool := !f.contains ',' && (stripPy f == f)

/-- `s.replace(p, "")` for a non-empty pattern: remove every (leftmost, non-overlapping) occurrence -/
def removeAll (p : List Char) : List Char → List Char
  | [] => []
  | c :: cs =>
    if p ≠ [] ∧ p.isPrefixOf (c :: cs) then removeAll p ((c :: cs).drop p.length)
    else c :: removeAll p cs
termination_by s => s.length
decreasing_by
  all_goals simp_wf
  · rename_i h
    have : 0 < p.length := List.length_pos_iff.mpr h.1
    omega

end CF.Txt
