import ChipFiring.Model.Txt
/-
  The file layer of the TXT format: `CFDataProcessor.to_txt` / `read_txt` for the four object
  kinds, on the *text* of the file.  A file is a `List Char`; what the reader hands to the
  constructors (`CFGraph(set(names), edges)`, `CFDivisor(graph, degrees)`, …) is a record of
  strings and integers.  Mirrors, statement by statement:

    lines = [line.strip() for line in f if line.strip()]          -- `readLines` (text mode:
                                                                  --  universal newlines)
    for line in lines: if line.startswith(P1): … elif …           -- `graphStep`, `secStep`
    int(parts[k])                                                 -- `pyInt?`
    f.write(line + "\n") for every line                           -- `writeText`

  Not modelled: the byte layer (encoding/decoding of the text, `open`), the constructors that
  receive the record (they are modelled in `Machines.lean` on indices), non-ASCII digits in `int()`.
-/
namespace CF.Txt

abbrev Str := List Char

/-- universal-newline translation of text-mode reading: `\r\n` and a lone `\r` become `\n` -/
def normNL (prevCR : Bool) : Str → Str
  | [] => []
  | c :: cs =>
    if c = '\r' then '\n' :: normNL true cs
    else if c = '\n' then (if prevCR then normNL false cs else '\n' :: normNL false cs)
    else c :: normNL false cs

/-- `[line.strip() for line in f if line.strip()]` -/
def readLines (text : Str) : List Str :=
  ((splitOn '\n' (normNL false text)).map stripPy).filter fun l => !l.isEmpty

/-- `for line in lines_to_write: f.write(line + "\n")` -/
def writeText : List Str → Str
  | [] => []
  | l :: ls => l ++ '\n' :: writeText ls

/-- digits with single underscores between them (`int()` on the text after the sign) -/
def pyNatGo : Str → Nat → Bool → Option Nat
  | [], acc, last => if last then some acc else none
  | c :: cs, acc, last =>
    if c.isDigit then pyNatGo cs (10 * acc + (c.toNat - '0'.toNat)) true
    else if c = '_' ∧ last then pyNatGo cs acc false
    else none

/-- `int(s)` for an already stripped ASCII string: optional sign, decimal digits, single
    underscores between digits; `none` = `ValueError` -/
def pyInt? (s : Str) : Option Int :=
  match s with
  | [] => none
  | c :: r =>
    if c = '-' then (pyNatGo r 0 false).map fun k => -(k : Int)
    else if c = '+' then (pyNatGo r 0 false).map fun k => (k : Int)
    else (pyNatGo (c :: r) 0 false).map fun k => (k : Int)

def pVERTICES : Str := ['V', 'E', 'R', 'T', 'I', 'C', 'E', 'S', ':']
def pEDGE : Str := ['E', 'D', 'G', 'E', ':']
def pGVERTICES : Str := ['G', 'R', 'A', 'P', 'H', '_', 'V', 'E', 'R', 'T', 'I', 'C', 'E', 'S', ':']
def pGEDGE : Str := ['G', 'R', 'A', 'P', 'H', '_', 'E', 'D', 'G', 'E', ':']
def pDEGREE : Str := ['D', 'E', 'G', 'R', 'E', 'E', ':']
def pORIENTED : Str := ['O', 'R', 'I', 'E', 'N', 'T', 'E', 'D', ':']
def pFIRING : Str := ['F', 'I', 'R', 'I', 'N', 'G', ':']
def mDEGREES : Str := ['-', '-', '-', 'D', 'E', 'G', 'R', 'E', 'E', 'S', '-', '-', '-']
def mORIENTATIONS : Str := ['-', '-', '-', 'O', 'R', 'I', 'E', 'N', 'T', 'A', 'T', 'I', 'O', 'N', 'S', '-', '-', '-']
def mSCRIPT : Str := ['-', '-', '-', 'S', 'C', 'R', 'I', 'P', 'T', '-', '-', '-']

/-- `[p.strip() for p in line.replace(P, "").split(',')]` -/
def recFields (P line : Str) : List Str := parseFields (removeAll P line)

/-- the names field of a `VERTICES:` / `GRAPH_VERTICES:` line; an empty field is the empty list
    (this is what the writer produces for the graph without vertices) -/
def nameFields (P line : Str) : List Str :=
  let rest := removeAll P line
  if (stripPy rest).isEmpty then [] else parseFields rest

abbrev Edge := Str × Str × Int

/-- an `EDGE:` / `GRAPH_EDGE:` record: three parts, the last one an integer; another number of
    parts is skipped with a warning; `none` = `ValueError` from `int()` -/
def edgeRec (P line : Str) (edges : List Edge) : Option (List Edge) :=
  match recFields P line with
  | [a, b, k] => (pyInt? k).map fun k' => edges ++ [(a, b, k')]
  | _ => some edges

-- ---------------------------------------------------------------- graph files

structure GraphFile where
  names : Option (List Str) := none
  edges : List Edge := []
deriving Repr

def graphStep (st : GraphFile) (line : Str) : Option GraphFile :=
  if pVERTICES.isPrefixOf line then some { st with names := some (nameFields pVERTICES line) }
  else if pEDGE.isPrefixOf line then (edgeRec pEDGE line st.edges).map fun es => { st with edges := es }
  else some st

def foldM? {σ α : Type} (f : σ → α → Option σ) : σ → List α → Option σ
  | s, [] => some s
  | s, a :: as => match f s a with
    | some s' => foldM? f s' as
    | none => none

/-- `read_txt(path, 'graph')` up to the constructor call: `none` = the reader raised (`None` is
    returned to the caller), `some (names, edges)` = the arguments of `CFGraph(set(names), edges)` -/
def readGraph (text : Str) : Option (List Str × List Edge) :=
  match foldM? graphStep {} (readLines text) with
  | some ⟨some names, edges⟩ => some (names, edges)
  | _ => none

def edgeLine (P : Str) (e : Edge) : Str := P ++ ' ' :: joinFields [e.1, e.2.1, e.2.2.repr.toList]

def writeGraph (names : List Str) (edges : List Edge) : List Str :=
  (pVERTICES ++ ' ' :: joinFields names) :: edges.map (edgeLine pEDGE)

-- ---------------------------------------------------------------- files with a section

/-- reader state of the three kinds that carry a graph header and one section of records -/
structure SecFile (β : Type) where
  names : Option (List Str) := none
  edges : List Edge := []
  parsing : Bool := false
  recs : List β := []

/-- one line of a divisor / orientation / firing-script file: `marker` opens the section, `P` is
    the record prefix (looked at only inside the section), `mk` builds a record from the two parts
    (`none` = `ValueError`), `add` stores it -/
def secStep {β : Type} (marker P : Str) (mk : Str → Str → Option β) (add : List β → β → List β)
    (st : SecFile β) (line : Str) : Option (SecFile β) :=
  if pGVERTICES.isPrefixOf line then some { st with names := some (nameFields pGVERTICES line) }
  else if pGEDGE.isPrefixOf line then (edgeRec pGEDGE line st.edges).map fun es => { st with edges := es }
  else if line = marker then some { st with parsing := true }
  else if P.isPrefixOf line ∧ st.parsing = true then
    match recFields P line with
    | [a, b] => (mk a b).map fun r => { st with recs := add st.recs r }
    | _ => some st
  else some st

def readSec {β : Type} (marker P : Str) (mk : Str → Str → Option β) (add : List β → β → List β)
    (text : Str) : Option (List Str × List Edge × List β) :=
  match foldM? (secStep marker P mk add) {} (readLines text) with
  | some ⟨some names, edges, _, recs⟩ => some (names, edges, recs)
  | _ => none

def snoc {β : Type} (l : List β) (b : β) : List β := l ++ [b]

/-- `script_dict[name] = k`: overwrite in place, else append (dict insertion order) -/
def dictSet : List (Str × Int) → Str × Int → List (Str × Int)
  | [], kv => [kv]
  | (k, v) :: rest, kv => if k = kv.1 then (k, kv.2) :: rest else (k, v) :: dictSet rest kv

def mkInt (a k : Str) : Option (Str × Int) := (pyInt? k).map fun k' => (a, k')
def mkPair (a b : Str) : Option (Str × Str) := some (a, b)

/-- arguments of `CFDivisor(CFGraph(set(names), edges), degrees)` -/
def readDivisor : Str → Option (List Str × List Edge × List (Str × Int)) := readSec mDEGREES pDEGREE mkInt snoc
/-- arguments of `CFOrientation(CFGraph(set(names), edges), orientations)` -/
def readOrientation : Str → Option (List Str × List Edge × List (Str × Str)) := readSec mORIENTATIONS pORIENTED mkPair snoc
/-- arguments of `CFiringScript(CFGraph(set(names), edges), script_dict)` (items in insertion order) -/
def readScript : Str → Option (List Str × List Edge × List (Str × Int)) := readSec mSCRIPT pFIRING mkInt dictSet

def header (names : List Str) (edges : List Edge) : List Str :=
  (pGVERTICES ++ ' ' :: joinFields names) :: edges.map (edgeLine pGEDGE)

def intLine (P : Str) (r : Str × Int) : Str := P ++ ' ' :: joinFields [r.1, r.2.repr.toList]
def pairLine (P : Str) (r : Str × Str) : Str := P ++ ' ' :: joinFields [r.1, r.2]

def writeDivisor (names : List Str) (edges : List Edge) (degs : List (Str × Int)) : List Str :=
  header names edges ++ mDEGREES :: degs.map (intLine pDEGREE)
def writeOrientation (names : List Str) (edges : List Edge) (os : List (Str × Str)) : List Str :=
  header names edges ++ mORIENTATIONS :: os.map (pairLine pORIENTED)
/-- the writer lists only the non-zero firings -/
def writeScript (names : List Str) (edges : List Edge) (fs : List (Str × Int)) : List Str :=
  header names edges ++ mSCRIPT :: (fs.filter fun r => r.2 != 0).map (intLine pFIRING)

/-- a vertex name the line-oriented format can represent: non-empty, single line, no comma, no
    colon, nothing for `strip()` to remove -/
def nameOK (f : Str) : Bool :=
  !f.isEmpty && cleanField f && !f.contains ':' && !f.contains '\n' && !f.contains '\r'

end CF.Txt
