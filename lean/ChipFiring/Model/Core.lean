/-
  Executable model of the pure core of `chipfiring` (import-free, so that the line-protocol
  driver links as a plain executable).  Vertices are `Fin n`: index = position of the vertex
  name in sorted-name order.  A vertex *reference* coming from a caller is a `Nat`; a value
  `≥ n` stands for a name that is not a vertex of the graph.
-/
namespace CF

/-! ### materialised vectors

  The compiler eta-expands every definition whose result is a function, so a function-valued
  field would be recomputed at every lookup.  Everything that is *stored* (graph, degrees, burn
  state) is therefore a `Vec`: an array of known size, read back with `Vec.get`.  `mat`
  materialises a function; `(mat f).get = f` is the only fact proofs need. -/

structure Vec (α : Type) (n : Nat) where
  arr : Array α
  size_eq : arr.size = n

def Vec.get {α : Type} {n : Nat} (v : Vec α n) (i : Fin n) : α :=
  v.arr[i.1]'(by rw [v.size_eq]; exact i.2)

def mat {α : Type} {n : Nat} (f : Fin n → α) : Vec α n := ⟨Array.ofFn f, Array.size_ofFn⟩

@[simp] theorem get_mat {α : Type} {n : Nat} (f : Fin n → α) : (mat f).get = f := by
  funext i; simp [mat, Vec.get]

theorem Vec.ext_get {α : Type} {n : Nat} {v w : Vec α n} (h : v.get = w.get) : v = w := by
  cases v with | mk a ha => cases w with | mk b hb =>
  have : a = b := by
    apply Array.ext (by rw [ha, hb])
    intro i h1 h2
    have := congrFun h ⟨i, by rw [← ha]; exact h1⟩
    simpa [Vec.get] using this
  subst this; rfl

@[simp] theorem mat_get {α : Type} {n : Nat} (v : Vec α n) : mat v.get = v :=
  Vec.ext_get (by simp)

/-! ### finite sums over `Fin n` -/

def sumZ {n : Nat} (f : Fin n → Int) : Int := ((List.finRange n).map f).sum
def sumN {n : Nat} (f : Fin n → Nat) : Nat := ((List.finRange n).map f).sum

def allF {n : Nat} (p : Fin n → Bool) : Bool := (List.finRange n).all p
def anyF {n : Nat} (p : Fin n → Bool) : Bool := (List.finRange n).any p

/-- resolve a caller-supplied vertex reference -/
def ref? (n : Nat) (i : Nat) : Option (Fin n) := if h : i < n then some ⟨i, h⟩ else none

/-! ### graphs: adjacency + the two caches `vertex_total_valence`, `total_valence` -/

structure Graph (n : Nat) where
  adjV : Vec (Vec Nat n) n
  valV : Vec Nat n
  total : Nat

namespace Graph
variable {n : Nat}

/-- multiplicity of the edge `v w` -/
def adj (G : Graph n) (v w : Fin n) : Nat := (G.adjV.get v).get w
/-- cached `vertex_total_valence` -/
def val (G : Graph n) (v : Fin n) : Nat := G.valV.get v

def ofFns (a : Fin n → Fin n → Nat) (v : Fin n → Nat) (t : Nat) : Graph n :=
  ⟨mat fun x => mat (a x), mat v, t⟩

@[simp] theorem adj_ofFns (a : Fin n → Fin n → Nat) (v : Fin n → Nat) (t : Nat) :
    (ofFns a v t).adj = a := by
  funext x y; simp [ofFns, adj]
@[simp] theorem val_ofFns (a : Fin n → Fin n → Nat) (v : Fin n → Nat) (t : Nat) :
    (ofFns a v t).val = v := by
  funext x; simp [ofFns, val]
@[simp] theorem total_ofFns (a : Fin n → Fin n → Nat) (v : Fin n → Nat) (t : Nat) :
    (ofFns a v t).total = t := rfl

def empty : Graph n := ofFns (fun _ _ => 0) (fun _ => 0) 0

/-- sum of the multiplicities at `v` read off the adjacency (not the cache) -/
def rowSum (G : Graph n) (v : Fin n) : Nat := sumN (G.adj v)

/-- `get_genus`: cached edge total − |V| + 1 -/
def genus (G : Graph n) : Int := (G.total : Int) - (n : Int) + 1

/-- `add_edge(v1, v2, valence)`; `Except.error` = the call raises and nothing is written -/
def addEdge (G : Graph n) (a b : Nat) (k : Int) : Except Unit (Graph n) :=
  if a = b then .error () else
  if k ≤ 0 then .error () else
  match ref? n a, ref? n b with
  | some a, some b =>
    let m := k.toNat
    .ok (ofFns (fun x y => if (x = a ∧ y = b) ∨ (x = b ∧ y = a) then G.adj x y + m else G.adj x y)
          (fun x => if x = a ∨ x = b then G.val x + m else G.val x)
          (G.total + m))
  | _, _ => .error ()

/-- `add_edges`: per edge, stops at the first refusal, keeping what was inserted before it -/
def addEdges (G : Graph n) : List (Nat × Nat × Int) → Graph n × Bool
  | [] => (G, true)
  | (a, b, k) :: es =>
    match G.addEdge a b k with
    | .ok G' => addEdges G' es
    | .error _ => (G, false)

/-- the constructor (vertex-name duplicates are detected by the caller-side flag `dup`) -/
def new (n : Nat) (dup : Bool) (es : List (Nat × Nat × Int)) : Except Unit (Graph n) :=
  if dup then .error () else
  match (empty : Graph n).addEdges es with
  | (G, true) => .ok G
  | (_, false) => .error ()

/-- `remove_vertex`: induced multigraph on the remaining vertices, as an edge list over the
    old indices (the caller renumbers) -/
def inducedEdges (G : Graph n) (v : Fin n) : List (Fin n × Fin n × Nat) :=
  (List.finRange n).flatMap fun a => (List.finRange n).filterMap fun b =>
    if a.1 < b.1 ∧ a ≠ v ∧ b ≠ v ∧ 0 < G.adj a b then some (a, b, G.adj a b) else none

/-- canonical edge list of `to_dict` -/
def edgeList (G : Graph n) : List (Fin n × Fin n × Nat) :=
  (List.finRange n).flatMap fun a => (List.finRange n).filterMap fun b =>
    if a.1 < b.1 ∧ 0 < G.adj a b then some (a, b, G.adj a b) else none

end Graph

/-! ### chip moves on degree vectors -/

variable {n : Nat}

/-- `lending_move` at `v` -/
def lend (G : Graph n) (D : Fin n → Int) (v : Fin n) : Fin n → Int :=
  fun w => D w + (G.adj v w : Int) - (if w = v then (G.rowSum v : Int) else 0)

/-- `borrowing_move` at `v` -/
def borrow (G : Graph n) (D : Fin n → Int) (v : Fin n) : Fin n → Int :=
  fun w => D w - (G.adj v w : Int) + (if w = v then (G.rowSum v : Int) else 0)

/-- `set_fire(S)` -/
def fireSet (G : Graph n) (S : Fin n → Bool) (D : Fin n → Int) : Fin n → Int :=
  fun w =>
    if S w then D w - sumZ fun u => if S u then 0 else (G.adj w u : Int)
    else D w + sumZ fun u => if S u then (G.adj u w : Int) else 0

/-- `chip_transfer` -/
def transfer (D : Fin n → Int) (a b : Fin n) (k : Int) : Fin n → Int :=
  fun w => D w - (if w = a then k else 0) + (if w = b then k else 0)

def effective (D : Fin n → Int) : Bool := allF fun v => decide (0 ≤ D v)
def degree (D : Fin n → Int) : Int := sumZ D

/-! ### divisors: degrees + the total cached by the constructor -/

structure Divisor (n : Nat) where
  degV : Vec Int n
  total : Int

namespace Divisor

def deg (d : Divisor n) : Fin n → Int := d.degV.get

def hasDup : List Nat → Bool
  | [] => false
  | x :: xs => xs.contains x || hasDup xs

/-- the constructor: duplicate names and unknown names are refused -/
def new (entries : List (Nat × Int)) : Except Unit (Divisor n) :=
  if hasDup (entries.map (·.1)) then .error () else
  let rec go : List (Nat × Int) → Divisor n → Except Unit (Divisor n)
    | [], d => .ok d
    | (i, k) :: es, d =>
      match ref? n i with
      | some v => go es { degV := mat fun w => if w = v then k else d.deg w, total := d.total + k }
      | none => .error ()
  go entries ⟨mat fun _ => 0, 0⟩

/-- a divisor rebuilt through the constructor from a full degree vector -/
def ofFn (f : Fin n → Int) : Divisor n := ⟨mat f, sumZ f⟩

@[simp] theorem deg_ofFn (f : Fin n → Int) : (ofFn f).deg = f := by simp [ofFn, deg]

end Divisor

end CF
