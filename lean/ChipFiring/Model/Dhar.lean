import ChipFiring.Model.Core
/-
  Model of `CFDhar.DharAlgorithm` (debt concentration, burn) and `algo.EWD`.
-/
namespace CF
variable {n : Nat}

/-! ### neighbour order and the BFS of `send_debt_to_q` -/

/-- neighbours of `v` in the order the adjacency dict lists them: the caller-supplied order
    `hint` (read off the live object) restricted to real neighbours, followed by any real
    neighbour the hint forgot (so the list is always exactly the neighbourhood). -/
def nbrs (G : Graph n) (hint : Fin n → List (Fin n)) (v : Fin n) : List (Fin n) :=
  let h := ((hint v).filter fun w => decide (0 < G.adj v w)).eraseDups
  h ++ (List.finRange n).filter fun w => decide (0 < G.adj v w) && !h.contains w

/-- BFS discovery order from `q` (queue = pending, `vis` = discovery order) -/
def bfsGo (nb : Fin n → List (Fin n)) : Nat → List (Fin n) → List (Fin n) → List (Fin n)
  | 0, _, vis => vis
  | _ + 1, [], vis => vis
  | f + 1, c :: rest, vis =>
    let new := (nb c).foldl (fun acc w => if vis.contains w || acc.contains w then acc else acc ++ [w]) []
    bfsGo nb f (rest ++ new) (vis ++ new)

/-- `vertices_to_process_names`: reverse BFS order without `q` -/
def debtOrder (G : Graph n) (hint : Fin n → List (Fin n)) (q : Fin n) : List (Fin n) :=
  ((bfsGo (nbrs G hint) (n + 1) [q] [q]).reverse).filter fun v => v ≠ q

/-! ### debt concentration (with the repeated sweep) -/

structure DebtSt (n : Nat) where
  DV : Vec Int n
  todo : List (Fin n)
  tr : List (Vec Int n)      -- snapshot after every borrowing move, newest first

def DebtSt.D (s : DebtSt n) : Fin n → Int := s.DV.get

/-- one transition per fuel unit: borrow at the head while it is in debt, else pop it; when
    the sweep is over start another one iff some vertex of `order` is in debt -/
def debtLoop (G : Graph n) (order : List (Fin n)) : Nat → DebtSt n → Option (DebtSt n)
  | 0, _ => none
  | f + 1, s =>
    match s.todo with
    | v :: rest =>
      if s.D v < 0 then
        let D' := mat (borrow G s.D v)
        debtLoop G order f { DV := D', todo := v :: rest, tr := D' :: s.tr }
      else debtLoop G order f { s with todo := rest }
    | [] =>
      if order.any (fun v => decide (s.D v < 0)) then debtLoop G order f { s with todo := order }
      else some s

def sendDebt (G : Graph n) (order : List (Fin n)) (fuel : Nat) (D : Fin n → Int) : Option (DebtSt n) :=
  debtLoop G order fuel { DV := mat D, todo := [], tr := [] }

/-! ### Dhar's burn, time-stamped -/

structure BState (n : Nat) where
  BV : Vec Bool n         -- burnt
  posV : Vec Nat n        -- burn time (meaningful where burnt)
  t : Nat

def BState.B (st : BState n) : Fin n → Bool := st.BV.get
def BState.pos (st : BState n) : Fin n → Nat := st.posV.get

def BState.mk' (B : Fin n → Bool) (pos : Fin n → Nat) (t : Nat) : BState n := ⟨mat B, mat pos, t⟩
@[simp] theorem BState.B_mk' (B : Fin n → Bool) (pos : Fin n → Nat) (t : Nat) : (BState.mk' B pos t).B = B := by
  simp [BState.mk', BState.B]
@[simp] theorem BState.pos_mk' (B : Fin n → Bool) (pos : Fin n → Nat) (t : Nat) : (BState.mk' B pos t).pos = pos := by
  simp [BState.mk', BState.pos]
@[simp] theorem BState.t_mk' (B : Fin n → Bool) (pos : Fin n → Nat) (t : Nat) : (BState.mk' B pos t).t = t := rfl

/-- multiplicity-weighted number of edges from `v` into `B` (`outdegree_S(v, burnt)`) -/
def edgesTo (G : Graph n) (B : Fin n → Bool) (v : Fin n) : Int :=
  sumZ fun w => if B w then (G.adj v w : Int) else 0

def burnStep (G : Graph n) (D : Fin n → Int) (st : BState n) (v : Fin n) : BState n :=
  if !st.B v && decide (D v < edgesTo G st.B v) then
    BState.mk' (fun w => decide (w = v) || st.B w) (fun w => if w = v then st.t else st.pos w) (st.t + 1)
  else st

def burnPass (G : Graph n) (D : Fin n → Int) (st : BState n) : BState n :=
  (List.finRange n).foldl (burnStep G D) st

def burnIter (G : Graph n) (D : Fin n → Int) : Nat → BState n → BState n
  | 0, st => st
  | k + 1, st => burnIter G D k (burnPass G D st)

def burnInit (q : Fin n) : BState n := BState.mk' (fun w => decide (w = q)) (fun _ => 0) 1

/-- the burn of `DharAlgorithm.run` (passes in name order until nothing changes; `n` passes
    always reach that fixpoint) -/
def burn (G : Graph n) (q : Fin n) (D : Fin n → Int) : BState n := burnIter G D n (burnInit q)

def unburnt (st : BState n) : Fin n → Bool := fun v => !st.B v

/-- direction predicate of the orientation the burn builds: `u → v` iff both burnt, adjacent
    and `u` burnt first -/
def BState.dir (G : Graph n) (st : BState n) (u v : Fin n) : Bool :=
  st.B u && st.B v && decide (st.pos u < st.pos v) && decide (0 < G.adj u v)

def BState.indeg (G : Graph n) (st : BState n) (v : Fin n) : Int :=
  sumZ fun u => if st.dir G u v then (G.adj u v : Int) else 0

def BState.outdeg (G : Graph n) (st : BState n) (v : Fin n) : Int :=
  sumZ fun u => if st.dir G v u then (G.adj v u : Int) else 0

/-! ### EWD -/

/-- minimum degree, least index among ties (`min(..., key=(degree, name))`) -/
def sink (D : Fin n → Int) : Option (Fin n) :=
  (List.finRange n).foldl (fun acc v =>
    match acc with
    | none => some v
    | some u => if D v < D u then some v else some u) none

structure Reduced (n : Nat) where
  DV : Vec Int n
  st : BState n
  tr : List (Vec Int n)      -- every recorded divisor snapshot, newest first
  rounds : Nat

def Reduced.D (r : Reduced n) : Fin n → Int := r.DV.get

/-- `dhar.run()` then, while something is unburnt, `legal_set_fire` and `dhar.run()` again -/
def reduceLoop (G : Graph n) (q : Fin n) (order : List (Fin n)) (fuel : Nat) :
    Nat → (Fin n → Int) → List (Vec Int n) → Nat → Option (Reduced n)
  | 0, _, _, _ => none
  | f + 1, D, tr, r =>
    match sendDebt G order fuel D with
    | none => none
    | some s =>
      let st := burn G q s.D
      -- recorded: the borrows, "Starting burn", one step per vertex that burns
      let tr1 := List.replicate (st.t - 1 + 1) s.DV ++ (s.tr ++ tr)
      if allF st.B then some { DV := s.DV, st := st, tr := tr1, rounds := r }
      else
        let D2 := mat (fireSet G (unburnt st) s.D)
        reduceLoop G q order fuel f D2.get (D2 :: s.DV :: tr1) (r + 1)

structure EwdOut (n : Nat) where
  verdict : Bool
  q : Option (Fin n)
  red : Option (Reduced n)
  tr : List (Vec Int n)      -- oldest first

/-- `EWD(graph, divisor, optimized)`; `none` = does not return within `fuel`.
    `hint` = adjacency-dict orders (only the recorded trace depends on it). -/
def ewd (G : Graph n) (hint : Fin n → List (Fin n)) (fuel : Nat) (Dv : Divisor n) (optimized : Bool) :
    Option (Except Unit (EwdOut n)) :=
  let D := Dv.deg
  let pre : List (Vec Int n) := if optimized then [Dv.degV, Dv.degV] else []
  if optimized && decide (Dv.total < 0) then some (.ok ⟨false, none, none, [Dv.degV]⟩)
  else if optimized && decide (Dv.total ≥ G.genus) then some (.ok ⟨true, none, none, [Dv.degV, Dv.degV]⟩)
  else
    match sink D with
    | none => some (.error ())       -- `min()` of an empty sequence
    | some q =>
      match reduceLoop G q (debtOrder G hint q) fuel fuel D (Dv.degV :: pre) 0 with
      | none => none
      | some r => some (.ok ⟨decide (0 ≤ r.D q), some q, some r, (r.DV :: r.tr).reverse⟩)

/-- `is_winnable` -/
def isWinnable (G : Graph n) (fuel : Nat) (Dv : Divisor n) : Option (Except Unit Bool) :=
  (ewd G (fun _ => []) fuel Dv true).map fun r => r.map (·.verdict)

end CF
