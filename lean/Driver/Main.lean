import Driver.Json
import Driver.OpsAlgo
import Driver.OpsMachines
import Driver.OpsComb
import Driver.OpsViz
import Driver.OpsSerial
import Driver.OpsBounds
/-
  Line protocol driver: one JSON scenario per input line, one JSON answer per output line.
-/
open Lean CF

namespace Drv

def handle (j : Json) : M Json := do
  let op ← (← j.getObjVal? "op").getStr?
  match op with
  | "ewd" => opEwd j
  | "lin_equiv" => opLinEquiv j
  | "api" => opApi j
  | "dhar" => opDhar j
  | "rank" => opRank j
  | "gonality" => opGonality j
  | "play" => opPlay j
  | "dhar_strategy" => opDharStrategy j
  | "enhanced_dhar" => opEnhancedDhar j
  | "greedy" => opGreedy j
  | "cert" => opCert j
  | "winnable_hist" => opWinnableHist j
  | "dhar_batch" => opDharBatch j
  | "elements" => opElements j
  | "rt" => opRt j
  | "txt_fields" => opTxtFields j
  | "txt_write" => opTxtWrite j
  | "txt_read" => opTxtRead j
  | "json_text" => opJsonText j
  | "json_str" => opJsonStr j
  | "bounds" => opBounds j
  | "closed" => opClosed j
  | "parking" => opParking j
  | "parking_gen" => opParkingGen j
  | "superstable_count" => opSuperstableCount j
  | "kn_parking" => opKnParking j
  | "graph_hist" => opGraphHist j
  | "div_hist" => opDivHist j
  | "div_arith" => opDivArith j
  | "lap" => opLap j
  | "orient_hist" => opOrientHist j
  | "config" => opConfig j
  | _ => throw s!"unknown op {op}"

end Drv

partial def loop (h : IO.FS.Stream) : IO Unit := do
  let line ← h.getLine
  if line.isEmpty then return ()
  let out :=
    match Json.parse line with
    | .error e => Json.mkObj [("bad", Json.str e)]
    | .ok j =>
      match Drv.handle j with
      | .ok r => r
      | .error e => Json.mkObj [("bad", Json.str e)]
  IO.println out.compress
  loop h

def main : IO Unit := do loop (← IO.getStdin)
