import Driver.Json
import Driver.OpsMachines
import ChipFiring.Model.Machines
import ChipFiring.Model.Txt
import ChipFiring.Model.TxtFile
import ChipFiring.Model.JsonText
import ChipFiring.Model.JsonDecode
open Lean CF
namespace Drv

/-- round trips: the model of save/load is the identity on observables, so the expected digest of
    the object read back is the digest of the object written; damaged files must never raise,
    never yield a malformed object, and every proper JSON prefix must read as None -/
def opRt (j : Json) : M Json := do
  let n ← getNat j "n"
  let kind ← (← j.getObjVal? "kind").getStr?
  match ← graphOf j n with
  | .error _ => pure err
  | .ok G =>
    let dig : Json ← (match kind with
      | "graph" => pure (Json.mkObj [("graph", jGraph G)])
      | "divisor" => do
        let D ← vecOf n (← getInts j "deg")
        pure (Json.mkObj [("graph", jGraph G), ("div", jDiv (Divisor.ofFn D))])
      | "orientation" => do
        match Orient.new G (← pairsOf (getArrD j "orient")) with
        | .ok o => pure (Json.mkObj [("graph", jGraph G), ("orient", jOrient G o false)])
        | .error _ => pure err
      | "script" => do
        match (scriptNew (← entriesOf (getArrD j "script")) : Except Unit (Vec Int n)) with
        | .ok s => pure (Json.mkObj [("graph", jGraph G), ("script", jVec s.get)])
        | .error _ => pure err
      | _ => throw s!"rt kind {kind}")
    let faults := Json.mkObj [("raised", jNat 0), ("json_prefix_not_none", jNat 0), ("malformed", jNat 0)]
    pure <| Json.mkObj ([("dict", dig), ("json", dig)] ++ (if getBoolD j "txt" true then [("txt", dig)] else [])
      ++ [("missing", Json.str "NONE"), ("faults", faults)])

/-- the field layer of the TXT format on arbitrary strings: what the writer puts after the record
    prefix, and what the reader makes of a given text -/
def opTxtFields (j : Json) : M Json := do
  let names ← (← getArr j "names").toList.mapM fun e => e.getStr?
  let text ← (← j.getObjVal? "text").getStr?
  let line := ' ' :: Txt.joinFields (names.map String.toList)
  let str (l : List Char) : Json := Json.str (String.ofList l)
  pure <| Json.mkObj [("line", str line),
    ("parsed_line", Json.arr ((Txt.parseFields line).map str).toArray),
    ("parsed_text", Json.arr ((Txt.parseFields text.toList).map str).toArray),
    ("clean", Json.arr ((names.map fun s => Json.bool (Txt.cleanField s.toList)).toArray)),
    ("stripped", str (Txt.removeAll ((← (← j.getObjVal? "prefix").getStr?).toList) ((← (← j.getObjVal? "pline").getStr?).toList)))]

private def jStr (l : List Char) : Json := Json.str (String.ofList l)
private def jEdge (e : Txt.Edge) : Json := Json.arr #[jStr e.1, jStr e.2.1, jInt e.2.2]

/-- the file layer of the TXT format, writer side: the text the model writes for the object of the
    scenario (names in sorted order, canonical edge list, records in sorted order) -/
def opTxtWrite (j : Json) : M Json := do
  let n ← getNat j "n"
  let kind ← (← j.getObjVal? "kind").getStr?
  let names ← (← getArr j "names").toList.mapM fun e => e.getStr?
  let nm (v : Fin n) : List Char := ((names[v.1]?).getD "?").toList
  match ← graphOf j n with
  | .error _ => pure err
  | .ok G =>
    let nameL := (List.finRange n).map nm
    let edges : List Txt.Edge := G.edgeList.map fun (a, b, k) => (nm a, nm b, (k : Int))
    let lines ← (match kind with
      | "graph" => pure (some (Txt.writeGraph nameL edges))
      | "divisor" => do
        let D ← vecOf n (← getInts j "deg")
        pure (some (Txt.writeDivisor nameL edges ((List.finRange n).map fun v => (nm v, D v))))
      | "orientation" => do
        match Orient.new G (← pairsOf (getArrD j "orient")) with
        | .ok o =>
          let ps := (List.finRange n).flatMap fun u => (List.finRange n).filterMap fun v =>
            if 0 < G.adj u v ∧ o.st u v = 1 then some (nm u, nm v) else none
          pure (some (Txt.writeOrientation nameL edges ps))
        | .error _ => pure none
      | "script" => do
        match (scriptNew (← entriesOf (getArrD j "script")) : Except Unit (Vec Int n)) with
        | .ok s => pure (some (Txt.writeScript nameL edges ((List.finRange n).map fun v => (nm v, s.get v))))
        | .error _ => pure none
      | _ => throw s!"txt_write kind {kind}")
    -- is the file the library actually wrote in the image of the model's writer?  read it with the
    -- model's reader and write the result again (records in the order found, zero firings kept)
    let reprint (t : List Char) : Option (List Char) :=
      match kind with
      | "graph" => (Txt.readGraph t).map fun (ns, es) => Txt.writeText (Txt.writeGraph ns es)
      | "divisor" => (Txt.readDivisor t).map fun (ns, es, rs) => Txt.writeText (Txt.writeDivisor ns es rs)
      | "orientation" => (Txt.readOrientation t).map fun (ns, es, rs) => Txt.writeText (Txt.writeOrientation ns es rs)
      | "script" => (Txt.readScript t).map fun (ns, es, rs) =>
          Txt.writeText (Txt.header ns es ++ Txt.mSCRIPT :: rs.map (Txt.intLine Txt.pFIRING))
      | _ => none
    match lines with
    | none => pure err
    | some ls =>
      let shape := Txt.writeText ls
      let actual := (j.getObjVal? "actual").toOption.bind fun x => x.getStr?.toOption
      let inImage := match actual with
        | some a => (reprint a.toList) == some a.toList
        | none => false
      pure <| Json.mkObj [("text", match actual with | some a => (if inImage then Json.str a else jStr shape) | none => jStr shape),
        ("shape_text", jStr shape), ("names_ok", Json.bool (nameL.all Txt.nameOK))]

/-- reader side: what `read_txt` hands to the constructors for an arbitrary text, or "NONE" when
    the reader itself raises -/
def opTxtRead (j : Json) : M Json := do
  let kind ← (← j.getObjVal? "kind").getStr?
  let text := (← (← j.getObjVal? "text").getStr?).toList
  -- the constructor receives `set(names)`: compared as the sorted list of distinct names
  let names (l : List Txt.Str) : Json :=
    Json.arr ((((l.map String.ofList).toArray.qsort (· < ·)).toList.eraseDups).map Json.str).toArray
  let edges (l : List Txt.Edge) : Json := Json.arr (l.map jEdge).toArray
  let none' : Json := Json.mkObj [("parsed", Json.str "NONE")]
  match kind with
  | "graph" => pure <| match Txt.readGraph text with
    | some (ns, es) => Json.mkObj [("parsed", Json.mkObj [("names", names ns), ("edges", edges es)])]
    | none => none'
  | "divisor" => pure <| match Txt.readDivisor text with
    | some (ns, es, rs) => Json.mkObj [("parsed", Json.mkObj [("names", names ns), ("edges", edges es),
        ("recs", Json.arr (rs.map fun r => Json.arr #[jStr r.1, jInt r.2]).toArray)])]
    | none => none'
  | "orientation" => pure <| match Txt.readOrientation text with
    | some (ns, es, rs) => Json.mkObj [("parsed", Json.mkObj [("names", names ns), ("edges", edges es),
        ("recs", Json.arr (rs.map fun r => Json.arr #[jStr r.1, jStr r.2]).toArray)])]
    | none => none'
  | "script" => pure <| match Txt.readScript text with
    | some (ns, es, rs) => Json.mkObj [("parsed", Json.mkObj [("names", names ns), ("edges", edges es),
        ("recs", Json.arr (rs.map fun r => Json.arr #[jStr r.1, jInt r.2]).toArray)])]
    | none => none'
  | _ => throw s!"txt_read kind {kind}"

/-- a JSON value shipped as nested arrays so that the key order survives:
    `["s", str]`, `["i", int]`, `["a", v, …]`, `["o", [key, v], …]` -/
partial def jvOf (j : Json) : M JsonText.JV := do
  let a ← j.getArr?
  let tag ← a[0]!.getStr?
  match tag with
  | "s" => pure (.str (← a[1]!.getStr?).toList)
  | "i" => pure (.int (← a[1]!.getInt?))
  | "a" => do
    let xs ← (a.toList.drop 1).mapM jvOf
    pure (.arr xs)
  | "o" => do
    let kvs ← (a.toList.drop 1).mapM fun kv => do
      let p ← kv.getArr?
      pure ((← p[0]!.getStr?).toList, ← jvOf p[1]!)
    pure (.obj kvs)
  | _ => throw s!"json value tag {tag}"

/-- the JSON text layer: (i) the text of the model's own `to_dict` shape for the object (dict
    orders of the live object passed in as `dorder`, `indent=4`); (ii) the text the encoder model
    writes for the value that was actually written (`jv`, with the indent width read off the file):
    the file is the `dumps` of a dict, which is all the truncation theorem needs; (iii) the verdict
    of the bracket/quote scanner on the given texts -/
def opJsonText (j : Json) : M Json := do
  let n ← getNat j "n"
  let kind ← (← j.getObjVal? "kind").getStr?
  let names ← (← getArr j "names").toList.mapM fun e => e.getStr?
  let nm (v : Fin n) : List Char := ((names[v.1]?).getD "?").toList
  let order : List (Fin n) := ((← asNats (getArrD j "dorder")).filterMap (ref? n))
  let texts ← (getArrD j "texts").toList.mapM fun e => e.getStr?
  let opens := Json.arr (texts.map fun t => Json.bool (JsonText.openAtEnd t.toList)).toArray
  let ind := (match (j.getObjVal? "indent").toOption with | some x => (x.getNat?.toOption.getD 4) | none => 4)
  let asWritten ← (match (j.getObjVal? "jv").toOption with
    | some x => do
      let v ← jvOf x
      pure (some (JsonText.dumps ind v, (match v with | .obj _ => true | _ => false)))
    | none => pure none)
  match ← graphOf j n with
  | .error _ => pure err
  | .ok G =>
    let nameL := (List.finRange n).map nm
    let edges : List Txt.Edge := G.edgeList.map fun (a, b, k) => (nm a, nm b, (k : Int))
    let v ← (match kind with
      | "graph" => pure (some (JsonText.graphJV nameL edges))
      | "divisor" => do
        let D ← vecOf n (← getInts j "deg")
        pure (some (JsonText.divisorJV nameL edges (order.map fun v => (nm v, D v))))
      | "orientation" => do
        match Orient.new G (← pairsOf (getArrD j "orient")) with
        | .ok o =>
          let ps := G.edgeList.filterMap fun (a, b, _) =>
            if o.st a b = 1 then some (nm a, nm b) else if o.st b a = 1 then some (nm b, nm a) else none
          pure (some (JsonText.orientationJV nameL edges ps))
        | .error _ => pure none
      | "script" => do
        match (scriptNew (← entriesOf (getArrD j "script")) : Except Unit (Vec Int n)) with
        | .ok s => pure (some (JsonText.scriptJV nameL edges (order.map fun v => (nm v, s.get v))))
        | .error _ => pure none
      | _ => throw s!"json_text kind {kind}")
    match v with
    | none => pure err
    | some v =>
      let shape := JsonText.dumps 4 v
      pure <| Json.mkObj [("text", jStr (match asWritten with | some (t, _) => t | none => shape)),
        ("shape_text", jStr shape), ("is_dict", Json.bool (match asWritten with | some (_, b) => b | none => true)),
        ("open", opens), ("prefix_not_none", jNat 0)]

/-- the string scanner of the JSON decoder on a given text (`json.loads` of a string literal) -/
def opJsonStr (j : Json) : M Json := do
  let t := (← (← j.getObjVal? "text").getStr?).toList
  pure <| Json.mkObj [("decoded", match JsonText.decodeStr t with
    | some s => jStr s
    | none => Json.null),
    ("encoded", jStr (JsonText.quote ((← (← j.getObjVal? "name").getStr?).toList)))]

end Drv
