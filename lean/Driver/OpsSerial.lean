import Driver.Json
import Driver.OpsMachines
import ChipFiring.Model.Machines
import ChipFiring.Model.Txt
open Lean CF
namespace Drv

/-- round trips: the model of save/load is the identity on observables, so the expected digest of
    the object read back is the digest of the object written; damaged files must never raise,
    never yield a malformed object, and every proper JSON prefix must read as None -/
def opRt (j : Json) : M Json := do
  let n ← getNat j "n"
  let kind ← (← j.getObjVal? "kind").getStr?
  match ← graphOf j n with
  | .error _ => pure err
  | .ok G =>
    let dig : Json ← (match kind with
      | "graph" => pure (Json.mkObj [("graph", jGraph G)])
      | "divisor" => do
        let D ← vecOf n (← getInts j "deg")
        pure (Json.mkObj [("graph", jGraph G), ("div", jDiv (Divisor.ofFn D))])
      | "orientation" => do
        match Orient.new G (← pairsOf (getArrD j "orient")) with
        | .ok o => pure (Json.mkObj [("graph", jGraph G), ("orient", jOrient G o false)])
        | .error _ => pure err
      | "script" => do
        match (scriptNew (← entriesOf (getArrD j "script")) : Except Unit (Vec Int n)) with
        | .ok s => pure (Json.mkObj [("graph", jGraph G), ("script", jVec s.get)])
        | .error _ => pure err
      | _ => throw s!"rt kind {kind}")
    let faults := Json.mkObj [("raised", jNat 0), ("json_prefix_not_none", jNat 0), ("malformed", jNat 0)]
    pure <| Json.mkObj ([("dict", dig), ("json", dig)] ++ (if getBoolD j "txt" true then [("txt", dig)] else [])
      ++ [("missing", Json.str "NONE"), ("faults", faults)])

/-- the field layer of the TXT format on arbitrary strings: what the writer puts after the record
    prefix, and what the reader makes of a given text -/
def opTxtFields (j : Json) : M Json := do
  let names ← (← getArr j "names").toList.mapM fun e => e.getStr?
  let text ← (← j.getObjVal? "text").getStr?
  let line := ' ' :: Txt.joinFields (names.map String.toList)
  let str (l : List Char) : Json := Json.str (String.ofList l)
  pure <| Json.mkObj [("line", str line),
    ("parsed_line", Json.arr ((Txt.parseFields line).map str).toArray),
    ("parsed_text", Json.arr ((Txt.parseFields text.toList).map str).toArray),
    ("clean", Json.arr ((names.map fun s => Json.bool (Txt.cleanField s.toList)).toArray)),
    ("stripped", str (Txt.removeAll ((← (← j.getObjVal? "prefix").getStr?).toList) ((← (← j.getObjVal? "pline").getStr?).toList)))]

end Drv
