import Lean.Data.Json
import ChipFiring.Model.Core
import ChipFiring.Model.Dhar
import ChipFiring.Model.Machines
/-
  Line protocol driver: one JSON scenario per input line, one JSON answer per output line.
-/
open Lean CF

namespace Drv

abbrev M := Except String

def bigFuel : Nat := 10 ^ 30

def getNat (j : Json) (k : String) : M Nat := do (← j.getObjVal? k).getNat?
def getInt (j : Json) (k : String) : M Int := do (← j.getObjVal? k).getInt?
def getBool (j : Json) (k : String) : M Bool := do (← j.getObjVal? k).getBool?
def getBoolD (j : Json) (k : String) (d : Bool) : Bool :=
  match j.getObjVal? k with
  | .ok v => (v.getBool?.toOption).getD d
  | .error _ => d
def getArr (j : Json) (k : String) : M (Array Json) := do (← j.getObjVal? k).getArr?
def getArrD (j : Json) (k : String) : Array Json :=
  match j.getObjVal? k with
  | .ok v => (v.getArr?.toOption).getD #[]
  | .error _ => #[]
def asInts (a : Array Json) : M (List Int) := a.toList.mapM (·.getInt?)
def asNats (a : Array Json) : M (List Nat) := a.toList.mapM (·.getNat?)
def getInts (j : Json) (k : String) : M (List Int) := do asInts (← getArr j k)
def getNats (j : Json) (k : String) : M (List Nat) := do asNats (← getArr j k)

def jInt (i : Int) : Json := Json.num (JsonNumber.fromInt i)
def jNat (i : Nat) : Json := Json.num (JsonNumber.fromNat i)
def jInts (l : List Int) : Json := Json.arr (l.map jInt).toArray
def jNats (l : List Nat) : Json := Json.arr (l.map jNat).toArray
def jFin {n : Nat} (l : List (Fin n)) : Json := jNats (l.map (·.1))
def jVec {n : Nat} (f : Fin n → Int) : Json := jInts ((List.finRange n).map f)
def jVecN {n : Nat} (f : Fin n → Nat) : Json := jNats ((List.finRange n).map f)
def jOpt {α : Type} (f : α → Json) : Option α → Json
  | none => Json.null
  | some a => f a
def jSet {n : Nat} (S : Fin n → Bool) : Json := jFin ((List.finRange n).filter S)

def vecOf (n : Nat) (l : List Int) : M (Fin n → Int) :=
  if l.length = n then
    let a := l.toArray
    pure (mat fun i => a[i.1]!).get
  else throw s!"degree vector of length {l.length}, expected {n}"

def edgesOf (a : Array Json) : M (List (Nat × Nat × Int)) :=
  a.toList.mapM fun e => do
    let t ← e.getArr?
    if t.size ≠ 3 then throw "edge triple expected"
    pure (← t[0]!.getNat?, ← t[1]!.getNat?, ← t[2]!.getInt?)

/-- graph of a scenario: built through the model's constructor from the edge list -/
def graphOf (j : Json) (n : Nat) : M (Except Unit (Graph n)) := do
  let es ← edgesOf (← getArr j "edges")
  pure (Graph.new n (getBoolD j "dupv" false) es)

def hintOf (j : Json) (n : Nat) : M (Fin n → List (Fin n)) := do
  let a := getArrD j "hint"
  let rows ← a.toList.mapM fun r => do asNats (← r.getArr?)
  let rows := rows.toArray
  pure fun v => ((rows[v.1]?).getD []).filterMap (ref? n)

def jGraph {n : Nat} (G : Graph n) : Json :=
  Json.mkObj [("edges", Json.arr (G.edgeList.map fun (a, b, k) => jNats [a.1, b.1, k]).toArray),
              ("val", jVecN G.val), ("total", jNat G.total), ("genus", jInt G.genus)]

def jDir {n : Nat} (G : Graph n) (st : BState n) : Json :=
  Json.arr (((List.finRange n).flatMap fun u => (List.finRange n).filterMap fun v =>
    if st.dir G u v then some (jNats [u.1, v.1]) else none).toArray)

def err : Json := Json.str "ERR"
def timeout : Json := Json.str "NOFUEL"


end Drv
