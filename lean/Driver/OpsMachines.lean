import Driver.Json
open Lean CF
namespace Drv

def getRefs (a : Array Json) : M (List Nat) := asNats a

def jBool (b : Bool) : Json := Json.bool b

/-! graph histories -/

def jGraphMinus {n : Nat} (G : Graph n) (v : Fin n) : Json :=
  -- digest of the graph `G` (in which `v` is isolated) as a graph on the remaining n-1 vertices
  let ren (x : Fin n) : Nat := if x.1 > v.1 then x.1 - 1 else x.1
  let keep := (List.finRange n).filter (· ≠ v)
  Json.mkObj [("edges", Json.arr (G.edgeList.map fun (a, b, k) => jNats [ren a, ren b, k]).toArray),
              ("val", jNats (keep.map G.val)), ("total", jNat G.total),
              ("genus", jInt ((G.total : Int) - ((n : Int) - 1) + 1))]

def gopOf (o : Json) : M GOp := do
  let a ← o.getArr?
  let kind ← a[0]!.getStr?
  match kind with
  | "add" => pure (.add (← a[1]!.getNat?) (← a[2]!.getNat?) (← a[3]!.getInt?))
  | "adds" => pure (.adds (← edgesOf (← a[1]!.getArr?)))
  | "valence" => pure (.valence (← a[1]!.getNat?))
  | "remove" => pure (.remove (← a[1]!.getNat?))
  | _ => throw s!"graph op {kind}"

def graphStep {n : Nat} (G : Graph n) (o : Json) : M (Graph n × Json) := do
  let op ← gopOf o
  let G' := gapply G op
  let ok := gaccepts G op
  let r : Json := if !ok then err else
    match op with
    | .valence v => (match ref? n v with | some v => jNat (G.val v) | none => err)
    | .remove v => (match ref? n v with
      | some v => (jGraphMinus (removeVertex G v) v).setObjVal! "gone" (Json.arr #[err, err, err])
      | none => err)
    | _ => Json.str "ok"
  pure (G', Json.mkObj [("r", r), ("g", jGraph G')])

def opGraphHist (j : Json) : M Json := do
  let n ← getNat j "n"
  match ← graphOf j n with
  | .error _ => pure (Json.mkObj [("ctor", err)])
  | .ok G =>
    let ops := getArrD j "ops"
    let mut g := G
    let mut outs : Array Json := #[]
    for o in ops do
      let (g', r) ← graphStep g o
      g := g'
      outs := outs.push r
    -- "kept_same": graphs returned by `remove_vertex` are values of a pure function: later edits
    -- of the original cannot reach them, nor theirs the original (`C13.removeVertex_pure`)
    pure (Json.mkObj [("ctor", jGraph G), ("steps", Json.arr outs), ("kept_same", Json.bool true)])

/-! divisor / configuration histories -/

def entriesOf (a : Array Json) : M (List (Nat × Int)) :=
  a.toList.mapM fun e => do
    let t ← e.getArr?
    pure (← t[0]!.getNat?, ← t[1]!.getInt?)

def dopOf (o : Json) : M DOp := do
  let a ← o.getArr?
  let kind ← a[0]!.getStr?
  match kind with
  | "lend" => pure (.lend (← a[1]!.getNat?))
  | "borrow" => pure (.borrow (← a[1]!.getNat?))
  | "fire" => pure (.fire (← asNats (← a[1]!.getArr?)))
  | "transfer" => pure (.transfer (← a[1]!.getNat?) (← a[2]!.getNat?) (← a[3]!.getInt?))
  | "cfg_lend" => pure (.cfgLend (← a[1]!.getNat?))
  | "cfg_borrow" => pure (.cfgBorrow (← a[1]!.getNat?))
  | "cfg_fire" => pure (.cfgFire (← asNats (← a[1]!.getArr?)))
  | "cfg_degree_at" => pure (.cfgDegreeAt (← a[1]!.getNat?))
  | "swap" => pure (.swap (← a[1]!.getNat?) (← a[2]!.getNat?))
  | "cfg_superstable" => pure .cfgSuperstable
  | "cfg_nonneg" => pure .cfgNonNeg
  | "cfg_legal" => pure (.cfgLegal (← asNats (← a[1]!.getArr?)))
  | _ => throw s!"divisor op {kind}"

def opDivHist (j : Json) : M Json := do
  let n ← getNat j "n"
  match ← graphOf j n with
  | .error _ => pure (Json.mkObj [("ctor", err)])
  | .ok G =>
    match (Divisor.new (← entriesOf (← getArr j "entries")) : Except Unit (Divisor n)) with
    | .error _ => pure (Json.mkObj [("ctor", err)])
    | .ok Dv =>
      -- optional configuration wrapper
      let qj := (j.getObjVal? "q").toOption.getD Json.null
      let q? : Option (Option (Fin n)) ←
        (if qj.isNull then pure (some none) else do
          let qi ← qj.getNat?
          pure (match ref? n qi with | some q => some (some q) | none => none))
      match q? with
      | none => pure (Json.mkObj [("ctor", err)])
      | some q =>
        let ops ← (getArrD j "ops").toList.mapM dopOf
        let steps := drun G q Dv.degV ops
        pure (Json.mkObj [
          ("ctor", Json.mkObj [("deg", jVec Dv.deg), ("total", jInt Dv.total)]),
          ("steps", Json.arr (steps.map fun (ok, D, r) => Json.mkObj [
              ("ok", jBool ok), ("deg", jVec D.get), ("ret", jOpt jInt r),
              ("total", jInt Dv.total), ("eff", jBool (effective D.get))]).toArray),
          ("graph", jGraph G)])

/-! divisor arithmetic -/

def jDiv {n : Nat} (d : Divisor n) : Json := Json.mkObj [("deg", jVec d.deg), ("total", jInt d.total)]
def jExcDiv {n : Nat} : Except Unit (Divisor n) → Json
  | .ok d => jDiv d
  | .error _ => err

def opDivArith (j : Json) : M Json := do
  let n ← getNat j "n"
  match ← graphOf j n with
  | .error _ => pure (Json.mkObj [("ctor", err)])
  | .ok G =>
    let A ← vecOf n (← getInts j "A")
    let B ← vecOf n (← getInts j "B")
    let C ← vecOf n (← getInts j "C")
    let k ← getInt j "k"
    let cv ← getNat j "chipv"
    -- second graph: same vertex names (possibly other edges) unless `names2` says otherwise
    let e2 := (j.getObjVal? "edges2").toOption
    let H ← (match e2 with
      | some (Json.arr es) => do
        let es ← edgesOf es
        pure (match Graph.new n false es with | .ok H => H | .error _ => G)
      | _ => pure G)
    let same := match (j.getObjVal? "names2").toOption with
      | some (Json.arr a) => sameVertexSet n ((a.toList.filterMap fun x => x.getNat?.toOption))
      | _ => true
    pure (Json.mkObj [
      ("add", jExcDiv (dAdd same A B)), ("sub", jExcDiv (dSub same A B)),
      ("radd", jExcDiv (dAdd same B A)), ("rsub", jExcDiv (dSub same B A)),
      ("neg", jDiv (dNeg A)), ("rmul", jDiv (dSmul k A)),
      ("eq_AB", jBool (dEq same G H A B)), ("eq_AA2", jBool (dEq same G H A A)),
      ("eq_self", jBool (dEq true G G A A)),
      ("add3", jExcDiv (match dAdd same A B with | .ok d => dAdd true d.deg C | .error e => .error e)),
      ("chip", jExcDiv (dChip cv : Except Unit (Divisor n))),
      ("zero", jDiv (dZero : Divisor n)),
      ("chip2", jExcDiv (dChip cv : Except Unit (Divisor n))),
      ("zero2", jDiv (dZero : Divisor n)),
      ("result_aliases_operand", jBool false),
      ("eq_other", Json.arr #[jBool false, jBool false, jBool true]),
      -- `D.remove_vertex(v)`: the induced graph with the remaining chip counts (cached total = their sum)
      ("rmv", match ref? n cv with
        | some v =>
          let keep := (List.finRange n).filter (· ≠ v)
          Json.mkObj [("graph", jGraphMinus (removeVertex G v) v), ("deg", jInts (keep.map A)),
                      ("total", jInt ((keep.map A).foldl (· + ·) 0))]
        | none => err),
      ("A_after", jDiv (Divisor.ofFn A)), ("B_after", jDiv (Divisor.ofFn B)),
      ("graph", jGraph G)])

/-! scripts and the Laplacian -/

def sopOf (o : Json) : M SOp := do
  let a ← o.getArr?
  let kind ← a[0]!.getStr?
  match kind with
  | "set" => pure (.set (← a[1]!.getNat?) (← a[2]!.getInt?))
  | "update" => pure (.update (← a[1]!.getNat?) (← a[2]!.getInt?))
  | "get" => pure (.get (← a[1]!.getNat?))
  | _ => throw s!"script op {kind}"

def opLap (j : Json) : M Json := do
  let n ← getNat j "n"
  match ← graphOf j n with
  | .error _ => pure (Json.mkObj [("ctor", err)])
  | .ok G =>
    let D ← vecOf n (← getInts j "deg")
    match (scriptNew (← entriesOf (getArrD j "init")) : Except Unit (Vec Int n)) with
    | .error _ => pure (Json.mkObj [("ctor", err)])
    | .ok s0 =>
      let ops ← (getArrD j "sops").toList.mapM sopOf
      let steps := srun s0 ops
      let sfin := (steps.getLast?.map (·.2.1)).getD s0
      let s2 ← vecOf n ((← getInts j "s2"))
      let q ← getNat j "q"
      let res := lapApply G D sfin.get
      let keep (q : Fin n) := (List.finRange n).filter (· ≠ q)
      pure (Json.mkObj [
        ("matrix", Json.arr ((List.finRange n).map fun v => jInts ((List.finRange n).map (lapEntry G v))).toArray),
        ("reduced", match ref? n q with
          | some q => Json.arr ((keep q).map fun v => jInts ((keep q).map (lapEntry G v))).toArray
          | none => Json.null),
        ("entry_bad", err),
        ("steps", Json.arr (steps.map fun (ok, s, r) => Json.mkObj [("ok", jBool ok), ("s", jVec s.get), ("ret", jOpt jInt r)]).toArray),
        ("script", jVec sfin.get),
        ("apply", jDiv (Divisor.ofFn res)),
        ("apply_tags", Json.arr ((List.finRange n).map fun _ => Json.str "i").toArray),
        ("apply_json_ok", jBool true),
        ("apply_sum", jDiv (Divisor.ofFn (lapApply G D fun v => sfin.get v + s2 v))),
        ("apply_seq", jDiv (Divisor.ofFn (lapApply G (lapApply G D sfin.get) s2))),
        ("D_after", jDiv (Divisor.ofFn D)), ("s_after", jVec sfin.get),
        ("graph", jGraph G)])

/-! orientation histories -/

def jOrient {n : Nat} (G : Graph n) (o : Orient n) (flags : Bool) : Json :=
  let pairs := (List.finRange n).flatMap fun u => (List.finRange n).filterMap fun v =>
    if 0 < G.adj u v ∧ o.st u v = 1 then some (jNats [u.1, v.1]) else none
  let sym := allF fun u => allF fun v => decide (G.adj u v = 0) || decide (o.st u v = Orient.flip (o.st v u))
  Json.mkObj ([("dir", Json.arr pairs.toArray), ("in", jVec o.inD), ("out", jVec o.outD), ("agree", jBool sym)]
    ++ (if flags then [("is_full", jBool o.isFull), ("checked", jBool o.isFullChecked)] else []))

def orientStep {n : Nat} (G : Graph n) (o : Orient n) (op : Json) : M (Orient n × Json) := do
  let a ← op.getArr?
  let kind ← a[0]!.getStr?
  let wrap (o' : Orient n) (r : Json) : Orient n × Json := (o', Json.mkObj [("r", r), ("o", jOrient G o' true)])
  match kind with
  | "set" =>
    let x ← a[1]!.getNat?
    let y ← a[2]!.getNat?
    let st ← a[3]!.getNat?
    pure (wrap (Orient.oapply G o (.set x y st)) (if Orient.oaccepts G o x y st then Json.str "ok" else err))
  | "get" =>
    match ref? n (← a[1]!.getNat?), ref? n (← a[2]!.getNat?) with
    | some u, some v =>
      if G.adj u v = 0 then pure (wrap o err) else
      let s := o.st u v
      pure (wrap o (if s = 0 then Json.null else if s = 1 then jNats [u.1, v.1] else jNats [v.1, u.1]))
    | _, _ => pure (wrap o err)
  | "is_source" | "is_sink" =>
    match ref? n (← a[1]!.getNat?), ref? n (← a[2]!.getNat?) with
    | some u, some v =>
      if G.adj u v = 0 then pure (wrap o err) else
      let s := o.st u v
      pure (wrap o (if s = 0 then Json.null else jBool (if kind == "is_source" then s == 1 else s == 2)))
    | _, _ => pure (wrap o err)
  | "in" | "out" =>
    match ref? n (← a[1]!.getNat?) with
    | some v => pure (wrap o (jInt (if kind == "in" then o.inD v else o.outD v)))
    | none => pure (wrap o err)
  | "full" =>
    pure (wrap (Orient.oapply G o .full) (jBool (Orient.checkFullness G o).2))
  | "reverse" =>
    let o' := Orient.oapply G o .needFull
    let f := (Orient.needFull G o).2
    if !f then pure (wrap o' err) else
    match Orient.new G (Orient.reversedPairs G o') with
    | .ok r => pure (wrap o' (jOrient G r true))
    | .error _ => pure (wrap o' err)
  | "divisor" =>
    let o' := Orient.oapply G o .needFull
    let f := (Orient.needFull G o).2
    if !f then pure (wrap o' err) else
    pure (wrap o' (jDiv (Divisor.ofFn (Orient.divisorOf o'))))
  | "canonical" => pure (wrap o (jDiv (Divisor.ofFn (canonicalOf G))))
  | _ => throw s!"orientation op {kind}"

def pairsOf (a : Array Json) : M (List (Nat × Nat)) :=
  a.toList.mapM fun e => do
    let t ← e.getArr?
    pure (← t[0]!.getNat?, ← t[1]!.getNat?)

/-- `reverse` result kept alive by the caller and inspected again later: it is a value of its own -/
def keptStep {n : Nat} (G : Graph n) (o : Orient n) (kept : Option (Orient n)) (op : Json) :
    M (Option (Option (Orient n) × Json)) := do
  let a ← op.getArr?
  let kind ← a[0]!.getStr?
  match kind with
  | "reverse_keep" =>
    let (o', f) := Orient.needFull G o
    if !f then pure (some (kept, Json.mkObj [("r", err), ("o", jOrient G o' true)])) else
    match Orient.new G (Orient.reversedPairs G o') with
    | .ok r => pure (some (some r, Json.mkObj [("r", jOrient G r true), ("o", jOrient G o' true)]))
    | .error _ => pure (some (kept, Json.mkObj [("r", err), ("o", jOrient G o' true)]))
  | "inspect_kept" =>
    pure (some (kept, Json.mkObj [("r", match kept with | some r => jOrient G r true | none => Json.null), ("o", jOrient G o true)]))
  | "set_kept" =>
    match kept, ref? n (← a[1]!.getNat?), ref? n (← a[2]!.getNat?) with
    | some r, some u, some v =>
      let st ← a[3]!.getNat?
      let r' := Orient.oapply G r (.set u.1 v.1 st)
      pure (some (some r', Json.mkObj [("r", if Orient.oaccepts G r u.1 v.1 st then Json.str "ok" else err), ("o", jOrient G o true)]))
    | _, _, _ => pure (some (kept, Json.mkObj [("r", err), ("o", jOrient G o true)]))
  | _ => pure none

def opOrientHist (j : Json) : M Json := do
  let n ← getNat j "n"
  match ← graphOf j n with
  | .error _ => pure (Json.mkObj [("ctor", err)])
  | .ok G =>
    match Orient.new G (← pairsOf (getArrD j "init")) with
    | .error _ => pure (Json.mkObj [("ctor", err)])
    | .ok o0 =>
      let mut o := o0
      let mut kept : Option (Orient n) := none
      let mut outs : Array Json := #[]
      for op in getArrD j "ops" do
        match ← keptStep G o kept op with
        | some (k', r) =>
          -- `reverse_keep` refreshes the flags of the source like `reverse`
          let a ← op.getArr?
          if (← a[0]!.getStr?) == "reverse_keep" then o := Orient.oapply G o .needFull
          kept := k'
          outs := outs.push r
        | none =>
          let (o', r) ← orientStep G o op
          o := o'
          outs := outs.push r
      pure (Json.mkObj [("ctor", jOrient G o0 true), ("steps", Json.arr outs), ("graph", jGraph G)])

/-! configuration queries -/

def opConfig (j : Json) : M Json := do
  let n ← getNat j "n"
  match ← graphOf j n with
  | .error _ => pure (Json.mkObj [("ctor", err)])
  | .ok G =>
    let D ← vecOf n (← getInts j "deg")
    match ref? n (← getNat j "q") with
    | none => pure (Json.mkObj [("ctor", err)])
    | some q =>
      let mut outs : Array Json := #[]
      for qu in getArrD j "queries" do
        let a ← qu.getArr?
        let kind ← a[0]!.getStr?
        let r ← (match kind with
          | "outdeg" => do
            let v ← a[1]!.getNat?
            let S ← asNats (← a[2]!.getArr?)
            -- v must be a vertex other than q and a member of S (by name); S may name anything
            match ref? n v with
            | some v =>
              if v = q ∨ !S.contains v.1 then pure err
              else pure (jInt (outDegS G (fun w => S.contains w.1) v))
            | none => pure err
          | "legal" => do
            let S ← asNats (← a[1]!.getArr?)
            if S.isEmpty then pure (jBool false) else
            match refs? n S with
            | some vs => if vs.contains q then pure err else pure (jBool (isLegalFiring G D vs))
            | none => pure err
          | "superstable" => pure (jBool (isSuperstable G q D))
          | "nonneg" => pure (jBool (nonNegOffQ q D))
          | "degsum" => pure (jInt (((vtilde q).map D).sum))
          | "cmp" => do
            let op ← a[1]!.getNat?
            let d2 ← vecOf n (← asInts (← a[2]!.getArr?))
            let q2 ← a[3]!.getNat?
            let sameG ← (match a[4]! with
              | Json.arr es => do
                let es ← edgesOf es
                pure (match Graph.new n false es with | .ok H => graphEqB G H | .error _ => false)
              | _ => pure true)
            let comparable := decide (q2 = q.1) && sameG
            match cfgCmp q comparable D d2 op with
            | .ok b => pure (jBool b)
            | .error _ => pure err
          | _ => throw s!"config query {kind}")
        outs := outs.push r
      pure (Json.mkObj [("answers", Json.arr outs), ("deg_after", jVec D), ("graph", jGraph G)])

end Drv
