import Driver.Json
open Lean CF
namespace Drv

def opEwd (j : Json) : M Json := do
  let n ← getNat j "n"
  match ← graphOf j n with
  | .error _ => pure err
  | .ok G =>
    let deg ← vecOf n (← getInts j "deg")
    let Dv := Divisor.ofFn deg
    let opt := getBoolD j "opt" false
    let hint ← hintOf j n
    let viz := getBoolD j "viz" false
    match ewd G hint bigFuel Dv opt with
    | none => pure timeout
    | some (.error _) => pure err
    | some (.ok r) =>
      let red := r.red
      pure <| Json.mkObj [
        ("verdict", Json.bool r.verdict),
        ("q", if viz then jOpt (fun (q : Fin n) => jNat q.1) r.q else Json.null),
        ("D", jOpt (fun (x : Reduced n) => jVec x.D) red),
        ("orient", jOpt (fun (x : Reduced n) => jDir G x.st) red),
        ("indeg", jOpt (fun (x : Reduced n) => jVec (x.st.indeg G)) red),
        ("outdeg", jOpt (fun (x : Reduced n) => jVec (x.st.outdeg G)) red),
        ("full", jOpt (fun (x : Reduced n) => Json.bool (allF x.st.B)) red),
        ("_rounds", jOpt (fun (x : Reduced n) => jNat x.rounds) red),
        ("trace", if viz then Json.arr (r.tr.map fun (v : Vec Int n) => jVec v.get).toArray else Json.null),
        ("arg", match red with | some x => jVec x.D | none => jVec Dv.deg),
        ("argtotal", jInt Dv.total),
        ("graph", jGraph G)]


end Drv
