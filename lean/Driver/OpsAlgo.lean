import Driver.Json
import ChipFiring.Model.CertCheck
import ChipFiring.Model.Algos
open Lean CF
namespace Drv

def opEwd (j : Json) : M Json := do
  let n ← getNat j "n"
  match ← graphOf j n with
  | .error _ => pure err
  | .ok G =>
    let deg ← vecOf n (← getInts j "deg")
    let Dv := Divisor.ofFn deg
    let opt := getBoolD j "opt" false
    let hint ← hintOf j n
    let viz := getBoolD j "viz" false
    match ewd G hint bigFuel Dv opt with
    | none => pure timeout
    | some (.error _) => pure err
    | some (.ok r) =>
      let red := r.red
      pure <| Json.mkObj [
        ("verdict", Json.bool r.verdict),
        ("q", if viz then jOpt (fun (q : Fin n) => jNat q.1) r.q else Json.null),
        ("D", jOpt (fun (x : Reduced n) => jVec x.D) red),
        ("orient", jOpt (fun (x : Reduced n) => jDir G x.st) red),
        ("indeg", jOpt (fun (x : Reduced n) => jVec (x.st.indeg G)) red),
        ("outdeg", jOpt (fun (x : Reduced n) => jVec (x.st.outdeg G)) red),
        ("full", jOpt (fun (x : Reduced n) => Json.bool (allF x.st.B)) red),
        ("_rounds", jOpt (fun (x : Reduced n) => jNat x.rounds) red),
        ("trace", if viz then Json.arr (r.tr.map fun (v : Vec Int n) => jVec v.get).toArray else Json.null),
        ("arg", match red with | some x => jVec x.D | none => jVec Dv.deg),
        -- oracle for C02: the q-reduced representative for every vertex of minimum degree
        ("_reduced_by_sink", Json.arr (((List.finRange n).filter fun q => allF fun v => decide (Dv.deg q ≤ Dv.deg v)).map fun q =>
            match reduceLoop G q (debtOrder G hint q) bigFuel bigFuel Dv.deg [] 0 with
            | some x => Json.arr #[jNat q.1, jVec x.D]
            | none => Json.null).toArray),
        ("argtotal", jInt Dv.total),
        ("graph", jGraph G)]


def jOptB : Option Bool → Json
  | none => timeout
  | some b => Json.bool b

def graph2Of (j : Json) (n : Nat) (G : Graph n) : M (Graph n × Bool) := do
  match (j.getObjVal? "edges2").toOption with
  | some (Json.arr es) =>
    let es ← edgesOf es
    match Graph.new n false es with
    | .ok H => pure (H, graphEqB G H)
    | .error _ => pure (G, false)
  | _ => pure (G, true)

def opLinEquiv (j : Json) : M Json := do
  let n ← getNat j "n"
  match ← graphOf j n with
  | .error _ => pure err
  | .ok G =>
    let D1 := Divisor.ofFn (← vecOf n (← getInts j "D1"))
    let D2 := Divisor.ofFn (← vecOf n (← getInts j "D2"))
    let (_, same) ← graph2Of j n G
    pure <| Json.mkObj [("equiv", jOptB (linEquiv G bigFuel same D1 D2)),
      ("D1_after", jVec D1.deg), ("D2_after", jVec D2.deg), ("graph", jGraph G)]

/-- the thin API wrappers: is_winnable, q_reduction, is_q_reduced (each on a fresh copy) -/
def opApi (j : Json) : M Json := do
  let n ← getNat j "n"
  match ← graphOf j n with
  | .error _ => pure err
  | .ok G =>
    let deg ← vecOf n (← getInts j "deg")
    let Dv := Divisor.ofFn deg
    let plain := ewd G (fun _ => []) bigFuel Dv false
    let opt := ewd G (fun _ => []) bigFuel Dv true
    let redD : Option (Fin n → Int) := match plain with
      | some (.ok r) => r.red.map (·.D)
      | _ => none
    let optD : Option (Fin n → Int) := match opt with
      | some (.ok r) => r.red.map (·.D)
      | _ => none
    pure <| Json.mkObj [
      ("is_winnable", match opt with | some (.ok r) => Json.bool r.verdict | some (.error _) => err | none => timeout),
      ("is_winnable_arg", match optD with | some d => jVec d | none => jVec deg),
      ("q_reduction", match redD with | some d => jVec d | none => err),
      ("q_reduction_arg", match redD with | some d => jVec d | none => jVec deg),
      -- the code compares the in-place result with its own argument: always True
      ("is_q_reduced", match plain with | some (.ok _) => Json.bool true | some (.error _) => err | none => timeout),
      ("_spec_is_q_reduced", match redD with | some d => Json.bool (allF fun v => decide (d v = deg v)) | none => Json.null),
      ("argtotal", jInt Dv.total), ("graph", jGraph G)]

def opDhar (j : Json) : M Json := do
  let n ← getNat j "n"
  match ← graphOf j n with
  | .error _ => pure err
  | .ok G =>
    let deg ← vecOf n (← getInts j "deg")
    match ref? n (← getNat j "q") with
    | none => pure err
    | some q =>
      let hint ← hintOf j n
      let order := debtOrder G hint q
      match sendDebt G order bigFuel deg with
      | none => pure timeout
      | some s =>
        let st := burn G q s.D
        let ub := unburnt st
        let fired := fireSet G ub s.D
        pure <| Json.mkObj [
          ("after_debt", jVec s.D),
          ("borrows", if getBoolD j "viz" false then Json.arr (s.tr.reverse.map fun (v : Vec Int n) => jVec v.get).toArray else Json.null),
          ("unburnt", jSet ub),
          ("orient", jDir G st),
          ("indeg", jVec (st.indeg G)), ("outdeg", jVec (st.outdeg G)),
          ("after_fire", jVec fired),
          ("direct_unburnt", jSet ub), ("direct_after", jVec s.D),
          ("superstable", Json.bool (isSuperstable G q s.D)),
          ("argtotal", jInt (sumZ deg)), ("graph", jGraph G)]

def opRank (j : Json) : M Json := do
  let n ← getNat j "n"
  match ← graphOf j n with
  | .error _ => pure err
  | .ok G =>
    let deg ← vecOf n (← getInts j "deg")
    let Dv := Divisor.ofFn deg
    let opt := getBoolD j "opt" false
    let red : Option (Fin n → Int) := match ewd G (fun _ => []) bigFuel Dv false with
      | some (.ok r) => r.red.map (·.D)
      | _ => none
    pure <| Json.mkObj [
      ("rank", match rank G bigFuel Dv opt with | none => timeout | some (.error _) => err | some (.ok r) => jInt r),
      ("arg", match red with | some d => jVec d | none => jVec deg),
      ("argtotal", jInt Dv.total), ("graph", jGraph G)]

def jPlacement {n : Nat} (P : Fin n → Int) : Json := jVec P

def opGonality (j : Json) : M Json := do
  let n ← getNat j "n"
  match ← graphOf j n with
  | .error _ => pure err
  | .ok G =>
    let maxG : Int := match (j.getObjVal? "max").toOption with
      | some v => (v.getInt?.toOption).getD n
      | none => n
    let strat := getBoolD j "strat" true
    match computeGonality G bigFuel maxG strat with
    | none => pure timeout
    | some (g, l) => pure <| Json.mkObj [("gonality", jInt g), ("strategies", Json.arr (l.map jPlacement).toArray), ("graph", jGraph G)]

def opPlay (j : Json) : M Json := do
  let n ← getNat j "n"
  match ← graphOf j n with
  | .error _ => pure err
  | .ok G =>
    let P ← vecOf n (← getInts j "P")
    let nchips ← getInt j "nchips"
    let v ← getNat j "v"
    let Pv := Divisor.ofFn P
    let game : Json := if Pv.total ≠ nchips then err else
      match ref? n v with
      | none => err
      | some v => jOptB (playGame G bigFuel P v)
    let test : Json := if Pv.total ≠ nchips then err else
      match losingVertices G bigFuel P with
      | none => timeout
      | some l => Json.arr #[Json.bool l.isEmpty, jFin l]
    pure <| Json.mkObj [("game", game), ("test", test), ("P_after", jVec P), ("graph", jGraph G)]

def opDharStrategy (j : Json) : M Json := do
  let n ← getNat j "n"
  match ← graphOf j n with
  | .error _ => pure err
  | .ok G =>
    match ref? n (← getNat j "q") with
    | none => pure err
    | some q =>
      let base ← vecOf n (← getInts j "base")
      -- names that are not vertices are silently ignored by the code
      let strategy := (← getNats j "strategy").filterMap (ref? n)
      pure <| Json.mkObj [("wins", jOptB (dharTestStrategy G bigFuel q base strategy)), ("base_after", jVec base)]

def opEnhancedDhar (j : Json) : M Json := do
  let n ← getNat j "n"
  match ← graphOf j n with
  | .error _ => pure err
  | .ok G =>
    match ref? n (← getNat j "q") with
    | none => pure err
    | some q =>
      let maxG : Int := match (j.getObjVal? "max").toOption with
        | some v => (v.getInt?.toOption).getD ((n : Int) - 1)
        | none => (n : Int) - 1
      let maxG := if maxG < 0 then 0 else maxG
      let vt := match (j.getObjVal? "vt").toOption with
        | some (Json.arr a) => (a.toList.filterMap fun x => x.getNat?.toOption).filterMap (ref? n)
        | _ => vtilde q
      match enhancedDhar G bigFuel q vt maxG.toNat with
      | none => pure timeout
      | some (k, ms) =>
        let canon := (ms.map fun s => (s.map (·.1)).mergeSort (· ≤ ·))
        let sorted := canon.mergeSort (fun a b => a.length < b.length || (a.length == b.length && decide (a ≤ b)))
        pure <| Json.mkObj [("k", jNat k), ("strategies", Json.arr (sorted.map jNats).toArray)]

def opGreedy (j : Json) : M Json := do
  let n ← getNat j "n"
  match ← graphOf j n with
  | .error _ => pure err
  | .ok G =>
    let deg ← vecOf n (← getInts j "deg")
    let vorder := match (j.getObjVal? "vorder").toOption with
      | some (Json.arr a) => (a.toList.filterMap fun x => x.getNat?.toOption).filterMap (ref? n)
      | _ => List.finRange n
    let (ok, D, s) := greedy G vorder deg
    -- `play()` once more on the same solver object: a fresh budget, the working divisor and the
    -- script where the first call left them
    let (ok2, D2, s2) := greedyGo G vorder (10 * n) D s
    let again := Json.mkObj [("success", Json.bool ok2), ("script", if ok2 then jVec s2.get else Json.null),
      ("final", if ok2 then jVec D2.get else Json.null),
      ("certificate", if ok2 then Json.bool (allF fun v => decide (lapApply G deg s2.get v = D2.get v) && decide (0 ≤ D2.get v)) else Json.null)]
    pure <| Json.mkObj [("success", Json.bool ok), ("script", if ok then jVec s.get else Json.null),
      ("final", if ok then jVec D.get else Json.null),
      ("certificate", if ok then Json.bool (allF fun v => decide (lapApply G deg s.get v = D.get v) && decide (0 ≤ D.get v)) else Json.null),
      ("again", again),
      ("arg", jVec deg), ("graph", jGraph G)]

/-- witness phase: the orientation the IMPLEMENTATION returned, with positions computed by the
    harness, checked by the verified certificate checker (`certOK_sound`) -/
def opCert (j : Json) : M Json := do
  let n ← getNat j "n"
  match ← graphOf j n with
  | .error _ => pure err
  | .ok G =>
    match ref? n (← getNat j "q") with
    | none => pure err
    | some q =>
      let D ← vecOf n (← getInts j "D")
      let pairs ← (← getArr j "orient").toList.mapM fun e => do
        let t ← e.getArr?
        pure (← t[0]!.getNat?, ← t[1]!.getNat?)
      let posL ← getNats j "pos"
      let posA := posL.toArray
      let dirM : Vec (Vec Bool n) n := mat fun u => mat fun v => pairs.contains (u.1, v.1)
      let dir : Fin n → Fin n → Bool := fun u v => (dirM.get u).get v
      let posV : Vec Nat n := mat fun v => posA.getD v.1 0
      pure <| Json.mkObj [("ok", Json.bool (certOK G q D dir posV.get)),
        ("indeg", jVec (indegL G dir))]

/-- is_winnable / EWD asked again on the same graph object after edges were added -/
def opWinnableHist (j : Json) : M Json := do
  let n ← getNat j "n"
  match ← graphOf j n with
  | .error _ => pure err
  | .ok G =>
    let deg ← vecOf n (← getInts j "deg")
    let adds ← edgesOf (getArrD j "adds")
    let verdicts (G : Graph n) : Json :=
      Json.arr #[jOptB (winnableOpt G bigFuel deg), jOptB (winnablePlain G bigFuel deg)]
    let mut g := G
    let mut outs : Array Json := #[verdicts G]
    for (a, b, k) in adds do
      g := gapply g (.add a b k)
      outs := outs.push (verdicts g)
    pure (Json.mkObj [("verdicts", Json.arr outs), ("graph", jGraph g)])

def opDharBatch (j : Json) : M Json := do
  let n ← getNat j "n"
  let mut outs : Array Json := #[]
  for qd in getArrD j "queries" do
    let es ← (match (qd.getObjVal? "edges").toOption with
      | some (Json.arr a) => edgesOf a
      | _ => do edgesOf (← getArr j "edges"))
    match Graph.new n false es with
    | .error _ => outs := outs.push err
    | .ok G =>
      let base ← vecOf n (← getInts qd "base")
      match ref? n (← getNat qd "q") with
      | none => outs := outs.push err
      | some q =>
        let sts ← (← getArr qd "strategies").toList.mapM fun s => do asNats (← s.getArr?)
        outs := outs.push (Json.arr (sts.map fun st => jOptB (dharTestStrategy G bigFuel q base (st.filterMap (ref? n)))).toArray)
  pure (Json.mkObj [("answers", Json.arr outs)])

end Drv
