import Driver.Json
import ChipFiring.Model.Elements
open Lean CF
namespace Drv

def opElements (j : Json) : M Json := do
  let n ← getNat j "n"
  match ← graphOf j n with
  | .error _ => pure err
  | .ok G =>
    let D ← vecOf n (← getInts j "deg")
    let pairs := (getArrD j "orient").toList.filterMap fun e =>
      match e.getArr? with
      | .ok t => (match t[0]!.getNat?, t[1]!.getNat? with | .ok a, .ok b => some (a, b) | _, _ => none)
      | _ => none
    match Orient.new G pairs with
    | .error _ => pure err
    | .ok o =>
      let jEdge (st : Fin n → Fin n → Nat) : Json :=
        Json.arr ((edgeElements G st).map fun e => Json.mkObj [
          ("id", jNats [e.a.1, e.b.1, e.i]), ("oriented", Json.bool e.oriented),
          ("dir", if e.oriented then jNats [e.src.1, e.tgt.1] else Json.null)]).toArray
      let nodes (withChips : Bool) : Json :=
        Json.arr ((nodeElements D).map fun (v, c, neg) =>
          if withChips then Json.arr #[jNat v.1, jInt c, Json.str (if neg then "negative" else "non-negative")]
          else Json.arr #[jNat v.1, Json.null, Json.str "neutral_divisor_sign"]).toArray
      let pairs2 : Option (List (Nat × Nat)) := match (j.getObjVal? "second_orient").toOption with
        | some (Json.arr a) => some (a.toList.filterMap fun e =>
            match e.getArr? with
            | .ok t => (match t[0]!.getNat?, t[1]!.getNat? with | .ok a, .ok b => some (a, b) | _, _ => none)
            | _ => none)
        | _ => none
      let extra : List (String × Json) := match pairs2 with
        | some ps => (match Orient.new G ps with
          | .ok o2 => [("orientation2_nodes", nodes false), ("orientation2_edges", jEdge o2.st)]
          | .error _ => [])
        | none => []
      pure <| Json.mkObj (extra ++ [
        ("graph_nodes", nodes false), ("graph_edges", jEdge (fun _ _ => 0)),
        ("divisor_nodes", nodes true), ("divisor_edges", jEdge (fun _ _ => 0)),
        ("orientation_nodes", nodes false), ("orientation_edges", jEdge o.st),
        ("ewd_nodes", nodes true), ("ewd_edges", jEdge o.st),
        ("node_count", jNat n), ("edge_element_count", jNat G.total)])

end Drv
