import Driver.Json
import ChipFiring.Model.Comb
import ChipFiring.Model.Algos
open Lean CF
namespace Drv

def opBounds (j : Json) : M Json := do
  let n ← getNat j "n"
  match ← graphOf j n with
  | .error _ => pure err
  | .ok G =>
    let r := boundsReport G
    let gon : Json := if getBoolD j "with_gon" true then
        (match computeGonality G bigFuel n false with | some (g, _) => jInt g | none => timeout) else Json.null
    pure <| Json.mkObj [
      ("independence_number", jNat (independenceNumber G)),
      ("trivial_upper_bound", jInt r.trivialUpper), ("independence_upper_bound", jInt r.independenceUpper),
      ("minimum_degree_bound", jInt r.minimumDegree), ("bramble_order_bound", jInt r.brambleOrder),
      ("lower_bound", jInt r.lower), ("upper_bound", jInt r.upper),
      ("_gon", gon), ("graph", jGraph G)]

def opClosed (j : Json) : M Json := do
  let name ← (← j.getObjVal? "name").getStr?
  match name with
  | "complete_graph_gonality" =>
    match completeGraphGonality (← getInt j "arg") with
    | .ok v => pure (Json.mkObj [("value", jInt v)])
    | .error _ => pure (Json.mkObj [("value", err)])
  | "complete_multipartite_gonality" =>
    pure (Json.mkObj [("value", jInt (completeMultipartiteGonality (← getInts j "arg")))])
  | "parking_function_count" => pure (Json.mkObj [("value", jInt (parkingCount (← getInt j "arg")))])
  | _ => throw s!"closed form {name}"

end Drv
