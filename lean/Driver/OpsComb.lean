import Driver.Json
import ChipFiring.Model.Comb
import ChipFiring.Model.Machines
open Lean CF
namespace Drv

def opParking (j : Json) : M Json := do
  let seq ← getInts j "seq"
  let nOpt : Option Int := match (j.getObjVal? "n").toOption with
    | some v => v.getInt?.toOption
    | none => none
  pure <| Json.mkObj [("is", Json.bool (isParkingFunction seq nOpt))]

def opParkingGen (j : Json) : M Json := do
  let n ← getInt j "n"
  pure <| Json.mkObj [("list", Json.arr ((generateParking n).map jInts).toArray), ("count", jInt (parkingCount n))]

def opSuperstableCount (j : Json) : M Json := do
  let n ← getNat j "n"
  match ← graphOf j n with
  | .error _ => pure err
  | .ok G =>
    match ref? n (← getNat j "q") with
    | none => pure err
    | some q =>
      let cfgs := boxConfigs (vtilde q) (fun v => G.rowSum v)
      let cnt := (cfgs.filter fun c => isSuperstable G q c).length
      let keep := vtilde q
      let red := keep.map fun v => keep.map fun w => lapEntry G v w
      pure <| Json.mkObj [("count", jNat cnt), ("det", jInt (detRows (n + 1) red))]

/-- K_{m+1} with sink the last vertex: superstables vs parking functions shifted down by one -/
def opKnParking (j : Json) : M Json := do
  let m ← getNat j "m"
  let n := m + 1
  let es : List (Nat × Nat × Int) := (List.range n).flatMap fun a => (List.range n).filterMap fun b => if a < b then some (a, b, (1 : Int)) else none
  match Graph.new n false es with
  | .error _ => pure err
  | .ok G =>
    match ref? n m with
    | none => pure err
    | some q =>
      let cfgs := boxConfigs (vtilde q) (fun _ => m + 1)
      let rows := cfgs.map fun c =>
        let seq := (vtilde q).map fun v => c v + 1
        (isSuperstable G q c, isParkingFunction seq none)
      pure <| Json.mkObj [("agree", Json.bool (rows.all fun (a, b) => a == b)),
        ("superstables", jNat (rows.filter (·.1)).length), ("parking", jNat (rows.filter (·.2)).length)]

end Drv
